(* Proofs/Stream.v — lemmas about Model/Stream.v (property C08), part 1:
   the local invariants (base streams are FIFO, copy parents hand every child a prefix of
   the one shared list, convert nodes are filter-maps) hold in every reachable state, for
   every schedule (= every op list), every select outcome and every fuel. *)
From Eino Require Import Base.Util Model.Stream.
From Coq Require Import Lia.

Arguments stream_recv : simpl never.
Arguments stream_send : simpl never.
Arguments stream_close_send : simpl never.
Arguments stream_close_recv : simpl never.

(* ------------------------------------------------------------------ lists *)

Lemma upd_length : forall A (l : list A) i a, List.length (upd l i a) = List.length l.
Proof. induction l as [|b l IH]; intros [|i] a; simpl; auto. Qed.

Lemma nth_error_upd_eq : forall A (l : list A) i a, i < List.length l -> nth_error (upd l i a) i = Some a.
Proof. induction l as [|b l IH]; intros [|i] a H; simpl in *; try lia; auto. apply IH. lia. Qed.

Lemma nth_error_upd_neq : forall A (l : list A) i j a, i <> j -> nth_error (upd l i a) j = nth_error l j.
Proof.
  induction l as [|b l IH]; intros [|i] [|j] a H; simpl; auto; try congruence.
  all: try (apply IH; congruence).
Qed.

Lemma nth_error_upd : forall A (l : list A) i j a x,
  nth_error (upd l i a) j = Some x -> (i = j /\ x = a) \/ (i <> j /\ nth_error l j = Some x).
Proof.
  intros A l i j a x H. destruct (Nat.eq_dec i j) as [->|Hn].
  - left. split; auto. assert (Hl : j < List.length l).
    { rewrite <- (upd_length A l j a). apply nth_error_Some. congruence. }
    rewrite nth_error_upd_eq in H by exact Hl. congruence.
  - right. split; auto. rewrite nth_error_upd_neq in H by exact Hn. exact H.
Qed.

Lemma Forall_upd : forall A (P : A -> Prop) l i a, Forall P l -> P a -> Forall P (upd l i a).
Proof.
  intros A P. induction l as [|b l IH]; intros [|i] a HF Ha; simpl; auto; inversion HF; subst; constructor; auto.
Qed.

Lemma Forall_nth_error : forall A (P : A -> Prop) l i a, Forall P l -> nth_error l i = Some a -> P a.
Proof. intros A P l i a HF H. rewrite Forall_forall in HF. apply HF. eapply nth_error_In; eauto. Qed.

Lemma firstn_S_nth : forall A (l : list A) c x, nth_error l c = Some x -> firstn (S c) l = firstn c l ++ [x].
Proof.
  induction l as [|a l IH]; intros [|c] x H; simpl in *; try discriminate.
  - congruence.
  - f_equal. apply IH. exact H.
Qed.

Lemma firstn_app_le : forall A (l : list A) c x, c <= List.length l -> firstn c (l ++ x) = firstn c l.
Proof.
  intros A l c x H. rewrite firstn_app. replace (c - List.length l) with 0 by lia. simpl. apply app_nil_r.
Qed.

Lemma filter_map_app : forall A B (f : A -> option B) l1 l2,
  filter_map f (l1 ++ l2) = filter_map f l1 ++ filter_map f l2.
Proof.
  intros A B f. induction l1 as [|a l1 IH]; intros l2; simpl; auto.
  destruct (f a); simpl; rewrite IH; auto.
Qed.

(* ------------------------------------------------------------------ base streams *)

Definition stream_ok (s : stream) : Prop :=
  s_sent s = s_deliv s ++ s_buf s /\ List.length (s_buf s) <= eff_cap (s_cap s).

Lemma stream_recv_eof_iff : forall s,
  fst (stream_recv s) = PEOF <-> (s_sclosed s = true /\ s_buf s = []).
Proof.
  intros s. unfold stream_recv. destruct (s_buf s) as [|x b]; simpl.
  - destruct (s_sclosed s); simpl; split; intros H; try discriminate; auto.
    destruct H as [H _]. discriminate.
  - split; intros H; try discriminate. destruct H as [_ H]. discriminate.
Qed.

Lemma stream_recv_ok : forall s, stream_ok s -> stream_ok (snd (stream_recv s)).
Proof.
  intros s [H1 H2]. unfold stream_recv. destruct (s_buf s) as [|x b] eqn:E.
  - destruct (s_sclosed s); simpl; split; auto; rewrite E; auto.
  - simpl. split; simpl.
    + rewrite H1. rewrite <- app_assoc. reflexivity.
    + simpl in H2. lia.
Qed.

Lemma stream_send_ok : forall s x, stream_ok s -> stream_ok (snd (stream_send s x)).
Proof.
  intros s x [H1 H2]. unfold stream_send.
  destruct (Nat.ltb 0 (s_rclosed s)); [split; auto|].
  destruct (s_sclosed s); [split; auto|].
  destruct (Nat.ltb (List.length (s_buf s)) (eff_cap (s_cap s))) eqn:E; [|split; auto].
  apply Nat.ltb_lt in E. simpl. split; simpl.
  - rewrite H1. rewrite app_assoc. reflexivity.
  - rewrite app_length. simpl. lia.
Qed.

Lemma stream_close_send_ok : forall s, stream_ok s -> stream_ok (snd (stream_close_send s)).
Proof. intros s [H1 H2]. unfold stream_close_send. destruct (s_sclosed s); split; auto. Qed.

Lemma stream_close_recv_ok : forall s, stream_ok s -> stream_ok (snd (stream_close_recv s)).
Proof. intros s [H1 H2]. unfold stream_close_recv. split; auto. Qed.

Lemma new_stream_ok : forall c u, stream_ok (new_stream c u).
Proof. intros c u. split; simpl; auto. unfold eff_cap. lia. Qed.

Lemma array_stream_ok : forall arr, stream_ok (array_stream arr).
Proof. intros arr. split; simpl; auto. rewrite map_length. unfold eff_cap. lia. Qed.

(* send accepts exactly when it reports closed = false, and a closed stream refuses *)
Lemma stream_send_closed : forall s x, 0 < s_rclosed s -> stream_send s x = (SClosed, s).
Proof. intros s x H. unfold stream_send. apply Nat.ltb_lt in H. rewrite H. reflexivity. Qed.

Lemma stream_send_sent : forall s x r s', stream_send s x = (r, s') ->
  (r = SOk /\ s_sent s' = s_sent s ++ [x]) \/ (r <> SOk /\ s' = s).
Proof.
  intros s x r s'. unfold stream_send.
  destruct (Nat.ltb 0 (s_rclosed s)); [intros H; inversion H; right; split; congruence|].
  destruct (s_sclosed s); [intros H; inversion H; right; split; congruence|].
  destruct (Nat.ltb _ _); intros H; inversion H; subst; [left; auto | right; split; congruence].
Qed.

(* ------------------------------------------------------------------ readers, parents *)

Fixpoint rd_ok (t : rd) : Prop :=
  match t with
  | RConv f src cin cout => cout = filter_map (conv_item f) cin /\ rd_ok src
  | _ => True
  end.

Definition child_ok (P : parent) (i : nat) : Prop :=
  forall oc g, nth_error (p_cur P) i = Some oc -> nth_error (p_got P) i = Some g ->
    (exists k, g = firstn k (p_items P))
    /\ (forall c, oc = Some c -> g = firstn c (p_items P) /\ c <= List.length (p_items P))
    /\ (nth_error (p_sawEOF P) i = Some true -> g = p_items P /\ p_eof P = true).

Definition parent_ok (P : parent) : Prop :=
  List.length (p_got P) = List.length (p_cur P)
  /\ List.length (p_sawEOF P) = List.length (p_cur P)
  /\ (forall i, child_ok P i)
  /\ p_pulls P = List.length (p_items P) + (if p_eof P then 1 else 0)
  /\ rd_ok (p_src P).

Definition store_ok (st : store) : Prop :=
  Forall stream_ok (streams st) /\ Forall parent_ok (parents st).

Lemma app_at_length : forall l i x, List.length (app_at l i x) = List.length l.
Proof. intros l i x. unfold app_at. destruct (nth_error l i); auto. apply upd_length. Qed.

Lemma app_at_eq : forall l i x g, nth_error l i = Some g -> nth_error (app_at l i x) i = Some (g ++ [x]).
Proof.
  intros l i x g H. unfold app_at. rewrite H. apply nth_error_upd_eq. apply nth_error_Some. congruence.
Qed.

Lemma app_at_neq : forall l i j x, i <> j -> nth_error (app_at l i x) j = nth_error l j.
Proof. intros l i j x H. unfold app_at. destruct (nth_error l i); auto. apply nth_error_upd_neq. exact H. Qed.

Ltac split5 := split; [|split; [|split; [|split]]].

Lemma with_src_ok : forall P src, parent_ok P -> rd_ok src -> parent_ok (with_src P src).
Proof.
  intros P src (H1 & H2 & H3 & H4 & H5) Hs. unfold parent_ok, with_src; simpl. split5; auto.
Qed.

(* an already filled element is handed to child i *)
Lemma deliver_ok : forall P i c x,
  parent_ok P -> nth_error (p_cur P) i = Some (Some c) -> nth_error (p_items P) c = Some x ->
  parent_ok (deliver P i c x).
Proof.
  intros P i c x (H1 & H2 & H3 & H4 & H5) Hc Hx.
  unfold parent_ok, deliver; simpl. split5; auto.
  - rewrite app_at_length, upd_length. exact H1.
  - rewrite upd_length. exact H2.
  - intros j. unfold child_ok; simpl. intros oc g Hoc Hg.
    destruct (Nat.eq_dec i j) as [<-|Hn].
    + assert (Hi : i < List.length (p_cur P)) by (apply nth_error_Some; congruence).
      rewrite nth_error_upd_eq in Hoc by exact Hi. inversion Hoc; subst oc; clear Hoc.
      destruct (nth_error (p_got P) i) as [g0|] eqn:Eg.
      2:{ apply nth_error_None in Eg. lia. }
      rewrite (app_at_eq _ _ _ _ Eg) in Hg. inversion Hg; subst g; clear Hg.
      destruct (H3 i _ _ Hc Eg) as (_ & Hb & Hc3). destruct (Hb c eq_refl) as [Hg0 Hle].
      assert (Hlt : c < List.length (p_items P)) by (apply nth_error_Some; congruence).
      assert (E : g0 ++ [x] = firstn (S c) (p_items P)).
      { rewrite Hg0. symmetry. apply firstn_S_nth. exact Hx. }
      split; [|split].
      * exists (S c). exact E.
      * intros c' Hc'. inversion Hc'; subst c'. split; [exact E | lia].
      * intros Hs. destruct (Hc3 Hs) as [Hall He]. exfalso.
        rewrite Hg0 in Hall. assert (Hl : List.length (firstn c (p_items P)) = List.length (p_items P)) by congruence.
        rewrite firstn_length in Hl. lia.
    + rewrite nth_error_upd_neq in Hoc by exact Hn. rewrite app_at_neq in Hg by exact Hn.
      exact (H3 j _ _ Hoc Hg).
Qed.

Lemma mark_eof_ok : forall P i c,
  parent_ok P -> nth_error (p_cur P) i = Some (Some c) -> nth_error (p_items P) c = None -> p_eof P = true ->
  parent_ok (mark_eof P i).
Proof.
  intros P i c (H1 & H2 & H3 & H4 & H5) Hc Hx He.
  unfold parent_ok, mark_eof; simpl. split5; auto.
  - rewrite upd_length. exact H2.
  - intros j. unfold child_ok; simpl. intros oc g Hoc Hg.
    destruct (H3 j _ _ Hoc Hg) as (Ha & Hb & Hc3). split; [|split]; auto.
    intros Hs. destruct (Nat.eq_dec i j) as [<-|Hn].
    + split; [|exact He]. rewrite Hc in Hoc. inversion Hoc; subst oc. destruct (Hb c eq_refl) as [Hg0 Hle].
      apply nth_error_None in Hx. rewrite Hg0. apply firstn_all2. exact Hx.
    + rewrite nth_error_upd_neq in Hs by exact Hn. apply Hc3; auto.
Qed.

(* once.Do filled a new element with an item *)
Lemma pulled_item_ok : forall P x, parent_ok P -> p_eof P = false -> parent_ok (pulled_item P x).
Proof.
  intros P x (H1 & H2 & H3 & H4 & H5) He.
  unfold parent_ok, pulled_item; simpl. split5; auto.
  - intros j. unfold child_ok; simpl. intros oc g Hoc Hg.
    destruct (H3 j _ _ Hoc Hg) as ((k & Hk) & Hb & Hc3). split; [|split].
    + exists (Nat.min k (List.length (p_items P))). rewrite firstn_app_le by lia.
      rewrite Hk. rewrite <- firstn_firstn. rewrite firstn_all. reflexivity.
    + intros c Hc. destruct (Hb c Hc) as [Hg0 Hle]. split.
      * rewrite firstn_app_le by exact Hle. exact Hg0.
      * rewrite app_length. lia.
    + intros Hs. destruct (Hc3 Hs) as [_ Ht]. congruence.
  - rewrite He in H4. rewrite He. rewrite app_length. simpl. lia.
Qed.

Lemma pulled_eof_ok : forall P, parent_ok P -> p_eof P = false -> parent_ok (pulled_eof P).
Proof.
  intros P (H1 & H2 & H3 & H4 & H5) He.
  unfold parent_ok, pulled_eof; simpl. split5; auto.
  - intros j. unfold child_ok; simpl. intros oc g Hoc Hg.
    destruct (H3 j _ _ Hoc Hg) as (Ha & Hb & Hc3). split; [|split]; auto.
    intros Hs. destruct (Hc3 Hs) as [Hg0 _]. split; auto.
  - rewrite He in H4. lia.
Qed.

Lemma close_child_ok : forall P i, parent_ok P -> parent_ok (close_child P i).
Proof.
  intros P i (H1 & H2 & H3 & H4 & H5).
  unfold parent_ok, close_child; simpl. split5; auto.
  - rewrite upd_length. exact H1.
  - rewrite upd_length. exact H2.
  - intros j. unfold child_ok; simpl. intros oc g Hoc Hg.
    destruct (nth_error_upd _ _ _ _ _ _ Hoc) as [[-> ->]|[Hn Hoc']].
    + assert (Hj : j < List.length (p_cur P)).
      { rewrite <- (upd_length _ (p_cur P) j None). apply nth_error_Some. congruence. }
      destruct (nth_error (p_cur P) j) as [oc0|] eqn:E; [|apply nth_error_None in E; lia].
      destruct (H3 j _ _ E Hg) as (Ha & Hb & Hc3). split; [|split]; auto. intros; discriminate.
    + exact (H3 j _ _ Hoc' Hg).
Qed.

Lemma src_closed_ok : forall P, parent_ok P -> parent_ok (src_closed P).
Proof. intros P (H1 & H2 & H3 & H4 & H5). unfold parent_ok, src_closed; simpl. split5; auto. Qed.

Lemma new_parent_ok : forall src n, rd_ok src -> parent_ok (new_parent src n).
Proof.
  intros src n Hs. unfold parent_ok, new_parent; simpl. repeat rewrite repeat_length. split5; auto.
  intros i. unfold child_ok; simpl. intros oc g Hoc Hg.
  apply nth_error_In in Hoc. apply repeat_spec in Hoc. subst oc.
  apply nth_error_In in Hg. apply repeat_spec in Hg. subst g.
  split; [|split].
  - exists 0. reflexivity.
  - intros c Hc. inversion Hc; subst. simpl. split; [reflexivity | lia].
  - intros Hs'. apply nth_error_In in Hs'. apply repeat_spec in Hs'. discriminate.
Qed.

Lemma set_stream_ok : forall st i s, store_ok st -> stream_ok s -> store_ok (set_stream st i s).
Proof. intros st i s [H1 H2] Hs. split; simpl; auto. apply Forall_upd; auto. Qed.

Lemma set_parent_ok : forall st i p, store_ok st -> parent_ok p -> store_ok (set_parent st i p).
Proof. intros st i p [H1 H2] Hp. split; simpl; auto. apply Forall_upd; auto. Qed.

Lemma add_stream_ok : forall st s, store_ok st -> stream_ok s -> store_ok (add_stream st s).
Proof. intros st s [H1 H2] Hs. split; simpl; auto. apply Forall_app. split; auto. Qed.

Lemma add_parent_ok : forall st p, store_ok st -> parent_ok p -> store_ok (add_parent st p).
Proof. intros st p [H1 H2] Hp. split; simpl; auto. apply Forall_app. split; auto. Qed.

(* ------------------------------------------------------------------ recv, close keep the invariants *)

Lemma recv_ok : forall fuel st t ch r st' t' ch',
  recv fuel st t ch = (r, st', t', ch') -> store_ok st -> rd_ok t -> store_ok st' /\ rd_ok t'.
Proof.
  induction fuel as [|fuel IH]; intros st t ch r st' t' ch' H Hst Ht; simpl in H.
  - inversion H; subst; auto.
  - destruct t as [done rest | sid | sts chosen | f src cin cout | p i].
    + (* RArr *)
      destruct rest; inversion H; subst; simpl; auto.
    + (* RStr *)
      destruct (nth_error (streams st) sid) as [s|] eqn:Es.
      2:{ inversion H; subst; auto. }
      destruct (stream_recv s) as [r0 s0] eqn:Er. inversion H; subst; clear H. split; auto.
      apply set_stream_ok; auto. replace s0 with (snd (stream_recv s)) by (rewrite Er; auto).
      apply stream_recv_ok. destruct Hst as [Hs _]. eapply Forall_nth_error; eauto.
    + (* RMul *)
      destruct chosen as [|c0 chosen']; [inversion H; subst; auto|].
      remember (filter _ (c0 :: chosen')) as ready. destruct ready as [|i0 ready'].
      { inversion H; subst; auto. }
      destruct (nth_error sts (nth (Nat.modulo (hd 0 ch) (List.length (i0 :: ready'))) (i0 :: ready') i0)) as [sid|] eqn:Ei.
      2:{ inversion H; subst; auto. }
      destruct (nth_error (streams st) sid) as [s|] eqn:Es.
      2:{ inversion H; subst; auto. }
      destruct (stream_recv s) as [r0 s0] eqn:Er.
      destruct r0; try (inversion H; subst; auto; fail).
      * inversion H; subst; clear H. split; auto.
        apply set_stream_ok; auto. replace s0 with (snd (stream_recv s)) by (rewrite Er; auto).
        apply stream_recv_ok. destruct Hst as [Hs _]. eapply Forall_nth_error; eauto.
      * eapply IH in H; eauto; simpl; auto.
    + (* RConv *)
      destruct Ht as [Hc Hsrc].
      destruct (recv fuel st src ch) as [[[r1 st1] src1] ch1] eqn:E1.
      destruct (IH _ _ _ _ _ _ _ E1 Hst Hsrc) as [Hst1 Hsrc1].
      destruct r1; try (inversion H; subst; simpl; auto; fail).
      destruct (conv_item f x) as [y|] eqn:Ey.
      * inversion H; subst; clear H. split; auto. simpl. split; auto.
        rewrite filter_map_app. simpl. rewrite Ey. reflexivity.
      * eapply IH in H; eauto. simpl. split; auto.
        rewrite filter_map_app. simpl. rewrite Ey. rewrite app_nil_r. exact Hc.
    + (* RChild *)
      destruct (nth_error (parents st) p) as [P|] eqn:EP.
      2:{ inversion H; subst; auto. }
      assert (HP : parent_ok P) by (destruct Hst as [_ Hp]; eapply Forall_nth_error; eauto).
      destruct (nth_error (p_cur P) i) as [[c|]|] eqn:Ec; try (inversion H; subst; auto; fail).
      destruct (nth_error (p_items P) c) as [x|] eqn:Ex.
      { inversion H; subst; clear H. split; auto. apply set_parent_ok; auto. eapply deliver_ok; eauto. }
      destruct (p_eof P) eqn:Ee.
      { inversion H; subst; clear H. split; auto. apply set_parent_ok; auto. eapply mark_eof_ok; eauto. }
      destruct (recv fuel st (p_src P) ch) as [[[r1 st1] src1] ch1] eqn:E1.
      assert (Hsrc : rd_ok (p_src P)) by (destruct HP as (_ & _ & _ & _ & Hs); exact Hs).
      destruct (IH _ _ _ _ _ _ _ E1 Hst Hsrc) as [Hst1 Hsrc1].
      assert (HW : parent_ok (with_src P src1)) by (apply with_src_ok; auto).
      destruct r1; inversion H; subst; clear H; split; auto; apply set_parent_ok; auto.
      * apply deliver_ok.
        -- apply pulled_item_ok; auto.
        -- simpl. exact Ec.
        -- simpl. apply nth_error_None in Ex.
           assert (Hle : c <= List.length (p_items P)).
           { destruct HP as (Hl1 & _ & H3 & _).
             destruct (nth_error (p_got P) i) as [g|] eqn:Eg.
             - destruct (H3 i _ _ Ec Eg) as (_ & Hb & _). destruct (Hb c eq_refl); auto.
             - apply nth_error_None in Eg. assert (i < List.length (p_cur P)) by (apply nth_error_Some; congruence). lia. }
           assert (c = List.length (p_items P)) by lia. subst c.
           rewrite nth_error_app2 by lia. rewrite Nat.sub_diag. reflexivity.
      * apply mark_eof_ok with (c := c); simpl; auto. apply pulled_eof_ok; auto.
Qed.

Lemma close_streams_ok : forall sids st c st',
  close_streams st sids = (c, st') -> store_ok st -> store_ok st'.
Proof.
  induction sids as [|sid r IH]; intros st c st' H Hst; cbn [close_streams] in H.
  - inversion H; subst; auto.
  - destruct (nth_error (streams st) sid) as [s|] eqn:Es; [|inversion H; subst; auto].
    destruct (stream_close_recv s) as [c0 s0] eqn:Ec.
    assert (Hs0 : stream_ok s0).
    { replace s0 with (snd (stream_close_recv s)) by (rewrite Ec; auto). apply stream_close_recv_ok.
      destruct Hst as [Hs _]. eapply Forall_nth_error; eauto. }
    destruct c0; try (inversion H; subst; apply set_stream_ok; auto; fail).
    eapply IH; eauto. apply set_stream_ok; auto.
Qed.

Lemma close_rd_ok : forall fuel st t c st',
  close_rd fuel st t = (c, st') -> store_ok st -> store_ok st'.
Proof.
  induction fuel as [|fuel IH]; intros st t c st' H Hst; cbn [close_rd] in H.
  - inversion H; subst; auto.
  - destruct t as [done rest | sid | sts chosen | f src cin cout | p i].
    + inversion H; subst; auto.
    + eapply close_streams_ok; eauto.
    + eapply close_streams_ok; eauto.
    + eapply IH; eauto.
    + destruct (nth_error (parents st) p) as [P|] eqn:EP; [|inversion H; subst; auto].
      assert (HP : parent_ok P) by (destruct Hst as [_ Hp]; eapply Forall_nth_error; eauto).
      destruct (nth_error (p_cur P) i) as [[c0|]|] eqn:Ec; try (inversion H; subst; auto; fail).
      destruct (Nat.eqb _ _).
      * eapply IH; eauto. apply set_parent_ok; auto. apply src_closed_ok. apply close_child_ok. exact HP.
      * inversion H; subst. apply set_parent_ok; auto. apply close_child_ok. exact HP.
Qed.

(* ------------------------------------------------------------------ whole states *)

Definition state_ok (G : state) : Prop :=
  store_ok (st_store G)
  /\ Forall (fun H => rd_ok (h_rd H)) (st_handles G)
  /\ Forall (fun F => rd_ok (f_src F)) (st_fwds G).

Lemma init_ok : state_ok init_state.
Proof. repeat split; simpl; constructor. Qed.

Lemma consume_handles_ok : forall G h,
  Forall (fun H => rd_ok (h_rd H)) (st_handles G) -> Forall (fun H => rd_ok (h_rd H)) (st_handles (consume G h)).
Proof.
  intros G h HF. unfold consume. destruct (nth_error (st_handles G) h) as [H|] eqn:E; auto.
  simpl. apply Forall_upd; auto. simpl. eapply Forall_nth_error in E; eauto. exact E.
Qed.

Lemma consume_store : forall G h, st_store (consume G h) = st_store G.
Proof. intros G h. unfold consume. destruct (nth_error (st_handles G) h); auto. Qed.
Lemma consume_fwds : forall G h, st_fwds (consume G h) = st_fwds G.
Proof. intros G h. unfold consume. destruct (nth_error (st_handles G) h); auto. Qed.

Lemma consume_ok : forall G h, state_ok G -> state_ok (consume G h).
Proof.
  intros G h (H1 & H2 & H3). repeat split.
  - rewrite consume_store. apply H1.
  - rewrite consume_store. apply H1.
  - apply consume_handles_ok. exact H2.
  - rewrite consume_fwds. exact H3.
Qed.

Lemma consume_all_ok : forall hs G, state_ok G -> state_ok (consume_all G hs).
Proof. induction hs as [|h r IH]; intros G HG; simpl; auto. apply IH. apply consume_ok. exact HG. Qed.

Lemma live_rd_ok : forall G h t, state_ok G -> live_rd G h = Some t -> rd_ok t.
Proof.
  intros G h t (_ & H2 & _) H. unfold live_rd in H.
  destruct (nth_error (st_handles G) h) as [Hh|] eqn:E; [|discriminate].
  destruct (h_live Hh); [|discriminate]. inversion H; subst.
  eapply Forall_nth_error in E; eauto. exact E.
Qed.

Lemma live_rds_ok : forall G hs ts, state_ok G -> live_rds G hs = Some ts -> Forall rd_ok ts.
Proof.
  intros G. induction hs as [|h r IH]; intros ts HG H; simpl in H.
  - inversion H; subst. constructor.
  - destruct (live_rd G h) as [t|] eqn:E; [|discriminate].
    destruct (live_rds G r) as [ts'|] eqn:E'; [|discriminate].
    inversion H; subst. constructor; [eapply live_rd_ok; eauto | apply IH; auto].
Qed.

Lemma merge_collect_ok : forall ts st fw ss arr st' fw' ss' arr',
  merge_collect st fw ts ss arr = (st', fw', ss', arr') ->
  store_ok st -> Forall (fun F => rd_ok (f_src F)) fw -> Forall rd_ok ts ->
  store_ok st' /\ Forall (fun F => rd_ok (f_src F)) fw'.
Proof.
  induction ts as [|t r IH]; intros st fw ss arr st' fw' ss' arr' H Hst Hfw Hts; simpl in H.
  - inversion H; subst; auto.
  - inversion Hts; subst.
    destruct t; try (eapply IH; eauto; fail).
    + eapply IH; eauto.
      * apply add_stream_ok; auto. apply new_stream_ok.
      * apply Forall_app. split; auto.
    + eapply IH; eauto.
      * apply add_stream_ok; auto. apply new_stream_ok.
      * apply Forall_app. split; auto.
Qed.

Lemma Forall_repeat : forall A (P : A -> Prop) a n, P a -> Forall P (repeat a n).
Proof. intros A P a n H. induction n; simpl; constructor; auto. Qed.

Lemma do_op_ok : forall fuel G o b G', do_op fuel G o = (b, G') -> state_ok G -> state_ok G'.
Proof.
  intros fuel G o b G' H HG. pose proof HG as (H1 & H2 & H3).
  destruct o as [cap | xs | h n | hs | h f | sid x | sid | h ch | h | k ch]; simpl in H.
  - (* OPipe *)
    inversion H; subst; clear H. repeat split; simpl; try apply H1; auto.
    + apply Forall_app. split; [apply H1 | repeat constructor; apply new_stream_ok].
    + apply Forall_app. split; auto. repeat constructor.
  - (* OArray *)
    inversion H; subst; clear H. repeat split; simpl; try apply H1; auto.
    apply Forall_app. split; auto. repeat constructor.
  - (* OCopy *)
    destruct (live_rd G h) as [t|] eqn:El; [|inversion H; subst; auto].
    destruct (Nat.ltb n 2); [inversion H; subst; auto|].
    pose proof (live_rd_ok _ _ _ HG El) as Ht.
    pose proof (consume_ok G h HG) as (C1 & C2 & C3).
    destruct t; inversion H; subst; clear H; repeat split; simpl; try apply C1; auto;
      try (apply Forall_app; split; [exact C2|]);
      try (apply Forall_repeat; simpl; auto; fail);
      try (apply Forall_forall; intros Hh Hin; apply in_map_iff in Hin; destruct Hin as (i & <- & _); simpl; auto; fail);
      try (apply Forall_app; split; [apply C1 | repeat constructor; apply new_parent_ok; exact Ht]).
    1-4: apply Forall_app; split; [exact (proj2 C1) | constructor; [apply new_parent_ok; exact Ht | constructor]].
    apply Forall_forall; intros Hh Hin; apply in_map_iff in Hin; destruct Hin as (i0 & <- & _); simpl; auto.
  - (* OMerge *)
    destruct hs as [|h0 [|h1 hs']]; [inversion H; subst; auto| |].
    { destruct (live_rd G h0); inversion H; subst; auto. }
    destruct (negb (nodupb (h0 :: h1 :: hs'))); [inversion H; subst; auto|].
    destruct (live_rds G (h0 :: h1 :: hs')) as [ts|] eqn:El; [|inversion H; subst; auto].
    pose proof (live_rds_ok _ _ _ HG El) as Hts.
    pose proof (consume_all_ok (h0 :: h1 :: hs') G HG) as (C1 & C2 & C3).
    destruct (merge_collect _ _ ts [] []) as [[[st1 fw1] ss] arr] eqn:Em.
    destruct (merge_collect_ok _ _ _ _ _ _ _ _ _ Em C1 C3 Hts) as [M1 M2].
    destruct ss as [|s0 ss']; destruct arr as [|a0 arr']; inversion H; subst; clear H;
      repeat split; simpl; try apply M1; auto;
      try (apply Forall_app; split; [exact C2 | repeat constructor]);
      try (apply Forall_app; split; [exact (proj1 M1) | constructor; [apply array_stream_ok | constructor]]).
  - (* OConv *)
    destruct (live_rd G h) as [t|] eqn:El; [|inversion H; subst; auto].
    pose proof (live_rd_ok _ _ _ HG El) as Ht.
    pose proof (consume_ok G h HG) as (C1 & C2 & C3).
    inversion H; subst; clear H. repeat split; simpl; try apply C1; auto.
    apply Forall_app. split; auto. repeat constructor; simpl; auto.
  - (* OSend *)
    destruct (nth_error (streams (st_store G)) sid) as [s|] eqn:Es; [|inversion H; subst; auto].
    destruct (negb (s_user s)); [inversion H; subst; auto|].
    destruct (stream_send s x) as [r s'] eqn:E. inversion H; subst; clear H.
    repeat split; simpl; try apply H1; auto. apply Forall_upd; [apply H1|].
    replace s' with (snd (stream_send s x)) by (rewrite E; auto). apply stream_send_ok.
    destruct H1 as [Hs _]. eapply Forall_nth_error; eauto.
  - (* OCloseSend *)
    destruct (nth_error (streams (st_store G)) sid) as [s|] eqn:Es; [|inversion H; subst; auto].
    destruct (negb (s_user s)); [inversion H; subst; auto|].
    destruct (stream_close_send s) as [r s'] eqn:E. inversion H; subst; clear H.
    repeat split; simpl; try apply H1; auto. apply Forall_upd; [apply H1|].
    replace s' with (snd (stream_close_send s)) by (rewrite E; auto). apply stream_close_send_ok.
    destruct H1 as [Hs _]. eapply Forall_nth_error; eauto.
  - (* ORecv *)
    destruct (nth_error (st_handles G) h) as [Hh|] eqn:Eh; [|inversion H; subst; auto].
    destruct (negb (h_live Hh)); [inversion H; subst; auto|].
    destruct (recv fuel (st_store G) (h_rd Hh) ch) as [[[r st1] t1] ch1] eqn:Er.
    inversion H; subst; clear H.
    assert (Ht : rd_ok (h_rd Hh)) by (eapply Forall_nth_error in Eh; eauto; exact Eh).
    destruct (recv_ok _ _ _ _ _ _ _ _ Er H1 Ht) as [R1 R2].
    repeat split; simpl; try apply R1; auto. apply Forall_upd; auto.
  - (* OClose *)
    destruct (nth_error (st_handles G) h) as [Hh|] eqn:Eh; [|inversion H; subst; auto].
    destruct (negb (h_live Hh)); [inversion H; subst; auto|].
    destruct (close_rd fuel (st_store G) (h_rd Hh)) as [r st1] eqn:Er.
    inversion H; subst; clear H.
    pose proof (close_rd_ok _ _ _ _ _ Er H1) as R1.
    repeat split; simpl; try apply R1; auto. apply Forall_upd; auto. simpl.
    eapply Forall_nth_error in Eh; eauto. exact Eh.
  - (* OFwd *)
    destruct (nth_error (st_fwds G) k) as [F|] eqn:EF; [|inversion H; subst; auto].
    assert (HF : rd_ok (f_src F)) by (eapply Forall_nth_error in EF; eauto; exact EF).
    destruct (f_st F) as [|x| |].
    + destruct (recv fuel (st_store G) (f_src F) ch) as [[[r st1] src1] ch1] eqn:Er.
      destruct (recv_ok _ _ _ _ _ _ _ _ Er H1 HF) as [R1 R2].
      destruct r; try (inversion H; subst; clear H; repeat split; simpl; try apply R1; auto; apply Forall_upd; auto; fail).
      destruct (nth_error (streams st1) (f_dst F)) as [d|] eqn:Ed; [|inversion H; subst; auto].
      destruct (stream_close_send d) as [r0 d'] eqn:Ec. inversion H; subst; clear H.
      repeat split; simpl; try apply R1; auto.
      * apply Forall_upd; [apply R1|]. replace d' with (snd (stream_close_send d)) by (rewrite Ec; auto).
        apply stream_close_send_ok. destruct R1 as [Hs _]. eapply Forall_nth_error; eauto.
      * apply Forall_upd; auto.
    + destruct (nth_error (streams (st_store G)) (f_dst F)) as [d|] eqn:Ed; [|inversion H; subst; auto].
      assert (Hd : stream_ok d) by (destruct H1 as [Hs _]; eapply Forall_nth_error; eauto).
      destruct (stream_send d x) as [r d'] eqn:Es.
      destruct r; try (inversion H; subst; auto; fail).
      * inversion H; subst; clear H. repeat split; simpl; try apply H1; auto.
        -- apply Forall_upd; [apply H1|]. replace d' with (snd (stream_send d x)) by (rewrite Es; auto).
           apply stream_send_ok; auto.
        -- apply Forall_upd; auto.
      * destruct (stream_close_send d) as [r0 d''] eqn:Ec. inversion H; subst; clear H.
        repeat split; simpl; try apply H1; auto.
        -- apply Forall_upd; [apply H1|]. replace d'' with (snd (stream_close_send d)) by (rewrite Ec; auto).
           apply stream_close_send_ok; auto.
        -- apply Forall_upd; auto.
    + destruct (close_rd fuel (st_store G) (f_src F)) as [r st1] eqn:Er.
      inversion H; subst; clear H. pose proof (close_rd_ok _ _ _ _ _ Er H1) as R1.
      repeat split; simpl; try apply R1; auto. apply Forall_upd; auto.
    + inversion H; subst; auto.
Qed.

Lemma run_ok : forall fuel ops G bs G', run fuel G ops = (bs, G') -> state_ok G -> state_ok G'.
Proof.
  intros fuel. induction ops as [|o r IH]; intros G bs G' H HG; simpl in H.
  - inversion H; subst; auto.
  - destruct (do_op fuel G o) as [b G1] eqn:E1. destruct (run fuel G1 r) as [bs2 G2] eqn:E2.
    inversion H; subst. eapply IH; eauto. eapply do_op_ok; eauto.
Qed.

Lemma reachable_ok : forall G, reachable G -> state_ok G.
Proof.
  intros G (fuel & ops & H). destruct (run fuel init_state ops) as [bs G'] eqn:E. simpl in H. subst G'.
  eapply run_ok; eauto. apply init_ok.
Qed.

(* ------------------------------------------------------------------ statements over runs *)

(* [sub t u]: [t] is [u] or a source below conversions of [u] *)
Fixpoint conv_nodes (t : rd) : list (cfun * list item * list item) :=
  match t with
  | RConv f src cin cout => (f, cin, cout) :: conv_nodes src
  | _ => []
  end.

Lemma rd_ok_conv_nodes : forall t, rd_ok t ->
  forall f cin cout, In (f, cin, cout) (conv_nodes t) -> cout = filter_map (conv_item f) cin.
Proof.
  induction t as [d r | sid | sts ch | f0 src IH cin0 cout0 | p i]; simpl; intros Hok f cin cout Hin; try tauto.
  destruct Hok as [Hc Hs]. destruct Hin as [Heq | Hin].
  - injection Heq as <- <- <-. exact Hc.
  - eapply IH; eauto.
Qed.

(* every reader held anywhere in a state: by a handle, as the source of a copy parent, as
   the source of a forwarder goroutine *)
Definition readers_of (G : state) : list rd :=
  map h_rd (st_handles G) ++ map p_src (parents (st_store G)) ++ map f_src (st_fwds G).

Lemma state_ok_readers : forall G, state_ok G -> Forall rd_ok (readers_of G).
Proof.
  intros G ((_ & Hp) & Hh & Hf). unfold readers_of. apply Forall_app. split; [|apply Forall_app; split].
  - apply Forall_forall. intros t Hin. apply in_map_iff in Hin. destruct Hin as (H & <- & Hin).
    rewrite Forall_forall in Hh. apply Hh. exact Hin.
  - apply Forall_forall. intros t Hin. apply in_map_iff in Hin. destruct Hin as (P & <- & Hin).
    rewrite Forall_forall in Hp. destruct (Hp P Hin) as (_ & _ & _ & _ & H5). exact H5.
  - apply Forall_forall. intros t Hin. apply in_map_iff in Hin. destruct Hin as (F & <- & Hin).
    rewrite Forall_forall in Hf. apply Hf. exact Hin.
Qed.

Lemma run_pipe_fifo : forall fuel ops bs G, run fuel init_state ops = (bs, G) ->
  forall sid s, nth_error (streams (st_store G)) sid = Some s ->
    s_sent s = s_deliv s ++ s_buf s
    /\ List.length (s_buf s) <= eff_cap (s_cap s)
    /\ (fst (stream_recv s) = PEOF <-> (s_sclosed s = true /\ s_deliv s = s_sent s)).
Proof.
  intros fuel ops bs G Hrun sid s Hs.
  assert (HG : state_ok G) by (eapply run_ok; eauto; apply init_ok).
  destruct HG as ((Hst & _) & _). pose proof (Forall_nth_error _ _ _ _ _ Hst Hs) as [H1 H2].
  split; [exact H1|]. split; [exact H2|].
  rewrite stream_recv_eof_iff. split; intros [Ha Hb]; split; auto.
  - rewrite H1, Hb. rewrite app_nil_r. reflexivity.
  - rewrite H1 in Hb. rewrite <- (app_nil_r (s_deliv s)) in Hb at 1.
    apply app_inv_head in Hb. auto.
Qed.

Lemma run_copy_children : forall fuel ops bs G, run fuel init_state ops = (bs, G) ->
  forall p P, nth_error (parents (st_store G)) p = Some P ->
    p_pulls P = List.length (p_items P) + (if p_eof P then 1 else 0)
    /\ forall i oc g, nth_error (p_cur P) i = Some oc -> nth_error (p_got P) i = Some g ->
         (exists k, g = firstn k (p_items P))
         /\ (forall c, oc = Some c -> g = firstn c (p_items P) /\ c <= List.length (p_items P))
         /\ (nth_error (p_sawEOF P) i = Some true -> g = p_items P /\ p_eof P = true).
Proof.
  intros fuel ops bs G Hrun p P HP.
  assert (HG : state_ok G) by (eapply run_ok; eauto; apply init_ok).
  destruct HG as ((_ & Hpa) & _). pose proof (Forall_nth_error _ _ _ _ _ Hpa HP) as (_ & _ & H3 & H4 & _).
  split; [exact H4|]. intros i oc g Hoc Hg. exact (H3 i oc g Hoc Hg).
Qed.

Lemma run_convert_filter_map : forall fuel ops bs G, run fuel init_state ops = (bs, G) ->
  forall t f cin cout, In t (readers_of G) -> In (f, cin, cout) (conv_nodes t) ->
    cout = filter_map (conv_item f) cin.
Proof.
  intros fuel ops bs G Hrun t f cin cout Ht Hin.
  assert (HG : state_ok G) by (eapply run_ok; eauto; apply init_ok).
  pose proof (state_ok_readers G HG) as HF. rewrite Forall_forall in HF.
  eapply rd_ok_conv_nodes; eauto.
Qed.

(* ------------------------------------------------------------------ array-backed readers *)

Definition is_arr (t : rd) : bool := match t with RArr _ _ => true | _ => false end.
Definition arr_rest (t : rd) : list N := match t with RArr _ rest => rest | _ => [] end.

(* Recv on an array reader: no store access, no select, never blocks *)
Lemma array_recv : forall fuel st d rest ch,
  recv (S fuel) st (RArr d rest) ch =
    match rest with
    | [] => (PEOF, st, RArr d rest, ch)
    | x :: r => (PItem (IVal x), st, RArr (d ++ [x]) r, ch)
    end.
Proof. intros. simpl. destruct rest; reflexivity. Qed.

Lemma array_close : forall fuel st d rest, close_rd (S fuel) st (RArr d rest) = (ClOk, st).
Proof. reflexivity. Qed.

Lemma merge_collect_arrays : forall ts st fw ss arr,
  forallb is_arr ts = true ->
  merge_collect st fw ts ss arr = (st, fw, ss, arr ++ flat_map arr_rest ts).
Proof.
  induction ts as [|t r IH]; intros st fw ss arr H; simpl.
  - rewrite app_nil_r. reflexivity.
  - simpl in H. apply andb_prop in H. destruct H as [Ht Hr].
    destruct t; try discriminate. rewrite IH by exact Hr. simpl. rewrite app_assoc. reflexivity.
Qed.

Lemma consume_all_store : forall hs G, st_store (consume_all G hs) = st_store G.
Proof. induction hs as [|h r IH]; intros G; simpl; auto. rewrite IH. apply consume_store. Qed.
Lemma consume_all_fwds : forall hs G, st_fwds (consume_all G hs) = st_fwds G.
Proof. induction hs as [|h r IH]; intros G; simpl; auto. rewrite IH. apply consume_fwds. Qed.

(* Copy of an array reader: n independent array readers over the same remainder; no parent,
   no stream, no goroutine *)
Lemma array_copy : forall fuel G h n d rest,
  live_rd G h = Some (RArr d rest) -> 2 <= n ->
  exists hs', do_op fuel G (OCopy h n) =
    (BNew (seq (List.length (st_handles G)) n),
     mkState (st_store G) (st_fwds G) (hs' ++ repeat (mkH (RArr [] rest) true false [] false) n))
    /\ List.length hs' = List.length (st_handles G).
Proof.
  intros fuel G h n d rest Hl Hn. unfold do_op. rewrite Hl.
  assert (E : Nat.ltb n 2 = false) by (apply Nat.ltb_ge; lia). rewrite E.
  exists (st_handles (consume G h)). rewrite consume_store, consume_fwds. split; [reflexivity|].
  unfold consume. destruct (nth_error (st_handles G) h); simpl; auto. apply upd_length.
Qed.

(* Merge of array readers: one array reader over the concatenation of the remainders in
   argument order (or, when nothing remains, an empty multi reader); no stream, no goroutine *)
Lemma array_merge : forall fuel G h0 h1 hs ts,
  nodupb (h0 :: h1 :: hs) = true -> live_rds G (h0 :: h1 :: hs) = Some ts -> forallb is_arr ts = true ->
  exists hs', List.length hs' = List.length (st_handles G) /\
    do_op fuel G (OMerge (h0 :: h1 :: hs)) =
      (BNew [List.length (st_handles G)],
       mkState (st_store G) (st_fwds G)
               (hs' ++ [mkH (match flat_map arr_rest ts with
                             | [] => RMul [] []
                             | _ :: _ => RArr [] (flat_map arr_rest ts)
                             end) true false [] false])).
Proof.
  intros fuel G h0 h1 hs ts Hnd Hl Ha. unfold do_op. rewrite Hnd. cbn [negb]. rewrite Hl.
  rewrite merge_collect_arrays by exact Ha. cbn [app].
  exists (st_handles (consume_all G (h0 :: h1 :: hs))).
  rewrite consume_all_store, consume_all_fwds.
  assert (HL : forall l G0, List.length (st_handles (consume_all G0 l)) = List.length (st_handles G0)).
  { induction l as [|a l IH]; intros G0; simpl; auto. rewrite IH. unfold consume.
    destruct (nth_error (st_handles G0) a); simpl; auto. apply upd_length. }
  split; [apply HL|]. rewrite HL.
  destruct (flat_map arr_rest ts); reflexivity.
Qed.
