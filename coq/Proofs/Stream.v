(* Proofs/Stream.v — lemmas about Model/Stream.v (property C08), part 1: base streams. *)
From Eino Require Import Base.Util Model.Stream.

Lemma stream_recv_eof_iff : forall s,
  fst (stream_recv s) = PEOF <-> (s_sclosed s = true /\ s_buf s = []).
Proof.
  intros s. unfold stream_recv. destruct (s_buf s) as [|x b]; simpl.
  - destruct (s_sclosed s); simpl; split; intros H; try discriminate; auto.
    destruct H as [H _]. discriminate.
  - split; intros H; try discriminate. destruct H as [_ H]. discriminate.
Qed.
