(* Proofs/GenAgreeChan.v — the Gallina functions tools/go2v translated statement by statement
   from compose/dag.go and compose/pregel.go (Gen/ChanCode.v: reportValues, reportDependencies,
   reportSkip, get of dagChannel and pregelChannel) are extensionally the channel operations of
   Model/Graph.v ([dag_report_values], [dag_report_deps], [dag_report_skip], [dag_get],
   [pregel_report_values], [pregel_get]) that the C01 / C02 theorems are about — for every
   channel state and every argument.

   What is assumed about the parts of the code that are not translated (Section variables of
   Gen/ChanCode.v), each an explicit hypothesis below:
     - value mode: no value is a streamReader ([is_stream v = false]); the stream-closing
       statements of reportValues / reportSkip have no effect inside the model;
     - [mergeValues] of the values in the model's canonical (key) order is the model's
       [v_merge] (Go hands them over in map-iteration order: the model assumes, and property
       C03/C14 argue, that the merge does not depend on it);
     - the zero value / empty stream handed out for "no value" is the model's [v_zero].
   A changed test, a dropped reset, a swapped constant or a reordered statement in the Go
   source makes a theorem here stop compiling.  The proofs are case analyses on the tests the
   code makes, not matches on the generated text: the extractor first brings the methods to a
   normal form (tools/go2v/chancode_norm.go: helpers inlined, switch / else-if / continue /
   negated tests in one shape, parameters and unsafe local names renamed), and what is left of a
   behaviour-preserving rewrite (nested if instead of continue, a flag bound by its own statement,
   two independent assignments swapped, a bool helper holding the readiness tests) is absorbed here. *)
From Eino Require Import Base.Util Model.Graph Model.ChanGenLib.
From Eino Require Gen.ChanCode.

Lemma fold_left_ext_eq : forall {A B} (f g : A -> B -> A) l a,
  (forall a b, f a b = g a b) -> fold_left f l a = fold_left g l a.
Proof. intros A B f g l; induction l as [|b l IH]; intros a H; simpl; [reflexivity|]. rewrite H. apply IH, H. Qed.

Lemma forallb_negb_existsb : forall {A} (p : A -> bool) l,
  forallb p l = negb (existsb (fun a => negb (p a)) l).
Proof.
  intros A p l; induction l as [|a l IH]; simpl; [reflexivity|].
  rewrite IH. destruct (p a); reflexivity.
Qed.

Lemma filter_all : forall {A} (l : list A), filter (fun _ => true) l = l.
Proof. intros A l; induction l as [|a l IH]; simpl; [reflexivity|]. rewrite IH. reflexivity. Qed.

Lemma chan_eta : forall V (c : chan V),
  {| c_ctrl := c_ctrl V c; c_data := c_data V c; c_skipped := c_skipped V c; c_vals := c_vals V c |} = c.
Proof. intros V []; reflexivity. Qed.

Section Agree.
  Variable V : Type.
  Variable St : Type.
  Variable ops : vops V.
  Variable is_stream : V -> bool.
  Variable merge_values : list V -> res V.
  Variables zero_value empty_stream : V.

  Hypothesis value_mode : forall v, is_stream v = false.
  Hypothesis merge_is_model : forall vals : list (key * V), v_merge ops vals = merge_values (map snd vals).

  (* whether the source shape was recognised (Gen.ChanCode.tie_available) is reported by the check as
     translator_tie; when it was not, Gen/ChanCode.v is the frozen translation of the tree these proofs were
     written against and the theorems below say nothing about the unrecognised code *)

  (* ---------------------------------------------------------------- dagChannel *)

  Theorem gen_dag_reportValues_agrees : forall c ins,
    Gen.ChanCode.dag_reportValues V c ins = dag_report_values V c ins.
  Proof.
    intros c ins. unfold Gen.ChanCode.dag_reportValues, dag_report_values, ch_skipped.
    destruct (c_skipped V c); [reflexivity|].
    apply fold_left_ext_eq. intros a [k v]. unfold m_has, m_set, ch_data, ch_vals, ch_set_data, ch_set_vals. simpl.
    destruct (alookup k (c_data V a)); reflexivity.
  Qed.

  Theorem gen_dag_reportDependencies_agrees : forall c deps,
    Gen.ChanCode.dag_reportDependencies V c deps = dag_report_deps V c deps.
  Proof.
    intros c deps. unfold Gen.ChanCode.dag_reportDependencies, dag_report_deps, ch_skipped.
    destruct (c_skipped V c); [reflexivity|].
    apply fold_left_ext_eq. intros a d. unfold m_has, m_set, ch_ctrl, ch_set_ctrl.
    destruct (alookup d (c_ctrl V a)); reflexivity.
  Qed.

  Lemma m_del_if_value_mode : forall m : list (key * V), m_del_if is_stream m = m.
  Proof.
    intros m. unfold m_del_if. rewrite <- (filter_all m) at 2. apply filter_ext.
    intros [k v]. simpl. rewrite value_mode. reflexivity.
  Qed.

  Definition skip_step_model (c0 : chan V) (k : key) : chan V :=
    {| c_ctrl := match alookup k (c_ctrl V c0) with Some _ => ainsert k Skipped (c_ctrl V c0) | None => c_ctrl V c0 end;
       c_data := match alookup k (c_data V c0) with Some _ => ainsert k true (c_data V c0) | None => c_data V c0 end;
       c_skipped := c_skipped V c0; c_vals := c_vals V c0 |}.

  Definition skip_step_gen (ch : chan V) (k : key) : chan V :=
    let ch := (if m_has k (ch_ctrl ch) then (let ch := ch_set_ctrl ch (m_set k Skipped (ch_ctrl ch)) in ch) else ch) in
    let ch := (if m_has k (ch_data ch) then (let ch := ch_set_data ch (m_set k true (ch_data ch)) in ch) else ch) in
    ch.

  Lemma skip_step_agrees : forall c0 k, skip_step_gen c0 k = skip_step_model c0 k.
  Proof.
    intros c0 k. unfold skip_step_gen, skip_step_model, m_has, m_set, ch_ctrl, ch_data, ch_set_ctrl, ch_set_data.
    destruct c0 as [ctrl data sk vals]; simpl.
    destruct (alookup k ctrl); simpl; destruct (alookup k data); reflexivity.
  Qed.

  Lemma gen_skip_unfold : forall c keys,
    Gen.ChanCode.dag_reportSkip V is_stream c keys =
    let ch := fold_left skip_step_gen keys c in
    let all := true && negb (m_any (fun s => negb (dep_eqb s Skipped)) (ch_ctrl ch)) in
    let ch := ch_set_skipped ch all in
    let ch := (if all then ch_set_vals ch (m_del_if is_stream (ch_vals ch)) else ch) in
    (ch, all).
  Proof. reflexivity. Qed.

  Lemma model_skip_unfold : forall c keys,
    dag_report_skip V c keys =
    let c1 := fold_left skip_step_model keys c in
    let all := all_skipped (c_ctrl V c1) in
    ({| c_ctrl := c_ctrl V c1; c_data := c_data V c1; c_skipped := all; c_vals := c_vals V c1 |}, all).
  Proof. reflexivity. Qed.

  Theorem gen_dag_reportSkip_agrees : forall c keys,
    Gen.ChanCode.dag_reportSkip V is_stream c keys = dag_report_skip V c keys.
  Proof.
    intros c keys. rewrite gen_skip_unfold, model_skip_unfold.
    rewrite (fold_left_ext_eq skip_step_gen skip_step_model keys c skip_step_agrees).
    set (c1 := fold_left skip_step_model keys c). cbv zeta.
    unfold all_skipped, m_any, ch_ctrl. rewrite (forallb_negb_existsb (fun kd => dep_eqb (snd kd) Skipped)). simpl.
    destruct (negb (existsb _ (c_ctrl V c1))); unfold ch_set_skipped, ch_set_vals, ch_vals; simpl;
      rewrite ?m_del_if_value_mode; reflexivity.
  Qed.

  (* the result of Go's get, in the shape of the model's *)
  Definition as_model (r : chan V * res (option V)) : res (option V * chan V) :=
    match r with
    | (c', Ok o) => Ok (o, c')
    | (_, Err e) => Err e
    | (_, Panic) => Panic
    end.

  Theorem gen_dag_get_agrees : forall c (isStream : bool),
    (if isStream then empty_stream else zero_value) = v_zero ops ->
    as_model (Gen.ChanCode.dag_get V merge_values zero_value empty_stream c isStream) = dag_get V ops c.
  Proof.
    intros c isStream Hz. unfold Gen.ChanCode.dag_get, dag_get, dag_ready, m_any, ch_skipped, ch_ctrl, ch_data.
    (* the three readiness tests, in whatever order the source makes them *)
    destruct (c_skipped V c); simpl;
      repeat (match goal with |- context [existsb ?p ?l] => destruct (existsb p l) end; simpl);
      try reflexivity.
    unfold m_vals, ch_vals, get_merge, dag_reset, ch_set_data, ch_set_ctrl, ch_set_vals, m_setall. simpl.
    destruct (c_vals V c) as [|[k1 v1] [|[k2 v2] rest]]; simpl.
    - rewrite <- Hz. destruct isStream; reflexivity.
    - reflexivity.
    - rewrite merge_is_model. simpl. destruct (merge_values _); reflexivity.
  Qed.

  (* ---------------------------------------------------------------- pregelChannel *)

  Lemma pregel_fold : forall ins (c : chan V),
    fold_left (fun ch kv => ch_set_vals ch (m_set (fst kv) (snd kv) (ch_vals ch))) ins c
    = set_vals V c (fold_left (fun m kv => ainsert (fst kv) (snd kv) m) ins (c_vals V c)).
  Proof.
    induction ins as [|[k v] ins IH]; intros c; simpl.
    - unfold set_vals. symmetry. apply chan_eta.
    - rewrite IH. unfold set_vals, ch_set_vals, ch_vals, m_set. simpl. reflexivity.
  Qed.

  Theorem gen_pregel_reportValues_agrees : forall c ins,
    Gen.ChanCode.pregel_reportValues V c ins = pregel_report_values V c ins.
  Proof.
    intros c ins. unfold Gen.ChanCode.pregel_reportValues, pregel_report_values.
    rewrite <- pregel_fold. apply fold_left_ext_eq. intros a [k v]. reflexivity.
  Qed.

  Theorem gen_pregel_get_agrees : forall c,
    as_model (Gen.ChanCode.pregel_get V merge_values zero_value c) = pregel_get V ops c.
  Proof.
    intros c. unfold Gen.ChanCode.pregel_get, pregel_get, ch_vals, m_vals, get_merge, ch_set_vals, set_vals.
    destruct (c_vals V c) as [|[k1 v1] [|[k2 v2] rest]]; simpl.
    - reflexivity.
    - reflexivity.
    - rewrite merge_is_model. simpl. destruct (merge_values _); reflexivity.
  Qed.
End Agree.
