(* Proofs/DagExamples.v — C02: concrete graphs used by the non-vacuity Examples of Props/C02.v. *)
From Eino Require Import Base.Util Model.Graph.
Open Scope N_scope.

Definition mk_node (k : key) (ds cs : list key) (bs : list branch) : node :=
  {| n_key := k; n_kind := KLambda; n_outkey := None; n_dsucc := ds; n_csucc := cs; n_dmap := []; n_branches := bs |}.

(* the partial-skip DAG of DESIGN §10:  START -> a(2);  a -{branch}-> b(3) | c(4);  b -> d(5);  c -> d;  c -> e(6);
   d -> f(7);  e -> f;  f -> END.  The branch table selects b for inputs of odd size, c otherwise. *)
Definition ex_branch : branch := {| b_ends := [3; 4]; b_nodata := false; b_table := [[4]; [3]] |}.
Definition ex_dag : graph :=
  {| g_nodes := [ mk_node kSTART [2] [2] [];
                  mk_node 2 [] [] [ex_branch];
                  mk_node 3 [5] [5] [];
                  mk_node 4 [5; 6] [5; 6] [];
                  mk_node 5 [7] [7] [];
                  mk_node 6 [7] [7] [];
                  mk_node 7 [kEND] [kEND] [] ];
     g_mode := Dag; g_eager := false; g_max := 0 |}.

Definition ex_input_b : value := VMap [(900, VAtom 1)].                 (* size 2 -> row 0 -> c ... see Props *)
Definition ex_input_c : value := VMap [(900, VAtom 1); (901, VAtom 2)].

Definition ex_run (x : value) : outcome value := tree_run [] [ex_dag] x.

Definition executed_keys (o : outcome value) : list (list key) :=
  map (fun e => map (fun ev => last (fst ev) 0) (snd e)) (outcome_log value o).

(* an all-predecessor graph with an orphan node 9 (no edge leads to it) that feeds 3: F-C02 shape *)
Definition ex_orphan : graph :=
  {| g_nodes := [ mk_node kSTART [2] [2] [];
                  mk_node 2 [3] [3] [];
                  mk_node 3 [kEND] [kEND] [];
                  mk_node 9 [] [] [] ];
     g_mode := Dag; g_eager := false; g_max := 0 |}.

(* the same shape as a Workflow (eager mode) *)
Definition ex_wf : graph :=
  {| g_nodes := g_nodes ex_dag; g_mode := Dag; g_eager := true; g_max := 0 |}.

Definition sched_lastE : nat -> list key -> nat := fun _ ks => Nat.pred (List.length ks).
Definition ex_rank (k : key) : nat := if N.eqb k kEND then 100%nat else N.to_nat k.
