(* Proofs/ParadigmOps.v — the stream-level graph operations commute with concatenation
   (property C04, operation level): copy, merge of key-disjoint map chunks (every
   order-preserving interleaving), output-key wrap, input-key filter — for chunks that are
   strings or maps nested to any depth. *)
From Eino Require Import Base.Util Model.Paradigm Model.StreamOps Proofs.Paradigm.
From Coq Require Import Lia.

Arguments ins_all : simpl never.

(* ------------------------------------------------------------------ strings *)
Lemma app_nil_r_s (s : string) : String.append s EmptyString = s.
Proof. induction s; simpl; congruence. Qed.

Lemma app_assoc_s (a b c : string) :
  String.append (String.append a b) c = String.append a (String.append b c).
Proof. induction a; simpl; congruence. Qed.

Lemma concat_strings_app a b :
  concat_strings (a ++ b) = String.append (concat_strings a) (concat_strings b).
Proof.
  unfold concat_strings. induction a; simpl; auto. rewrite IHa, app_assoc_s. reflexivity.
Qed.

(* ------------------------------------------------------------------ the order of the keys *)
Lemma kcmp_refl a : kcmp a a = Eq.
Proof. induction a; simpl; auto. rewrite N.compare_refl. exact IHa. Qed.

Lemma kcmp_eq a : forall b, kcmp a b = Eq -> a = b.
Proof.
  induction a as [| |k r IH]; intros [| |k' r']; simpl; intros H; try discriminate; auto.
  destruct (N.compare_spec k k'); try discriminate. subst. f_equal. apply IH, H.
Qed.

Lemma kcmp_antisym a : forall b, kcmp b a = CompOpp (kcmp a b).
Proof.
  induction a as [| |k r IH]; intros [| |k' r']; simpl; auto.
  rewrite (N.compare_antisym k k'). destruct (N.compare k k'); simpl; auto.
Qed.

Lemma kcmp_trans a : forall b c, kcmp a b = Lt -> kcmp b c = Lt -> kcmp a c = Lt.
Proof.
  induction a as [| |k r IH]; intros [| |k' r'] [| |k'' r'']; simpl; intros H1 H2; try discriminate; auto.
  destruct (N.compare_spec k k'); try discriminate;
    destruct (N.compare_spec k' k''); try discriminate; subst.
  - rewrite N.compare_refl. eapply IH; eauto.
  - destruct (N.compare_spec k' k''); try lia. reflexivity.
  - destruct (N.compare_spec k k''); try lia. reflexivity.
  - destruct (N.compare_spec k k''); try lia. reflexivity.
Qed.

Definition tlt (a b : tkey) : Prop := tcmp a b = Lt.

Lemma tcmp_refl a : tcmp a a = Eq.
Proof. unfold tcmp. rewrite N.compare_refl. apply kcmp_refl. Qed.

Lemma tcmp_eq a b : tcmp a b = Eq -> a = b.
Proof.
  destruct a as [k r], b as [k' r']. unfold tcmp. simpl.
  destruct (N.compare_spec k k') as [E|E|E]; try discriminate. intros H. subst. f_equal. apply kcmp_eq, H.
Qed.

Lemma tcmp_antisym a b : tcmp b a = CompOpp (tcmp a b).
Proof.
  destruct a as [k r], b as [k' r']. unfold tcmp. simpl.
  rewrite (N.compare_antisym k k'). destruct (N.compare k k'); simpl; auto. apply kcmp_antisym.
Qed.

Lemma tlt_trans a b c : tlt a b -> tlt b c -> tlt a c.
Proof.
  destruct a as [k r], b as [k' r'], c as [k'' r'']. unfold tlt, tcmp. simpl.
  destruct (N.compare_spec k k'); try discriminate;
    destruct (N.compare_spec k' k''); try discriminate; subst; intros H1 H2.
  - rewrite N.compare_refl. eapply kcmp_trans; eauto.
  - destruct (N.compare_spec k' k''); try lia. reflexivity.
  - destruct (N.compare_spec k k''); try lia. reflexivity.
  - destruct (N.compare_spec k k''); try lia. reflexivity.
Qed.

Lemma tlt_irrefl a : ~ tlt a a.
Proof. unfold tlt. rewrite tcmp_refl. discriminate. Qed.

Lemma tlt_total a b : tlt a b \/ a = b \/ tlt b a.
Proof.
  unfold tlt. rewrite (tcmp_antisym a b). destruct (tcmp a b) eqn:E; simpl; auto.
  right. left. apply tcmp_eq, E.
Qed.

Lemma tlt_nlt a b : ~ tlt a b -> a = b \/ tlt b a.
Proof. intros H. destruct (tlt_total a b) as [?|[?|?]]; auto. contradiction. Qed.

Lemma tltb_spec a b : BoolSpec (tlt a b) (~ tlt a b) (tltb a b).
Proof.
  unfold tltb, tlt. destruct (tcmp a b); constructor; auto; discriminate.
Qed.

Lemma teqb_spec a b : reflect (a = b) (teqb a b).
Proof.
  unfold teqb. destruct (tcmp a b) eqn:E; constructor.
  - apply tcmp_eq, E.
  - intros ->. rewrite tcmp_refl in E. discriminate.
  - intros ->. rewrite tcmp_refl in E. discriminate.
Qed.

Lemma teqb_refl a : teqb a a = true.
Proof. unfold teqb. rewrite tcmp_refl. reflexivity. Qed.

Lemma tltb_irrefl a : tltb a a = false.
Proof. unfold tltb. rewrite tcmp_refl. reflexivity. Qed.

(* order reasoning over a handful of keys: negative facts become "equal or greater", then
   look for a cycle *)
Ltac tord_close :=
  solve [ congruence
        | match goal with
          | H : tlt ?a ?a |- _ => exfalso; exact (tlt_irrefl a H)
          | H1 : tlt ?a ?b, H2 : tlt ?b ?a |- _ =>
              exfalso; exact (tlt_irrefl a (tlt_trans a b a H1 H2))
          | H1 : tlt ?a ?b, H2 : tlt ?b ?c, H3 : tlt ?c ?a |- _ =>
              exfalso; exact (tlt_irrefl a (tlt_trans a c a (tlt_trans a b c H1 H2) H3))
          | H1 : tlt ?a ?b, H2 : tlt ?b ?c |- tlt ?a ?c => exact (tlt_trans a b c H1 H2)
          | H : tlt ?a ?b |- tlt ?a ?b => exact H
          | H : tlt ?a ?b |- ?a <> ?b => let E := fresh in intro E; rewrite E in H; exact (tlt_irrefl _ H)
          | H : tlt ?a ?b |- ?b <> ?a => let E := fresh in intro E; rewrite E in H; exact (tlt_irrefl _ H)
          end ].

Ltac tord :=
  try subst;
  repeat match goal with
         | H : ~ tlt ?a ?b |- _ =>
             let H' := fresh in
             pose proof (tlt_nlt a b H) as H'; clear H; destruct H' as [H'|H']; [try subst|]
         end;
  tord_close.

(* ------------------------------------------------------------------ association lists *)
Lemma ins_comm k1 v1 k2 v2 m :
  k1 <> k2 -> ins k1 v1 (ins k2 v2 m) = ins k2 v2 (ins k1 v1 m).
Proof.
  intros Hne. induction m as [|[k v] m IH]; simpl.
  - destruct (tltb_spec k1 k2), (tltb_spec k2 k1), (teqb_spec k1 k2), (teqb_spec k2 k1);
      try congruence; try reflexivity; tord.
  - destruct (tltb_spec k2 k), (teqb_spec k2 k), (tltb_spec k1 k), (teqb_spec k1 k);
      simpl;
      repeat match goal with
             | |- context [tltb ?a ?b] => destruct (tltb_spec a b)
             | |- context [teqb ?a ?b] => destruct (teqb_spec a b)
             end; try congruence; try reflexivity; try (subst; tord).
Qed.

Lemma ins_same k v1 v2 m : ins k v2 (ins k v1 m) = ins k (String.append v1 v2) m.
Proof.
  induction m as [|[k' v'] m IH]; simpl.
  - rewrite tltb_irrefl, teqb_refl. reflexivity.
  - destruct (tltb_spec k k'); simpl.
    + rewrite tltb_irrefl, teqb_refl. reflexivity.
    + destruct (teqb_spec k k'); simpl.
      * subst. rewrite tltb_irrefl, teqb_refl, app_assoc_s. reflexivity.
      * destruct (tltb_spec k k'); [contradiction|]. destruct (teqb_spec k k'); [congruence|].
        rewrite IH. reflexivity.
Qed.

Lemma ins_all_app a b m : ins_all (a ++ b) m = ins_all b (ins_all a m).
Proof. unfold ins_all. apply fold_left_app. Qed.

Lemma ins_all_cons e a m : ins_all (e :: a) m = ins_all a (ins (fst e) (snd e) m).
Proof. reflexivity. Qed.

(* an insertion commutes with insertions of other keys *)
Lemma ins_all_ins_comm k v es m :
  ~ In k (mkeys es) -> ins_all es (ins k v m) = ins k v (ins_all es m).
Proof.
  revert m. induction es as [|[k' v'] es IH]; intros m Hk; [reflexivity|].
  rewrite !ins_all_cons. simpl fst; simpl snd. simpl in Hk.
  rewrite ins_comm by (intro; subst; apply Hk; auto).
  apply IH. intro; apply Hk; auto.
Qed.

Definition kdisj (a b : amap) : Prop := forall k, In k (mkeys a) -> ~ In k (mkeys b).

Lemma kdisj_sym a b : kdisj a b -> kdisj b a.
Proof. unfold kdisj; intros H k Hb Ha. exact (H k Ha Hb). Qed.

(* two blocks of entries with disjoint keys can be swapped *)
Lemma ins_all_swap a b m : kdisj a b -> ins_all (a ++ b) m = ins_all (b ++ a) m.
Proof.
  revert m. induction a as [|[k v] a IH]; intros m Hd.
  - rewrite app_nil_r. reflexivity.
  - simpl app. rewrite ins_all_cons. simpl fst; simpl snd.
    rewrite IH by (intros k' Hk'; apply Hd; simpl; auto).
    rewrite !ins_all_app, ins_all_cons. simpl fst; simpl snd.
    rewrite ins_all_ins_comm; auto.
    intro Hin. apply (Hd k); simpl; auto.
Qed.

(* keys, sortedness *)
Lemma keys_ins x k v m : In x (mkeys (ins k v m)) <-> x = k \/ In x (mkeys m).
Proof.
  induction m as [|[k2 v2] m IH]; simpl.
  - intuition.
  - destruct (tltb_spec k k2); simpl; [intuition|].
    destruct (teqb_spec k k2); simpl; [subst; intuition|].
    rewrite IH. intuition.
Qed.

Lemma keys_ins_all x es m : In x (mkeys (ins_all es m)) <-> In x (mkeys es) \/ In x (mkeys m).
Proof.
  revert m. induction es as [|[k v] es IH]; intros m; simpl.
  - intuition.
  - rewrite ins_all_cons, IH, keys_ins. simpl. intuition.
Qed.

Inductive sorted : amap -> Prop :=
| sorted_nil : sorted []
| sorted_cons : forall k v m, sorted m -> (forall k', In k' (mkeys m) -> tlt k k') -> sorted ((k, v) :: m).

Lemma sorted_ins k v m : sorted m -> sorted (ins k v m).
Proof.
  induction 1 as [|k2 v2 m Hs IH Hlt]; simpl.
  - constructor; [constructor|]. intros ? [].
  - destruct (tltb_spec k k2).
    + constructor; [constructor; auto|]. simpl. intros k' [<-|Hk']; auto.
      specialize (Hlt _ Hk'). tord.
    + destruct (teqb_spec k k2).
      * subst. constructor; auto.
      * constructor; auto. intros k' Hk'. apply keys_ins in Hk' as [->|Hk']; [tord|auto].
Qed.

Lemma sorted_ins_all es m : sorted m -> sorted (ins_all es m).
Proof.
  revert m. induction es as [|[k v] es IH]; intros m Hs; simpl; auto.
  rewrite ins_all_cons. apply IH, sorted_ins, Hs.
Qed.

Lemma mhas_in k m : mhas k m = true <-> In k (mkeys m).
Proof.
  induction m as [|[k2 v2] m IH]; simpl.
  - intuition discriminate.
  - rewrite Bool.orb_true_iff, IH. destruct (teqb_spec k k2); intuition; discriminate.
Qed.

Lemma mhas_notin k m : mhas k m = false <-> ~ In k (mkeys m).
Proof. rewrite <- mhas_in. destruct (mhas k m); intuition discriminate. Qed.

Lemma mgather_notin k m : ~ In k (mkeys m) -> mgather k m = EmptyString.
Proof.
  induction m as [|[k2 v2] m IH]; simpl; auto. intros H.
  destruct (teqb_spec k k2); [subst; exfalso; auto|]. apply IH. auto.
Qed.

Lemma mhas_ins k k' v m : mhas k (ins k' v m) = teqb k k' || mhas k m.
Proof.
  induction m as [|[k2 v2] m IH]; simpl.
  - rewrite Bool.orb_false_r. reflexivity.
  - destruct (tltb_spec k' k2); simpl; auto.
    destruct (teqb_spec k' k2); simpl.
    + subst. destruct (teqb k k2); reflexivity.
    + rewrite IH. destruct (teqb k k'), (teqb k k2); reflexivity.
Qed.

Lemma mgather_ins k k' v m : sorted m ->
  mgather k (ins k' v m) = if teqb k k' then String.append (mgather k m) v else mgather k m.
Proof.
  induction 1 as [|k2 v2 m Hs IH Hlt]; simpl.
  - destruct (teqb k k'); simpl; auto. rewrite app_nil_r_s. reflexivity.
  - destruct (tltb_spec k' k2); simpl.
    + destruct (teqb_spec k k'); simpl; auto. subst.
      destruct (teqb_spec k' k2); [tord|].
      rewrite (mgather_notin k' m), app_nil_r_s; auto;
        intro Hin; specialize (Hlt _ Hin); tord.
    + destruct (teqb_spec k' k2); simpl.
      * subst. destruct (teqb_spec k k2); auto. subst.
        rewrite (mgather_notin k2 m), !app_nil_r_s; auto;
          intro Hin; specialize (Hlt _ Hin); tord.
      * rewrite IH. destruct (teqb_spec k k'), (teqb_spec k k2); subst; try congruence; auto.
Qed.

Lemma mgather_app k a b : mgather k (a ++ b) = String.append (mgather k a) (mgather k b).
Proof.
  induction a as [|[k2 v2] a IH]; simpl; auto.
  destruct (teqb k k2); auto. rewrite IH, app_assoc_s. reflexivity.
Qed.

Lemma mhas_app k a b : mhas k (a ++ b) = mhas k a || mhas k b.
Proof. induction a as [|[k2 v2] a IH]; simpl; auto. rewrite IH, Bool.orb_assoc. reflexivity. Qed.

Lemma mhas_ins_all k es m : mhas k (ins_all es m) = mhas k m || mhas k es.
Proof.
  revert m. induction es as [|[k2 v2] es IH]; intros m; simpl.
  - rewrite Bool.orb_false_r. reflexivity.
  - rewrite ins_all_cons, IH, mhas_ins. simpl.
    destruct (teqb k k2), (mhas k m), (mhas k es); reflexivity.
Qed.

Lemma mgather_ins_all k es m : sorted m ->
  mgather k (ins_all es m) = String.append (mgather k m) (mgather k es).
Proof.
  revert m. induction es as [|[k2 v2] es IH]; intros m Hs; simpl.
  - rewrite app_nil_r_s. reflexivity.
  - rewrite ins_all_cons, IH by (apply sorted_ins, Hs). simpl.
    rewrite mgather_ins by exact Hs.
    destruct (teqb k k2); auto. rewrite app_assoc_s. reflexivity.
Qed.

(* re-inserting a sorted map entry by entry = inserting the raw entries it was built from *)
Lemma ins_all_ins_sorted k v c m : sorted c ->
  ins_all (ins k v c) m = ins k v (ins_all c m).
Proof.
  intros Hs. revert m. induction Hs as [|k2 v2 c Hs IH Hlt]; intros m; simpl; auto.
  destruct (tltb_spec k k2).
  - rewrite !ins_all_cons. simpl fst; simpl snd.
    rewrite <- ins_all_cons with (e := (k2, v2)).
    change (ins_all ((k2, v2) :: c) (ins k v m) = ins k v (ins_all ((k2, v2) :: c) m)).
    apply ins_all_ins_comm. simpl. intros [->|Hin]; [tord|]. specialize (Hlt _ Hin). tord.
  - destruct (teqb_spec k k2).
    + subst. rewrite !ins_all_cons. simpl fst; simpl snd.
      rewrite <- ins_same. apply ins_all_ins_comm.
      intro Hin. specialize (Hlt _ Hin). tord.
    + rewrite !ins_all_cons. simpl fst; simpl snd. apply IH.
Qed.

Lemma ins_all_canon b c m : sorted c ->
  ins_all (ins_all b c) m = ins_all b (ins_all c m).
Proof.
  revert c. induction b as [|[k v] b IH]; intros c Hs; simpl; auto.
  rewrite !ins_all_cons. simpl fst; simpl snd.
  rewrite IH by (apply sorted_ins, Hs). rewrite ins_all_ins_sorted by exact Hs. reflexivity.
Qed.

Lemma ins_all_canon0 b m : ins_all (ins_all b []) m = ins_all b m.
Proof. rewrite ins_all_canon by constructor. reflexivity. Qed.

(* a sorted map is its own canonical form *)
Lemma ins_last k v acc : (forall k', In k' (mkeys acc) -> tlt k' k) -> ins k v acc = acc ++ [(k, v)].
Proof.
  induction acc as [|[k2 v2] acc IH]; simpl; intros H; auto.
  assert (tlt k2 k) by (apply H; auto).
  destruct (tltb_spec k k2); [tord|]. destruct (teqb_spec k k2); [tord|].
  rewrite IH; auto.
Qed.

Lemma ins_all_sorted_app m : sorted m -> forall acc,
  (forall a b, In a (mkeys acc) -> In b (mkeys m) -> tlt a b) -> ins_all m acc = acc ++ m.
Proof.
  induction 1 as [|k v m Hs IH Hlt]; intros acc Hacc.
  - rewrite app_nil_r. reflexivity.
  - rewrite ins_all_cons. cbn [fst snd].
    rewrite ins_last by (intros k' Hk'; apply Hacc; simpl; auto).
    rewrite IH.
    + rewrite <- app_assoc. reflexivity.
    + intros a b Ha Hb. unfold mkeys in Ha. rewrite map_app in Ha. apply in_app_or in Ha as [Ha|Ha].
      * apply Hacc; simpl; auto.
      * simpl in Ha. destruct Ha as [<-|[]]. apply Hlt, Hb.
Qed.

Lemma ins_all_sorted m : sorted m -> ins_all m [] = m.
Proof. intros H. apply (ins_all_sorted_app m H []). intros a b []. Qed.

Lemma ins_first k v m : (forall k', In k' (mkeys m) -> tlt k k') -> ins k v m = (k, v) :: m.
Proof.
  destruct m as [|[k2 v2] m]; simpl; intros H; auto.
  destruct (tltb_spec k k2); auto. exfalso. apply H0, H. auto.
Qed.

Lemma sorted_tail k v m : sorted ((k, v) :: m) -> sorted m.
Proof. intros H. inversion H; auto. Qed.

Lemma sorted_head_lt k v m k' : sorted ((k, v) :: m) -> In k' (mkeys m) -> tlt k k'.
Proof. intros H. inversion H; auto. Qed.

(* ------------------------------------------------------------------ type conflicts *)
Definition Cons (ks : list tkey) : Prop := forall a b, In a ks -> In b ks -> tclash a b = false.

Lemma cons_keys_spec ks : cons_keys ks = true <-> Cons ks.
Proof.
  unfold cons_keys, Cons. rewrite forallb_forall. split.
  - intros H a b Ha Hb. specialize (H a Ha). rewrite forallb_forall in H.
    specialize (H b Hb). apply Bool.negb_true_iff in H. exact H.
  - intros H a Ha. apply forallb_forall. intros b Hb. rewrite (H a b Ha Hb). reflexivity.
Qed.

Lemma mcons_spec m : mcons m = true <-> Cons (mkeys m).
Proof. apply cons_keys_spec. Qed.

Lemma Cons_incl a b : (forall k, In k a -> In k b) -> Cons b -> Cons a.
Proof. intros Hi Hb x y Hx Hy. apply Hb; auto. Qed.

Lemma mcons_incl a b : (forall k, In k (mkeys a) -> In k (mkeys b)) -> mcons b = true -> mcons a = true.
Proof. intros Hi Hb. apply mcons_spec. apply mcons_spec in Hb. eapply Cons_incl; eauto. Qed.

Lemma clash_sym a : forall b, clash a b = clash b a.
Proof.
  induction a as [| |k r IH]; intros [| |k' r']; simpl; auto.
  rewrite (N.eqb_sym k k'), IH. reflexivity.
Qed.

Lemma tclash_sym a b : tclash a b = tclash b a.
Proof. unfold tclash. rewrite (N.eqb_sym (fst a) (fst b)), clash_sym. reflexivity. Qed.

Lemma clash_irrefl a : clash a a = false.
Proof. induction a as [| |k r IH]; simpl; auto. rewrite IH. apply Bool.andb_false_r. Qed.

(* a map whose values are all strings has no conflict *)
Definition flat_keys (ks : list tkey) : Prop := forall a, In a ks -> snd a = KStr.

Lemma flat_Cons ks : flat_keys ks -> Cons ks.
Proof.
  intros H a b Ha Hb. unfold tclash. rewrite (H a Ha), (H b Hb). simpl. apply Bool.andb_false_r.
Qed.

(* ------------------------------------------------------------------ streams that concatenate *)
Definition sVS (ss : list string) : stream val := map (fun a => Val (VS a)) ss.
Definition sVM (ms : list amap) : stream val := map (fun a => Val (VM a)) ms.

(* value of a stream of maps *)
Definition mval (ms : list amap) : amap :=
  match ms with
  | [m] => m
  | _ => ins_all (List.concat ms) []
  end.

(* ... if no two chunks hold values of different types under one key *)
Definition mok (ms : list amap) : bool :=
  match ms with
  | [m] => true
  | _ => mcons (ins_all (List.concat ms) [])
  end.

Lemma vals_of_map {X} (xs : list X) : vals_of (map Val xs) = Ok xs.
Proof. induction xs; simpl; auto. rewrite IHxs. reflexivity. Qed.

Lemma vals_of_ok {X} (s : stream X) xs : vals_of s = Ok xs -> s = map Val xs.
Proof.
  revert xs. induction s as [|[x|e] s IH]; simpl; intros xs H.
  - inversion H. reflexivity.
  - destruct (vals_of s); simpl in H; try discriminate. inversion H. rewrite (IH _ eq_refl). reflexivity.
  - discriminate.
Qed.

Lemma vals_of_bad {X} (s : stream X) e : In (Bad e) s -> failed (vals_of s).
Proof.
  induction s as [|[x|e'] s IH]; simpl; intros H.
  - contradiction.
  - destruct H as [H|H]; [discriminate|]. apply failed_bind, IH, H.
  - apply failed_Err.
Qed.

Lemma vals_of_nobad {X} (s : stream X) : ~ has_bad s -> exists xs, s = map Val xs.
Proof.
  induction s as [|[x|e] s IH]; intros H.
  - exists []. reflexivity.
  - destruct IH as (xs & ->).
    + intros (e & He). apply H. exists e. right. exact He.
    + exists (x :: xs). reflexivity.
  - exfalso. apply H. exists e. left. reflexivity.
Qed.

Lemma has_bad_dec {X} (s : stream X) : has_bad s \/ ~ has_bad s.
Proof.
  induction s as [|[x|e] s IH].
  - right. intros (e & []).
  - destruct IH as [(e & He)|Hn]; [left; exists e; right; exact He|].
    right. intros (e & [He|He]); [discriminate|]. apply Hn. exists e. exact He.
  - left. exists e. left. reflexivity.
Qed.

Lemma all_str_map ss : all_str (map VS ss) = Some ss.
Proof. induction ss; simpl; auto. rewrite IHss. reflexivity. Qed.
Lemma all_map_map ms : all_map (map VM ms) = Some ms.
Proof. induction ms; simpl; auto. rewrite IHms. reflexivity. Qed.

Lemma all_str_some xs ss : all_str xs = Some ss -> xs = map VS ss.
Proof.
  revert ss. induction xs as [|[s|m] xs IH]; simpl; intros ss H; try discriminate.
  - inversion H; reflexivity.
  - destruct (all_str xs); try discriminate. inversion H. rewrite (IH _ eq_refl). reflexivity.
Qed.
Lemma all_map_some xs ms : all_map xs = Some ms -> xs = map VM ms.
Proof.
  revert ms. induction xs as [|[s|m] xs IH]; simpl; intros ms H; try discriminate.
  - inversion H; reflexivity.
  - destruct (all_map xs); try discriminate. inversion H. rewrite (IH _ eq_refl). reflexivity.
Qed.

Lemma vconcat_VS ss : ss <> [] -> vconcat (map VS ss) = Ok (VS (concat_strings ss)).
Proof.
  destruct ss as [|a ss]; [congruence|]. intros _.
  change (map VS (a :: ss)) with (VS a :: map VS ss). unfold vconcat.
  change (VS a :: map VS ss) with (map VS (a :: ss)). rewrite all_str_map. reflexivity.
Qed.
Lemma vconcat_VM ms : ms <> [] ->
  vconcat (map VM ms) = if mcons (ins_all (List.concat ms) []) then Ok (VM (ins_all (List.concat ms) [])) else Err e_type.
Proof.
  destruct ms as [|a ms]; [congruence|]. intros _.
  change (map VM (a :: ms)) with (VM a :: map VM ms). unfold vconcat.
  change (VM a :: map VM ms) with (map VM (a :: ms)). rewrite all_map_map. reflexivity.
Qed.

(* a chunk list that concatenates is homogeneous *)
Lemma vconcat_ok xs v : vconcat xs = Ok v ->
  (exists ss, ss <> [] /\ xs = map VS ss /\ v = VS (concat_strings ss)) \/
  (exists ms, ms <> [] /\ xs = map VM ms /\ v = VM (ins_all (List.concat ms) [])
              /\ mcons (ins_all (List.concat ms) []) = true).
Proof.
  destruct xs as [|[s|m] xs]; simpl; intros H; try discriminate.
  - left. destruct (all_str xs) as [ss|] eqn:E; try discriminate.
    exists (s :: ss). split; [congruence|]. apply all_str_some in E. subst. inversion H. auto.
  - right. destruct (all_map xs) as [ms|] eqn:E; try discriminate.
    apply all_map_some in E. subst.
    change (ins_all (m ++ List.concat ms) []) with (ins_all (List.concat (m :: ms)) []) in H.
    destruct (mcons (ins_all (List.concat (m :: ms)) [])) eqn:Ec; try discriminate.
    exists (m :: ms). split; [congruence|]. inversion H. auto.
Qed.

Lemma sVS_vals ss : sVS ss = map Val (map VS ss).
Proof. unfold sVS. rewrite map_map. reflexivity. Qed.
Lemma sVM_vals ms : sVM ms = map Val (map VM ms).
Proof. unfold sVM. rewrite map_map. reflexivity. Qed.

Lemma vsconcat_sVS ss : ss <> [] -> vsconcat (sVS ss) = Ok (VS (concat_strings ss)).
Proof.
  intros H. unfold vsconcat, sconcat. rewrite sVS_vals, vals_of_map. simpl.
  destruct ss as [|a [|b ss]]; [congruence| |].
  - simpl. unfold concat_strings. simpl. rewrite app_nil_r_s. reflexivity.
  - change (VS a :: VS b :: map VS ss) with (map VS (a :: b :: ss)). apply vconcat_VS. congruence.
Qed.

Lemma vsconcat_sVM ms : ms <> [] ->
  vsconcat (sVM ms) = if mok ms then Ok (VM (mval ms)) else Err e_type.
Proof.
  intros H. unfold vsconcat, sconcat. rewrite sVM_vals, vals_of_map. simpl.
  destruct ms as [|a [|b ms]]; [congruence| |].
  - reflexivity.
  - change (VM a :: VM b :: map VM ms) with (map VM (a :: b :: ms)). rewrite vconcat_VM by congruence.
    reflexivity.
Qed.

Lemma vsconcat_sVM_ok ms : ms <> [] -> mok ms = true -> vsconcat (sVM ms) = Ok (VM (mval ms)).
Proof. intros H Hk. rewrite vsconcat_sVM, Hk; auto. Qed.

Lemma vsconcat_ok s v : vsconcat s = Ok v ->
  (exists ss, ss <> [] /\ s = sVS ss /\ v = VS (concat_strings ss)) \/
  (exists ms, ms <> [] /\ s = sVM ms /\ v = VM (mval ms) /\ mok ms = true).
Proof.
  unfold vsconcat, sconcat. intros H.
  destruct (vals_of s) as [xs| |] eqn:E; simpl in H; try discriminate.
  apply vals_of_ok in E. subst s.
  destruct xs as [|x [|y xs]]; try discriminate.
  - inversion H; subst. destruct v as [a|m].
    + left. exists [a]. split; [congruence|]. split; auto.
      unfold concat_strings. simpl. rewrite app_nil_r_s. reflexivity.
    + right. exists [m]. split; [congruence|]. auto.
  - apply vconcat_ok in H as [(ss & Hn & E & ->)|(ms & Hn & E & -> & Hc)].
    + left. exists ss. rewrite E, <- sVS_vals. auto.
    + right. exists ms. rewrite E, <- sVM_vals. split; auto. split; auto.
      destruct ms as [|a [|b ms]]; try discriminate. split; [reflexivity|exact Hc].
Qed.

Lemma in_sVS it ss : In it (sVS ss) -> exists a, it = Val (VS a).
Proof. unfold sVS. rewrite in_map_iff. intros (a & <- & _). eauto. Qed.
Lemma in_sVM it ms : In it (sVM ms) -> exists a, it = Val (VM a).
Proof. unfold sVM. rewrite in_map_iff. intros (a & <- & _). eauto. Qed.

Lemma sVS_inv s : (forall it, In it s -> exists a, it = Val (VS a)) -> exists ss, s = sVS ss.
Proof.
  induction s as [|it s IH]; intros H.
  - exists []. reflexivity.
  - destruct (H it (or_introl eq_refl)) as (a & ->).
    destruct IH as (ss & ->); [intros; apply H; right; auto|]. exists (a :: ss). reflexivity.
Qed.
Lemma sVM_inv s : (forall it, In it s -> exists a, it = Val (VM a)) -> exists ms, s = sVM ms.
Proof.
  induction s as [|it s IH]; intros H.
  - exists []. reflexivity.
  - destruct (H it (or_introl eq_refl)) as (a & ->).
    destruct IH as (ms & ->); [intros; apply H; right; auto|]. exists (a :: ms). reflexivity.
Qed.

Lemma failed_Panic {X} : failed (@Panic X).
Proof. intros x; discriminate. Qed.

Lemma failed_of_not_ok {X} (r : res X) : (forall v, r <> Ok v) -> failed r.
Proof. auto. Qed.

(* ------------------------------------------------------------------ sound streams *)
Lemma vsconcat_bad s : has_bad s -> failed (vsconcat s).
Proof. intros (e & H). unfold vsconcat, sconcat. apply failed_bind. eapply vals_of_bad; eauto. Qed.

Lemma sound_cases s : sound s ->
  has_bad s \/ (exists ss, ss <> [] /\ s = sVS ss) \/ (exists ms, ms <> [] /\ s = sVM ms /\ mok ms = true).
Proof.
  intros [H|(v & H)]; auto. right.
  apply vsconcat_ok in H as [(ss & Hn & -> & _)|(ms & Hn & -> & _ & Hk)]; [left|right]; eauto.
Qed.

Lemma sound_ok s v : vsconcat s = Ok v -> sound s.
Proof. intros H. right. eauto. Qed.

Lemma sound_bad s : has_bad s -> sound s.
Proof. intros H. left. exact H. Qed.

Lemma sound_box x : sound (box x).
Proof. right. exists x. reflexivity. Qed.

(* what an item-wise operation does to the error items *)
Lemma has_bad_map (g : item val -> item val) s :
  (forall e, g (Bad e) = Bad e) -> has_bad s -> has_bad (map g s).
Proof. intros Hg (e & H). exists e. rewrite <- (Hg e). apply in_map, H. Qed.

(* ------------------------------------------------------------------ copy *)
(* copyItem: every copy concatenates to what the original concatenates to *)
Lemma concat_copy_lem n s : forall c, In c (s_copy n s) -> vsconcat c = vsconcat s.
Proof. intros c H. apply repeat_spec in H. subst. reflexivity. Qed.

Lemma copy_length n s : List.length (s_copy n s) = n.
Proof. apply repeat_length. Qed.

(* ------------------------------------------------------------------ output key *)
Definition nk (k : N) (key : tkey) : tkey := (k, KSub (fst key) (snd key)).

Lemma nestk_fst k e : fst (nestk k e) = nk k (fst e).
Proof. reflexivity. Qed.

(* putting keys under k keeps their order *)
Lemma tcmp_nk k a b : tcmp (nk k a) (nk k b) = tcmp a b.
Proof. unfold tcmp, nk. simpl. rewrite N.compare_refl. reflexivity. Qed.

Lemma tltb_nk k a b : tltb (nk k a) (nk k b) = tltb a b.
Proof. unfold tltb. rewrite tcmp_nk. reflexivity. Qed.
Lemma teqb_nk k a b : teqb (nk k a) (nk k b) = teqb a b.
Proof. unfold teqb. rewrite tcmp_nk. reflexivity. Qed.

Lemma ins_nestk k key v acc :
  ins (nk k key) v (map (nestk k) acc) = map (nestk k) (ins key v acc).
Proof.
  induction acc as [|[k2 v2] acc IH]; [reflexivity|].
  cbn [map ins]. unfold nestk at 1 2. cbn [fst snd].
  change (k, KSub (fst k2) (snd k2)) with (nk k k2).
  rewrite tltb_nk, teqb_nk.
  destruct (tltb key k2); [reflexivity|]. destruct (teqb key k2); [reflexivity|].
  cbn [map]. rewrite IH. reflexivity.
Qed.

Lemma tcmp_marker k key : tcmp (k, KMap) (nk k key) = Lt.
Proof. unfold tcmp, nk. simpl. rewrite N.compare_refl. reflexivity. Qed.

Lemma ins_nest k key v acc : ins (nk k key) v (nest k acc) = nest k (ins key v acc).
Proof.
  unfold nest. cbn [ins]. unfold tltb, teqb. rewrite (tcmp_antisym (k, KMap) (nk k key)), tcmp_marker.
  cbn [CompOpp]. rewrite ins_nestk. reflexivity.
Qed.

Lemma ins_marker k acc : ins (k, KMap) EmptyString (nest k acc) = nest k acc.
Proof. unfold nest. cbn [ins]. rewrite tltb_irrefl, teqb_refl. reflexivity. Qed.

Lemma ins_all_nestk k m acc : ins_all (map (nestk k) m) (nest k acc) = nest k (ins_all m acc).
Proof.
  revert acc. induction m as [|[key v] m IH]; intros acc; [reflexivity|].
  cbn [map]. rewrite !ins_all_cons. cbn [fst snd]. change (fst (nestk k (key, v))) with (nk k key).
  rewrite ins_nest. apply IH.
Qed.

Lemma ins_all_nest k m acc : ins_all (nest k m) (nest k acc) = nest k (ins_all m acc).
Proof. unfold nest at 1. rewrite ins_all_cons. cbn [fst snd]. rewrite ins_marker. apply ins_all_nestk. Qed.

Lemma ins_all_nest0 k m : ins_all (nest k m) [] = nest k (ins_all m []).
Proof.
  unfold nest at 1. rewrite ins_all_cons. cbn [fst snd ins].
  change [((k, KMap), EmptyString)] with (nest k []). apply ins_all_nestk.
Qed.

Lemma ins_all_concat_nest k ms acc :
  ins_all (List.concat (map (nest k) ms)) (nest k acc) = nest k (ins_all (List.concat ms) acc).
Proof.
  revert acc. induction ms as [|m ms IH]; intros acc; [reflexivity|].
  cbn [map List.concat]. rewrite !ins_all_app, ins_all_nest. apply IH.
Qed.

Lemma ins_all_concat_nest0 k ms : ms <> [] ->
  ins_all (List.concat (map (nest k) ms)) [] = nest k (ins_all (List.concat ms) []).
Proof.
  destruct ms as [|m ms]; [congruence|]. intros _.
  cbn [map List.concat]. rewrite !ins_all_app, ins_all_nest0. apply ins_all_concat_nest.
Qed.

Lemma tclash_nk k a b : tclash (nk k a) (nk k b) = tclash a b.
Proof. unfold tclash, nk. simpl. rewrite N.eqb_refl. reflexivity. Qed.

Lemma mkeys_nest k m : mkeys (nest k m) = (k, KMap) :: map (nk k) (mkeys m).
Proof. unfold nest, mkeys. cbn [map fst]. rewrite !map_map. reflexivity. Qed.

Lemma mcons_nest k m : mcons (nest k m) = mcons m.
Proof.
  apply Bool.eq_iff_eq_true. rewrite !mcons_spec, mkeys_nest. split; intros H a b Ha Hb.
  - rewrite <- (tclash_nk k). apply H; right; apply in_map; auto.
  - destruct Ha as [<-|Ha], Hb as [<-|Hb].
    + unfold tclash. simpl. apply Bool.andb_false_r.
    + apply in_map_iff in Hb as (b' & <- & _). unfold tclash, nk. simpl. apply Bool.andb_false_r.
    + apply in_map_iff in Ha as (a' & <- & _). unfold tclash, nk. simpl. apply Bool.andb_false_r.
    + apply in_map_iff in Ha as (a' & <- & Ha). apply in_map_iff in Hb as (b' & <- & Hb).
      rewrite tclash_nk. apply H; auto.
Qed.

Lemma mval_nest k ms : ms <> [] -> mval (map (nest k) ms) = nest k (mval ms).
Proof.
  destruct ms as [|a [|b ms]]; intros H; [congruence|reflexivity|].
  unfold mval. cbn [map]. apply (ins_all_concat_nest0 k (a :: b :: ms)). discriminate.
Qed.

Lemma mok_nest k ms : ms <> [] -> mok (map (nest k) ms) = mok ms.
Proof.
  destruct ms as [|a [|b ms]]; intros H; [congruence|reflexivity|].
  change (mok (map (nest k) (a :: b :: ms)))
    with (mcons (ins_all (List.concat (map (nest k) (a :: b :: ms))) [])).
  rewrite (ins_all_concat_nest0 k (a :: b :: ms)) by discriminate.
  apply mcons_nest.
Qed.

Lemma withKey_sVS k ss : s_withKey k (sVS ss) = sVM (map (fun a => [(kstr k, a)]) ss).
Proof. unfold s_withKey, sVS, sVM. rewrite !map_map. reflexivity. Qed.

Lemma withKey_sVM k ms : s_withKey k (sVM ms) = sVM (map (nest k) ms).
Proof. unfold s_withKey, sVM. rewrite !map_map. reflexivity. Qed.

Lemma ins_all_same_key (k : tkey) (ss : list string) (acc : string) :
  ins_all (map (fun a => (k, a)) ss) [(k, acc)] = [(k, String.append acc (concat_strings ss))].
Proof.
  revert acc. induction ss as [|a ss IH]; intros acc.
  - unfold concat_strings. simpl. rewrite app_nil_r_s. reflexivity.
  - simpl map. rewrite ins_all_cons. simpl. rewrite tltb_irrefl, teqb_refl, IH.
    unfold concat_strings. simpl. rewrite app_assoc_s. reflexivity.
Qed.

Lemma concat_singletons (k : tkey) (ss : list string) : List.concat (map (fun a => [(k, a)]) ss) = map (fun a => (k, a)) ss.
Proof. induction ss; simpl; congruence. Qed.

Lemma mval_withKey (k : tkey) (ss : list string) : ss <> [] -> mval (map (fun a => [(k, a)]) ss) = [(k, concat_strings ss)].
Proof.
  intros H. destruct ss as [|a [|b ss]]; [congruence| |].
  - unfold concat_strings. simpl. rewrite app_nil_r_s. reflexivity.
  - unfold mval. change (map (fun a0 => [(k, a0)]) (a :: b :: ss))
      with ([(k, a)] :: [(k, b)] :: map (fun a0 => [(k, a0)]) ss).
    change ([(k, a)] :: [(k, b)] :: map (fun a0 => [(k, a0)]) ss)
      with (map (fun a0 => [(k, a0)]) (a :: b :: ss)).
    rewrite concat_singletons. simpl map. rewrite ins_all_cons. simpl fst; simpl snd.
    change (ins k a []) with [(k, a)].
    change ((k, b) :: map (fun a0 => (k, a0)) ss) with (map (fun a0 => (k, a0)) (b :: ss)).
    rewrite ins_all_same_key. unfold concat_strings. reflexivity.
Qed.

Lemma mcons_single k v : mcons [(k, v)] = true.
Proof.
  apply mcons_spec. intros a b [<-|[]] [<-|[]]. unfold tclash. rewrite clash_irrefl. apply Bool.andb_false_r.
Qed.

Lemma mok_withKey (k : tkey) (ss : list string) : ss <> [] -> mok (map (fun a => [(k, a)]) ss) = true.
Proof.
  intros H. destruct ss as [|a [|b ss]]; [congruence|reflexivity|].
  assert (E : mval (map (fun a0 => [(k, a0)]) (a :: b :: ss)) = [(k, concat_strings (a :: b :: ss))])
    by (apply mval_withKey; discriminate).
  unfold mval in E. unfold mok. cbn [map] in *. rewrite E. apply mcons_single.
Qed.

Lemma withKey_nonnil k s : s <> [] -> s_withKey k s <> [].
Proof. destruct s; simpl; congruence. Qed.

Lemma withKey_bad k s : has_bad s -> has_bad (s_withKey k s).
Proof. apply has_bad_map. reflexivity. Qed.

Theorem concat_withKey_lem k s : s <> [] -> sound s ->
  agree (vsconcat (s_withKey k s)) (res_bind (vsconcat s) (v_withKey k)) /\ sound (s_withKey k s).
Proof.
  intros Hn Hs. apply sound_cases in Hs as [Hb|[(ss & Hss & ->)|(ms & Hms & -> & Hk)]].
  - split; [|apply sound_bad, withKey_bad, Hb].
    apply agree_failed; [apply vsconcat_bad, withKey_bad, Hb|apply failed_bind, vsconcat_bad, Hb].
  - assert (Hm : map (fun a => [(kstr k, a)]) ss <> []) by (destruct ss; [congruence|discriminate]).
    assert (E : vsconcat (s_withKey k (sVS ss)) = Ok (VM [(kstr k, concat_strings ss)])).
    { rewrite withKey_sVS, vsconcat_sVM_ok; auto; [rewrite mval_withKey; auto|apply mok_withKey; auto]. }
    split; [|eapply sound_ok; eauto]. rewrite E, vsconcat_sVS by exact Hss. reflexivity.
  - assert (Hm : map (nest k) ms <> []) by (destruct ms; [congruence|discriminate]).
    assert (E : vsconcat (s_withKey k (sVM ms)) = Ok (VM (nest k (mval ms)))).
    { rewrite withKey_sVM, vsconcat_sVM_ok; auto; [rewrite mval_nest; auto|rewrite mok_nest; auto]. }
    split; [|eapply sound_ok; eauto]. rewrite E, vsconcat_sVM_ok by auto. reflexivity.
Qed.

(* ------------------------------------------------------------------ input key *)
Definition ol {X} (o : option X) : list X := match o with Some x => [x] | None => [] end.

(* the key below k, if this key lies below k *)
Definition sub_key (k : N) (key : tkey) : option tkey :=
  match key with
  | (k', KSub a r) => if N.eqb k k' then Some (a, r) else None
  | _ => None
  end.

Lemma sub_of_eq k e : sub_of k e = match sub_key k (fst e) with Some key' => [(key', snd e)] | None => [] end.
Proof.
  destruct e as [[k' [| |a r]] v]; unfold sub_of, sub_key; cbn [fst snd]; auto.
  destruct (N.eqb k k'); reflexivity.
Qed.

Lemma sub_key_some k key key' : sub_key k key = Some key' <-> key = nk k key'.
Proof.
  destruct key as [k' [| |a r]], key' as [a' r']; unfold nk; simpl; split; intros H; try discriminate;
    try (inversion H; fail).
  - destruct (N.eqb_spec k k'); [|discriminate]. inversion H. subst. reflexivity.
  - inversion H. subst. rewrite N.eqb_refl. reflexivity.
Qed.

Lemma sub_key_nk k key : sub_key k (nk k key) = Some key.
Proof. apply sub_key_some. reflexivity. Qed.

Lemma unnest_app k a b : unnest k (a ++ b) = unnest k a ++ unnest k b.
Proof. unfold unnest. apply flat_map_app. Qed.

Lemma unnest_concat k ms : unnest k (List.concat ms) = List.concat (map (unnest k) ms).
Proof. induction ms as [|m ms IH]; [reflexivity|]. simpl. rewrite unnest_app, IH. reflexivity. Qed.

Lemma unnest_keys k m key : In key (mkeys (unnest k m)) <-> In (nk k key) (mkeys m).
Proof.
  induction m as [|[k2 v2] m IH]; simpl; [intuition|].
  unfold unnest in *. cbn [flat_map]. unfold mkeys in *. rewrite map_app, in_app_iff, IH.
  rewrite sub_of_eq. cbn [fst snd].
  destruct (sub_key k k2) as [key2|] eqn:E.
  - apply sub_key_some in E. subst k2. simpl. split.
    + intros [[<-|[]]|H]; auto.
    + intros [H|H]; auto. left. left.
      unfold nk in H. inversion H. destruct key2, key. simpl in *. congruence.
  - simpl. split; [intros [[]|H]; auto|].
    intros [H|H]; auto. exfalso. subst k2. rewrite sub_key_nk in E. discriminate.
Qed.

Lemma hd_has_spec k m : hd_has k m = true <-> exists key, In key (mkeys m) /\ fst key = k.
Proof.
  unfold hd_has. rewrite existsb_exists. split.
  - intros ([key v] & Hin & E). apply N.eqb_eq in E. exists key. split; auto.
    unfold mkeys. apply in_map_iff. exists (key, v). auto.
  - intros (key & Hin & E). unfold mkeys in Hin. apply in_map_iff in Hin as ([key' v] & <- & Hin).
    exists (key', v). split; auto. apply N.eqb_eq. simpl in *. auto.
Qed.

Lemma hd_has_false k m : hd_has k m = false <-> forall key, In key (mkeys m) -> fst key <> k.
Proof.
  split.
  - intros H key Hin E. assert (hd_has k m = true) by (apply hd_has_spec; eauto). congruence.
  - intros H. destruct (hd_has k m) eqn:E; auto. apply hd_has_spec in E as (key & Hin & Ek).
    exfalso. eapply H; eauto.
Qed.

Lemma unnest_nil k m : hd_has k m = false -> unnest k m = [].
Proof.
  intros H. destruct (unnest k m) as [|[key v] u] eqn:E; auto. exfalso.
  assert (Hin : In key (mkeys (unnest k m))) by (rewrite E; left; reflexivity).
  apply unnest_keys in Hin. rewrite hd_has_false in H. apply (H _ Hin). reflexivity.
Qed.

Lemma hd_has_app k a b : hd_has k (a ++ b) = hd_has k a || hd_has k b.
Proof. unfold hd_has. apply existsb_app. Qed.

Lemma hd_has_keys k a b : (forall key, In key (mkeys a) <-> In key (mkeys b)) -> hd_has k a = hd_has k b.
Proof.
  intros H. apply Bool.eq_iff_eq_true. rewrite !hd_has_spec.
  split; intros (key & Hin & E); exists key; split; auto; apply H; auto.
Qed.

(* the sub-map commutes with insertion into a sorted map *)
Lemma unnest_ins k key v acc : sorted acc ->
  unnest k (ins key v acc) =
  match sub_key k key with
  | Some key' => ins key' v (unnest k acc)
  | None => unnest k acc
  end.
Proof.
  induction 1 as [|k2 v2 acc Hs IH Hlt].
  - simpl. unfold unnest. cbn [flat_map]. rewrite sub_of_eq. cbn [fst snd].
    destruct (sub_key k key); reflexivity.
  - cbn [ins]. destruct (tltb_spec key k2) as [Hk|Hk].
    + (* in front *)
      change (unnest k ((key, v) :: (k2, v2) :: acc)) with (sub_of k (key, v) ++ unnest k ((k2, v2) :: acc)).
      rewrite sub_of_eq. cbn [fst snd]. destruct (sub_key k key) as [key'|] eqn:E; [|reflexivity].
      apply sub_key_some in E. subst key.
      rewrite ins_first; [reflexivity|].
      intros k' Hk'. apply unnest_keys in Hk'. unfold tlt. rewrite <- (tcmp_nk k).
      destruct Hk' as [<-|Hk']; [exact Hk|].
      apply (tlt_trans _ k2); [exact Hk|]. apply Hlt, Hk'.
    + destruct (teqb_spec key k2) as [->|Hne].
      * (* same key *)
        change (unnest k ((k2, String.append v2 v) :: acc)) with (sub_of k (k2, String.append v2 v) ++ unnest k acc).
        change (unnest k ((k2, v2) :: acc)) with (sub_of k (k2, v2) ++ unnest k acc).
        rewrite !sub_of_eq. cbn [fst snd]. destruct (sub_key k k2) as [key'|]; [|reflexivity].
        cbn [app ins]. rewrite tltb_irrefl, teqb_refl. reflexivity.
      * (* further on *)
        change (unnest k ((k2, v2) :: ins key v acc)) with (sub_of k (k2, v2) ++ unnest k (ins key v acc)).
        change (unnest k ((k2, v2) :: acc)) with (sub_of k (k2, v2) ++ unnest k acc).
        rewrite IH. destruct (sub_key k key) as [key'|] eqn:E; [|reflexivity].
        rewrite sub_of_eq. cbn [fst snd]. destruct (sub_key k k2) as [key2|] eqn:E2; [|reflexivity].
        apply sub_key_some in E, E2. subst key k2. cbn [app ins].
        assert (Hlt2 : tlt key2 key').
        { unfold tlt. rewrite <- (tcmp_nk k). tord. }
        destruct (tltb_spec key' key2); [tord|]. destruct (teqb_spec key' key2); [tord|]. reflexivity.
Qed.

Lemma unnest_sorted k m : sorted m -> sorted (unnest k m).
Proof.
  induction 1 as [|k2 v2 m Hs IH Hlt]; [constructor|].
  change (unnest k ((k2, v2) :: m)) with (sub_of k (k2, v2) ++ unnest k m).
  rewrite sub_of_eq. cbn [fst snd]. destruct (sub_key k k2) as [key2|] eqn:E; [|exact IH].
  apply sub_key_some in E. subst k2. cbn [app]. constructor; auto.
  intros k' Hk'. apply unnest_keys in Hk'. unfold tlt. rewrite <- (tcmp_nk k). apply Hlt, Hk'.
Qed.

Lemma unnest_ins_all k es acc : sorted acc ->
  unnest k (ins_all es acc) = ins_all (unnest k es) (unnest k acc).
Proof.
  revert acc. induction es as [|[key v] es IH]; intros acc Hs; [reflexivity|].
  rewrite ins_all_cons. cbn [fst snd]. rewrite IH by (apply sorted_ins, Hs).
  rewrite unnest_ins by exact Hs.
  change (unnest k ((key, v) :: es)) with (sub_of k (key, v) ++ unnest k es).
  rewrite sub_of_eq. cbn [fst snd]. destruct (sub_key k key); reflexivity.
Qed.

Lemma unnest_ins_all0 k es : unnest k (ins_all es []) = ins_all (unnest k es) [].
Proof. apply (unnest_ins_all k es []). constructor. Qed.

(* chunks canonicalised one by one, then concatenated = raw entries concatenated *)
Lemma concat_canon raws acc :
  ins_all (List.concat (map (fun r => ins_all r []) raws)) acc = ins_all (List.concat raws) acc.
Proof.
  revert acc. induction raws as [|r raws IH]; intros acc; [reflexivity|].
  cbn [map List.concat]. rewrite !ins_all_app, ins_all_canon0. apply IH.
Qed.

Lemma mval_canon raws : raws <> [] ->
  mval (map (fun r => ins_all r []) raws) = ins_all (List.concat raws) [].
Proof.
  destruct raws as [|a [|b raws]]; intros H; [congruence| |].
  - simpl. rewrite app_nil_r. reflexivity.
  - unfold mval. cbn [map]. apply (concat_canon (a :: b :: raws)).
Qed.

Lemma mval_keys k cs : In k (mkeys (mval cs)) <-> In k (mkeys (List.concat cs)).
Proof.
  destruct cs as [|a [|b cs]].
  - simpl. intuition.
  - simpl. rewrite app_nil_r. intuition.
  - unfold mval. rewrite keys_ins_all. simpl. intuition.
Qed.

Lemma mval_ins cs acc : ins_all (mval cs) acc = ins_all (List.concat cs) acc.
Proof.
  destruct cs as [|a [|b cs]].
  - reflexivity.
  - simpl. rewrite app_nil_r. reflexivity.
  - unfold mval. apply ins_all_canon0.
Qed.

Lemma mhas_mval a ms : mhas a (mval ms) = mhas a (List.concat ms).
Proof.
  destruct (mhas a (List.concat ms)) eqn:E.
  - apply mhas_in, mval_keys, mhas_in, E.
  - apply mhas_notin. intros H. apply mval_keys, mhas_in in H. congruence.
Qed.

Lemma mgather_mval a ms : mgather a (mval ms) = mgather a (List.concat ms).
Proof.
  destruct ms as [|x [|y ms]]; [reflexivity| |].
  - simpl. rewrite app_nil_r. reflexivity.
  - unfold mval. rewrite mgather_ins_all by constructor. reflexivity.
Qed.

Lemma hd_has_mval k ms : hd_has k (mval ms) = hd_has k (List.concat ms).
Proof. apply hd_has_keys. intros key. apply mval_keys. Qed.

Lemma mhas_concat_false a ms : mhas a (List.concat ms) = false <-> forall m, In m ms -> mhas a m = false.
Proof.
  induction ms as [|m ms IH]; simpl.
  - split; auto. intros _ ? [].
  - rewrite mhas_app, Bool.orb_false_iff, IH. split.
    + intros (H1 & H2) x [<-|Hx]; auto.
    + intros H. split; [apply H; auto|intros x Hx; apply H; auto].
Qed.

Lemma hd_has_concat k ms : hd_has k (List.concat ms) = existsb (hd_has k) ms.
Proof. induction ms as [|m ms IH]; [reflexivity|]. simpl. rewrite hd_has_app, IH. reflexivity. Qed.

(* the entries below k of all chunks = those of the chunks that have something below k *)
Lemma unnest_filter k ms :
  unnest k (List.concat ms) = unnest k (List.concat (filter (hd_has k) ms)).
Proof.
  induction ms as [|m ms IH]; [reflexivity|]. cbn [filter List.concat].
  destruct (hd_has k m) eqn:E.
  - cbn [List.concat]. rewrite !unnest_app, IH. reflexivity.
  - rewrite unnest_app, IH, (unnest_nil k m E). reflexivity.
Qed.

Lemma keyFilter_sVM k ms :
  s_keyFilter k (sVM ms) = map Val (flat_map (fun m => ol (m_get k m)) ms).
Proof.
  unfold s_keyFilter, sVM. induction ms as [|m ms IH]; simpl; auto.
  rewrite IH, map_app. destruct (m_get k m); reflexivity.
Qed.

Lemma lookups_concat k ms :
  concat_strings (flat_map (fun m => ol (mlookup k m)) ms) = mgather k (List.concat ms).
Proof.
  induction ms as [|m ms IH]; simpl; auto.
  rewrite concat_strings_app, mgather_app, IH. unfold mlookup.
  destruct (mhas k m) eqn:E; simpl.
  - unfold concat_strings. simpl. rewrite app_nil_r_s. reflexivity.
  - rewrite (mgather_notin k m) by (apply mhas_notin, E). reflexivity.
Qed.

Lemma lookups_nonnil k ms :
  flat_map (fun m => ol (mlookup k m)) ms = [] <-> mhas k (List.concat ms) = false.
Proof.
  induction ms as [|m ms IH]; simpl; [intuition|].
  rewrite mhas_app. unfold mlookup at 1. destruct (mhas k m); simpl.
  - intuition discriminate.
  - exact IH.
Qed.

Lemma keyFilter_bad k s : has_bad s -> has_bad (s_keyFilter k s).
Proof.
  intros (e & H). exists e. unfold s_keyFilter. apply in_flat_map. exists (Bad e). split; auto. left. reflexivity.
Qed.

(* a string under k excludes, in a map without type conflict, anything else under k *)
Lemma str_excludes k m : mcons m = true -> mhas (kstr k) m = true ->
  forall key, In key (mkeys m) -> fst key = k -> key = kstr k.
Proof.
  intros Hc Hh [k' r] Hin E. simpl in E. subst k'. apply mcons_spec in Hc. apply mhas_in in Hh.
  specialize (Hc _ _ Hh Hin). unfold tclash, kstr in Hc. simpl in Hc. rewrite N.eqb_refl in Hc. simpl in Hc.
  destruct r; try discriminate. reflexivity.
Qed.

Lemma Cons_unnest k m : mcons m = true -> mcons (unnest k m) = true.
Proof.
  intros H. apply mcons_spec. apply mcons_spec in H. intros a b Ha Hb.
  apply unnest_keys in Ha, Hb. rewrite <- (tclash_nk k). apply H; auto.
Qed.

Lemma mcons_keys a b : (forall key, In key (mkeys a) <-> In key (mkeys b)) -> mcons a = mcons b.
Proof.
  intros H. apply Bool.eq_iff_eq_true. split; apply mcons_incl; intros key; apply H.
Qed.

Lemma keys_ins_all0 x es : In x (mkeys (ins_all es [])) <-> In x (mkeys es).
Proof. rewrite keys_ins_all. simpl. intuition. Qed.

Lemma mcons_canon es : mcons (ins_all es []) = mcons es.
Proof. apply mcons_keys. intros key. apply keys_ins_all0. Qed.

Lemma keys_concat_in key m ms : In m ms -> In key (mkeys m) -> In key (mkeys (List.concat ms)).
Proof.
  intros Hm Hk. unfold mkeys in *. apply in_map_iff in Hk as (e & <- & He).
  apply in_map. apply in_concat. exists m. auto.
Qed.

Theorem concat_keyFilter_lem k s : s <> [] -> sound s ->
  (forall m, vsconcat s = Ok (VM m) -> m_get k m <> None) ->
  agree (vsconcat (s_keyFilter k s)) (res_bind (vsconcat s) (v_getKey k))
  /\ s_keyFilter k s <> [] /\ sound (s_keyFilter k s).
Proof.
  intros Hn Hs Hk. apply sound_cases in Hs as [Hb|[(ss & Hss & ->)|(ms & Hms & -> & Hok)]].
  - (* an error item *)
    pose proof (keyFilter_bad k s Hb) as Hb'. split; [|split].
    + apply agree_failed; [apply vsconcat_bad, Hb'|apply failed_bind, vsconcat_bad, Hb].
    + destruct Hb' as (e & He). intros E. rewrite E in He. contradiction.
    + apply sound_bad, Hb'.
  - (* strings: a type error in both forms *)
    destruct ss as [|a ss]; [congruence|].
    assert (Hb' : has_bad (s_keyFilter k (sVS (a :: ss)))) by (exists e_type; left; reflexivity).
    split; [|split].
    + rewrite vsconcat_sVS by discriminate. apply agree_failed; [apply vsconcat_bad, Hb'|apply failed_Err].
    + discriminate.
    + apply sound_bad, Hb'.
  - (* maps *)
    specialize (Hk (mval ms)). rewrite vsconcat_sVM_ok in Hk by auto. specialize (Hk eq_refl).
    rewrite vsconcat_sVM_ok by auto. cbn [res_bind v_getKey]. rewrite keyFilter_sVM.
    unfold m_get in Hk |- * at 2.
    destruct (mhas (kstr k) (mval ms)) eqn:Eh.
    + (* a string sits under k *)
      assert (Hchunk : forall m, In m ms -> m_get k m = option_map VS (mlookup (kstr k) m)).
      { intros m Hm. unfold m_get, mlookup. destruct (mhas (kstr k) m) eqn:Em; [reflexivity|].
        destruct (hd_has k m) eqn:Ed; [exfalso|reflexivity].
        apply hd_has_spec in Ed as (key & Hin & Ek).
        destruct ms as [|a [|b ms']]; [congruence| |].
        - destruct Hm as [<-|[]]. simpl in Eh. congruence.
        - assert (Hin' : In key (mkeys (mval (a :: b :: ms')))).
          { apply mval_keys. eapply keys_concat_in; eauto. }
          pose proof (str_excludes k _ Hok Eh key Hin' Ek) as ->.
          apply mhas_in in Hin. congruence. }
      assert (Ef : flat_map (fun m => ol (m_get k m)) ms = map VS (flat_map (fun m => ol (mlookup (kstr k) m)) ms)).
      { clear -Hchunk. induction ms as [|m ms IH]; [reflexivity|]. cbn [flat_map].
        rewrite map_app, IH by (intros; apply Hchunk; right; auto).
        rewrite (Hchunk m) by (left; reflexivity). destruct (mlookup (kstr k) m); reflexivity. }
      rewrite Ef, <- sVS_vals.
      rewrite mhas_mval in Eh.
      assert (Hne : flat_map (fun m => ol (mlookup (kstr k) m)) ms <> []).
      { intros E. apply lookups_nonnil in E. congruence. }
      rewrite vsconcat_sVS by exact Hne. rewrite lookups_concat, mgather_mval.
      split; [reflexivity|]. split.
      * unfold sVS. intros E. apply map_eq_nil in E. auto.
      * right. eexists. apply vsconcat_sVS, Hne.
    + (* a map sits under k *)
      destruct (hd_has k (mval ms)) eqn:Ed; [clear Hk|congruence].
      rewrite mhas_mval in Eh. rewrite hd_has_mval, hd_has_concat in Ed.
      assert (Hchunk : forall m, In m ms ->
                m_get k m = if hd_has k m then Some (VM (ins_all (unnest k m) [])) else None).
      { intros m Hm. unfold m_get. rewrite (proj1 (mhas_concat_false _ ms) Eh m Hm). reflexivity. }
      set (ms' := filter (hd_has k) ms).
      assert (Ef : flat_map (fun m => ol (m_get k m)) ms = map VM (map (fun m => ins_all (unnest k m) []) ms')).
      { unfold ms'. clear -Hchunk. induction ms as [|m ms IH]; [reflexivity|]. cbn [flat_map filter].
        rewrite IH by (intros; apply Hchunk; right; auto).
        rewrite (Hchunk m) by (left; reflexivity). destruct (hd_has k m); reflexivity. }
      rewrite Ef, <- sVM_vals.
      assert (Hne' : ms' <> []).
      { unfold ms'. apply existsb_exists in Ed as (m & Hm & Hd). intros E.
        assert (In m (filter (hd_has k) ms)) by (apply filter_In; auto). rewrite E in H. contradiction. }
      set (cs := map (fun m => ins_all (unnest k m) []) ms').
      assert (Hcs : cs <> []) by (unfold cs; destruct ms'; [congruence|discriminate]).
      (* both sides are the canonical form of all the entries below k *)
      assert (Ev : mval cs = ins_all (unnest k (List.concat ms)) []).
      { unfold cs. rewrite <- (map_map (unnest k) (fun r => ins_all r []) ms').
        rewrite mval_canon by (destruct ms'; [congruence|discriminate]).
        rewrite <- unnest_concat. unfold ms'. rewrite <- unnest_filter. reflexivity. }
      assert (Er : ins_all (unnest k (mval ms)) [] = ins_all (unnest k (List.concat ms)) []).
      { destruct ms as [|a [|b ms0]]; [congruence| |].
        - simpl. rewrite app_nil_r. reflexivity.
        - unfold mval. rewrite unnest_ins_all0, ins_all_canon0. reflexivity. }
      assert (Hokc : mok cs = true).
      { unfold cs. destruct ms' as [|a' [|b' ms0']] eqn:Ems'; [congruence|reflexivity|].
        change (mok (map (fun m => ins_all (unnest k m) []) (a' :: b' :: ms0')))
          with (mcons (ins_all (List.concat (map (fun m => ins_all (unnest k m) []) (a' :: b' :: ms0'))) [])).
        rewrite <- (map_map (unnest k) (fun r => ins_all r []) (a' :: b' :: ms0')).
        rewrite concat_canon, <- unnest_concat, <- Ems'. unfold ms'. rewrite <- unnest_filter.
        rewrite mcons_canon.
        destruct ms as [|a [|b ms0]]; [congruence| |].
        - exfalso. unfold ms' in Ems'. simpl in Ems'. destruct (hd_has k a); discriminate.
        - apply Cons_unnest. unfold mok in Hok. rewrite mcons_canon in Hok. exact Hok. }
      rewrite vsconcat_sVM_ok by auto. rewrite Ev, Er.
      split; [reflexivity|]. split.
      * unfold sVM. intros E. apply map_eq_nil in E. auto.
      * right. eexists. apply vsconcat_sVM_ok; auto.
Qed.

(* F-C04b, mechanism: when no chunk carries the key the filtered stream is simply empty
   (no error item), whereas the value form fails *)
Lemma keyFilter_missing k ms : ms <> [] -> mok ms = true -> m_get k (mval ms) = None ->
  s_keyFilter k (sVM ms) = [] /\ res_bind (vsconcat (sVM ms)) (v_getKey k) = Err e_nokey.
Proof.
  intros Hms Hok Hh. split.
  - rewrite keyFilter_sVM. unfold m_get in Hh.
    destruct (mhas (kstr k) (mval ms)) eqn:Eh; [discriminate|].
    destruct (hd_has k (mval ms)) eqn:Ed; [discriminate|].
    rewrite mhas_mval in Eh. rewrite hd_has_mval, hd_has_concat in Ed.
    assert (E : flat_map (fun m => ol (m_get k m)) ms = []).
    { clear Hh Hok Hms. induction ms as [|m ms IH]; [reflexivity|]. cbn [flat_map].
      simpl in Eh, Ed. rewrite mhas_app in Eh. apply Bool.orb_false_iff in Eh as (E1 & E2).
      apply Bool.orb_false_iff in Ed as (D1 & D2).
      rewrite IH by auto. unfold m_get. rewrite E1, D1. reflexivity. }
    rewrite E. reflexivity.
  - rewrite vsconcat_sVM_ok by auto. simpl. rewrite Hh. reflexivity.
Qed.

(* ------------------------------------------------------------------ merge *)
Lemma interleaving_in {X} (ls : list (list X)) t :
  Interleaving ls t -> forall x, In x t -> exists l, In l ls /\ In x l.
Proof.
  induction 1 as [ls H|pre x l post t H IH]; intros y Hy; [contradiction|].
  destruct Hy as [<-|Hy].
  - exists (x :: l). split; [apply in_or_app; right; left; reflexivity|left; reflexivity].
  - destruct (IH _ Hy) as (l' & Hl' & Hy'). apply in_app_or in Hl' as [Hl'|[<-|Hl']].
    + exists l'. split; auto. apply in_or_app; auto.
    + exists (x :: l). split; [apply in_or_app; right; left; reflexivity|right; auto].
    + exists l'. split; auto. apply in_or_app; right; right; auto.
Qed.

Lemma interleaving_in_rev {X} (ls : list (list X)) t :
  Interleaving ls t -> forall l x, In l ls -> In x l -> In x t.
Proof.
  induction 1 as [ls H|pre x l post t H IH]; intros l' y Hl' Hy.
  - rewrite Forall_forall in H. rewrite (H _ Hl') in Hy. contradiction.
  - apply in_app_or in Hl' as [Hl'|[<-|Hl']].
    + right. eapply IH; eauto. apply in_or_app; auto.
    + destruct Hy as [<-|Hy]; [left; reflexivity|right].
      eapply IH; eauto. apply in_or_app; right; left; reflexivity.
    + right. eapply IH; eauto. apply in_or_app; right; right; auto.
Qed.

Lemma concat_all_nil {X} (ls : list (list X)) : Forall (fun l => l = []) ls -> List.concat ls = [].
Proof. induction 1; simpl; auto. subst. auto. Qed.

Lemma interleaving_length {X} (ls : list (list X)) t :
  Interleaving ls t -> List.length t = List.length (List.concat ls).
Proof.
  induction 1 as [ls H|pre x l post t H IH].
  - rewrite concat_all_nil; auto.
  - simpl. rewrite IH, !concat_app, !app_length. simpl. rewrite !app_length. simpl. lia.
Qed.

(* the canonical interleaving: one source after the other *)
Lemma merge_seq_interleaving {X} (ls : list (list X)) : Interleaving ls (merge_seq ls).
Proof.
  unfold merge_seq. induction ls as [|l ls IH]; simpl.
  - constructor. constructor.
  - induction l as [|x l IHl]; simpl.
    + clear -IH. remember (List.concat ls) as t. clear Heqt.
      induction IH as [ls H|pre x l post t H IH'].
      * constructor. constructor; auto.
      * apply (il_cons ([] :: pre)). exact IH'.
    + apply (il_cons [] x l ls). exact IHl.
Qed.

Definition item_entries (it : item val) : amap := match it with Val (VM m) => m | _ => [] end.
Definition entries (s : stream val) : amap := flat_map item_entries s.

Lemma entries_sVM ms : entries (sVM ms) = List.concat ms.
Proof. unfold entries, sVM. induction ms; simpl; congruence. Qed.

Fixpoint pdisj (l : list amap) : Prop :=
  match l with
  | [] => True
  | a :: r => (forall b, In b r -> kdisj a b) /\ pdisj r
  end.

Lemma pdisj_mid l1 a l2 :
  pdisj (l1 ++ a :: l2) <-> pdisj (l1 ++ l2) /\ (forall b, In b (l1 ++ l2) -> kdisj a b).
Proof.
  induction l1 as [|c l1 IH]; simpl.
  - intuition.
  - rewrite IH. split.
    + intros (Hc & Hp & Ha). repeat split; auto.
      * intros b Hb. apply Hc. apply in_app_or in Hb as [Hb|Hb]; apply in_or_app; simpl; auto.
      * intros b [<-|Hb]; auto. apply kdisj_sym, Hc. apply in_or_app; simpl; auto.
    + intros ((Hc & Hp) & Ha). repeat split; auto.
      intros b Hb. apply in_app_or in Hb as [Hb|[<-|Hb]].
      * apply Hc, in_or_app; auto.
      * apply kdisj_sym, Ha. auto.
      * apply Hc, in_or_app; auto.
Qed.

Lemma mkeys_app a b : mkeys (a ++ b) = mkeys a ++ mkeys b.
Proof. unfold mkeys. apply map_app. Qed.

Lemma interleave_entries ls t :
  Interleaving ls t -> pdisj (map entries ls) ->
  forall acc, ins_all (entries t) acc = ins_all (List.concat (map entries ls)) acc.
Proof.
  induction 1 as [ls H|pre x l post t H IH]; intros Hd acc.
  - rewrite concat_all_nil; auto. apply Forall_map. revert H. apply Forall_impl. intros ? ->. reflexivity.
  - rewrite map_app in Hd. simpl map in Hd. apply pdisj_mid in Hd as (Hp & Ha).
    assert (Hd' : pdisj (map entries (pre ++ l :: post))).
    { rewrite map_app. simpl map. apply pdisj_mid. split; auto.
      intros b Hb k Hk. apply (Ha b Hb k). unfold entries. simpl. rewrite mkeys_app.
      apply in_or_app; right; exact Hk. }
    change (entries (x :: t)) with (item_entries x ++ entries t).
    rewrite ins_all_app, (IH Hd').
    rewrite !map_app. simpl map. rewrite !concat_app. simpl List.concat.
    change (entries (x :: l)) with (item_entries x ++ entries l).
    rewrite <- !ins_all_app. rewrite <- !app_assoc.
    rewrite (app_assoc (item_entries x)), (app_assoc (List.concat (map entries pre)) (item_entries x)).
    rewrite !(ins_all_app (_ ++ _)). f_equal. apply ins_all_swap.
    intros k Hk Hk'. unfold mkeys in Hk'. rewrite concat_map in Hk'.
    apply in_concat in Hk' as (ks & Hks & Hk'). rewrite map_map in Hks.
    apply in_map_iff in Hks as (b & <- & Hb).
    refine (Ha (entries b) _ k _ Hk').
    + apply in_or_app; left; apply in_map; exact Hb.
    + rewrite mkeys_app. apply in_or_app; left; exact Hk.
Qed.

(* maps whose top-level keys are disjoint *)
Definition hdisj (a b : amap) : Prop := forall k, In k (mheads a) -> ~ In k (mheads b).

Lemma head_of_key key m : In key (mkeys m) -> In (fst key) (mheads m).
Proof.
  unfold mkeys, mheads. intros H. apply in_map_iff in H as (e & <- & He).
  apply in_map_iff. exists e. auto.
Qed.

Lemma hdisj_kdisj a b : hdisj a b -> kdisj a b.
Proof. intros H key Ha Hb. apply (H (fst key)); apply head_of_key; auto. Qed.

Fixpoint phdisj (l : list amap) : Prop :=
  match l with
  | [] => True
  | a :: r => (forall b, In b r -> hdisj a b) /\ phdisj r
  end.

Lemma phdisj_pdisj l : phdisj l -> pdisj l.
Proof.
  induction l as [|a l IH]; simpl; auto. intros (H & Hp). split; auto.
  intros b Hb. apply hdisj_kdisj, H, Hb.
Qed.

Lemma disjoint_keys_spec seen ms : disjoint_keys seen ms = true ->
  phdisj ms /\ forall m, In m ms -> forall k, In k (mheads m) -> ~ In k seen.
Proof.
  revert seen. induction ms as [|m ms IH]; simpl; intros seen H.
  - split; [exact I|intros ? F; contradiction].
  - apply andb_prop in H as [H1 H2]. destruct (IH _ H2) as (Hp & Hs).
    assert (Hm : forall k, In k (mheads m) -> ~ In k seen).
    { intros k Hk Hin. rewrite forallb_forall in H1. specialize (H1 _ Hk).
      apply Bool.negb_true_iff in H1.
      assert (existsb (N.eqb k) seen = true) by (apply existsb_exists; exists k; split; auto; apply N.eqb_refl).
      congruence. }
    split; [split; auto|].
    + intros b Hb k Hk Hk'. apply (Hs b Hb k Hk'). apply in_or_app; auto.
    + intros m' [<-|Hm'] k Hk; auto. intros Hin. apply (Hs m' Hm' k Hk). apply in_or_app; auto.
Qed.

(* Forall2-free formulation: sources given as chunk-map lists *)
Lemma sources_ins css acc :
  ins_all (List.concat (map mval css)) acc = ins_all (List.concat (map entries (map sVM css))) acc.
Proof.
  revert acc. induction css as [|cs css IH]; intros acc; simpl; auto.
  rewrite !ins_all_app, mval_ins, entries_sVM, IH. reflexivity.
Qed.

Lemma pdisj_map_keys {X} (f g : X -> amap) (l : list X) :
  (forall x k, In k (mkeys (g x)) -> In k (mkeys (f x))) -> pdisj (map f l) -> pdisj (map g l).
Proof.
  intros Hk. induction l as [|x l IH]; simpl; auto.
  intros (Hx & Hp). split; auto.
  intros b Hb k Hkx Hkb. apply in_map_iff in Hb as (y & <- & Hy).
  apply (Hx (f y) (in_map f l y Hy) k); auto.
Qed.

Lemma concat_sVM_length css :
  (forall cs, In cs css -> cs <> []) -> List.length css <= List.length (List.concat (map sVM css)).
Proof.
  induction css as [|cs css IH]; simpl; intros H; auto.
  rewrite app_length. specialize (IH (fun c Hc => H c (or_intror Hc))).
  assert (cs <> []) by (apply H; auto). destruct cs; [congruence|]. simpl. lia.
Qed.

(* no conflict within any of the maps, no top-level key in two of them: no conflict in their union *)
Lemma Cons_union ms : phdisj ms -> (forall m, In m ms -> mcons m = true) -> mcons (List.concat ms) = true.
Proof.
  intros Hp Hc. apply mcons_spec. intros a b Ha Hb.
  unfold mkeys in Ha, Hb. rewrite concat_map in Ha, Hb.
  apply in_concat in Ha as (ka & Hka & Ha). apply in_concat in Hb as (kb & Hkb & Hb).
  apply in_map_iff in Hka as (ma & <- & Hma). apply in_map_iff in Hkb as (mb & <- & Hmb).
  fold (mkeys ma) in Ha. fold (mkeys mb) in Hb.
  assert (Hsame : ma = mb -> tclash a b = false).
  { intros <-. specialize (Hc ma Hma). apply mcons_spec in Hc. apply Hc; auto. }
  assert (Hdiff : hdisj ma mb \/ hdisj mb ma -> tclash a b = false).
  { intros Hd. unfold tclash. destruct (N.eqb_spec (fst a) (fst b)) as [E|]; [|reflexivity]. exfalso.
    destruct Hd as [Hd|Hd].
    - apply (Hd (fst a)); [apply head_of_key, Ha|rewrite E; apply head_of_key, Hb].
    - apply (Hd (fst b)); [apply head_of_key, Hb|rewrite <- E; apply head_of_key, Ha]. }
  clear Hc Ha Hb. induction ms as [|m ms IH]; [contradiction|].
  destruct Hp as (Hm & Hp). destruct Hma as [<-|Hma], Hmb as [<-|Hmb]; auto.
Qed.

Lemma concat_merge_core css t :
  (forall cs, In cs css -> cs <> []) -> 2 <= List.length css ->
  Interleaving (map sVM css) t ->
  disjoint_keys [] (map mval css) = true ->
  forallb mcons (map mval css) = true ->
  vsconcat t = Ok (VM (ins_all (List.concat (map mval css)) [])).
Proof.
  intros Hne Hlen Hil Hd Hc.
  assert (Hall : forall it, In it t -> exists m, it = Val (VM m)).
  { intros it Hit. destruct (interleaving_in _ _ Hil it Hit) as (l & Hl & Hx).
    apply in_map_iff in Hl as (cs & <- & _). eapply in_sVM; eauto. }
  destruct (sVM_inv t Hall) as (tm & ->).
  assert (Hl2 : 2 <= List.length tm).
  { apply interleaving_length in Hil. unfold sVM at 1 in Hil. rewrite map_length in Hil.
    rewrite Hil. pose proof (concat_sVM_length css Hne). lia. }
  apply disjoint_keys_spec in Hd as (Hp & _).
  assert (Emv : mval tm = ins_all (List.concat tm) []).
  { destruct tm as [|a [|b tm]]; simpl in Hl2; try lia. reflexivity. }
  assert (Eall : ins_all (List.concat tm) [] = ins_all (List.concat (map mval css)) []).
  { rewrite <- entries_sVM. rewrite (interleave_entries _ _ Hil).
    - symmetry. apply sources_ins.
    - apply phdisj_pdisj in Hp.
      rewrite map_map. revert Hp. apply pdisj_map_keys.
      intros cs k Hk. rewrite entries_sVM in Hk. apply mval_keys, Hk. }
  assert (Hok : mok tm = true).
  { destruct tm as [|a [|b tm]]; simpl in Hl2; try lia.
    unfold mok. rewrite Eall, mcons_canon. apply Cons_union; auto.
    rewrite forallb_forall in Hc. exact Hc. }
  rewrite vsconcat_sVM_ok; auto; [|destruct tm; [simpl in Hl2; lia|congruence]].
  rewrite Emv, Eall. reflexivity.
Qed.

(* every order-preserving interleaving of map streams whose top-level keys are disjoint
   concatenates to the merge (mergeMap) of the concatenations of the sources *)
Theorem concat_merge_lem ls ms t :
  Forall2 (fun s m => vsconcat s = Ok (VM m)) ls ms ->
  2 <= List.length ls ->
  Interleaving ls t ->
  disjoint_keys [] ms = true ->
  forallb mcons ms = true ->
  vsconcat t = v_merge (map VM ms).
Proof.
  intros HF Hlen Hil Hd Hc.
  assert (Hcss : exists css, ls = map sVM css /\ ms = map mval css /\ forall cs, In cs css -> cs <> []).
  { clear -HF. induction HF as [|s m ls ms Hs HF IH].
    - exists []. repeat split; auto.
    - destruct IH as (css & -> & -> & Hne).
      apply vsconcat_ok in Hs as [(ss & _ & _ & Hv)|(cs & Hcs & -> & Hv & _)]; [discriminate|].
      inversion Hv; subst. exists (cs :: css). repeat split; auto.
      intros c [<-|Hc]; auto. }
  destruct Hcss as (css & -> & -> & Hne).
  rewrite map_length in Hlen.
  rewrite (concat_merge_core css t Hne Hlen Hil Hd Hc).
  unfold v_merge.
  destruct css as [|a [|b css]]; simpl in Hlen; try lia.
  change (map VM (map mval (a :: b :: css))) with (VM (mval a) :: VM (mval b) :: map VM (map mval css)).
  change (VM (mval a) :: VM (mval b) :: map VM (map mval css)) with (map VM (map mval (a :: b :: css))).
  rewrite all_map_map, Hd. reflexivity.
Qed.

(* a source that does not concatenate (error item, mixed types, a type conflict between its
   chunks) makes the merged stream not concatenate either; an empty source is simply absent
   from the merge *)
Lemma merge_failed ls t s :
  Interleaving ls t -> In s ls -> s <> [] -> failed (vsconcat s) -> failed (vsconcat t).
Proof.
  intros Hil Hs Hn Hf v Hv.
  assert (Hsub : forall it, In it s -> In it t) by (intros it Hit; eapply interleaving_in_rev; eauto).
  assert (Hlen : List.length s <= List.length t).
  { rewrite (interleaving_length _ _ Hil). clear -Hs. induction ls as [|l ls IH]; [contradiction|].
    simpl. rewrite app_length. destruct Hs as [->|Hs]; [lia|]. specialize (IH Hs). lia. }
  apply vsconcat_ok in Hv as [(ss & _ & -> & _)|(tm & _ & -> & _ & Hok)].
  - destruct (sVS_inv s) as (ss' & ->); [intros it Hit; eapply in_sVS, Hsub, Hit|].
    eapply Hf. apply vsconcat_sVS. destruct ss'; [exfalso; apply Hn; reflexivity|discriminate].
  - destruct (sVM_inv s) as (cs & ->); [intros it Hit; eapply in_sVM, Hsub, Hit|].
    assert (Hcs : cs <> []) by (destruct cs; [exfalso; apply Hn; reflexivity|discriminate]).
    eapply Hf. apply vsconcat_sVM_ok; auto.
    destruct cs as [|a [|b cs]]; [congruence|reflexivity|].
    unfold sVM in Hlen. rewrite !map_length in Hlen.
    destruct tm as [|a' [|b' tm]]; simpl in Hlen; try lia.
    unfold mok in *. rewrite mcons_canon in *.
    eapply mcons_incl; [|exact Hok].
    intros key Hk. unfold mkeys in Hk. apply in_map_iff in Hk as (e & <- & He).
    apply in_concat in He as (m & Hm & He).
    assert (Hm' : In m (a' :: b' :: tm)).
    { assert (Hit : In (Val (VM m)) (sVM (a' :: b' :: tm))) by (apply Hsub; unfold sVM; apply (in_map (fun a => Val (VM a))), Hm).
      unfold sVM in Hit. apply in_map_iff in Hit as (m' & E & Hm'). inversion E. subst. exact Hm'. }
    apply (keys_concat_in _ m); auto. unfold mkeys. apply in_map, He.
Qed.

Lemma merge_bad {X} (ls : list (stream X)) t s :
  Interleaving ls t -> In s ls -> has_bad s -> has_bad t.
Proof. intros Hil Hs (e & He). exists e. eapply interleaving_in_rev; eauto. Qed.

Lemma merge_nonnil {X} (ls : list (list X)) t s :
  Interleaving ls t -> In s ls -> s <> [] -> t <> [].
Proof.
  intros Hil Hs Hn ->. destruct s as [|x s]; [congruence|].
  exact (interleaving_in_rev _ _ Hil _ x Hs (or_introl eq_refl)).
Qed.

(* F-C04: two sources carrying the same key. mergeMap rejects the values, the merged
   stream concatenates — to a value that depends on the interleaving. *)
Definition dup_src1 : stream val := [Val (VM [(kstr 0, "A"%string)])].
Definition dup_src2 : stream val := [Val (VM [(kstr 0, "B"%string)])].

Lemma fanin_dupkey_witness :
  v_merge [VM [(kstr 0, "A"%string)]; VM [(kstr 0, "B"%string)]] = Err e_dupkey
  /\ Interleaving [dup_src1; dup_src2] (dup_src1 ++ dup_src2)
  /\ Interleaving [dup_src1; dup_src2] (dup_src2 ++ dup_src1)
  /\ vsconcat (dup_src1 ++ dup_src2) = Ok (VM [(kstr 0, "AB"%string)])
  /\ vsconcat (dup_src2 ++ dup_src1) = Ok (VM [(kstr 0, "BA"%string)]).
Proof.
  repeat split; try reflexivity.
  - apply (il_cons [] _ [] [dup_src2]). apply (il_cons [[]] _ [] []).
    constructor. repeat constructor.
  - apply (il_cons [dup_src1] _ [] []). apply (il_cons [] _ [] [[]]).
    constructor. repeat constructor.
Qed.
