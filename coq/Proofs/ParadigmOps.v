(* Proofs/ParadigmOps.v — the stream-level graph operations commute with concatenation
   (property C04, operation level): copy, merge of key-disjoint map chunks (every
   order-preserving interleaving), output-key wrap, input-key filter. *)
From Eino Require Import Base.Util Model.Paradigm Model.StreamOps Proofs.Paradigm.
From Coq Require Import Lia.

Arguments ins_all : simpl never.

(* ------------------------------------------------------------------ strings *)
Lemma app_nil_r_s (s : string) : String.append s EmptyString = s.
Proof. induction s; simpl; congruence. Qed.

Lemma app_assoc_s (a b c : string) :
  String.append (String.append a b) c = String.append a (String.append b c).
Proof. induction a; simpl; congruence. Qed.

Lemma concat_strings_app a b :
  concat_strings (a ++ b) = String.append (concat_strings a) (concat_strings b).
Proof.
  unfold concat_strings. induction a; simpl; auto. rewrite IHa, app_assoc_s. reflexivity.
Qed.

(* ------------------------------------------------------------------ association lists *)
Lemma ins_comm k1 v1 k2 v2 m :
  k1 <> k2 -> ins k1 v1 (ins k2 v2 m) = ins k2 v2 (ins k1 v1 m).
Proof.
  intros Hne. induction m as [|[k v] m IH]; simpl.
  - destruct (N.ltb_spec k1 k2), (N.ltb_spec k2 k1), (N.eqb_spec k1 k2), (N.eqb_spec k2 k1);
      try lia; try congruence; reflexivity.
  - destruct (N.ltb_spec k2 k), (N.eqb_spec k2 k), (N.ltb_spec k1 k), (N.eqb_spec k1 k);
      simpl;
      repeat match goal with
             | |- context [N.ltb ?a ?b] => destruct (N.ltb_spec a b)
             | |- context [N.eqb ?a ?b] => destruct (N.eqb_spec a b)
             end; try lia; try congruence; try reflexivity.
Qed.

Lemma ins_same k v1 v2 m : ins k v2 (ins k v1 m) = ins k (String.append v1 v2) m.
Proof.
  induction m as [|[k' v'] m IH]; simpl.
  - rewrite N.ltb_irrefl, N.eqb_refl. reflexivity.
  - destruct (N.ltb_spec k k'); simpl.
    + rewrite N.ltb_irrefl, N.eqb_refl. reflexivity.
    + destruct (N.eqb_spec k k'); simpl.
      * subst. rewrite N.ltb_irrefl, N.eqb_refl, app_assoc_s. reflexivity.
      * destruct (N.ltb_spec k k'); [lia|]. destruct (N.eqb_spec k k'); [congruence|].
        rewrite IH. reflexivity.
Qed.

Lemma ins_all_app a b m : ins_all (a ++ b) m = ins_all b (ins_all a m).
Proof. unfold ins_all. apply fold_left_app. Qed.

Lemma ins_all_cons e a m : ins_all (e :: a) m = ins_all a (ins (fst e) (snd e) m).
Proof. reflexivity. Qed.

(* an insertion commutes with insertions of other keys *)
Lemma ins_all_ins_comm k v es m :
  ~ In k (mkeys es) -> ins_all es (ins k v m) = ins k v (ins_all es m).
Proof.
  revert m. induction es as [|[k' v'] es IH]; intros m Hk; [reflexivity|].
  rewrite !ins_all_cons. simpl fst; simpl snd. simpl in Hk.
  rewrite ins_comm by (intro; subst; apply Hk; auto).
  apply IH. intro; apply Hk; auto.
Qed.

Definition kdisj (a b : amap) : Prop := forall k, In k (mkeys a) -> ~ In k (mkeys b).

Lemma kdisj_sym a b : kdisj a b -> kdisj b a.
Proof. unfold kdisj; intros H k Hb Ha. exact (H k Ha Hb). Qed.

(* two blocks of entries with disjoint keys can be swapped *)
Lemma ins_all_swap a b m : kdisj a b -> ins_all (a ++ b) m = ins_all (b ++ a) m.
Proof.
  revert m. induction a as [|[k v] a IH]; intros m Hd.
  - rewrite app_nil_r. reflexivity.
  - simpl app. rewrite ins_all_cons. simpl fst; simpl snd.
    rewrite IH by (intros k' Hk'; apply Hd; simpl; auto).
    rewrite !ins_all_app, ins_all_cons. simpl fst; simpl snd.
    rewrite ins_all_ins_comm; auto.
    intro Hin. apply (Hd k); simpl; auto.
Qed.

(* keys, sortedness *)
Lemma keys_ins x k v m : In x (mkeys (ins k v m)) <-> x = k \/ In x (mkeys m).
Proof.
  induction m as [|[k2 v2] m IH]; simpl.
  - intuition.
  - destruct (N.ltb_spec k k2); simpl; [intuition|].
    destruct (N.eqb_spec k k2); simpl; [subst; intuition|].
    rewrite IH. intuition.
Qed.

Lemma keys_ins_all x es m : In x (mkeys (ins_all es m)) <-> In x (mkeys es) \/ In x (mkeys m).
Proof.
  revert m. induction es as [|[k v] es IH]; intros m; simpl.
  - intuition.
  - rewrite ins_all_cons, IH, keys_ins. simpl. intuition.
Qed.

Inductive sorted : amap -> Prop :=
| sorted_nil : sorted []
| sorted_cons : forall k v m, sorted m -> (forall k', In k' (mkeys m) -> (k < k')%N) -> sorted ((k, v) :: m).

Lemma sorted_ins k v m : sorted m -> sorted (ins k v m).
Proof.
  induction 1 as [|k2 v2 m Hs IH Hlt]; simpl.
  - constructor; [constructor|]. intros ? [].
  - destruct (N.ltb_spec k k2).
    + constructor; [constructor; auto|]. simpl. intros k' [<-|Hk']; auto.
      specialize (Hlt _ Hk'). lia.
    + destruct (N.eqb_spec k k2).
      * subst. constructor; auto.
      * constructor; auto. intros k' Hk'. apply keys_ins in Hk' as [->|Hk']; [lia|auto].
Qed.

Lemma sorted_ins_all es m : sorted m -> sorted (ins_all es m).
Proof.
  revert m. induction es as [|[k v] es IH]; intros m Hs; simpl; auto.
  rewrite ins_all_cons. apply IH, sorted_ins, Hs.
Qed.

Lemma mhas_in k m : mhas k m = true <-> In k (mkeys m).
Proof.
  induction m as [|[k2 v2] m IH]; simpl.
  - intuition discriminate.
  - rewrite Bool.orb_true_iff, IH, N.eqb_eq. intuition.
Qed.

Lemma mhas_notin k m : mhas k m = false <-> ~ In k (mkeys m).
Proof. rewrite <- mhas_in. destruct (mhas k m); intuition discriminate. Qed.

Lemma mgather_notin k m : ~ In k (mkeys m) -> mgather k m = EmptyString.
Proof.
  induction m as [|[k2 v2] m IH]; simpl; auto. intros H.
  destruct (N.eqb_spec k k2); [subst; exfalso; auto|]. apply IH. auto.
Qed.

Lemma mhas_ins k k' v m : mhas k (ins k' v m) = N.eqb k k' || mhas k m.
Proof.
  induction m as [|[k2 v2] m IH]; simpl.
  - rewrite Bool.orb_false_r. reflexivity.
  - destruct (N.ltb_spec k' k2); simpl; auto.
    destruct (N.eqb_spec k' k2); simpl.
    + subst. destruct (N.eqb k k2); reflexivity.
    + rewrite IH. destruct (N.eqb k k'), (N.eqb k k2); reflexivity.
Qed.

Lemma mgather_ins k k' v m : sorted m ->
  mgather k (ins k' v m) = if N.eqb k k' then String.append (mgather k m) v else mgather k m.
Proof.
  induction 1 as [|k2 v2 m Hs IH Hlt]; simpl.
  - destruct (N.eqb k k'); simpl; auto. rewrite app_nil_r_s. reflexivity.
  - destruct (N.ltb_spec k' k2); simpl.
    + destruct (N.eqb_spec k k'); simpl; auto. subst.
      destruct (N.eqb_spec k' k2); [lia|].
      rewrite (mgather_notin k' m), app_nil_r_s; auto.
      intro Hin. specialize (Hlt _ Hin). lia.
    + destruct (N.eqb_spec k' k2); simpl.
      * subst. destruct (N.eqb_spec k k2); auto. subst.
        rewrite (mgather_notin k2 m), !app_nil_r_s; auto.
        intro Hin. specialize (Hlt _ Hin). lia.
      * rewrite IH. destruct (N.eqb_spec k k'), (N.eqb_spec k k2); subst; try congruence; auto.
Qed.

Lemma mgather_app k a b : mgather k (a ++ b) = String.append (mgather k a) (mgather k b).
Proof.
  induction a as [|[k2 v2] a IH]; simpl; auto.
  destruct (N.eqb k k2); auto. rewrite IH, app_assoc_s. reflexivity.
Qed.

Lemma mhas_app k a b : mhas k (a ++ b) = mhas k a || mhas k b.
Proof. induction a as [|[k2 v2] a IH]; simpl; auto. rewrite IH, Bool.orb_assoc. reflexivity. Qed.

Lemma mhas_ins_all k es m : mhas k (ins_all es m) = mhas k m || mhas k es.
Proof.
  revert m. induction es as [|[k2 v2] es IH]; intros m; simpl.
  - rewrite Bool.orb_false_r. reflexivity.
  - rewrite ins_all_cons, IH, mhas_ins. simpl.
    destruct (N.eqb k k2), (mhas k m), (mhas k es); reflexivity.
Qed.

Lemma mgather_ins_all k es m : sorted m ->
  mgather k (ins_all es m) = String.append (mgather k m) (mgather k es).
Proof.
  revert m. induction es as [|[k2 v2] es IH]; intros m Hs; simpl.
  - rewrite app_nil_r_s. reflexivity.
  - rewrite ins_all_cons, IH by (apply sorted_ins, Hs). simpl.
    rewrite mgather_ins by exact Hs.
    destruct (N.eqb k k2); auto. rewrite app_assoc_s. reflexivity.
Qed.

(* re-inserting a sorted map entry by entry = inserting the raw entries it was built from *)
Lemma ins_all_ins_sorted k v c m : sorted c ->
  ins_all (ins k v c) m = ins k v (ins_all c m).
Proof.
  intros Hs. revert m. induction Hs as [|k2 v2 c Hs IH Hlt]; intros m; simpl; auto.
  destruct (N.ltb_spec k k2).
  - rewrite !ins_all_cons. simpl fst; simpl snd.
    rewrite <- ins_all_cons with (e := (k2, v2)).
    change (ins_all ((k2, v2) :: c) (ins k v m) = ins k v (ins_all ((k2, v2) :: c) m)).
    apply ins_all_ins_comm. simpl. intros [->|Hin]; [lia|]. specialize (Hlt _ Hin). lia.
  - destruct (N.eqb_spec k k2).
    + subst. rewrite !ins_all_cons. simpl fst; simpl snd.
      rewrite <- ins_same. apply ins_all_ins_comm.
      intro Hin. specialize (Hlt _ Hin). lia.
    + rewrite !ins_all_cons. simpl fst; simpl snd. apply IH.
Qed.

Lemma ins_all_canon b c m : sorted c ->
  ins_all (ins_all b c) m = ins_all b (ins_all c m).
Proof.
  revert c. induction b as [|[k v] b IH]; intros c Hs; simpl; auto.
  rewrite !ins_all_cons. simpl fst; simpl snd.
  rewrite IH by (apply sorted_ins, Hs). rewrite ins_all_ins_sorted by exact Hs. reflexivity.
Qed.

Lemma ins_all_canon0 b m : ins_all (ins_all b []) m = ins_all b m.
Proof. rewrite ins_all_canon by constructor. reflexivity. Qed.

(* ------------------------------------------------------------------ streams that concatenate *)
Definition sVS (ss : list string) : stream val := map (fun a => Val (VS a)) ss.
Definition sVM (ms : list amap) : stream val := map (fun a => Val (VM a)) ms.

(* value of a stream of maps *)
Definition mval (ms : list amap) : amap :=
  match ms with
  | [m] => m
  | _ => ins_all (List.concat ms) []
  end.

Lemma vals_of_map {X} (xs : list X) : vals_of (map Val xs) = Ok xs.
Proof. induction xs; simpl; auto. rewrite IHxs. reflexivity. Qed.

Lemma vals_of_ok {X} (s : stream X) xs : vals_of s = Ok xs -> s = map Val xs.
Proof.
  revert xs. induction s as [|[x|e] s IH]; simpl; intros xs H.
  - inversion H. reflexivity.
  - destruct (vals_of s); simpl in H; try discriminate. inversion H. rewrite (IH _ eq_refl). reflexivity.
  - discriminate.
Qed.

Lemma vals_of_bad {X} (s : stream X) e : In (Bad e) s -> failed (vals_of s).
Proof.
  induction s as [|[x|e'] s IH]; simpl; intros H.
  - contradiction.
  - destruct H as [H|H]; [discriminate|]. apply failed_bind, IH, H.
  - apply failed_Err.
Qed.

Lemma all_str_map ss : all_str (map VS ss) = Some ss.
Proof. induction ss; simpl; auto. rewrite IHss. reflexivity. Qed.
Lemma all_map_map ms : all_map (map VM ms) = Some ms.
Proof. induction ms; simpl; auto. rewrite IHms. reflexivity. Qed.

Lemma all_str_some xs ss : all_str xs = Some ss -> xs = map VS ss.
Proof.
  revert ss. induction xs as [|[s|m] xs IH]; simpl; intros ss H; try discriminate.
  - inversion H; reflexivity.
  - destruct (all_str xs); try discriminate. inversion H. rewrite (IH _ eq_refl). reflexivity.
Qed.
Lemma all_map_some xs ms : all_map xs = Some ms -> xs = map VM ms.
Proof.
  revert ms. induction xs as [|[s|m] xs IH]; simpl; intros ms H; try discriminate.
  - inversion H; reflexivity.
  - destruct (all_map xs); try discriminate. inversion H. rewrite (IH _ eq_refl). reflexivity.
Qed.

Lemma vconcat_VS ss : ss <> [] -> vconcat (map VS ss) = Ok (VS (concat_strings ss)).
Proof.
  destruct ss as [|a ss]; [congruence|]. intros _.
  change (map VS (a :: ss)) with (VS a :: map VS ss). unfold vconcat.
  change (VS a :: map VS ss) with (map VS (a :: ss)). rewrite all_str_map. reflexivity.
Qed.
Lemma vconcat_VM ms : ms <> [] -> vconcat (map VM ms) = Ok (VM (ins_all (List.concat ms) [])).
Proof.
  destruct ms as [|a ms]; [congruence|]. intros _.
  change (map VM (a :: ms)) with (VM a :: map VM ms). unfold vconcat.
  change (VM a :: map VM ms) with (map VM (a :: ms)). rewrite all_map_map. reflexivity.
Qed.

(* a chunk list that concatenates is homogeneous *)
Lemma vconcat_ok xs v : vconcat xs = Ok v ->
  (exists ss, ss <> [] /\ xs = map VS ss /\ v = VS (concat_strings ss)) \/
  (exists ms, ms <> [] /\ xs = map VM ms /\ v = VM (ins_all (List.concat ms) [])).
Proof.
  destruct xs as [|[s|m] xs]; simpl; intros H; try discriminate.
  - left. destruct (all_str xs) as [ss|] eqn:E; try discriminate.
    exists (s :: ss). split; [congruence|]. apply all_str_some in E. subst. inversion H. auto.
  - right. destruct (all_map xs) as [ms|] eqn:E; try discriminate.
    exists (m :: ms). split; [congruence|]. apply all_map_some in E. subst. inversion H. auto.
Qed.

Lemma sVS_vals ss : sVS ss = map Val (map VS ss).
Proof. unfold sVS. rewrite map_map. reflexivity. Qed.
Lemma sVM_vals ms : sVM ms = map Val (map VM ms).
Proof. unfold sVM. rewrite map_map. reflexivity. Qed.

Lemma vsconcat_sVS ss : ss <> [] -> vsconcat (sVS ss) = Ok (VS (concat_strings ss)).
Proof.
  intros H. unfold vsconcat, sconcat. rewrite sVS_vals, vals_of_map. simpl.
  destruct ss as [|a [|b ss]]; [congruence| |].
  - simpl. unfold concat_strings. simpl. rewrite app_nil_r_s. reflexivity.
  - change (VS a :: VS b :: map VS ss) with (map VS (a :: b :: ss)). apply vconcat_VS. congruence.
Qed.

Lemma vsconcat_sVM ms : ms <> [] -> vsconcat (sVM ms) = Ok (VM (mval ms)).
Proof.
  intros H. unfold vsconcat, sconcat. rewrite sVM_vals, vals_of_map. simpl.
  destruct ms as [|a [|b ms]]; [congruence| |].
  - reflexivity.
  - change (VM a :: VM b :: map VM ms) with (map VM (a :: b :: ms)). apply vconcat_VM. congruence.
Qed.

Lemma vsconcat_ok s v : vsconcat s = Ok v ->
  (exists ss, ss <> [] /\ s = sVS ss /\ v = VS (concat_strings ss)) \/
  (exists ms, ms <> [] /\ s = sVM ms /\ v = VM (mval ms)).
Proof.
  unfold vsconcat, sconcat. intros H.
  destruct (vals_of s) as [xs| |] eqn:E; simpl in H; try discriminate.
  apply vals_of_ok in E. subst s.
  destruct xs as [|x [|y xs]]; try discriminate.
  - inversion H; subst. destruct v as [a|m].
    + left. exists [a]. split; [congruence|]. split; auto.
      unfold concat_strings. simpl. rewrite app_nil_r_s. reflexivity.
    + right. exists [m]. split; [congruence|]. split; auto.
  - apply vconcat_ok in H as [(ss & Hn & E & ->)|(ms & Hn & E & ->)].
    + left. exists ss. rewrite E, <- sVS_vals. auto.
    + right. exists ms. rewrite E, <- sVM_vals. split; auto. split; auto.
      destruct ms as [|a [|b ms]]; try discriminate. reflexivity.
Qed.

Definition good (s : stream val) : Prop := (exists ss, s = sVS ss) \/ (exists ms, s = sVM ms).

Lemma vsconcat_good s v : vsconcat s = Ok v -> good s.
Proof. intros H. apply vsconcat_ok in H as [(ss & _ & -> & _)|(ms & _ & -> & _)]; [left|right]; eauto. Qed.

Lemma good_vsconcat s : s <> [] -> good s -> exists v, vsconcat s = Ok v.
Proof.
  intros Hn [(ss & ->)|(ms & ->)].
  - rewrite vsconcat_sVS; eauto. destruct ss; [exfalso; apply Hn; reflexivity|congruence].
  - rewrite vsconcat_sVM; eauto. destruct ms; [exfalso; apply Hn; reflexivity|congruence].
Qed.

(* a non-empty stream whose image under an operation is good while the stream itself does
   not concatenate: impossible — the generic way failures are shown to propagate *)
Lemma failed_by_good s s' :
  s <> [] -> failed (vsconcat s) -> (good s' -> good s) -> failed (vsconcat s').
Proof.
  intros Hn Hf Hg v Hv. apply vsconcat_good in Hv.
  destruct (good_vsconcat s Hn (Hg Hv)) as (w & Hw). exact (Hf w Hw).
Qed.

Lemma sVS_inv s : (forall it, In it s -> exists a, it = Val (VS a)) -> exists ss, s = sVS ss.
Proof.
  induction s as [|it s IH]; intros H.
  - exists []. reflexivity.
  - destruct (H it (or_introl eq_refl)) as (a & ->).
    destruct IH as (ss & ->); [intros; apply H; right; auto|]. exists (a :: ss). reflexivity.
Qed.
Lemma sVM_inv s : (forall it, In it s -> exists a, it = Val (VM a)) -> exists ms, s = sVM ms.
Proof.
  induction s as [|it s IH]; intros H.
  - exists []. reflexivity.
  - destruct (H it (or_introl eq_refl)) as (a & ->).
    destruct IH as (ms & ->); [intros; apply H; right; auto|]. exists (a :: ms). reflexivity.
Qed.

Lemma in_sVS it ss : In it (sVS ss) -> exists a, it = Val (VS a).
Proof. unfold sVS. rewrite in_map_iff. intros (a & <- & _). eauto. Qed.
Lemma in_sVM it ms : In it (sVM ms) -> exists a, it = Val (VM a).
Proof. unfold sVM. rewrite in_map_iff. intros (a & <- & _). eauto. Qed.

(* good is decided item by item: all string values or all map values *)
Lemma good_items s :
  good s <-> (forall it, In it s -> exists a, it = Val (VS a)) \/ (forall it, In it s -> exists a, it = Val (VM a)).
Proof.
  split.
  - intros [(ss & ->)|(ms & ->)]; [left; intros; eapply in_sVS; eauto|right; intros; eapply in_sVM; eauto].
  - intros [H|H]; [left; apply sVS_inv, H|right; apply sVM_inv, H].
Qed.

(* ------------------------------------------------------------------ copy *)
(* copyItem: every copy concatenates to what the original concatenates to *)
Lemma concat_copy_lem n s : forall c, In c (s_copy n s) -> vsconcat c = vsconcat s.
Proof. intros c H. apply repeat_spec in H. subst. reflexivity. Qed.

Lemma copy_length n s : List.length (s_copy n s) = n.
Proof. apply repeat_length. Qed.

(* ------------------------------------------------------------------ output key *)
Lemma withKey_sVS k ss : s_withKey k (sVS ss) = sVM (map (fun a => [(k, a)]) ss).
Proof. unfold s_withKey, sVS, sVM. rewrite !map_map. reflexivity. Qed.

Lemma ins_all_same_key (k : N) (ss : list string) (acc : string) :
  ins_all (map (fun a => (k, a)) ss) [(k, acc)] = [(k, String.append acc (concat_strings ss))].
Proof.
  revert acc. induction ss as [|a ss IH]; intros acc.
  - unfold concat_strings. simpl. rewrite app_nil_r_s. reflexivity.
  - simpl map. rewrite ins_all_cons. simpl. rewrite N.ltb_irrefl, N.eqb_refl, IH.
    unfold concat_strings. simpl. rewrite app_assoc_s. reflexivity.
Qed.

Lemma concat_singletons (k : N) (ss : list string) : List.concat (map (fun a => [(k, a)]) ss) = map (fun a => (k, a)) ss.
Proof. induction ss; simpl; congruence. Qed.

Lemma mval_withKey (k : N) (ss : list string) : ss <> [] -> mval (map (fun a => [(k, a)]) ss) = [(k, concat_strings ss)].
Proof.
  intros H. destruct ss as [|a [|b ss]]; [congruence| |].
  - unfold concat_strings. simpl. rewrite app_nil_r_s. reflexivity.
  - unfold mval. change (map (fun a0 => [(k, a0)]) (a :: b :: ss))
      with ([(k, a)] :: [(k, b)] :: map (fun a0 => [(k, a0)]) ss).
    change ([(k, a)] :: [(k, b)] :: map (fun a0 => [(k, a0)]) ss)
      with (map (fun a0 => [(k, a0)]) (a :: b :: ss)).
    rewrite concat_singletons. simpl map. rewrite ins_all_cons. simpl fst; simpl snd.
    change (ins k a []) with [(k, a)].
    change ((k, b) :: map (fun a0 => (k, a0)) ss) with (map (fun a0 => (k, a0)) (b :: ss)).
    rewrite ins_all_same_key. unfold concat_strings. reflexivity.
Qed.

Lemma withKey_good k s : good (s_withKey k s) -> good s.
Proof.
  intros H. left. apply sVS_inv. intros it Hit.
  apply good_items in H.
  assert (Hin : In (match it with Val (VS x) => Val (VM [(k, x)]) | Val (VM _) => Bad e_type | Bad e => Bad e end)
                   (s_withKey k s)) by (unfold s_withKey; apply in_map_iff; eauto).
  destruct H as [H|H]; destruct (H _ Hin) as (a & Ha); destruct it as [[x|m]|e]; try discriminate; eauto.
Qed.

Lemma withKey_nonnil k s : s <> [] -> s_withKey k s <> [].
Proof. destruct s; simpl; congruence. Qed.

Lemma failed_Panic {X} : failed (@Panic X).
Proof. intros x; discriminate. Qed.

Lemma failed_of_not_ok {X} (r : res X) : (forall v, r <> Ok v) -> failed r.
Proof. auto. Qed.

Theorem concat_withKey_lem k s : s <> [] ->
  agree (vsconcat (s_withKey k s)) (res_bind (vsconcat s) (v_withKey k)).
Proof.
  intros Hn. destruct (vsconcat s) as [v| |] eqn:E.
  - apply vsconcat_ok in E as [(ss & Hss & -> & ->)|(ms & Hms & -> & ->)]; simpl.
    + rewrite withKey_sVS, vsconcat_sVM, mval_withKey; auto.
      * reflexivity.
      * destruct ss; [congruence|discriminate].
    + destruct ms as [|m ms]; [congruence|]. exact I.
  - apply agree_failed; [|apply failed_Err].
    eapply failed_by_good; eauto; [rewrite E; apply failed_Err|apply withKey_good].
  - apply agree_failed; [|apply failed_Panic].
    eapply failed_by_good; eauto; [rewrite E; apply failed_Panic|apply withKey_good].
Qed.

(* ------------------------------------------------------------------ input key *)
Definition ol {X} (o : option X) : list X := match o with Some x => [x] | None => [] end.

Lemma keyFilter_sVM k ms :
  s_keyFilter k (sVM ms) = sVS (flat_map (fun m => ol (mlookup k m)) ms).
Proof.
  unfold s_keyFilter, sVM, sVS. induction ms as [|m ms IH]; simpl; auto.
  rewrite IH, map_app. destruct (mlookup k m); reflexivity.
Qed.

Lemma lookups_concat k ms :
  concat_strings (flat_map (fun m => ol (mlookup k m)) ms) = mgather k (List.concat ms).
Proof.
  induction ms as [|m ms IH]; simpl; auto.
  rewrite concat_strings_app, mgather_app, IH. unfold mlookup.
  destruct (mhas k m) eqn:E; simpl.
  - unfold concat_strings. simpl. rewrite app_nil_r_s. reflexivity.
  - rewrite (mgather_notin k m) by (apply mhas_notin, E). reflexivity.
Qed.

Lemma lookups_nonnil k ms :
  flat_map (fun m => ol (mlookup k m)) ms = [] <-> mhas k (List.concat ms) = false.
Proof.
  induction ms as [|m ms IH]; simpl; [intuition|].
  rewrite mhas_app. unfold mlookup at 1. destruct (mhas k m); simpl.
  - intuition discriminate.
  - exact IH.
Qed.

Lemma mlookup_mval k ms : ms <> [] ->
  mlookup k (mval ms) = if mhas k (List.concat ms) then Some (mgather k (List.concat ms)) else None.
Proof.
  intros H. destruct ms as [|a [|b ms]]; [congruence| |].
  - simpl. rewrite app_nil_r. reflexivity.
  - unfold mval, mlookup. rewrite mhas_ins_all, mgather_ins_all by constructor. reflexivity.
Qed.

Lemma keyFilter_good k s : good (s_keyFilter k s) -> good s.
Proof.
  intros H. right. apply sVM_inv. intros it Hit. apply good_items in H.
  destruct it as [[x|m]|e]; eauto; exfalso.
  - assert (Hin : In (Bad e_type) (s_keyFilter k s)).
    { unfold s_keyFilter. apply in_flat_map. exists (Val (VS x)). simpl; auto. }
    destruct H as [H|H]; destruct (H _ Hin); discriminate.
  - assert (Hin : In (Bad e) (s_keyFilter k s)).
    { unfold s_keyFilter. apply in_flat_map. exists (@Bad val e). simpl; auto. }
    destruct H as [H|H]; destruct (H _ Hin); discriminate.
Qed.

(* the filtered stream is empty only if no chunk carries the key *)
Lemma keyFilter_nil k s : s_keyFilter k s = [] ->
  exists ms, s = sVM ms /\ mhas k (List.concat ms) = false.
Proof.
  intros H.
  assert (Hg : good s). { apply (keyFilter_good k). rewrite H. left. exists []. reflexivity. }
  assert (Hall : forall it, In it s -> exists m, it = Val (VM m)).
  { intros it Hit. destruct it as [[x|m]|e]; eauto; exfalso.
    - assert (Hin : In (Bad e_type) (s_keyFilter k s)).
      { unfold s_keyFilter. apply in_flat_map. exists (Val (VS x)). simpl; auto. }
      rewrite H in Hin. contradiction.
    - assert (Hin : In (Bad e) (s_keyFilter k s)).
      { unfold s_keyFilter. apply in_flat_map. exists (@Bad val e). simpl; auto. }
      rewrite H in Hin. contradiction. }
  destruct (sVM_inv s Hall) as (ms & ->). exists ms. split; auto.
  rewrite keyFilter_sVM in H. apply lookups_nonnil.
  unfold sVS in H. apply map_eq_nil in H. exact H.
Qed.

Theorem concat_keyFilter_lem k s : s <> [] ->
  (forall m, vsconcat s = Ok (VM m) -> mhas k m = true) ->
  agree (vsconcat (s_keyFilter k s)) (res_bind (vsconcat s) (v_getKey k))
  /\ s_keyFilter k s <> [].
Proof.
  intros Hn Hk.
  assert (Hne : s_keyFilter k s <> []).
  { intros H. apply keyFilter_nil in H as (ms & -> & Hh).
    assert (Hms : ms <> []) by (destruct ms; [exfalso; apply Hn; reflexivity|congruence]).
    specialize (Hk _ (vsconcat_sVM ms Hms)).
    assert (E := mlookup_mval k ms Hms). unfold mlookup in E. rewrite Hk, Hh in E. discriminate. }
  split; auto.
  destruct (vsconcat s) as [v| |] eqn:E.
  - apply vsconcat_ok in E as [(ss & Hss & -> & ->)|(ms & Hms & -> & ->)]; simpl.
    + destruct ss as [|a ss]; [congruence|]. exact I.
    + specialize (Hk _ eq_refl).
      assert (El := mlookup_mval k ms Hms). unfold mlookup in El at 1. rewrite Hk in El.
      destruct (mhas k (List.concat ms)) eqn:Eh; [|discriminate].
      inversion El as [Eg]. unfold mlookup. rewrite Hk, Eg.
      rewrite keyFilter_sVM, vsconcat_sVS, lookups_concat.
      * reflexivity.
      * intro Hnil. apply lookups_nonnil in Hnil. congruence.
  - apply agree_failed; [|apply failed_Err].
    apply (failed_by_good s); [exact Hn|rewrite E; apply failed_Err|apply keyFilter_good].
  - apply agree_failed; [|apply failed_Panic].
    apply (failed_by_good s); [exact Hn|rewrite E; apply failed_Panic|apply keyFilter_good].
Qed.

(* F-C04b, mechanism: when no chunk carries the key the filtered stream is simply empty
   (no error item), whereas the value form fails *)
Lemma keyFilter_missing k ms : ms <> [] -> mhas k (mval ms) = false ->
  s_keyFilter k (sVM ms) = [] /\ res_bind (vsconcat (sVM ms)) (v_getKey k) = Err e_nokey.
Proof.
  intros Hms Hh. split.
  - rewrite keyFilter_sVM. unfold sVS.
    assert (E := mlookup_mval k ms Hms). unfold mlookup in E at 1. rewrite Hh in E.
    destruct (mhas k (List.concat ms)) eqn:Eh; [discriminate|].
    apply lookups_nonnil in Eh. rewrite Eh. reflexivity.
  - rewrite vsconcat_sVM by exact Hms. simpl. unfold mlookup. rewrite Hh. reflexivity.
Qed.

(* ------------------------------------------------------------------ merge *)
Lemma interleaving_in {X} (ls : list (list X)) t :
  Interleaving ls t -> forall x, In x t -> exists l, In l ls /\ In x l.
Proof.
  induction 1 as [ls H|pre x l post t H IH]; intros y Hy; [contradiction|].
  destruct Hy as [<-|Hy].
  - exists (x :: l). split; [apply in_or_app; right; left; reflexivity|left; reflexivity].
  - destruct (IH _ Hy) as (l' & Hl' & Hy'). apply in_app_or in Hl' as [Hl'|[<-|Hl']].
    + exists l'. split; auto. apply in_or_app; auto.
    + exists (x :: l). split; [apply in_or_app; right; left; reflexivity|right; auto].
    + exists l'. split; auto. apply in_or_app; right; right; auto.
Qed.

Lemma interleaving_in_rev {X} (ls : list (list X)) t :
  Interleaving ls t -> forall l x, In l ls -> In x l -> In x t.
Proof.
  induction 1 as [ls H|pre x l post t H IH]; intros l' y Hl' Hy.
  - rewrite Forall_forall in H. rewrite (H _ Hl') in Hy. contradiction.
  - apply in_app_or in Hl' as [Hl'|[<-|Hl']].
    + right. eapply IH; eauto. apply in_or_app; auto.
    + destruct Hy as [<-|Hy]; [left; reflexivity|right].
      eapply IH; eauto. apply in_or_app; right; left; reflexivity.
    + right. eapply IH; eauto. apply in_or_app; right; right; auto.
Qed.

Lemma concat_all_nil {X} (ls : list (list X)) : Forall (fun l => l = []) ls -> List.concat ls = [].
Proof. induction 1; simpl; auto. subst. auto. Qed.

Lemma interleaving_length {X} (ls : list (list X)) t :
  Interleaving ls t -> List.length t = List.length (List.concat ls).
Proof.
  induction 1 as [ls H|pre x l post t H IH].
  - rewrite concat_all_nil; auto.
  - simpl. rewrite IH, !concat_app, !app_length. simpl. rewrite !app_length. simpl. lia.
Qed.

(* the canonical interleaving: one source after the other *)
Lemma merge_seq_interleaving {X} (ls : list (list X)) : Interleaving ls (merge_seq ls).
Proof.
  unfold merge_seq. induction ls as [|l ls IH]; simpl.
  - constructor. constructor.
  - induction l as [|x l IHl]; simpl.
    + clear -IH. remember (List.concat ls) as t. clear Heqt.
      induction IH as [ls H|pre x l post t H IH'].
      * constructor. constructor; auto.
      * apply (il_cons ([] :: pre)). exact IH'.
    + apply (il_cons [] x l ls). exact IHl.
Qed.

Definition item_entries (it : item val) : amap := match it with Val (VM m) => m | _ => [] end.
Definition entries (s : stream val) : amap := flat_map item_entries s.

Lemma entries_sVM ms : entries (sVM ms) = List.concat ms.
Proof. unfold entries, sVM. induction ms; simpl; congruence. Qed.

Fixpoint pdisj (l : list amap) : Prop :=
  match l with
  | [] => True
  | a :: r => (forall b, In b r -> kdisj a b) /\ pdisj r
  end.

Lemma pdisj_mid l1 a l2 :
  pdisj (l1 ++ a :: l2) <-> pdisj (l1 ++ l2) /\ (forall b, In b (l1 ++ l2) -> kdisj a b).
Proof.
  induction l1 as [|c l1 IH]; simpl.
  - intuition.
  - rewrite IH. split.
    + intros (Hc & Hp & Ha). repeat split; auto.
      * intros b Hb. apply Hc. apply in_app_or in Hb as [Hb|Hb]; apply in_or_app; simpl; auto.
      * intros b [<-|Hb]; auto. apply kdisj_sym, Hc. apply in_or_app; simpl; auto.
    + intros ((Hc & Hp) & Ha). repeat split; auto.
      intros b Hb. apply in_app_or in Hb as [Hb|[<-|Hb]].
      * apply Hc, in_or_app; auto.
      * apply kdisj_sym, Ha. auto.
      * apply Hc, in_or_app; auto.
Qed.

Lemma mkeys_app a b : mkeys (a ++ b) = mkeys a ++ mkeys b.
Proof. unfold mkeys. apply map_app. Qed.

Lemma interleave_entries ls t :
  Interleaving ls t -> pdisj (map entries ls) ->
  forall acc, ins_all (entries t) acc = ins_all (List.concat (map entries ls)) acc.
Proof.
  induction 1 as [ls H|pre x l post t H IH]; intros Hd acc.
  - rewrite concat_all_nil; auto. apply Forall_map. revert H. apply Forall_impl. intros ? ->. reflexivity.
  - rewrite map_app in Hd. simpl map in Hd. apply pdisj_mid in Hd as (Hp & Ha).
    assert (Hd' : pdisj (map entries (pre ++ l :: post))).
    { rewrite map_app. simpl map. apply pdisj_mid. split; auto.
      intros b Hb k Hk. apply (Ha b Hb k). unfold entries. simpl. rewrite mkeys_app.
      apply in_or_app; right; exact Hk. }
    change (entries (x :: t)) with (item_entries x ++ entries t).
    rewrite ins_all_app, (IH Hd').
    rewrite !map_app. simpl map. rewrite !concat_app. simpl List.concat.
    change (entries (x :: l)) with (item_entries x ++ entries l).
    rewrite <- !ins_all_app. rewrite <- !app_assoc.
    rewrite (app_assoc (item_entries x)), (app_assoc (List.concat (map entries pre)) (item_entries x)).
    rewrite !(ins_all_app (_ ++ _)). f_equal. apply ins_all_swap.
    intros k Hk Hk'. unfold mkeys in Hk'. rewrite concat_map in Hk'.
    apply in_concat in Hk' as (ks & Hks & Hk'). rewrite map_map in Hks.
    apply in_map_iff in Hks as (b & <- & Hb).
    refine (Ha (entries b) _ k _ Hk').
    + apply in_or_app; left; apply in_map; exact Hb.
    + rewrite mkeys_app. apply in_or_app; left; exact Hk.
Qed.

Lemma disjoint_keys_spec seen ms : disjoint_keys seen ms = true ->
  pdisj ms /\ forall m, In m ms -> forall k, In k (mkeys m) -> ~ In k seen.
Proof.
  revert seen. induction ms as [|m ms IH]; simpl; intros seen H.
  - split; [exact I|intros ? F; contradiction].
  - apply andb_prop in H as [H1 H2]. destruct (IH _ H2) as (Hp & Hs).
    assert (Hm : forall k, In k (mkeys m) -> ~ In k seen).
    { intros k Hk Hin. rewrite forallb_forall in H1. specialize (H1 _ Hk).
      apply Bool.negb_true_iff in H1.
      assert (existsb (N.eqb k) seen = true) by (apply existsb_exists; exists k; split; auto; apply N.eqb_refl).
      congruence. }
    split; [split; auto|].
    + intros b Hb k Hk Hk'. apply (Hs b Hb k Hk'). apply in_or_app; auto.
    + intros m' [<-|Hm'] k Hk; auto. intros Hin. apply (Hs m' Hm' k Hk). apply in_or_app; auto.
Qed.

Lemma mval_keys k cs : In k (mkeys (mval cs)) <-> In k (mkeys (List.concat cs)).
Proof.
  destruct cs as [|a [|b cs]].
  - simpl. intuition.
  - simpl. rewrite app_nil_r. intuition.
  - unfold mval. rewrite keys_ins_all. simpl. intuition.
Qed.

Lemma mval_ins cs acc : ins_all (mval cs) acc = ins_all (List.concat cs) acc.
Proof.
  destruct cs as [|a [|b cs]].
  - reflexivity.
  - simpl. rewrite app_nil_r. reflexivity.
  - unfold mval. apply ins_all_canon0.
Qed.

(* Forall2-free formulation: sources given as chunk-map lists *)
Lemma sources_ins css acc :
  ins_all (List.concat (map mval css)) acc = ins_all (List.concat (map entries (map sVM css))) acc.
Proof.
  revert acc. induction css as [|cs css IH]; intros acc; simpl; auto.
  rewrite !ins_all_app, mval_ins, entries_sVM, IH. reflexivity.
Qed.


Lemma pdisj_map_keys {X} (f g : X -> amap) (l : list X) :
  (forall x k, In k (mkeys (g x)) -> In k (mkeys (f x))) -> pdisj (map f l) -> pdisj (map g l).
Proof.
  intros Hk. induction l as [|x l IH]; simpl; auto.
  intros (Hx & Hp). split; auto.
  intros b Hb k Hkx Hkb. apply in_map_iff in Hb as (y & <- & Hy).
  apply (Hx (f y) (in_map f l y Hy) k); auto.
Qed.

Lemma concat_sVM_length css :
  (forall cs, In cs css -> cs <> []) -> List.length css <= List.length (List.concat (map sVM css)).
Proof.
  induction css as [|cs css IH]; simpl; intros H; auto.
  rewrite app_length. specialize (IH (fun c Hc => H c (or_intror Hc))).
  assert (cs <> []) by (apply H; auto). destruct cs; [congruence|]. simpl. lia.
Qed.

Lemma concat_merge_core css t :
  (forall cs, In cs css -> cs <> []) -> 2 <= List.length css ->
  Interleaving (map sVM css) t ->
  disjoint_keys [] (map mval css) = true ->
  vsconcat t = Ok (VM (ins_all (List.concat (map mval css)) [])).
Proof.
  intros Hne Hlen Hil Hd.
  assert (Hall : forall it, In it t -> exists m, it = Val (VM m)).
  { intros it Hit. destruct (interleaving_in _ _ Hil it Hit) as (l & Hl & Hx).
    apply in_map_iff in Hl as (cs & <- & _). eapply in_sVM; eauto. }
  destruct (sVM_inv t Hall) as (tm & ->).
  assert (Hl2 : 2 <= List.length tm).
  { apply interleaving_length in Hil. unfold sVM at 1 in Hil. rewrite map_length in Hil.
    rewrite Hil. pose proof (concat_sVM_length css Hne). lia. }
  rewrite vsconcat_sVM by (destruct tm; [simpl in Hl2; lia|congruence]).
  do 2 f_equal.
  assert (Emv : mval tm = ins_all (List.concat tm) []).
  { destruct tm as [|a [|b tm]]; simpl in Hl2; try lia. reflexivity. }
  rewrite Emv, <- entries_sVM.
  rewrite (interleave_entries _ _ Hil).
  - symmetry. apply sources_ins.
  - apply disjoint_keys_spec in Hd as (Hp & _).
    rewrite map_map. revert Hp. apply pdisj_map_keys.
    intros cs k Hk. rewrite entries_sVM in Hk. apply mval_keys, Hk.
Qed.

(* every order-preserving interleaving of key-disjoint map streams concatenates to the
   merge (mergeMap) of the concatenations of the sources *)
Theorem concat_merge_lem ls ms t :
  Forall2 (fun s m => vsconcat s = Ok (VM m)) ls ms ->
  2 <= List.length ls ->
  Interleaving ls t ->
  disjoint_keys [] ms = true ->
  vsconcat t = v_merge (map VM ms).
Proof.
  intros HF Hlen Hil Hd.
  assert (Hcss : exists css, ls = map sVM css /\ ms = map mval css /\ forall cs, In cs css -> cs <> []).
  { clear -HF. induction HF as [|s m ls ms Hs HF IH].
    - exists []. repeat split; auto.
    - destruct IH as (css & -> & -> & Hne).
      apply vsconcat_ok in Hs as [(ss & _ & _ & Hv)|(cs & Hcs & -> & Hv)]; [discriminate|].
      inversion Hv; subst. exists (cs :: css). repeat split; auto.
      intros c [<-|Hc]; auto. }
  destruct Hcss as (css & -> & -> & Hne).
  rewrite map_length in Hlen.
  rewrite (concat_merge_core css t Hne Hlen Hil Hd).
  unfold v_merge.
  destruct css as [|a [|b css]]; simpl in Hlen; try lia.
  change (map VM (map mval (a :: b :: css))) with (VM (mval a) :: VM (mval b) :: map VM (map mval css)).
  change (VM (mval a) :: VM (mval b) :: map VM (map mval css)) with (map VM (map mval (a :: b :: css))).
  rewrite all_map_map, Hd. reflexivity.
Qed.

(* a source that does not concatenate (error item, mixed types) makes the merged stream
   not concatenate either; an empty source is simply absent from the merge *)
Lemma merge_failed ls t s :
  Interleaving ls t -> In s ls -> s <> [] -> failed (vsconcat s) -> failed (vsconcat t).
Proof.
  intros Hil Hs Hn Hf. apply (failed_by_good s); auto.
  intros Hg. apply good_items in Hg. apply good_items.
  destruct Hg as [Hg|Hg]; [left|right]; intros it Hit; apply Hg;
    eapply interleaving_in_rev; eauto.
Qed.

Lemma merge_nonnil {X} (ls : list (list X)) t s :
  Interleaving ls t -> In s ls -> s <> [] -> t <> [].
Proof.
  intros Hil Hs Hn ->. destruct s as [|x s]; [congruence|].
  exact (interleaving_in_rev _ _ Hil _ x Hs (or_introl eq_refl)).
Qed.

(* F-C04: two sources carrying the same key. mergeMap rejects the values, the merged
   stream concatenates — to a value that depends on the interleaving. *)
Definition dup_src1 : stream val := [Val (VM [(0%N, "A"%string)])].
Definition dup_src2 : stream val := [Val (VM [(0%N, "B"%string)])].

Lemma fanin_dupkey_witness :
  v_merge [VM [(0%N, "A"%string)]; VM [(0%N, "B"%string)]] = Err e_dupkey
  /\ Interleaving [dup_src1; dup_src2] (dup_src1 ++ dup_src2)
  /\ Interleaving [dup_src1; dup_src2] (dup_src2 ++ dup_src1)
  /\ vsconcat (dup_src1 ++ dup_src2) = Ok (VM [(0%N, "AB"%string)])
  /\ vsconcat (dup_src2 ++ dup_src1) = Ok (VM [(0%N, "BA"%string)]).
Proof.
  repeat split; try reflexivity.
  - apply (il_cons [] _ [] [dup_src2]). apply (il_cons [[]] _ [] []).
    constructor. repeat constructor.
  - apply (il_cons [dup_src1] _ [] []). apply (il_cons [] _ [] [[]]).
    constructor. repeat constructor.
Qed.
