(* Proofs/PregelOrder.v — the superstep is independent of the order in which the tasks of a step complete
   (C01): calculateNextTasks gives the same channels and the same next frontier for every permutation of
   the completed tasks. This is what justifies resolving Go's completion / map-iteration order to
   "ascending key order" in the model (Model/Graph.v). *)
From Eino Require Import Base.Util Model.Graph Proofs.PregelBase Proofs.Pregel.
From Coq Require Import Lia Permutation.
Open Scope N_scope.

Section Order.
  Variable V : Type.
  Variable ops : vops V.

  Definition consistent (l : list (key * V)) : Prop :=
    forall s v1 v2, In (s, v1) l -> In (s, v2) l -> v1 = v2.

  Lemma collect_consistent_lookup : forall (l : list (key * V)) s v,
    consistent l -> (alookup s (collect l) = Some v <-> In (s, v) l).
  Proof.
    intros l s v Hc. unfold collect. rewrite collect_from_lookup. simpl. split.
    - destruct (alookup s (rev _)) eqn:E; intros H; [|discriminate].
      inversion H; subst. apply alookup_some_in in E. apply in_rev in E. exact E.
    - destruct (alookup s (rev _)) as [v'|] eqn:E; intros Hin.
      + apply alookup_some_in in E. apply in_rev in E. f_equal. eapply Hc; eassumption.
      + exfalso. apply alookup_none_notin in E. apply E. unfold akeys. rewrite map_rev. apply -> in_rev.
        apply (in_map fst) in Hin. exact Hin.
  Qed.

  Lemma collect_perm_consistent : forall (l l' : list (key * V)),
    consistent l -> Permutation l l' -> collect l = collect l'.
  Proof.
    intros l l' Hc Hp.
    assert (Hc' : consistent l').
    { intros s v1 v2 H1 H2. apply (Hc s); eapply Permutation_in; try eassumption; apply Permutation_sym; exact Hp. }
    apply ksorted_ext; [apply collect_ksorted|apply collect_ksorted|].
    intros s. apply option_ext_some. intros v.
    rewrite (collect_consistent_lookup l s v Hc), (collect_consistent_lookup l' s v Hc').
    split; intros H; eapply Permutation_in; try eassumption. apply Permutation_sym; exact Hp.
  Qed.

  Lemma forallb_perm : forall {A} (f : A -> bool) l l', Permutation l l' -> forallb f l = forallb f l'.
  Proof.
    intros A f l l' H. induction H; simpl.
    - reflexivity.
    - rewrite IHPermutation. reflexivity.
    - destruct (f x), (f y); reflexivity.
    - congruence.
  Qed.

  Lemma filter_perm : forall {A} (f : A -> bool) l l', Permutation l l' -> Permutation (filter f l) (filter f l').
  Proof.
    intros A f l l' H. induction H; simpl.
    - constructor.
    - destruct (f x); [constructor|]; assumption.
    - destruct (f x), (f y); try apply Permutation_refl; try apply perm_swap; constructor; apply Permutation_refl.
    - eapply Permutation_trans; eassumption.
  Qed.

  Lemma flat_map_perm : forall {A B} (f : A -> list B) l l', Permutation l l' -> Permutation (flat_map f l) (flat_map f l').
  Proof.
    intros A B f l l' H. induction H; simpl.
    - constructor.
    - apply Permutation_app_head. assumption.
    - rewrite !app_assoc. apply Permutation_app_tail. apply Permutation_app_comm.
    - eapply Permutation_trans; eassumption.
  Qed.

  Lemma writes_of_perm : forall g (outs outs' : list (key * V)),
    Permutation outs outs' -> Permutation (writes_of V ops g outs) (writes_of V ops g outs').
  Proof. intros. unfold writes_of. apply flat_map_perm. assumption. Qed.

  Lemma deps_of_perm : forall g (outs outs' : list (key * V)),
    Permutation outs outs' -> Permutation (deps_of V ops g outs) (deps_of V ops g outs').
  Proof. intros. unfold deps_of. apply flat_map_perm. assumption. Qed.

  Lemma sent_perm : forall g (outs outs' : list (key * V)) t,
    Permutation outs outs' -> Permutation (sent V ops g outs t) (sent V ops g outs' t).
  Proof.
    intros g outs outs' t H. unfold sent, incoming_vals. apply Permutation_map. apply filter_perm.
    apply writes_of_perm. exact H.
  Qed.

  Lemma sent_consistent : forall g (outs : list (key * V)) t, NoDup (akeys outs) -> consistent (sent V ops g outs t).
  Proof. intros g outs t Hnd s v1 v2 H1 H2. eapply sent_sources_nodup_lookup; eassumption. Qed.

  Lemma outs_legal_perm : forall g (outs outs' : list (key * V)),
    Permutation outs outs' -> outs_legal V ops g outs -> outs_legal V ops g outs'.
  Proof.
    intros g outs outs' Hp Hl. unfold outs_legal in *. rewrite Forall_forall in *.
    intros x Hx. apply Hl. eapply Permutation_in; [apply Permutation_sym; exact Hp|exact Hx].
  Qed.

  Theorem calc_next_order_independent : forall g (cs : chans V) outs outs',
    g_mode g = Pregel -> chans_empty V cs ->
    NoDup (akeys outs) -> outs_legal V ops g outs -> Permutation outs outs' ->
    calc_next V ops g cs outs = calc_next V ops g cs outs'.
  Proof.
    intros g cs outs outs' Hm He Hnd Hl Hp.
    unfold calc_next.
    rewrite (resolve_all_pregel_total V ops g outs cs Hm Hl).
    rewrite (resolve_all_pregel_total V ops g outs' cs Hm (outs_legal_perm g outs outs' Hp Hl)).
    cbn [res_bind]. unfold update_chans.
    assert (Ht : targets_exist V cs (writes_of V ops g outs) (deps_of V ops g outs) =
                 targets_exist V cs (writes_of V ops g outs') (deps_of V ops g outs')).
    { unfold targets_exist. f_equal; apply forallb_perm; [apply writes_of_perm|apply deps_of_perm]; exact Hp. }
    rewrite Ht. destruct (targets_exist V cs (writes_of V ops g outs') (deps_of V ops g outs')); [|reflexivity].
    cbn [res_bind]. f_equal.
    apply map_ext_in. intros [k c] Hin. rewrite !update_chan_pregel by exact Hm. f_equal.
    unfold pregel_report_values. f_equal.
    unfold chans_empty in He. rewrite Forall_forall in He. pose proof (He _ Hin) as Hc. simpl in Hc. rewrite Hc.
    change (collect (incoming_vals V g k (writes_of V ops g outs)) = collect (incoming_vals V g k (writes_of V ops g outs'))).
    apply collect_perm_consistent.
    - apply (sent_consistent g outs k Hnd).
    - apply (sent_perm g outs outs' k Hp).
  Qed.
End Order.

(* ================= "parallel stages merged by key", for the harness values ================= *)
(* the fan-in of maps {k_i : v_i} with pairwise distinct keys is the map of all (k_i, v_i), sorted by key;
   a key occurring twice is the duplicated-key error *)
Lemma merge_into_fresh : forall kvs acc,
  NoDup (map fst kvs) -> (forall k, In k (map fst kvs) -> ~ In k (akeys acc)) ->
  merge_into acc kvs = Ok (collect_from acc kvs).
Proof.
  unfold merge_into, collect_from.
  induction kvs as [|[k v] kvs IH]; intros acc Hnd Hfresh; simpl; [reflexivity|].
  inversion Hnd as [|x y Hnot Hnd']; subst.
  assert (Hk : alookup k acc = None) by (apply alookup_none_notin; apply Hfresh; left; reflexivity).
  rewrite Hk. apply IH; [exact Hnd'|].
  intros k' Hk' Hin. apply akeys_ainsert_in in Hin. destruct Hin as [->|Hin].
  - apply Hnot. exact Hk'.
  - apply (Hfresh k'); [right; exact Hk'|exact Hin].
Qed.

Lemma fold_merge_err : forall (vs : list (key * value)) e,
  fold_left (fun r kv => do a <- r; match snd kv with
                                     | VMap kvs => merge_into a kvs
                                     | VNil => Ok a
                                     | VAtom _ => Err eMergeType
                                     end) vs (Err e) = Err e.
Proof. induction vs as [|x vs IH]; intros e; simpl; [reflexivity|apply IH]. Qed.

Theorem tree_merge_by_key : forall (xs : list (key * (N * value))),
  NoDup (map (fun x => fst (snd x)) xs) ->
  tree_merge (map (fun x => (fst x, VMap [snd x])) xs) = Ok (VMap (collect (map snd xs))).
Proof.
  intros xs Hnd. unfold tree_merge.
  assert (H : forall acc : list (N * value), (forall k, In k (map (fun x => fst (snd x)) xs) -> ~ In k (akeys acc)) ->
            fold_left (fun r kv => do a <- r; match snd kv with
                                               | VMap kvs => merge_into a kvs
                                               | VNil => Ok a
                                               | VAtom _ => Err eMergeType
                                               end) (map (fun x => (fst x, VMap [snd x])) xs) (Ok acc)
            = Ok (collect_from acc (map snd xs))).
  { induction xs as [|[s [k v]] xs IH]; intros acc Hfresh; simpl; [reflexivity|].
    simpl in Hnd. inversion Hnd as [|x y Hnot Hnd']; subst.
    assert (Hk : alookup k acc = None) by (apply alookup_none_notin; apply Hfresh; left; reflexivity).
    assert (Hm : merge_into acc [(k, v)] = Ok (ainsert k v acc))
      by (unfold merge_into; simpl; rewrite Hk; reflexivity).
    rewrite Hm. rewrite (IH Hnd').
    - reflexivity.
    - intros k' Hk' Hin. apply akeys_ainsert_in in Hin. destruct Hin as [->|Hin].
      + apply Hnot. exact Hk'.
      + apply (Hfresh k'); [right; exact Hk'|exact Hin]. }
  pose proof (H [] (fun k _ (F : In k []) => F)) as H0. unfold key in *. rewrite H0. reflexivity.
Qed.

Theorem tree_merge_dup_key : forall (xs ys : list (key * (N * value))) s1 s2 k v1 v2,
  NoDup (map (fun x => fst (snd x)) xs) -> ~ In k (map (fun x => fst (snd x)) xs) ->
  tree_merge (map (fun x => (fst x, VMap [snd x])) (xs ++ (s1, (k, v1)) :: (s2, (k, v2)) :: ys)) = Err eDupKey.
Proof.
  intros xs ys s1 s2 k v1 v2 Hnd Hk. unfold tree_merge. rewrite map_app, fold_left_app.
  pose proof (tree_merge_by_key xs Hnd) as H. unfold tree_merge in H.
  destruct (fold_left _ (map (fun x => (fst x, VMap [snd x])) xs) (Ok [])) as [acc| |] eqn:E;
    cbn [res_bind] in H; try discriminate.
  inversion H as [Hacc]. simpl.
  assert (Hn : alookup k acc = None).
  { apply alookup_none_notin. intros Hin. rewrite Hacc in Hin. apply (proj1 (collect_keys _ _)) in Hin. apply Hk.
    unfold akeys in Hin. rewrite map_map in Hin. exact Hin. }
  assert (Hm1 : merge_into acc [(k, v1)] = Ok (ainsert k v1 acc))
    by (unfold merge_into; simpl; rewrite Hn; reflexivity).
  assert (Hm2 : merge_into (ainsert k v1 acc) [(k, v2)] = Err eDupKey)
    by (unfold merge_into; simpl; rewrite alookup_ainsert, N.eqb_refl; reflexivity).
  rewrite Hacc in Hm1, Hm2. rewrite Hm1. cbn [res_bind]. rewrite Hm2. rewrite fold_merge_err. reflexivity.
Qed.
