(* Proofs/DagChan.v — C02, channel level: the dagChannel operations of Model/Graph.v
   (dag_report_values / dag_report_deps / dag_report_skip / dag_get) described through look-ups,
   and the three channel-level statements of the property:
     dag_get_ready_iff, dag_get_resets, dag_skip_iff_all_skipped.
   Association lists are kept sorted by [ainsert]; everything below talks about them through [alookup]. *)
From Eino Require Import Base.Util Model.Graph.
From Coq Require Import Lia.
Open Scope N_scope.

(* ================= association lists sorted by key ================= *)
Section AList.
  Context {A : Type}.
  Implicit Types l : list (N * A).

  Fixpoint ksorted l : Prop :=
    match l with
    | [] => True
    | ka :: l' => (forall k', In k' (akeys l') -> fst ka < k') /\ ksorted l'
    end.

  Lemma alookup_ainsert_eq k a l : alookup k (ainsert k a l) = Some a.
  Proof.
    induction l as [|[k' a'] l IH]; simpl.
    - now rewrite N.eqb_refl.
    - destruct (N.ltb k k') eqn:E1; simpl.
      + now rewrite N.eqb_refl.
      + destruct (N.eqb k k') eqn:E2; simpl.
        * now rewrite N.eqb_refl.
        * now rewrite E2.
  Qed.

  Lemma alookup_ainsert_neq k k' a l : k' <> k -> alookup k' (ainsert k a l) = alookup k' l.
  Proof.
    intros Hne. induction l as [|[k0 a0] l IH]; simpl.
    - destruct (N.eqb k' k) eqn:E; [apply N.eqb_eq in E; congruence | reflexivity].
    - destruct (N.ltb k k0) eqn:E1; simpl.
      + destruct (N.eqb k' k) eqn:E; [apply N.eqb_eq in E; congruence | reflexivity].
      + destruct (N.eqb k k0) eqn:E2; simpl.
        * apply N.eqb_eq in E2. subst k0.
          destruct (N.eqb k' k) eqn:E; [apply N.eqb_eq in E; congruence | reflexivity].
        * destruct (N.eqb k' k0); [reflexivity | exact IH].
  Qed.

  Lemma alookup_ainsert k k' a l :
    alookup k' (ainsert k a l) = if N.eqb k' k then Some a else alookup k' l.
  Proof.
    destruct (N.eqb k' k) eqn:E.
    - apply N.eqb_eq in E. subst. apply alookup_ainsert_eq.
    - apply N.eqb_neq in E. now apply alookup_ainsert_neq.
  Qed.

  Lemma akeys_ainsert k k' a l : In k' (akeys (ainsert k a l)) <-> k' = k \/ In k' (akeys l).
  Proof.
    unfold akeys. induction l as [|[k0 a0] l IH]; simpl.
    - intuition.
    - destruct (N.ltb k k0) eqn:E1; simpl; [intuition|].
      destruct (N.eqb k k0) eqn:E2; simpl.
      + apply N.eqb_eq in E2. subst. intuition.
      + rewrite IH. intuition.
  Qed.

  Lemma ksorted_ainsert k a l : ksorted l -> ksorted (ainsert k a l).
  Proof.
    induction l as [|[k0 a0] l IH]; simpl; intros Hs.
    - split; [intros ? []|exact I].
    - destruct Hs as [Hlt Hs].
      destruct (N.ltb k k0) eqn:E1.
      + apply N.ltb_lt in E1. simpl. split; [|split; assumption].
        intros k' [<-|Hin]; [assumption|]. specialize (Hlt _ Hin). simpl in Hlt. lia.
      + apply N.ltb_ge in E1. destruct (N.eqb k k0) eqn:E2.
        * apply N.eqb_eq in E2. subst. simpl. split; assumption.
        * apply N.eqb_neq in E2. simpl. split; [|apply IH; assumption].
          intros k' Hin. apply akeys_ainsert in Hin. destruct Hin as [->|Hin]; [lia|apply Hlt; assumption].
  Qed.

  Lemma alookup_in k a l : alookup k l = Some a -> In (k, a) l.
  Proof.
    induction l as [|[k0 a0] l IH]; simpl; [discriminate|].
    destruct (N.eqb k k0) eqn:E.
    - apply N.eqb_eq in E. subst. intros [= ->]. now left.
    - intros H. right. now apply IH.
  Qed.

  Lemma alookup_none k l : alookup k l = None <-> ~ In k (akeys l).
  Proof.
    unfold akeys. induction l as [|[k0 a0] l IH]; simpl; [intuition|].
    destruct (N.eqb k k0) eqn:E.
    - apply N.eqb_eq in E. subst. split; [discriminate|intros H; exfalso; apply H; now left].
    - apply N.eqb_neq in E. rewrite IH. intuition.
  Qed.

  Lemma alookup_some_key k a l : alookup k l = Some a -> In k (akeys l).
  Proof. intros H. apply alookup_in in H. unfold akeys. now apply (in_map fst) in H. Qed.

  Lemma alookup_key_some k l : In k (akeys l) -> exists a, alookup k l = Some a.
  Proof.
    intros H. destruct (alookup k l) eqn:E; [eauto|]. apply alookup_none in E. contradiction.
  Qed.

  Lemma ksorted_in_alookup k a l : ksorted l -> In (k, a) l -> alookup k l = Some a.
  Proof.
    induction l as [|[k0 a0] l IH]; simpl; [intros _ []|].
    intros [Hlt Hs] [[= -> ->]|Hin].
    - now rewrite N.eqb_refl.
    - destruct (N.eqb k k0) eqn:E.
      + apply N.eqb_eq in E. subst. exfalso.
        assert (Hk : In k0 (akeys l)) by (unfold akeys; now apply (in_map fst) in Hin).
        specialize (Hlt _ Hk). simpl in Hlt. lia.
      + now apply IH.
  Qed.

  Lemma ksorted_nodup l : ksorted l -> NoDup (akeys l).
  Proof.
    induction l as [|[k0 a0] l IH]; simpl; intros Hs; [constructor|].
    destruct Hs as [Hlt Hs]. constructor; [|now apply IH].
    intros Hin. specialize (Hlt _ Hin). simpl in Hlt. lia.
  Qed.

  (* inserting at a key that is present keeps the key list *)
  Lemma akeys_ainsert_present k a l : ksorted l -> In k (akeys l) -> akeys (ainsert k a l) = akeys l.
  Proof.
    unfold akeys. induction l as [|[k0 a0] l IH]; simpl; [intros _ []|].
    intros [Hlt Hs] Hin.
    destruct (N.ltb k k0) eqn:E1.
    - apply N.ltb_lt in E1. destruct Hin as [->|Hin]; [lia|]. specialize (Hlt _ Hin). simpl in Hlt. lia.
    - destruct (N.eqb k k0) eqn:E2.
      + apply N.eqb_eq in E2. now subst.
      + apply N.eqb_neq in E2. simpl. f_equal. apply IH; [assumption|].
        destruct Hin as [->|Hin]; [congruence|assumption].
  Qed.

  (* two sorted lists with the same look-ups are equal *)
  Lemma ksorted_ext l1 l2 :
    ksorted l1 -> ksorted l2 -> (forall k, alookup k l1 = alookup k l2) -> l1 = l2.
  Proof.
    revert l2. induction l1 as [|[k1 a1] l1 IH]; intros [|[k2 a2] l2] H1 H2 Hext.
    - reflexivity.
    - specialize (Hext k2). simpl in Hext. rewrite N.eqb_refl in Hext. discriminate.
    - specialize (Hext k1). simpl in Hext. rewrite N.eqb_refl in Hext. discriminate.
    - destruct H1 as [Hlt1 H1], H2 as [Hlt2 H2]. simpl in Hlt1, Hlt2.
      assert (Hk : k1 = k2).
      { destruct (N.lt_trichotomy k1 k2) as [Hc|[Hc|Hc]]; [|assumption|]; exfalso.
        - pose proof (Hext k1) as E. simpl in E. rewrite N.eqb_refl in E.
          destruct (N.eqb k1 k2) eqn:E'; [apply N.eqb_eq in E'; lia|].
          symmetry in E. apply alookup_some_key in E. specialize (Hlt2 _ E). lia.
        - pose proof (Hext k2) as E. simpl in E. rewrite N.eqb_refl in E.
          destruct (N.eqb k2 k1) eqn:E'; [apply N.eqb_eq in E'; lia|].
          apply alookup_some_key in E. specialize (Hlt1 _ E). lia. }
      subst k2.
      pose proof (Hext k1) as E. simpl in E. rewrite N.eqb_refl in E. injection E as ->.
      f_equal. apply IH; [assumption..|].
      intros k. specialize (Hext k). simpl in Hext.
      destruct (N.eqb k k1) eqn:E'; [|assumption].
      apply N.eqb_eq in E'. subst k.
      assert (N1 : alookup k1 l1 = None).
      { apply alookup_none. intros Hin. specialize (Hlt1 _ Hin). lia. }
      assert (N2 : alookup k1 l2 = None).
      { apply alookup_none. intros Hin. specialize (Hlt2 _ Hin). lia. }
      congruence.
  Qed.

  Lemma existsb_alookup (f : N * A -> bool) l :
    ksorted l -> (existsb f l = true <-> exists k a, alookup k l = Some a /\ f (k, a) = true).
  Proof.
    intros Hs. rewrite existsb_exists. split.
    - intros [[k a] [Hin Hf]]. exists k, a. split; [now apply ksorted_in_alookup|assumption].
    - intros (k & a & Hl & Hf). exists (k, a). split; [now apply alookup_in|assumption].
  Qed.

  Lemma forallb_alookup (f : N * A -> bool) l :
    ksorted l -> (forallb f l = true <-> forall k a, alookup k l = Some a -> f (k, a) = true).
  Proof.
    intros Hs. rewrite forallb_forall. split.
    - intros H k a Hl. apply H. now apply alookup_in.
    - intros H [k a] Hin. apply H. now apply ksorted_in_alookup.
  Qed.

  Lemma ksorted_fold_ainsert (ks : list N) (a : A) :
    ksorted (fold_right (fun p m => ainsert p a m) [] ks).
  Proof. induction ks; simpl; [exact I|now apply ksorted_ainsert]. Qed.

  Lemma alookup_fold_ainsert (ks : list N) (a : A) k :
    alookup k (fold_right (fun p m => ainsert p a m) [] ks) = if memb k ks then Some a else None.
  Proof.
    induction ks as [|k0 ks IH]; simpl; [reflexivity|].
    rewrite alookup_ainsert. destruct (N.eqb k k0); [reflexivity|exact IH].
  Qed.
End AList.

Lemma alookup_map_snd {A B} (f : N * A -> B) k (l : list (N * A)) :
  alookup k (map (fun kv => (fst kv, f kv)) l) = option_map (fun a => f (k, a)) (alookup k l).
Proof.
  induction l as [|[k0 a0] l IH]; simpl; [reflexivity|].
  destruct (N.eqb k k0) eqn:E; [|exact IH].
  apply N.eqb_eq in E. now subst.
Qed.

Lemma akeys_map_snd {A B} (f : N * A -> B) (l : list (N * A)) :
  akeys (map (fun kv => (fst kv, f kv)) l) = akeys l.
Proof. unfold akeys. rewrite map_map. reflexivity. Qed.

Lemma ksorted_akeys_eq {A B} (l1 : list (N * A)) (l2 : list (N * B)) :
  akeys l1 = akeys l2 -> ksorted l1 -> ksorted l2.
Proof.
  revert l2. induction l1 as [|[k a] l1 IH]; intros [|[k' b] l2]; simpl; try discriminate; [auto|].
  intros [= -> E] [Hlt Hs]. simpl in *. split; [|eapply IH; eassumption].
  unfold akeys in *. rewrite <- E. exact Hlt.
Qed.

Lemma memb_in k l : memb k l = true <-> In k l.
Proof.
  unfold memb. rewrite existsb_exists. split.
  - intros (x & Hin & E). apply N.eqb_eq in E. now subst.
  - intros H. exists k. split; [assumption|apply N.eqb_refl].
Qed.

Lemma memb_false k l : memb k l = false <-> ~ In k l.
Proof. rewrite <- memb_in. destruct (memb k l); intuition congruence. Qed.

Lemma dep_eqb_eq a b : dep_eqb a b = true <-> a = b.
Proof. destruct a, b; simpl; intuition congruence. Qed.

(* ================= the dagChannel ================= *)
Section DagChan.
  Variable V : Type.
  Variable ops : vops V.
  Notation chan := (chan V).

  (* structural well-formedness: what chan_init establishes and every operation keeps *)
  Definition chan_ok (c : chan) : Prop :=
    ksorted (c_ctrl V c) /\ ksorted (c_data V c) /\ ksorted (c_vals V c).

  Definition ctrl_st (c : chan) (p : key) : option dep := alookup p (c_ctrl V c).
  Definition data_st (c : chan) (p : key) : option bool := alookup p (c_data V c).

  (* ---------- dag_get ---------- *)
  Lemma dag_ready_iff (c : chan) :
    chan_ok c ->
    (dag_ready V c = true <->
     c_skipped V c = false
     /\ (forall p d, ctrl_st c p = Some d -> d <> Waiting)
     /\ (forall p b, data_st c p = Some b -> b = true)).
  Proof.
    intros (Hc & Hd & _). unfold dag_ready, ctrl_st, data_st.
    rewrite !andb_true_iff, !negb_true_iff. split.
    - intros [[Hsk Hw] Hdt]. split; [assumption|]. split.
      + intros p d Hl ->.
        assert (E : existsb (fun kd : N * dep => dep_eqb (snd kd) Waiting) (c_ctrl V c) = true).
        { apply existsb_alookup; [assumption|]. now exists p, Waiting. }
        exact (eq_true_false_abs _ E Hw).
      + intros p [|] Hl; [reflexivity|].
        assert (E : existsb (fun kb : N * bool => negb (snd kb)) (c_data V c) = true).
        { apply existsb_alookup; [assumption|]. now exists p, false. }
        destruct (eq_true_false_abs _ E Hdt).
    - intros (Hsk & Hw & Hdt). repeat split; [assumption| |].
      + destruct (existsb _ (c_ctrl V c)) eqn:E; [|reflexivity].
        apply existsb_alookup in E; [|assumption]. destruct E as (p & d & Hl & Hf). simpl in Hf.
        apply dep_eqb_eq in Hf. subst. now specialize (Hw _ _ Hl).
      + destruct (existsb _ (c_data V c)) eqn:E; [|reflexivity].
        apply existsb_alookup in E; [|assumption]. destruct E as (p & b & Hl & Hf). simpl in Hf.
        specialize (Hdt _ _ Hl). subst. discriminate.
  Qed.

  (* ready <-> not skipped, no control predecessor waiting, every data predecessor reported (or skipped:
     reportSkip sets the data flag too). A channel that is not ready answers "nothing" and is unchanged; a
     ready one delivers the merge of its values (or the merge error) *)
  Definition ready_cond (c : chan) : Prop :=
    c_skipped V c = false
    /\ (forall p d, ctrl_st c p = Some d -> d <> Waiting)
    /\ (forall p b, data_st c p = Some b -> b = true).

  Lemma dag_get_ready_iff (c : chan) :
    chan_ok c ->
    (ready_cond c <-> dag_get V ops c = (do v <- get_merge V ops (c_vals V c); Ok (Some v, dag_reset V c)))
    /\ (~ ready_cond c <-> dag_get V ops c = Ok (None, c)).
  Proof.
    intros Hok. pose proof (dag_ready_iff c Hok) as Hr. fold (ready_cond c) in Hr.
    unfold dag_get. destruct (dag_ready V c) eqn:E.
    - assert (Hc : ready_cond c) by now apply Hr.
      split; split; auto; try tauto.
      destruct (get_merge V ops (c_vals V c)); simpl; discriminate.
    - assert (Hc : ~ ready_cond c) by (intros H; apply Hr in H; discriminate).
      split; split; auto; try tauto.
      destruct (get_merge V ops (c_vals V c)); simpl; discriminate.
  Qed.

  Lemma dag_get_some_iff (c : chan) :
    chan_ok c ->
    ((exists v c', dag_get V ops c = Ok (Some v, c')) <->
     (dag_ready V c = true /\ exists v, get_merge V ops (c_vals V c) = Ok v)).
  Proof.
    intros _. unfold dag_get. destruct (dag_ready V c).
    - destruct (get_merge V ops (c_vals V c)) as [v|e|]; simpl; split.
      + intros _. split; [reflexivity|eauto].
      + intros _. eauto.
      + intros (v & c' & H). discriminate.
      + intros (_ & v & H). discriminate.
      + intros (v & c' & H). discriminate.
      + intros (_ & v & H). discriminate.
    - split; [intros (v & c' & H); discriminate|intros [H _]; discriminate].
  Qed.

  Lemma dag_get_none_iff (c : chan) c' :
    dag_get V ops c = Ok (None, c') <-> (dag_ready V c = false /\ c' = c).
  Proof.
    unfold dag_get. destruct (dag_ready V c).
    - destruct (get_merge V ops (c_vals V c)); simpl; split; try discriminate; intros [H _]; discriminate.
    - split; [intros [= <-]; auto|intros [_ ->]; reflexivity].
  Qed.

  Lemma dag_get_some_inv (c : chan) v c' :
    dag_get V ops c = Ok (Some v, c') ->
    dag_ready V c = true /\ get_merge V ops (c_vals V c) = Ok v /\ c' = dag_reset V c.
  Proof.
    unfold dag_get. destruct (dag_ready V c); [|discriminate].
    destruct (get_merge V ops (c_vals V c)); simpl; [|discriminate..].
    intros [= <- <-]. auto.
  Qed.

  (* the reset performed by a successful get: every control predecessor waits again, every data flag is
     cleared, the values are gone; the key sets and the skipped flag are kept *)
  Lemma dag_reset_ctrl c p : ctrl_st (dag_reset V c) p = option_map (fun _ => Waiting) (ctrl_st c p).
  Proof.
    unfold ctrl_st, dag_reset; simpl.
    induction (c_ctrl V c) as [|[k d] l IH]; simpl; [reflexivity|].
    destruct (N.eqb p k); [reflexivity|exact IH].
  Qed.

  Lemma dag_reset_data c p : data_st (dag_reset V c) p = option_map (fun _ => false) (data_st c p).
  Proof.
    unfold data_st, dag_reset; simpl.
    induction (c_data V c) as [|[k d] l IH]; simpl; [reflexivity|].
    destruct (N.eqb p k); [reflexivity|exact IH].
  Qed.

  Lemma dag_reset_keys c :
    akeys (c_ctrl V (dag_reset V c)) = akeys (c_ctrl V c) /\ akeys (c_data V (dag_reset V c)) = akeys (c_data V c).
  Proof. unfold dag_reset, akeys; simpl. rewrite !map_map. split; reflexivity. Qed.

  Lemma dag_reset_ok c : chan_ok c -> chan_ok (dag_reset V c).
  Proof.
    intros (Hc & Hd & Hv). destruct (dag_reset_keys c) as [E1 E2].
    repeat split; simpl; [eapply ksorted_akeys_eq; [symmetry; exact E1|exact Hc]
                         |eapply ksorted_akeys_eq; [symmetry; exact E2|exact Hd]].
  Qed.

  Lemma dag_get_resets (c : chan) v c' :
    dag_get V ops c = Ok (Some v, c') ->
    (forall p d, ctrl_st c' p = Some d -> d = Waiting)
    /\ (forall p b, data_st c' p = Some b -> b = false)
    /\ c_vals V c' = []
    /\ c_skipped V c' = c_skipped V c
    /\ akeys (c_ctrl V c') = akeys (c_ctrl V c) /\ akeys (c_data V c') = akeys (c_data V c).
  Proof.
    intros H. apply dag_get_some_inv in H. destruct H as (_ & _ & ->).
    split; [|split; [|split; [|split]]].
    - intros p d. rewrite dag_reset_ctrl. destruct (ctrl_st c p); simpl; congruence.
    - intros p b. rewrite dag_reset_data. destruct (data_st c p); simpl; congruence.
    - reflexivity.
    - reflexivity.
    - apply dag_reset_keys.
  Qed.

  (* after a successful get a channel with at least one predecessor is not ready *)
  Lemma dag_reset_not_ready c :
    chan_ok c -> (c_ctrl V c <> [] \/ c_data V c <> []) -> dag_ready V (dag_reset V c) = false.
  Proof.
    intros Hok Hne. destruct (dag_ready V (dag_reset V c)) eqn:E; [|reflexivity]. exfalso.
    apply dag_ready_iff in E; [|now apply dag_reset_ok]. destruct E as (_ & Hw & Hd).
    destruct Hne as [Hne|Hne].
    - destruct (c_ctrl V c) as [|[k d] l] eqn:El; [congruence|].
      apply (Hw k Waiting); [|reflexivity]. rewrite dag_reset_ctrl. unfold ctrl_st. rewrite El. simpl.
      now rewrite N.eqb_refl.
    - destruct (c_data V c) as [|[k d] l] eqn:El; [congruence|].
      specialize (Hd k false). rewrite dag_reset_data in Hd. unfold data_st in Hd. rewrite El in Hd. simpl in Hd.
      rewrite N.eqb_refl in Hd. specialize (Hd eq_refl). discriminate.
  Qed.

  (* ---------- dag_report_skip ---------- *)
  Definition skip_step (c : chan) (k : key) : chan :=
    {| c_ctrl := match alookup k (c_ctrl V c) with Some _ => ainsert k Skipped (c_ctrl V c) | None => c_ctrl V c end;
       c_data := match alookup k (c_data V c) with Some _ => ainsert k true (c_data V c) | None => c_data V c end;
       c_skipped := c_skipped V c; c_vals := c_vals V c |}.

  Lemma skip_step_ctrl c k p :
    ctrl_st (skip_step c k) p = if N.eqb p k then option_map (fun _ => Skipped) (ctrl_st c p) else ctrl_st c p.
  Proof.
    unfold ctrl_st, skip_step; simpl.
    destruct (N.eqb p k) eqn:E.
    - apply N.eqb_eq in E. subst. destruct (alookup k (c_ctrl V c)) eqn:El; simpl.
      + apply alookup_ainsert_eq. + assumption.
    - apply N.eqb_neq in E. destruct (alookup k (c_ctrl V c)); [now apply alookup_ainsert_neq|reflexivity].
  Qed.

  Lemma skip_step_data c k p :
    data_st (skip_step c k) p = if N.eqb p k then option_map (fun _ => true) (data_st c p) else data_st c p.
  Proof.
    unfold data_st, skip_step; simpl.
    destruct (N.eqb p k) eqn:E.
    - apply N.eqb_eq in E. subst. destruct (alookup k (c_data V c)) eqn:El; simpl.
      + apply alookup_ainsert_eq. + assumption.
    - apply N.eqb_neq in E. destruct (alookup k (c_data V c)); [now apply alookup_ainsert_neq|reflexivity].
  Qed.

  Lemma skip_step_ok c k : chan_ok c -> chan_ok (skip_step c k).
  Proof.
    intros (Hc & Hd & Hv). unfold skip_step. repeat split; simpl; [| |assumption].
    - destruct (alookup k (c_ctrl V c)); [now apply ksorted_ainsert|assumption].
    - destruct (alookup k (c_data V c)); [now apply ksorted_ainsert|assumption].
  Qed.

  Lemma skip_step_keys c k :
    chan_ok c ->
    akeys (c_ctrl V (skip_step c k)) = akeys (c_ctrl V c) /\ akeys (c_data V (skip_step c k)) = akeys (c_data V c).
  Proof.
    intros (Hc & Hd & _). unfold skip_step; simpl. split.
    - destruct (alookup k (c_ctrl V c)) eqn:E; [|reflexivity].
      apply akeys_ainsert_present; [assumption|]. now apply alookup_some_key in E.
    - destruct (alookup k (c_data V c)) eqn:E; [|reflexivity].
      apply akeys_ainsert_present; [assumption|]. now apply alookup_some_key in E.
  Qed.

  Definition skip_steps (c : chan) (ks : list key) : chan := fold_left skip_step ks c.

  Lemma dag_report_skip_eq c ks :
    dag_report_skip V c ks =
    (let c1 := skip_steps c ks in
     {| c_ctrl := c_ctrl V c1; c_data := c_data V c1; c_skipped := all_skipped (c_ctrl V c1); c_vals := c_vals V c1 |},
     all_skipped (c_ctrl V (skip_steps c ks))).
  Proof. reflexivity. Qed.

  Lemma skip_steps_ok c ks : chan_ok c -> chan_ok (skip_steps c ks).
  Proof. revert c. induction ks as [|k ks IH]; simpl; intros c H; [assumption|]. apply IH. now apply skip_step_ok. Qed.

  Lemma skip_steps_ctrl c ks p :
    ctrl_st (skip_steps c ks) p = if memb p ks then option_map (fun _ => Skipped) (ctrl_st c p) else ctrl_st c p.
  Proof.
    revert c. induction ks as [|k ks IH]; simpl; intros c; [reflexivity|].
    rewrite IH, skip_step_ctrl. unfold memb.
    destruct (N.eqb p k); simpl; destruct (existsb (N.eqb p) ks); simpl; try reflexivity.
    destruct (ctrl_st c p); reflexivity.
  Qed.

  Lemma skip_steps_data c ks p :
    data_st (skip_steps c ks) p = if memb p ks then option_map (fun _ => true) (data_st c p) else data_st c p.
  Proof.
    revert c. induction ks as [|k ks IH]; simpl; intros c; [reflexivity|].
    rewrite IH, skip_step_data. unfold memb.
    destruct (N.eqb p k); simpl; destruct (existsb (N.eqb p) ks); simpl; try reflexivity.
    destruct (data_st c p); reflexivity.
  Qed.

  Lemma skip_steps_keys c ks :
    chan_ok c ->
    akeys (c_ctrl V (skip_steps c ks)) = akeys (c_ctrl V c) /\ akeys (c_data V (skip_steps c ks)) = akeys (c_data V c).
  Proof.
    revert c. induction ks as [|k ks IH]; simpl; intros c H; [split; reflexivity|].
    destruct (IH (skip_step c k) (skip_step_ok c k H)) as [E1 E2].
    destruct (skip_step_keys c k H) as [E3 E4]. split; congruence.
  Qed.

  Lemma skip_steps_vals c ks : c_vals V (skip_steps c ks) = c_vals V c.
  Proof. revert c. induction ks as [|k ks IH]; simpl; intros c; [reflexivity|]. now rewrite IH. Qed.

  Lemma all_skipped_iff (l : list (key * dep)) :
    ksorted l -> (all_skipped l = true <-> forall p d, alookup p l = Some d -> d = Skipped).
  Proof.
    intros Hs. unfold all_skipped. rewrite forallb_alookup by assumption. split.
    - intros H p d Hl. specialize (H _ _ Hl). simpl in H. now apply dep_eqb_eq in H.
    - intros H p d Hl. simpl. apply dep_eqb_eq. eauto.
  Qed.

  (* reportSkip: the named predecessors become skipped (control) / reported (data); the channel is skipped
     afterwards, and the call returns true, iff EVERY control predecessor is skipped *)
  Lemma dag_skip_iff_all_skipped (c : chan) ks c' b :
    chan_ok c ->
    dag_report_skip V c ks = (c', b) ->
    c_skipped V c' = b
    /\ (b = true <-> forall p d, ctrl_st c' p = Some d -> d = Skipped)
    /\ (forall p, ctrl_st c' p = if memb p ks then option_map (fun _ => Skipped) (ctrl_st c p) else ctrl_st c p)
    /\ (forall p, data_st c' p = if memb p ks then option_map (fun _ => true) (data_st c p) else data_st c p)
    /\ c_vals V c' = c_vals V c.
  Proof.
    intros Hok. rewrite dag_report_skip_eq. cbv zeta. intros [= <- <-].
    pose proof (skip_steps_ok c ks Hok) as (Hc & _ & _).
    split; [reflexivity|]. split; [|split; [|split]].
    - unfold ctrl_st; simpl. now apply all_skipped_iff.
    - intros p. unfold ctrl_st at 1; simpl. apply skip_steps_ctrl.
    - intros p. unfold data_st at 1; simpl. apply skip_steps_data.
    - simpl. apply skip_steps_vals.
  Qed.

  Lemma dag_report_skip_ok c ks : chan_ok c -> chan_ok (fst (dag_report_skip V c ks)).
  Proof. intros H. rewrite dag_report_skip_eq. simpl. exact (skip_steps_ok c ks H). Qed.

  Lemma dag_report_skip_keys c ks :
    chan_ok c ->
    akeys (c_ctrl V (fst (dag_report_skip V c ks))) = akeys (c_ctrl V c)
    /\ akeys (c_data V (fst (dag_report_skip V c ks))) = akeys (c_data V c).
  Proof. intros H. rewrite dag_report_skip_eq. simpl. now apply skip_steps_keys. Qed.

  (* ---------- dag_report_deps ---------- *)
  Definition dep_step (c : chan) (d : key) : chan :=
    match alookup d (c_ctrl V c) with
    | None => c
    | Some _ => {| c_ctrl := ainsert d Ready (c_ctrl V c); c_data := c_data V c;
                   c_skipped := c_skipped V c; c_vals := c_vals V c |}
    end.

  Lemma dep_step_ctrl c k p :
    ctrl_st (dep_step c k) p = if N.eqb p k then option_map (fun _ => Ready) (ctrl_st c p) else ctrl_st c p.
  Proof.
    unfold ctrl_st, dep_step. destruct (N.eqb p k) eqn:E.
    - apply N.eqb_eq in E. subst. destruct (alookup k (c_ctrl V c)) eqn:El; simpl.
      + apply alookup_ainsert_eq. + assumption.
    - apply N.eqb_neq in E. destruct (alookup k (c_ctrl V c)); simpl; [now apply alookup_ainsert_neq|reflexivity].
  Qed.

  Lemma dep_step_rest c k :
    c_data V (dep_step c k) = c_data V c /\ c_skipped V (dep_step c k) = c_skipped V c /\ c_vals V (dep_step c k) = c_vals V c.
  Proof. unfold dep_step. destruct (alookup k (c_ctrl V c)); simpl; auto. Qed.

  Lemma dep_step_ok c k : chan_ok c -> chan_ok (dep_step c k).
  Proof.
    intros (Hc & Hd & Hv). unfold dep_step. destruct (alookup k (c_ctrl V c)); [|repeat split; assumption].
    repeat split; simpl; [now apply ksorted_ainsert|assumption..].
  Qed.

  Lemma dep_step_keys c k : chan_ok c -> akeys (c_ctrl V (dep_step c k)) = akeys (c_ctrl V c).
  Proof.
    intros (Hc & _). unfold dep_step. destruct (alookup k (c_ctrl V c)) eqn:E; [|reflexivity]. simpl.
    apply akeys_ainsert_present; [assumption|]. now apply alookup_some_key in E.
  Qed.

  Lemma dag_report_deps_eq c ds :
    dag_report_deps V c ds = if c_skipped V c then c else fold_left dep_step ds c.
  Proof. reflexivity. Qed.

  Lemma dep_steps_ctrl c ds p :
    ctrl_st (fold_left dep_step ds c) p = if memb p ds then option_map (fun _ => Ready) (ctrl_st c p) else ctrl_st c p.
  Proof.
    revert c. induction ds as [|k ds IH]; simpl; intros c; [reflexivity|].
    rewrite IH, dep_step_ctrl. unfold memb.
    destruct (N.eqb p k); simpl; destruct (existsb (N.eqb p) ds); simpl; try reflexivity.
    destruct (ctrl_st c p); reflexivity.
  Qed.

  Lemma dep_steps_rest c ds :
    c_data V (fold_left dep_step ds c) = c_data V c /\ c_skipped V (fold_left dep_step ds c) = c_skipped V c
    /\ c_vals V (fold_left dep_step ds c) = c_vals V c.
  Proof.
    revert c. induction ds as [|k ds IH]; simpl; intros c; [auto|].
    destruct (IH (dep_step c k)) as (E1 & E2 & E3). destruct (dep_step_rest c k) as (E4 & E5 & E6).
    repeat split; congruence.
  Qed.

  Lemma dep_steps_ok c ds : chan_ok c -> chan_ok (fold_left dep_step ds c).
  Proof. revert c. induction ds as [|k ds IH]; simpl; intros c H; [assumption|]. apply IH. now apply dep_step_ok. Qed.

  Lemma dep_steps_keys c ds : chan_ok c -> akeys (c_ctrl V (fold_left dep_step ds c)) = akeys (c_ctrl V c).
  Proof.
    revert c. induction ds as [|k ds IH]; simpl; intros c H; [reflexivity|].
    rewrite IH by now apply dep_step_ok. now apply dep_step_keys.
  Qed.

  Lemma dag_report_deps_ctrl c ds p :
    ctrl_st (dag_report_deps V c ds) p =
    if (negb (c_skipped V c) && memb p ds)%bool then option_map (fun _ => Ready) (ctrl_st c p) else ctrl_st c p.
  Proof.
    rewrite dag_report_deps_eq. destruct (c_skipped V c); simpl; [reflexivity|]. apply dep_steps_ctrl.
  Qed.

  Lemma dag_report_deps_rest c ds :
    c_data V (dag_report_deps V c ds) = c_data V c /\ c_skipped V (dag_report_deps V c ds) = c_skipped V c
    /\ c_vals V (dag_report_deps V c ds) = c_vals V c.
  Proof.
    rewrite dag_report_deps_eq. destruct (c_skipped V c) eqn:E; [auto|]. rewrite <- E. apply dep_steps_rest.
  Qed.

  Lemma dag_report_deps_ok c ds : chan_ok c -> chan_ok (dag_report_deps V c ds).
  Proof. intros H. rewrite dag_report_deps_eq. destruct (c_skipped V c); [assumption|now apply dep_steps_ok]. Qed.

  Lemma dag_report_deps_keys c ds : chan_ok c -> akeys (c_ctrl V (dag_report_deps V c ds)) = akeys (c_ctrl V c).
  Proof. intros H. rewrite dag_report_deps_eq. destruct (c_skipped V c); [reflexivity|now apply dep_steps_keys]. Qed.

  (* ---------- dag_report_values ---------- *)
  Definition val_step (c : chan) (kv : key * V) : chan :=
    match alookup (fst kv) (c_data V c) with
    | None => c
    | Some _ => {| c_ctrl := c_ctrl V c; c_data := ainsert (fst kv) true (c_data V c);
                   c_skipped := c_skipped V c; c_vals := ainsert (fst kv) (snd kv) (c_vals V c) |}
    end.

  Lemma dag_report_values_eq c ins :
    dag_report_values V c ins = if c_skipped V c then c else fold_left val_step ins c.
  Proof. reflexivity. Qed.

  Lemma val_step_data c kv p :
    data_st (val_step c kv) p = if N.eqb p (fst kv) then option_map (fun _ => true) (data_st c p) else data_st c p.
  Proof.
    unfold data_st, val_step. destruct (N.eqb p (fst kv)) eqn:E.
    - apply N.eqb_eq in E. subst. destruct (alookup (fst kv) (c_data V c)) eqn:El; simpl.
      + apply alookup_ainsert_eq. + assumption.
    - apply N.eqb_neq in E. destruct (alookup (fst kv) (c_data V c)); simpl; [now apply alookup_ainsert_neq|reflexivity].
  Qed.

  Lemma val_step_vals c kv p :
    alookup p (c_vals V (val_step c kv)) =
    if (N.eqb p (fst kv) && match data_st c p with Some _ => true | None => false end)%bool
    then Some (snd kv) else alookup p (c_vals V c).
  Proof.
    unfold data_st, val_step. destruct (N.eqb p (fst kv)) eqn:E; simpl.
    - apply N.eqb_eq in E. subst. destruct (alookup (fst kv) (c_data V c)) eqn:El; simpl.
      + apply alookup_ainsert_eq. + reflexivity.
    - apply N.eqb_neq in E. destruct (alookup (fst kv) (c_data V c)); simpl; [now apply alookup_ainsert_neq|reflexivity].
  Qed.

  Lemma val_step_rest c kv : c_ctrl V (val_step c kv) = c_ctrl V c /\ c_skipped V (val_step c kv) = c_skipped V c.
  Proof. unfold val_step. destruct (alookup (fst kv) (c_data V c)); simpl; auto. Qed.

  Lemma val_step_ok c kv : chan_ok c -> chan_ok (val_step c kv).
  Proof.
    intros (Hc & Hd & Hv). unfold val_step. destruct (alookup (fst kv) (c_data V c)); [|repeat split; assumption].
    repeat split; simpl; [assumption|now apply ksorted_ainsert..].
  Qed.

  Lemma val_step_keys c kv : chan_ok c -> akeys (c_data V (val_step c kv)) = akeys (c_data V c).
  Proof.
    intros (_ & Hd & _). unfold val_step. destruct (alookup (fst kv) (c_data V c)) eqn:E; [|reflexivity]. simpl.
    apply akeys_ainsert_present; [assumption|]. now apply alookup_some_key in E.
  Qed.

  Lemma val_steps_data c ins p :
    data_st (fold_left val_step ins c) p =
    if memb p (akeys ins) then option_map (fun _ => true) (data_st c p) else data_st c p.
  Proof.
    revert c. induction ins as [|kv ins IH]; simpl; intros c; [reflexivity|].
    rewrite IH, val_step_data. unfold memb.
    destruct (N.eqb p (fst kv)); simpl; destruct (existsb (N.eqb p) (akeys ins)); simpl; try reflexivity.
    destruct (data_st c p); reflexivity.
  Qed.

  Lemma val_steps_rest c ins :
    c_ctrl V (fold_left val_step ins c) = c_ctrl V c /\ c_skipped V (fold_left val_step ins c) = c_skipped V c.
  Proof.
    revert c. induction ins as [|kv ins IH]; simpl; intros c; [auto|].
    destruct (IH (val_step c kv)) as (E1 & E2). destruct (val_step_rest c kv) as (E3 & E4). split; congruence.
  Qed.

  Lemma val_steps_ok c ins : chan_ok c -> chan_ok (fold_left val_step ins c).
  Proof. revert c. induction ins as [|kv ins IH]; simpl; intros c H; [assumption|]. apply IH. now apply val_step_ok. Qed.

  Lemma val_steps_keys c ins : chan_ok c -> akeys (c_data V (fold_left val_step ins c)) = akeys (c_data V c).
  Proof.
    revert c. induction ins as [|kv ins IH]; simpl; intros c H; [reflexivity|].
    rewrite IH by now apply val_step_ok. now apply val_step_keys.
  Qed.

  (* a value is stored for p afterwards iff it was stored before or p is a declared data predecessor that
     occurs in ins; a source outside ins keeps what it had *)
  Lemma val_steps_vals_other c ins p :
    ~ In p (akeys ins) -> alookup p (c_vals V (fold_left val_step ins c)) = alookup p (c_vals V c).
  Proof.
    revert c. induction ins as [|kv ins IH]; simpl; intros c Hn; [reflexivity|].
    rewrite IH by tauto. rewrite val_step_vals.
    destruct (N.eqb p (fst kv)) eqn:E; [apply N.eqb_eq in E; subst; tauto|reflexivity].
  Qed.

  Lemma val_steps_vals_nodata c ins p :
    data_st c p = None -> alookup p (c_vals V (fold_left val_step ins c)) = alookup p (c_vals V c).
  Proof.
    revert c. induction ins as [|kv ins IH]; simpl; intros c Hn; [reflexivity|].
    rewrite IH.
    - rewrite val_step_vals, Hn. now rewrite andb_false_r.
    - rewrite val_step_data, Hn. now destruct (N.eqb p (fst kv)).
  Qed.

  (* when all values given for one source agree (the engine's writes do), that value is what is stored *)
  Lemma val_steps_vals_in c ins p v :
    data_st c p <> None -> In p (akeys ins) -> (forall w, In (p, w) ins -> w = v) ->
    alookup p (c_vals V (fold_left val_step ins c)) = Some v.
  Proof.
    revert c. induction ins as [|[k w] ins IH]; simpl; intros c Hd Hin Hall; [contradiction|].
    destruct (in_dec N.eq_dec p (akeys ins)) as [Hin'|Hnin].
    - apply IH; [|assumption|intros; apply Hall; now right].
      rewrite val_step_data. simpl. destruct (N.eqb p k); [|assumption]. destruct (data_st c p); simpl; congruence.
    - rewrite val_steps_vals_other by assumption. rewrite val_step_vals. simpl.
      destruct Hin as [<-|Hin]; [|contradiction].
      rewrite N.eqb_refl. destruct (data_st c k); [|congruence]. simpl.
      f_equal. apply Hall. now left.
  Qed.

  Lemma dag_report_values_data c ins p :
    data_st (dag_report_values V c ins) p =
    if (negb (c_skipped V c) && memb p (akeys ins))%bool then option_map (fun _ => true) (data_st c p) else data_st c p.
  Proof. rewrite dag_report_values_eq. destruct (c_skipped V c); simpl; [reflexivity|apply val_steps_data]. Qed.

  Lemma dag_report_values_rest c ins :
    c_ctrl V (dag_report_values V c ins) = c_ctrl V c /\ c_skipped V (dag_report_values V c ins) = c_skipped V c.
  Proof.
    rewrite dag_report_values_eq. destruct (c_skipped V c) eqn:E; [auto|]. rewrite <- E. apply val_steps_rest.
  Qed.

  Lemma dag_report_values_ok c ins : chan_ok c -> chan_ok (dag_report_values V c ins).
  Proof. intros H. rewrite dag_report_values_eq. destruct (c_skipped V c); [assumption|now apply val_steps_ok]. Qed.

  Lemma dag_report_values_keys c ins : chan_ok c -> akeys (c_data V (dag_report_values V c ins)) = akeys (c_data V c).
  Proof. intros H. rewrite dag_report_values_eq. destruct (c_skipped V c); [reflexivity|now apply val_steps_keys]. Qed.

  (* ---------- chan_init ---------- *)
  Lemma chan_init_ok g k : chan_ok (chan_init V g k).
  Proof.
    unfold chan_init. destruct (g_mode g); repeat split; simpl; try exact I; apply ksorted_fold_ainsert.
  Qed.

  Lemma chan_init_dag_ctrl g k p :
    g_mode g = Dag -> ctrl_st (chan_init V g k) p = if memb p (cpreds g k) then Some Waiting else None.
  Proof. intros H. unfold ctrl_st, chan_init. rewrite H. simpl. apply alookup_fold_ainsert. Qed.

  Lemma chan_init_dag_data g k p :
    g_mode g = Dag -> data_st (chan_init V g k) p = if memb p (dpreds g k) then Some false else None.
  Proof. intros H. unfold data_st, chan_init. rewrite H. simpl. apply alookup_fold_ainsert. Qed.
End DagChan.
