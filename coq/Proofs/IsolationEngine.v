(* Proofs/IsolationEngine.v — property C09: the engine of Model/IsolationEngine.v as an
   instance of the product system: concurrent calls give the observable of the call alone;
   progress (a run without a result always has a step), the step limit as a termination
   bound for any-predecessor graphs, per-run data that never changes during a run. *)
From Eino Require Import Base.Util Model.Isolation Model.IsolationEngine Proofs.Isolation Proofs.IsolationDriver.
From Coq Require Import Lia.

(* ---------------------------------------------------------------- shape of one superstep *)

Lemma next_tasks_fields : forall g done r ev,
  rs_steps (next_tasks g done r ev) = rs_steps r /\
  rs_max (next_tasks g done r ev) = rs_max r /\
  rs_opts (next_tasks g done r ev) = rs_opts r /\
  rs_st (next_tasks g done r ev) = rs_st r /\
  rs_cancel (next_tasks g done r ev) = rs_cancel r.
Proof.
  intros g done r ev. unfold next_tasks.
  destruct (resolve_all g (rs_st r) done (rs_chans r)) as [rc bev].
  destruct rc as [cs|e]; simpl; auto 6.
  destruct (get_ready (g_dag g) cs) as [rdy cs'].
  destruct rdy as [ready|e]; simpl; auto 6.
  destruct (alist_get ENDK ready); simpl; auto 6.
Qed.

Section Sstep1.
  Variable run_sub : graph -> val -> list copt -> option stv -> out val * option stv * list string.

  (* progress: a run that has no result yet can always make a step *)
  Lemma sstep1_progress : forall g r, rs_res r = None -> exists r', sstep1 run_sub g r = Some r'.
  Proof.
    intros g r H. unfold sstep1. rewrite H.
    destruct (cancelled r); [eexists; reflexivity|].
    destruct (negb (g_dag g) && Nat.leb (rs_max r) (rs_steps r)); [eexists; reflexivity|].
    destruct (rs_next r) as [|t ts]; [eexists; reflexivity|].
    destruct (run_pres g (t :: ts) (rs_st r)) as [[tasks1 st1] ev1].
    destruct (run_nodes run_sub g (rs_opts r) tasks1 st1) as [[[done err] st2] ev2].
    destruct err; eexists; reflexivity.
  Qed.

  Lemma sstep1_final : forall g r o, rs_res r = Some o -> sstep1 run_sub g r = None.
  Proof. intros g r o H. unfold sstep1. rewrite H. reflexivity. Qed.

  (* a step keeps the per-run option map and step limit, and either finishes the run or
     counts one more superstep *)
  Lemma sstep1_measure : forall g r r', sstep1 run_sub g r = Some r' ->
    rs_max r' = rs_max r /\ rs_opts r' = rs_opts r /\
    (rs_res r' <> None \/ rs_steps r' = S (rs_steps r)).
  Proof.
    intros g r r' H. unfold sstep1 in H.
    destruct (rs_res r); try discriminate.
    destruct (cancelled r).
    { inversion H; subst; simpl. repeat split; auto. left; discriminate. }
    destruct (negb (g_dag g) && Nat.leb (rs_max r) (rs_steps r)).
    { inversion H; subst; simpl. repeat split; auto. left; discriminate. }
    destruct (rs_next r) as [|t ts].
    { inversion H; subst; simpl. repeat split; auto. left; discriminate. }
    destruct (run_pres g (t :: ts) (rs_st r)) as [[tasks1 st1] ev1].
    destruct (run_nodes run_sub g (rs_opts r) tasks1 st1) as [[[done err] st2] ev2].
    destruct err.
    { inversion H; subst; simpl. repeat split; auto. left; discriminate. }
    inversion H; subst; clear H.
    match goal with |- context [next_tasks ?g ?d ?r0 ?e] => destruct (next_tasks_fields g d r0 e) as (A & B & Cc & _ & _) end.
    simpl in *. rewrite A, B, Cc. repeat split; auto.
  Qed.

  (* at the step limit an any-predecessor run ends (with the step-limit error) *)
  Lemma sstep1_limit : forall g r, g_dag g = false -> rs_res r = None -> rs_max r <= rs_steps r ->
    exists r', sstep1 run_sub g r = Some r' /\
               rs_res r' = Some (Fail (if cancelled r then "other" else "maxsteps")%string).
  Proof.
    intros g r Hd Hr Hle. unfold sstep1. rewrite Hr, Hd. simpl.
    assert (E : Nat.leb (rs_max r) (rs_steps r) = true) by (apply Nat.leb_le; exact Hle).
    rewrite E. destruct (cancelled r); eexists; split; reflexivity.
  Qed.
End Sstep1.

Lemma sstep_unfold : forall d g r, exists run_sub, sstep d g r = sstep1 run_sub g r.
Proof. intros [|d] g r; simpl; eexists; reflexivity. Qed.

Lemma sstep_progress : forall d g r, rs_res r = None -> exists r', sstep d g r = Some r'.
Proof. intros d g r H. destruct (sstep_unfold d g r) as (rs & E). rewrite E. apply sstep1_progress; auto. Qed.

Lemma sstep_final : forall d g r o, rs_res r = Some o -> sstep d g r = None.
Proof. intros d g r o H. destruct (sstep_unfold d g r) as (rs & E). rewrite E. eapply sstep1_final; eauto. Qed.

Lemma sstep_measure : forall d g r r', sstep d g r = Some r' ->
  rs_max r' = rs_max r /\ rs_opts r' = rs_opts r /\ (rs_res r' <> None \/ rs_steps r' = S (rs_steps r)).
Proof. intros d g r r' H. destruct (sstep_unfold d g r) as (rs & E). rewrite E in H. eapply sstep1_measure; eauto. Qed.

Lemma sstep_limit : forall d g r, g_dag g = false -> rs_res r = None -> rs_max r <= rs_steps r ->
  exists r', sstep d g r = Some r' /\ rs_res r' = Some (Fail (if cancelled r then "other" else "maxsteps")%string).
Proof. intros d g r A B Cc. destruct (sstep_unfold d g r) as (rs & E). rewrite E. apply sstep1_limit; auto. Qed.

(* a run is final (no step enabled) exactly when it has a result *)
Lemma estep_none_iff : forall c r, estep c r = None <-> rs_res r <> None.
Proof.
  intros c r; unfold estep; split; intro H.
  - intro Hn. destruct (sstep_progress (co_depth c) (co_graph c) r Hn) as (r' & E). congruence.
  - destruct (rs_res r) as [o|] eqn:E; [eapply sstep_final; eauto|congruence].
Qed.

(* ---------------------------------------------------------------- termination bound (any-predecessor mode) *)

(* the step limit bounds the number of supersteps of a call: after (limit - steps done + 1)
   supersteps the run has a result *)
Lemma pregel_bounded_gen : forall c, g_dag (co_graph c) = false ->
  forall k r, rs_max r - rs_steps r <= k -> rs_res (iter_opt (S k) (estep c) r) <> None.
Proof.
  intros c Hd. induction k as [|k IH]; intros r Hk.
  - simpl. destruct (rs_res r) as [o|] eqn:Er.
    + unfold estep. rewrite (sstep_final _ _ _ o Er). rewrite Er; discriminate.
    + destruct (sstep_limit (co_depth c) (co_graph c) r Hd Er ltac:(lia)) as (r' & E & F).
      unfold estep. rewrite E. rewrite F. discriminate.
  - destruct (rs_res r) as [o|] eqn:Er.
    + simpl. unfold estep at 1. rewrite (sstep_final _ _ _ o Er). rewrite Er; discriminate.
    + destruct (sstep_progress (co_depth c) (co_graph c) r Er) as (r' & E).
      change (iter_opt (S (S k)) (estep c) r) with
        (match estep c r with None => r | Some a' => iter_opt (S k) (estep c) a' end).
      unfold estep at 1. rewrite E.
      destruct (sstep_measure _ _ _ _ E) as (Hm & _ & [Hres | Hst]).
      * destruct (rs_res r') as [o|] eqn:Er'; [|congruence].
        simpl. unfold estep at 1. rewrite (sstep_final _ _ _ o Er'). rewrite Er'. discriminate.
      * apply IH. rewrite Hm, Hst. lia.
Qed.

(* ---------------------------------------------------------------- concurrent = solo, on observables *)

Lemma iter_opt_iter_some : forall (A : Type) n (f : A -> option A) a, iter_opt n f a = iter_some _ n f a.
Proof. induction n as [|n IH]; simpl; intros f a; auto. destruct (f a); auto. Qed.

(* iterating past the end changes nothing *)
Lemma iter_opt_stable : forall (A : Type) (f : A -> option A) n a, f (iter_opt n f a) = None ->
  forall m, n <= m -> iter_opt m f a = iter_opt n f a.
Proof.
  intros A f. induction n as [|n IH]; intros a H m Hle.
  - simpl in *. destruct m; simpl; auto. rewrite H. auto.
  - destruct m as [|m]; [lia|]. simpl in *. destruct (f a) as [a'|] eqn:E; auto.
    apply IH; auto. lia.
Qed.

(* Any number of concurrent calls of one compiled object, any interleaving of their
   supersteps: when all have returned, call i has the observable (rendered result, node-level
   events, what its message future delivered) of the same call made alone. *)
Theorem engine_concurrent_equals_solo : forall (c : cobj) (ks : list call) sched c' rs',
  grun (lift estep) sched (c, map (einit c) ks) = Some (c', rs') ->
  all_final (lift estep) (c', rs') = true ->
  c' = c /\
  forall i k, nth_error ks i = Some k ->
    exists r', nth_error rs' i = Some r' /\
               forall fuel, count i sched <= fuel -> erun c (S fuel) k = cobs k r' /\ erun c (S fuel) k <> None.
Proof.
  intros c ks sched c' rs' G A.
  destruct (runs_non_interfering_pure _ _ estep _ _ _ _ _ G) as (Ec & _ & _). subst c'. split; auto.
  intros i k Hk.
  assert (Hi : nth_error (map (einit c) ks) i = Some (einit c k)) by (rewrite nth_error_map, Hk; reflexivity).
  destruct (complete_runs_equal_solo _ _ estep c c sched _ rs' G A i _ Hi) as (r' & Hr' & Hsolo).
  exists r'; split; auto. intros fuel Hle.
  destruct (run_alone_iter_some _ _ estep c fuel _ _ (Hsolo fuel Hle)) as (E & Fin).
  unfold erun. rewrite iter_opt_iter_some. rewrite E. split; auto.
  apply estep_none_iff in Fin. unfold cobs, eobs. destruct (rs_res r') as [[v|e]|]; try discriminate. congruence.
Qed.

(* The same for the driver of the correspondence check (Corr/C09.v model_runs_engine): the
   observables it computes are those of the calls made alone. *)
Theorem engine_driver_is_solo : forall (c : cobj) (ks : list call) sched fuel g1 t1 g2 t2,
  gdrive (lift estep) sched (c, map (einit c) ks) = (g1, t1) ->
  gfinish (lift estep) fuel (seq 0 (List.length ks)) g1 = (g2, t2) ->
  all_final (lift estep) g2 = true ->
  forall i k, nth_error ks i = Some k ->
    exists r', nth_error (snd g2) i = Some r' /\
               forall f, count i (t1 ++ t2) <= f -> erun c (S f) k = cobs k r'.
Proof.
  intros c ks sched fuel g1 t1 g2 t2 D F A i k Hk.
  destruct (driver_result_is_solo _ _ estep c _ sched fuel _ g1 t1 g2 t2 D F A) as (_ & Hall).
  assert (Hi : nth_error (map (einit c) ks) i = Some (einit c k)) by (rewrite nth_error_map, Hk; reflexivity).
  destruct (Hall i _ Hi) as (r' & Hr' & Hsolo). exists r'; split; auto.
  intros f Hle. destruct (run_alone_iter_some _ _ estep c f _ _ (Hsolo f Hle)) as (E & _).
  unfold erun. rewrite iter_opt_iter_some, E. reflexivity.
Qed.

(* what a call brings stays what it is during the run, whatever the other runs do *)
Theorem engine_options_fixed : forall (c : cobj) (ks : list call) sched c' rs',
  grun (lift estep) sched (c, map (einit c) ks) = Some (c', rs') ->
  forall i k r', nth_error ks i = Some k -> nth_error rs' i = Some r' ->
    rs_opts r' = rs_opts (einit c k) /\ rs_max r' = rs_max (einit c k).
Proof.
  intros c ks sched c' rs' G i k r' Hk Hr'.
  destruct (runs_non_interfering_pure _ _ estep _ _ _ _ _ G) as (_ & _ & Hall).
  assert (Hi : nth_error (map (einit c) ks) i = Some (einit c k)) by (rewrite nth_error_map, Hk; reflexivity).
  destruct (Hall i _ Hi) as (r1 & Hr1 & Hit & _). rewrite Hr' in Hr1; inversion Hr1; subst r1; clear Hr1.
  revert Hit. generalize (count i sched) (einit c k). clear.
  induction n as [|n IH]; simpl; intros r Hit.
  - inversion Hit; subst; auto.
  - destruct (estep c r) as [r1|] eqn:E; try discriminate.
    destruct (sstep_measure _ _ _ _ E) as (A & B & _). destruct (IH _ Hit) as (P & Q). rewrite P, Q; auto.
Qed.

(* every call of an any-predecessor graph returns within (step limit + 1) supersteps *)
Theorem engine_pregel_terminates : forall (c : cobj), g_dag (co_graph c) = false ->
  forall k, erun c (S (rs_max (einit c k))) k <> None.
Proof.
  intros c Hd k. unfold erun.
  pose proof (pregel_bounded_gen c Hd (rs_max (einit c k)) (einit c k) ltac:(lia)) as H.
  unfold cobs, eobs. destruct (rs_res (iter_opt (S (rs_max (einit c k))) (estep c) (einit c k))) as [[v|e]|]; congruence.
Qed.

(* ---------------------------------------------------------------- a concrete object (non-vacuity) *)

Local Open Scope string_scope.

(* the shape of the zoo's "pregel" kind, width 1: a -> w (loop, branch) -> f -> p0 -> j *)
Definition ex_graph : graph :=
  Graph [Node "a" (FV "a") (Some 0%N) None None None;
         Node "w" (FLoop "w") None None None None;
         Node "f" (FFail "f" 3) None None None None;
         Node "p0" (FV "p0") (Some 0%N) (Some "p0") None None;
         Node "j" (FJoinV "j") None None None None]
        [("start", "a"); ("a", "w"); ("f", "p0"); ("p0", "j"); ("j", "end")]
        [Branch "w" BLoop ["w"; "f"]] false 30 0%N [] [].
Definition ex_obj : cobj := {| co_graph := ex_graph; co_depth := 1 |}.
Definition ex_call1 : call :=
  {| ca_in := VR tagS 0 2 "in2"; ca_opts := [{| o_kind := 0; o_paths := [["a"]]; o_val := "d0" |}]; ca_max := None; ca_fut := false; ca_cancel := None; ca_suffix := "" |}.
Definition ex_call2 : call :=
  {| ca_in := VR tagS 0 3 "in3"; ca_opts := []; ca_max := None; ca_fut := false; ca_cancel := None; ca_suffix := "" |}.
Definition ex_call3 : call :=
  {| ca_in := VR tagS 0 5 "in5"; ca_opts := []; ca_max := Some 5; ca_fut := false; ca_cancel := None; ca_suffix := "" |}.
Definition ex_sched : list nat := [0; 1; 2; 2; 1; 0; 0; 1; 2; 1; 0; 2; 2; 0; 1; 0; 2]%nat.

Lemma ex_interleaved :
  exists rs', grun (lift estep) ex_sched (ex_obj, map (einit ex_obj) [ex_call1; ex_call2; ex_call3]) = Some (ex_obj, rs') /\
    all_final (lift estep) (ex_obj, rs') = true /\
    map (fun r => option_map fst (eobs false r)) rs' =
      [Some "ok:V{<tSELF> n=2 lim=2 h=({p0=V{<tSELF> n=2 lim=2 h=in2>a[o=d0]>w>w>f>p0}})>j}";
       Some "err:node:f"; Some "err:maxsteps"] /\
    erun ex_obj 31 ex_call1 = option_map (fun r => match eobs false r with Some o => o | None => ("", []) end) (nth_error rs' 0).
Proof.
  eexists. split; [vm_compute; reflexivity|]. split; [vm_compute; reflexivity|]. split; vm_compute; reflexivity.
Qed.

(* the driver on an "observed" interleaving that is longer than the model's runs and stops
   before they are complete: entries of returned runs are skipped, the rest is finished *)
Lemma ex_driver :
  exists g1 t1 g2 t2,
    gdrive (lift estep) [2; 2; 0; 1; 2; 2; 2; 2; 2; 2; 0; 1; 1; 0]%nat (ex_obj, map (einit ex_obj) [ex_call1; ex_call2; ex_call3]) = (g1, t1) /\
    gfinish (lift estep) 80 (seq 0 3) g1 = (g2, t2) /\
    all_final (lift estep) g2 = true /\
    t1 = [2; 2; 0; 1; 2; 2; 2; 2; 0; 1; 1; 0]%nat /\ t2 = [0; 0; 0; 1; 1]%nat /\
    map (fun r => option_map fst (eobs false r)) (snd g2) =
      [Some "ok:V{<tSELF> n=2 lim=2 h=({p0=V{<tSELF> n=2 lim=2 h=in2>a[o=d0]>w>w>f>p0}})>j}";
       Some "err:node:f"; Some "err:maxsteps"].
Proof.
  do 4 eexists. split; [vm_compute; reflexivity|]. split; [vm_compute; reflexivity|].
  split; [vm_compute; reflexivity|]. split; [vm_compute; reflexivity|]. split; vm_compute; reflexivity.
Qed.
