(* Proofs/GenAgreeC04Handle.v — property C04, translator tie (extractor c04handle,
   Gen/C04Handle.v): the `handle` methods of edgeHandlerManager, preNodeHandlerManager and
   preBranchHandlerManager (compose/graph_manager.go), translated statement by statement,
   apply the handlers registered for the edge / node / branch in order — their invoke forms,
   stopping at the first error, to a value; their transform forms to a stream — and hand the
   value on untouched when nothing is registered.  For the handlers of the modelled graphs
   (run-time type checks, field mappings) this is exactly what the model's value-mode and
   stream-mode runs compute on the corresponding sequence of [PCheck] / [PMap] stages, i.e.
   the invoke and the transform variant of every handler are the two sides that
   [concat_check] / [concat_fieldMap] / [run_sim] relate. *)
From Eino Require Import Base.Util Model.Paradigm Model.StreamOps Model.C04GenLib
  Model.ParadigmProg Model.ParadigmSpec Model.ParadigmHandlers.
From Eino Require Gen.C04Handle.

Lemma fold_invoke_value : forall hs x,
  fold_res (fun v h => match call_invoke h v with Ok v' => Ok v' | Err e => Err e | Panic => Panic end) hs (GV x)
  = res_map GV (handlers_value hs x).
Proof.
  induction hs as [|h hs IH]; intro x; simpl; [reflexivity|].
  unfold handlers_value. simpl. destruct (hp_invoke h x) as [y| |]; simpl; try reflexivity.
  apply IH.
Qed.

Lemma fold_transform_stream : forall hs s,
  fold_res (fun v h => do s1 <- as_stream v; Ok (GS (hp_transform h s1))) hs (GS s)
  = Ok (GS (handlers_stream hs s)).
Proof.
  induction hs as [|h hs IH]; intro s; simpl; [reflexivity|]. apply IH.
Qed.

(* [z]: the nil interface value a failed invoke handler returns beside its error; the source
   never reads it (the translation would, were the error ignored) *)
(* --- the three methods, on a value (isStream = false) and on a stream (isStream = true) --- *)

Theorem gen_edge_handle_value : forall z h from to x,
  Gen.C04Handle.edge_handle z h from to (GV x) false
  = res_map GV (handlers_value (go_at [] to (go_at [] from h)) x).
Proof.
  intros z h from to x. unfold Gen.C04Handle.edge_handle, go_at, go_get.
  destruct (nlist_get from h) as [m|]; [|reflexivity].
  destruct (nlist_get to m) as [hs|]; [|reflexivity].
  rewrite fold_invoke_value. destruct (handlers_value hs x); reflexivity.
Qed.

Theorem gen_edge_handle_stream : forall z h from to s,
  Gen.C04Handle.edge_handle z h from to (GS s) true
  = Ok (GS (handlers_stream (go_at [] to (go_at [] from h)) s)).
Proof.
  intros z h from to s. unfold Gen.C04Handle.edge_handle, go_at, go_get.
  destruct (nlist_get from h) as [m|]; [|reflexivity].
  destruct (nlist_get to m) as [hs|]; [|reflexivity].
  rewrite fold_transform_stream. reflexivity.
Qed.

Theorem gen_preNode_handle_value : forall z h k x,
  Gen.C04Handle.preNode_handle z h k (GV x) false = res_map GV (handlers_value (go_at [] k h) x).
Proof.
  intros z h k x. unfold Gen.C04Handle.preNode_handle, go_at, go_get.
  destruct (nlist_get k h) as [hs|]; [|reflexivity].
  rewrite fold_invoke_value. destruct (handlers_value hs x); reflexivity.
Qed.

Theorem gen_preNode_handle_stream : forall z h k s,
  Gen.C04Handle.preNode_handle z h k (GS s) true = Ok (GS (handlers_stream (go_at [] k h) s)).
Proof.
  intros z h k s. unfold Gen.C04Handle.preNode_handle, go_at, go_get.
  destruct (nlist_get k h) as [hs|]; [|reflexivity].
  rewrite fold_transform_stream. reflexivity.
Qed.

(* a node with branches: the handlers of its idx-th branch (an index out of range is a
   panic in Go and in the translation; the engine only uses indices of existing branches) *)
Theorem gen_preBranch_handle_value : forall z h k idx l hs x,
  nlist_get k h = Some l -> nth_error l idx = Some hs ->
  Gen.C04Handle.preBranch_handle z h k idx (GV x) false = res_map GV (handlers_value hs x).
Proof.
  intros z h k idx l hs x Hk Hi. unfold Gen.C04Handle.preBranch_handle, go_at, go_get, go_idx.
  rewrite Hk, Hi. simpl. rewrite fold_invoke_value. destruct (handlers_value hs x); reflexivity.
Qed.

Theorem gen_preBranch_handle_stream : forall z h k idx l hs s,
  nlist_get k h = Some l -> nth_error l idx = Some hs ->
  Gen.C04Handle.preBranch_handle z h k idx (GS s) true = Ok (GS (handlers_stream hs s)).
Proof.
  intros z h k idx l hs s Hk Hi. unfold Gen.C04Handle.preBranch_handle, go_at, go_get, go_idx.
  rewrite Hk, Hi. simpl. rewrite fold_transform_stream. reflexivity.
Qed.

Theorem gen_preBranch_handle_none : forall z h k idx v b,
  nlist_get k h = None -> Gen.C04Handle.preBranch_handle z h k idx v b = Ok v.
Proof.
  intros z h k idx v b Hk. unfold Gen.C04Handle.preBranch_handle, go_get. now rewrite Hk.
Qed.

(* --- the handler lists of the modelled graphs --- *)

Theorem handlers_value_is_run_value : forall hs x,
  handlers_value (map hp_of hs) x = run_value (compile_sprog (handlers_sprog hs)) x.
Proof.
  induction hs as [|h hs IH]; intro x; [reflexivity|].
  unfold handlers_value in *. cbn [map fold_res handlers_sprog compile_sprog run_value].
  destruct h as [f|m]; cbn [hp_of hp_invoke sprog_of_h compile_sprog run_value].
  - destruct (v_fmap f x); simpl; try reflexivity. apply IH.
  - destruct (v_check m x); simpl; try reflexivity. apply IH.
Qed.

Theorem handlers_stream_is_run_stream : forall mrg hs pos s,
  Ok (handlers_stream (map hp_of hs) s) = run_stream mrg pos (compile_sprog (handlers_sprog hs)) s.
Proof.
  intros mrg. induction hs as [|h hs IH]; intros pos s; [reflexivity|].
  unfold handlers_stream in *. cbn [map fold_left handlers_sprog compile_sprog run_stream].
  destruct h as [f|m]; cbn [hp_of hp_transform sprog_of_h compile_sprog run_stream res_bind]; apply IH.
Qed.

(* the engine's edge handling on the handlers of an edge of a modelled graph = the model's
   run of the corresponding stages *)
Corollary gen_edge_handle_is_model_value : forall z h from to hs x,
  go_at [] to (go_at [] from h) = map hp_of hs ->
  Gen.C04Handle.edge_handle z h from to (GV x) false
  = res_map GV (run_value (compile_sprog (handlers_sprog hs)) x).
Proof.
  intros z h from to hs x H. rewrite gen_edge_handle_value, H. now rewrite handlers_value_is_run_value.
Qed.

Corollary gen_edge_handle_is_model_stream : forall z mrg pos h from to hs s,
  go_at [] to (go_at [] from h) = map hp_of hs ->
  res_map (fun g => match g with GS o => o | GV _ => [] end) (Gen.C04Handle.edge_handle z h from to (GS s) true)
  = run_stream mrg pos (compile_sprog (handlers_sprog hs)) s.
Proof.
  intros z mrg pos h from to hs s H. rewrite gen_edge_handle_stream, H. simpl.
  apply handlers_stream_is_run_stream.
Qed.

(* non-vacuity: a type check followed by a field mapping on the edge 1 -> 2; a mistyped value
   stops the invoke chain at the first handler, the stream form turns the chunk into an
   error item and goes on *)
Example gen_edge_handle_example :
  let hs := [HCheck true; HMap (FTo [(None, 5%N)])] in
  let h := [(1%N, [(2%N, map hp_of hs)])] in
  let z := GV (VS EmptyString) in
  Gen.C04Handle.edge_handle z h 1 2 (GV (VM [(kstr 0, "a"%string)])) false
    = Ok (GV (VM (nest 5 [(kstr 0, "a"%string)])))
  /\ Gen.C04Handle.edge_handle z h 1 2 (GV (VS "a"%string)) false = Err e_type
  /\ Gen.C04Handle.edge_handle z h 1 2 (GS [Val (VS "a"%string); Val (VM [(kstr 0, "b"%string)])]) true
    = Ok (GS [Bad e_type; Val (VM (nest 5 [(kstr 0, "b"%string)]))])
  /\ Gen.C04Handle.edge_handle z h 1 3 (GV (VS "a"%string)) false = Ok (GV (VS "a"%string)).
Proof. repeat split; reflexivity. Qed.
