(* Proofs/OptionsPerm.v — property C16: the order in which a graph's nodes are listed (Go: iteration order of the nodes map)
   does not matter *)
From Coq Require Import Permutation.
From Eino Require Import Base.Util Model.Options Model.OptionsSpec Model.OptionsResume Proofs.Options Proofs.OptionsResume Proofs.OptionsFired.
Local Open Scope N_scope.


Lemma find_node_notin k g : (forall nd, In nd g -> n_key nd <> k) -> find_node k g = None.
Proof.
  induction g as [|nd g IH]; simpl; intros H; auto.
  destruct (N.eqb k (n_key nd)) eqn:E.
  - apply N.eqb_eq in E. exfalso. apply (H nd); auto.
  - apply IH. intros nd' Hin. apply H. auto.
Qed.

Lemma find_node_perm k g g' :
  NoDup (map n_key g) -> Permutation g g' -> find_node k g' = find_node k g.
Proof.
  intros HN HP.
  assert (HN' : NoDup (map n_key g')).
  { eapply Permutation_NoDup; [|exact HN]. apply Permutation_map. exact HP. }
  destruct (find_node k g) as [nd|] eqn:Hf.
  - destruct (find_node_in _ _ _ Hf) as [Hin Hk]. subst k.
    apply find_node_unique; auto. eapply Permutation_in; eauto.
  - apply find_node_notin. intros nd Hin.
    apply (find_node_none k g Hf). eapply Permutation_in; [apply Permutation_sym; exact HP|exact Hin].
Qed.

Lemma forest_perm_nth F F' gi g :
  forest_perm F F' -> nth_error F gi = Some g ->
  exists g', nth_error F' gi = Some g' /\ Permutation g g'.
Proof.
  intros HP. revert gi. induction HP as [|a b F F' Hab HP IH]; intros gi Hg.
  - destruct gi; discriminate.
  - destruct gi as [|gi]; simpl in *.
    + inversion Hg; subst. eauto.
    + apply IH. exact Hg.
Qed.

Lemma forest_perm_nth_none F F' gi :
  forest_perm F F' -> nth_error F gi = None -> nth_error F' gi = None.
Proof.
  intros HP. revert gi. induction HP as [|a b F F' Hab HP IH]; intros gi Hg.
  - destruct gi; reflexivity.
  - destruct gi as [|gi]; simpl in *; [discriminate|]. apply IH. exact Hg.
Qed.

Lemma forest_perm_sym F F' : forest_perm F F' -> forest_perm F' F.
Proof. induction 1; constructor; auto. apply Permutation_sym. assumption. Qed.

Lemma forest_perm_length F F' : forest_perm F F' -> List.length F' = List.length F.
Proof. induction 1; simpl; auto. Qed.

Lemma keys_unique_perm F F' : keys_unique F -> forest_perm F F' -> keys_unique F'.
Proof.
  intros HU HP gi g' Hg'.
  destruct (forest_perm_nth _ _ _ _ (forest_perm_sym _ _ HP) Hg') as [g [Hg Hperm]].
  eapply Permutation_NoDup; [|exact (HU _ _ Hg)].
  apply Permutation_map. apply Permutation_sym. exact Hperm.
Qed.

Lemma well_nested_perm F F' : well_nested F -> forest_perm F F' -> well_nested F'.
Proof.
  intros HW HP gi g' nd gj Hg' Hin Hk.
  destruct (forest_perm_nth _ _ _ _ (forest_perm_sym _ _ HP) Hg') as [g [Hg Hperm]].
  rewrite (forest_perm_length _ _ HP).
  apply (HW gi g nd gj Hg); auto. eapply Permutation_in; eauto.
Qed.

Lemma resolve_perm F F' : keys_unique F -> forest_perm F F' ->
  forall p gi, resolve F' gi p = resolve F gi p.
Proof.
  intros HU HP. induction p as [|k rest IH]; intros gi; [reflexivity|].
  simpl. destruct (nth_error F gi) as [g|] eqn:Hg.
  - destruct (forest_perm_nth _ _ _ _ HP Hg) as [g' [Hg' Hperm]]. rewrite Hg'.
    rewrite (find_node_perm k g g' (HU _ _ Hg) Hperm).
    destruct (find_node k g) as [nd|]; [|reflexivity].
    destruct rest; [reflexivity|]. destruct (n_kind nd); [reflexivity|]. apply IH.
  - rewrite (forest_perm_nth_none _ _ _ HP Hg). reflexivity.
Qed.

Lemma executes_perm F F' : keys_unique F -> forest_perm F F' ->
  forall p gi, executes F' gi p = executes F gi p.
Proof.
  intros HU HP. induction p as [|k rest IH]; intros gi; [reflexivity|].
  simpl. destruct (nth_error F gi) as [g|] eqn:Hg.
  - destruct (forest_perm_nth _ _ _ _ HP Hg) as [g' [Hg' Hperm]]. rewrite Hg'.
    rewrite (find_node_perm k g g' (HU _ _ Hg) Hperm).
    destruct (find_node k g) as [nd|]; [|reflexivity].
    destruct rest; [reflexivity|]. destruct (n_kind nd); [reflexivity|]. rewrite IH. reflexivity.
  - rewrite (forest_perm_nth_none _ _ _ HP Hg). reflexivity.
Qed.

Lemma bad_path_perm F F' o : keys_unique F -> forest_perm F F' ->
  forall q gi, bad_path F' o gi q = bad_path F o gi q.
Proof.
  intros HU HP. induction q as [|k rest IH]; intros gi; [reflexivity|].
  simpl. destruct (nth_error F gi) as [g|] eqn:Hg.
  - destruct (forest_perm_nth _ _ _ _ HP Hg) as [g' [Hg' Hperm]]. rewrite Hg'.
    rewrite (find_node_perm k g g' (HU _ _ Hg) Hperm).
    destruct (find_node k g) as [nd|]; [|reflexivity].
    destruct (n_kind nd); [reflexivity|]. destruct rest; [reflexivity|]. apply IH.
  - rewrite (forest_perm_nth_none _ _ _ HP Hg). reflexivity.
Qed.

(* a report without handlers belongs to a node the graph does not wrap with callbacks *)
Lemma run_graph_shape fuel : forall F gi pre inh opts rs,
  keys_unique F -> run_graph fuel F gi pre inh opts = Ok rs ->
  forall r, In r rs ->
  exists p' nd, r_path r = pre ++ p' /\ resolve F gi p' = Some nd /\ executes F gi p' = true /\
    (r_fired r = None <-> (n_cb nd = false /\ exists ty, n_kind nd = KComp ty)) /\
    (r_items r = None <-> exists gj, n_kind nd = KSub gj).
Proof.
  induction fuel as [|f IH]; intros F gi pre inh opts rs HU H r Hr; [discriminate|].
  rewrite run_graph_S in H.
  destruct (nth_error F gi) as [g|] eqn:Hg; [|discriminate].
  apply res_bind_ok in H. destruct H as [m [Hv H]].
  destruct (validate_inv _ _ _ _ _ Hv) as [f' [g' [Hf' [Hg' [Hm _]]]]].
  rewrite Hg in Hg'. inversion Hg'; subst g'. clear Hg' Hf' f'.
  destruct (flat_mapM_in _ _ _ _ H Hr) as [nd [o [Hin [Ho Hro]]]].
  pose proof (find_node_unique g nd (HU _ _ Hg) Hin) as Hfind.
  unfold node_run in Ho.
  destruct (n_runs nd) eqn:Hruns; simpl in Ho; [|inversion Ho; subst; contradiction].
  assert (Hres1 : resolve F gi [n_key nd] = Some nd) by (simpl; rewrite Hg, Hfind; reflexivity).
  assert (Hex1 : executes F gi [n_key nd] = true) by (simpl; rewrite Hg, Hfind, Hruns; reflexivity).
  destruct (n_kind nd) as [ty|gj] eqn:Hk.
  - apply res_bind_ok in Ho. destruct Ho as [its [Hits Ho]]. inversion Ho; subst o. clear Ho.
    destruct Hro as [<-|[]]. exists [n_key nd], nd. simpl r_path. simpl r_fired. simpl r_items.
    split; [reflexivity|]. split; [exact Hres1|]. split; [exact Hex1|]. split.
    + destruct (n_cb nd); split.
      * discriminate.
      * intros [Hc _]. discriminate.
      * intros _. split; eauto.
      * reflexivity.
    + split; [discriminate|]. intros [gj Hgj]. rewrite Hk in Hgj. discriminate.
  - apply res_bind_ok in Ho. destruct Ho as [os [Hos Ho]].
    apply res_bind_ok in Ho. destruct Ho as [rs' [Hrs' Ho]]. inversion Ho; subst o. clear Ho.
    destruct Hro as [<-|Hro].
    + exists [n_key nd], nd. simpl r_path. simpl r_fired. simpl r_items.
      split; [reflexivity|]. split; [exact Hres1|]. split; [exact Hex1|]. split.
      * split; [discriminate|]. intros [_ [ty Hty]]. rewrite Hk in Hty. discriminate.
      * split; eauto.
    + destruct (IH _ _ _ _ _ _ HU Hrs' r Hro) as [p' [nd' [Hp [Hres [Hex Hshape]]]]].
      assert (Hne : p' <> []) by (destruct p'; [discriminate|discriminate]).
      exists (n_key nd :: p'), nd'. split; [rewrite Hp, <- app_assoc; reflexivity|].
      split; [rewrite (resolve_cons F gi g nd p' Hg Hfind Hne), Hk; exact Hres|].
      split; [rewrite (executes_cons F gi g nd p' Hg Hfind Hne), Hruns, Hk; exact Hex|].
      exact Hshape.
Qed.

Lemma run_call_shape F opts rs r :
  keys_unique F -> run_call F opts = Ok rs -> In r rs ->
  r = mkRep [] None (Some (graph_handlers opts)) \/
  exists nd, resolve F 0 (r_path r) = Some nd /\ executes F 0 (r_path r) = true /\
    (r_fired r = None <-> (n_cb nd = false /\ exists ty, n_kind nd = KComp ty)) /\
    (r_items r = None <-> exists gj, n_kind nd = KSub gj).
Proof.
  intros HU H Hr. destruct (run_call_inv _ _ _ H) as [rs' [Hrs' ->]].
  destruct Hr as [<-|Hr]; [left; reflexivity|]. right.
  destruct (run_graph_shape _ _ _ _ _ _ _ HU Hrs' r Hr) as [p' [nd [Hp [Hres [Hex Hsh]]]]].
  simpl in Hp. rewrite Hp. eauto.
Qed.

(* every executing node of any kind has a report *)
Lemma run_call_complete_any F opts rs p nd :
  keys_unique F -> run_call F opts = Ok rs ->
  resolve F 0 p = Some nd -> executes F 0 p = true ->
  exists r, In r rs /\ r <> mkRep [] None (Some (graph_handlers opts)) /\ r_path r = p /\
            (forall ty, n_kind nd = KComp ty -> r_items r = Some (spec_delivered opts p ty)) /\
            (forall gj, n_kind nd = KSub gj -> r_items r = None).
Proof.
  intros HU H Hres Hex. destruct (run_call_inv _ _ _ H) as [rs' [Hrs' ->]].
  destruct (run_graph_complete _ _ _ _ _ _ _ HU Hrs' p nd Hres Hex) as [r [Hr [Hp [Hc Hs]]]].
  exists r. split; [right; exact Hr|]. split.
  - intros ->. simpl in Hp. subst p. discriminate.
  - simpl in Hp. auto.
Qed.

Lemma run_call_perm_sub F F' opts rs rs' :
  keys_unique F -> forest_perm F F' ->
  run_call F opts = Ok rs -> run_call F' opts = Ok rs' ->
  forall r, In r rs -> In r rs'.
Proof.
  intros HU HP H H' r Hr.
  pose proof (keys_unique_perm _ _ HU HP) as HU'.
  destruct (run_call_shape F opts rs r HU H Hr) as [->|[nd [Hres [Hex [Hfs His]]]]].
  - destruct (run_call_inv _ _ _ H') as [rs'' [_ ->]]. left. reflexivity.
  - rewrite <- (resolve_perm F F' HU HP) in Hres. rewrite <- (executes_perm F F' HU HP) in Hex.
    destruct (run_call_complete_any F' opts rs' (r_path r) nd HU' H' Hres Hex)
      as [r' [Hr' [Hnt [Hp [Hc Hs]]]]].
    destruct (run_call_shape F' opts rs' r' HU' H' Hr') as [->|[nd' [Hres' [_ [Hfs' His']]]]];
      [congruence|].
    rewrite Hp in Hres'. rewrite Hres in Hres'. inversion Hres'; subst nd'. clear Hres'.
    assert (Hitems : r_items r' = r_items r).
    { destruct (n_kind nd) as [ty|gj] eqn:Hk.
      - rewrite (Hc ty eq_refl).
        destruct (r_items r) as [its|] eqn:Hits.
        + destruct (run_call_delivered_sound F opts rs r its HU H Hr Hits)
            as [nd0 [ty0 [_ [Hres0 [Hk0 [-> _]]]]]].
          rewrite (resolve_perm F F' HU HP) in Hres. rewrite Hres in Hres0.
          inversion Hres0; subst nd0. rewrite Hk in Hk0. inversion Hk0; subst. reflexivity.
        + exfalso. destruct (proj1 His eq_refl) as [gj Hgj]. discriminate.
      - rewrite (Hs gj eq_refl). symmetry. apply His. eauto. }
    assert (Hfired : r_fired r' = r_fired r).
    { destruct (r_fired r) as [hs|] eqn:Ef; destruct (r_fired r') as [hs'|] eqn:Ef'.
      - rewrite (run_call_fired_exact F opts rs r hs HU H Hr Ef).
        rewrite (run_call_fired_exact F' opts rs' r' hs' HU' H' Hr' Ef'). rewrite Hp. reflexivity.
      - exfalso. pose proof (proj2 Hfs (proj1 Hfs' eq_refl)). discriminate.
      - exfalso. pose proof (proj2 Hfs' (proj1 Hfs eq_refl)). discriminate.
      - reflexivity. }
    assert (r' = r) as <-; [|exact Hr'].
    destruct r as [a b c], r' as [a' b' c']. simpl in *. subst. reflexivity.
Qed.

(* Go iterates the nodes of a graph in an arbitrary order (they are the keys of a map): listing
   the nodes of any graph of the forest in another order changes neither whether the call
   fails nor the set of reports *)
Lemma run_call_perm F F' opts :
  keys_unique F -> well_nested F -> F <> [] -> Forall uniform opts -> forest_perm F F' ->
  (fails (run_call F opts) <-> fails (run_call F' opts)) /\
  (forall rs rs', run_call F opts = Ok rs -> run_call F' opts = Ok rs' ->
     forall r, In r rs <-> In r rs').
Proof.
  intros HU HW HF HO HP.
  pose proof (keys_unique_perm _ _ HU HP) as HU'.
  pose proof (well_nested_perm _ _ HW HP) as HW'.
  assert (HF' : F' <> []).
  { intros ->. apply HF. destruct F; [reflexivity|]. inversion HP. }
  split.
  - rewrite (run_call_fails_iff F opts HU HW HF HO), (run_call_fails_iff F' opts HU' HW' HF' HO).
    split; intros [o [q [Ho [Hq Hb]]]]; exists o, q; (split; [exact Ho|]); (split; [exact Hq|]).
    + rewrite (bad_path_perm F F' o HU HP). exact Hb.
    + rewrite <- (bad_path_perm F F' o HU HP). exact Hb.
  - intros rs rs' H H' r. split.
    + exact (run_call_perm_sub F F' opts rs rs' HU HP H H' r).
    + exact (run_call_perm_sub F' F opts rs' rs HU' (forest_perm_sym _ _ HP) H' H r).
Qed.
