(* Proofs/ConcatUser.v — the functions the harness registers satisfy the laws of
   Proofs/Concat.v ([UserLaw]): total and invariant under re-chunking. *)
From Eino Require Import Base.Util Model.Concat Model.ConcatUser Proofs.Concat Proofs.ConcatSuffix.

Lemma nsum_app a b : nsum (a ++ b) = (nsum a + nsum b)%N.
Proof. unfold nsum. induction a as [|x a IH]; cbn; [reflexivity|]. rewrite IH. lia. Qed.

Lemma harness_user_law : @UserLaw harness_user.
Proof.
  split; cbn [ufn harness_user]; unfold harness_ufn; intros tag g.
  - intros ps. destruct (N.eqb tag 6); [intros H; inversion H; discriminate|].
    destruct (N.eqb tag 7); [intros H; inversion H; destruct (N.leb _ _); discriminate|].
    destruct (N.eqb tag 9); [|discriminate]. intros H. inversion H. discriminate.
  - intros xs ys. destruct (N.eqb tag 6).
    + intros H _ _. inversion H; subst g. cbn [nsum fold_right]. fold (nsum ys). rewrite nsum_app. reflexivity.
    + destruct (N.eqb tag 7).
      * intros H _ _. inversion H; subst g. clear H.
        rewrite nsum_app. destruct (N.leb (nsum xs) 5) eqn:E.
        -- cbn [nsum fold_right]. fold (nsum ys). destruct (N.leb (nsum xs + nsum ys) 5); reflexivity.
        -- apply N.leb_gt in E. destruct (N.leb (nsum xs + nsum ys) 5) eqn:E'; [|reflexivity].
           apply N.leb_le in E'. lia.
      * destruct (N.eqb tag 9); [|discriminate].
        intros H _ _. inversion H; subst g. cbn [nsum fold_right]. fold (nsum ys). rewrite nsum_app. reflexivity.
Qed.

Lemma nsum_snoc a c : nsum (a ++ [c]) = (nsum a + c)%N.
Proof. rewrite nsum_app. cbn. lia. Qed.

Lemma harness_user_law_s : @UserLawS harness_user.
Proof.
  split; cbn [ufn harness_user]; unfold harness_ufn; intros tag g xs ys.
  destruct (N.eqb tag 6).
  - intros H _ _. inversion H; subst g. rewrite nsum_snoc, nsum_app. reflexivity.
  - destruct (N.eqb tag 7).
    + intros H _ _. inversion H; subst g. clear H.
      rewrite nsum_app. destruct (N.leb (nsum ys) 5) eqn:E.
      * rewrite nsum_snoc. destruct (N.leb (nsum xs + nsum ys) 5); reflexivity.
      * apply N.leb_gt in E. destruct (N.leb (nsum xs + nsum ys) 5) eqn:E'; [|reflexivity].
        apply N.leb_le in E'. lia.
    + destruct (N.eqb tag 9); [|discriminate].
      intros H _ _. inversion H; subst g. rewrite nsum_snoc, nsum_app. reflexivity.
Qed.
