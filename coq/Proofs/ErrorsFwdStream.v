(* Proofs/ErrorsFwdStream.v — property C13: the forwarder model of Model/ErrorsFwd.v.
   Forwarding = reading directly, with the panic replaced by one error item carrying the payload;
   a merge of forwarded streams delivers every item of every member exactly once, so every
   panic of a member's source surfaces as an error item and the merged stream ends. *)
From Eino Require Import Base.Util Model.Errors Model.ErrorsFwd Proofs.Errors.

Definition contained (d : dres) : list ritem :=
  match d with DItems l => l | DPanic l i => l ++ [RErr (PanicErr i)] end.

Lemma fwd_is_direct_contained_lemma : forall src, fwd src = contained (direct src).
Proof.
  induction src as [|[v|e| |i] r IH]; cbn [fwd direct]; auto; rewrite IH; destruct (direct r); reflexivity.
Qed.

Definition is_boom (x : selem) : bool := match x with SBoom _ => true | _ => false end.

Lemma fwd_no_boom : forall src, existsb is_boom src = false -> direct src = DItems (fwd src).
Proof.
  induction src as [|[v|e| |i] r IH]; cbn; intros H; auto; try discriminate; rewrite IH by exact H; reflexivity.
Qed.

Lemma fwd_boom_lemma : forall pre i post, existsb is_boom pre = false ->
  fwd (pre ++ SBoom i :: post) = fwd pre ++ [RErr (PanicErr i)] /\
  direct (pre ++ SBoom i :: post) = DPanic (fwd pre) i.
Proof.
  induction pre as [|[v|e| |j] r IH]; intros i post H; cbn in *; auto; try discriminate;
    destruct (IH i post H) as [H1 H2]; rewrite H1, H2; split; reflexivity.
Qed.

(* ------------------------------------------------------------------ interleavings *)

Inductive interleaving {A : Type} : list (list A) -> list A -> Prop :=
| il_nil : forall ls, Forall (fun l => l = []) ls -> interleaving ls []
| il_cons : forall ls1 x l ls2 out,
    interleaving (ls1 ++ l :: ls2) out -> interleaving (ls1 ++ (x :: l) :: ls2) (x :: out).

Lemma interleaving_In : forall A (ls : list (list A)) out, interleaving ls out ->
  forall l x, In l ls -> In x l -> In x out.
Proof.
  intros A ls out H. induction H as [ls Hall|ls1 x l ls2 out H IH]; intros l0 x0 Hl Hx.
  - rewrite Forall_forall in Hall. rewrite (Hall l0 Hl) in Hx. contradiction.
  - apply in_app_or in Hl. destruct Hl as [Hl|[<-|Hl]].
    + right. apply (IH l0 x0); [apply in_or_app; left; exact Hl|exact Hx].
    + destruct Hx as [<-|Hx]; [left; reflexivity|].
      right. apply (IH l x0); [apply in_or_app; right; left; reflexivity|exact Hx].
    + right. apply (IH l0 x0); [apply in_or_app; right; right; exact Hl|exact Hx].
Qed.

Definition total_length {A} (ls : list (list A)) : nat := list_sum (map (@List.length A) ls).

Lemma total_length_app : forall A (a b : list (list A)), total_length (a ++ b) = (total_length a + total_length b)%nat.
Proof. intros. unfold total_length. rewrite map_app, list_sum_app. reflexivity. Qed.

Lemma interleaving_length : forall A (ls : list (list A)) out, interleaving ls out ->
  List.length out = total_length ls.
Proof.
  intros A ls out H. induction H as [ls Hall|ls1 x l ls2 out H IH].
  - induction ls as [|l ls IHl]; [reflexivity|]. inversion Hall; subst.
    unfold total_length in *. cbn. apply IHl. assumption.
  - cbn [List.length]. rewrite IH, !total_length_app. unfold total_length. cbn. lia.
Qed.

(* every member is delivered in its own order *)
Inductive subseq {A : Type} : list A -> list A -> Prop :=
| ss_nil : forall l, subseq [] l
| ss_take : forall x a l, subseq a l -> subseq (x :: a) (x :: l)
| ss_skip : forall x a l, subseq a l -> subseq a (x :: l).

Lemma interleaving_order : forall A (ls : list (list A)) out, interleaving ls out ->
  forall l, In l ls -> subseq l out.
Proof.
  intros A ls out H. induction H as [ls Hall|ls1 x l ls2 out H IH]; intros l0 Hl.
  - rewrite Forall_forall in Hall. rewrite (Hall l0 Hl). constructor.
  - apply in_app_or in Hl. destruct Hl as [Hl|[<-|Hl]].
    + apply ss_skip. apply IH. apply in_or_app. left. exact Hl.
    + apply ss_take. apply IH. apply in_or_app. right. left. reflexivity.
    + apply ss_skip. apply IH. apply in_or_app. right. right. exact Hl.
Qed.

(* ------------------------------------------------------------------ the checker of the correspondence is sound *)

Lemma list_eqb_eq : forall A (eqb : A -> A -> bool), (forall a b, eqb a b = true -> a = b) ->
  forall x y, list_eqb eqb x y = true -> x = y.
Proof.
  intros A eqb H. induction x as [|a x IH]; destruct y as [|b y]; cbn; intros E; try discriminate; auto.
  apply andb_true_iff in E. destruct E as [E1 E2]. rewrite (H _ _ E1), (IH _ E2). reflexivity.
Qed.

Lemma action_eqb_eq : forall a b, action_eqb a b = true -> a = b.
Proof. intros a b H. destruct a, b; try reflexivity; discriminate. Qed.

Lemma ityp_eqb_eq : forall a b, ityp_eqb a b = true -> a = b.
Proof. intros a b H. destruct a, b; try reflexivity; discriminate. Qed.

Lemma err_eqb_eq : forall a b, err_eqb a b = true -> a = b.
Proof.
  induction a; destruct b; cbn [err_eqb]; intros H; try discriminate; try reflexivity.
  - apply N.eqb_eq in H. subst. reflexivity.
  - apply andb_true_iff in H. destruct H as [H1 H2]. apply N.eqb_eq in H1, H2. subst. reflexivity.
  - apply andb_true_iff in H. destruct H as [H12 H3]. apply andb_true_iff in H12. destruct H12 as [H1 H2].
    apply N.eqb_eq in H1, H2. subst. rewrite (IHa _ H3). reflexivity.
  - rewrite (IHa _ H). reflexivity.
  - apply andb_true_iff in H. destruct H as [H123 H4]. apply andb_true_iff in H123. destruct H123 as [H12 H3].
    apply andb_true_iff in H12. destruct H12 as [H1 H2].
    rewrite (ityp_eqb_eq _ _ H1), (list_eqb_eq _ _ action_eqb_eq _ _ H2),
            (list_eqb_eq _ _ (fun x y E => proj1 (String.eqb_eq x y) E) _ _ H3), (IHa _ H4). reflexivity.
  - apply N.eqb_eq in H. subst. reflexivity.
Qed.

Lemma ritem_eqb_eq : forall a b, ritem_eqb a b = true -> a = b.
Proof.
  intros [x|x] [y|y] H; cbn in H; try discriminate.
  - apply N.eqb_eq in H. subst. reflexivity.
  - rewrite (err_eqb_eq _ _ H). reflexivity.
Qed.

Lemma take_head_sound : forall x ls ls', take_head x ls = Some ls' ->
  exists ls1 l ls2, ls = ls1 ++ (x :: l) :: ls2 /\ ls' = ls1 ++ l :: ls2.
Proof.
  intros x. induction ls as [|l0 ls IH]; intros ls' H; cbn in H; [discriminate|].
  destruct l0 as [|y l0'].
  - destruct (take_head x ls) as [r|] eqn:E; [|discriminate]. inversion H; subst ls'.
    destruct (IH r eq_refl) as [ls1 [l [ls2 [-> ->]]]]. exists ([] :: ls1), l, ls2. split; reflexivity.
  - destruct (ritem_eqb x y) eqn:Exy.
    + inversion H; subst ls'. rewrite (ritem_eqb_eq _ _ Exy). exists [], l0', ls. split; reflexivity.
    + destruct (take_head x ls) as [r|] eqn:E; [|discriminate]. inversion H; subst ls'.
      destruct (IH r eq_refl) as [ls1 [l [ls2 [-> ->]]]]. exists ((y :: l0') :: ls1), l, ls2. split; reflexivity.
Qed.

Lemma is_interleaving_sound : forall out ls, is_interleaving ls out = true -> interleaving ls out.
Proof.
  induction out as [|x out IH]; intros ls H; cbn in H.
  - apply il_nil. rewrite forallb_forall in H. apply Forall_forall. intros l Hl.
    specialize (H l Hl). destruct l; [reflexivity|discriminate].
  - destruct (take_head x ls) as [ls'|] eqn:E; [|discriminate].
    destruct (take_head_sound _ _ _ E) as [ls1 [l [ls2 [-> ->]]]].
    apply il_cons. apply IH. exact H.
Qed.

(* ------------------------------------------------------------------ the merged stream *)

Lemma merged_forwarders_lemma : forall srcs out, interleaving (map fwd srcs) out ->
  (forall s pre i post, In s srcs -> s = pre ++ SBoom i :: post -> existsb is_boom pre = false ->
     In (RErr (PanicErr i)) out) /\
  (forall s x, In s srcs -> In x (fwd s) -> In x out) /\
  (forall s, In s srcs -> subseq (fwd s) out) /\
  List.length out = total_length (map fwd srcs).
Proof.
  intros srcs out H. split; [|split; [|split]].
  - intros s pre i post Hs -> Hpre.
    apply (interleaving_In _ _ _ H (fwd (pre ++ SBoom i :: post))); [apply in_map; exact Hs|].
    destruct (fwd_boom_lemma pre i post Hpre) as [-> _]. apply in_or_app. right. left. reflexivity.
  - intros s x Hs Hx. apply (interleaving_In _ _ _ H (fwd s)); [apply in_map; exact Hs|exact Hx].
  - intros s Hs. apply (interleaving_order _ _ _ H). apply in_map. exact Hs.
  - apply interleaving_length. exact H.
Qed.
