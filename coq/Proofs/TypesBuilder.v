(* Proofs/TypesBuilder.v — invariants of the construction state machine of
   Model/TypeBuilder.v, for every oracle (= every iteration order of the Go maps). *)
From Eino Require Import Base.Util Model.Types Model.TypeBuilder Proofs.TypesLattice.
From Coq Require Import Lia.
Arguments check_assignable : simpl never.
Ltac splits := repeat match goal with |- _ /\ _ => split end.

(* ------------------------------------------------------------------ association lists *)

Lemma get_map_node : forall k f l k',
  nlist_get k' (map_node k f l) =
  if N.eqb k k' then option_map f (nlist_get k' l) else nlist_get k' l.
Proof.
  intros k f l k'; induction l as [|[k0 n] l IH]; simpl.
  - destruct (N.eqb k k'); reflexivity.
  - destruct (N.eqb_spec k k0) as [E|E]; simpl.
    + subst k0. destruct (N.eqb_spec k' k) as [E1|E1].
      * subst k'. rewrite N.eqb_refl. reflexivity.
      * destruct (N.eqb_spec k k') as [E2|E2]; [congruence | reflexivity].
    + destruct (N.eqb_spec k' k0) as [E1|E1].
      * subst k0. destruct (N.eqb_spec k k') as [E2|E2]; [congruence | reflexivity].
      * exact IH.
Qed.

Lemma get_app_new : forall (l : list (N * node)) k n k',
  nlist_get k' (l ++ [(k, n)]) =
  match nlist_get k' l with
  | Some x => Some x
  | None => if N.eqb k' k then Some n else None
  end.
Proof.
  intros l k n k'; induction l as [|[k0 n0] l IH]; simpl.
  - reflexivity.
  - destruct (N.eqb k' k0); [reflexivity | exact IH].
Qed.

Lemma In_dedupN : forall x l, In x (dedupN l) <-> In x l.
Proof.
  intros x l; induction l as [|y l IH]; simpl; [tauto|].
  destruct (memN y l) eqn:E.
  - rewrite IH. split; [auto|]. intros [H|H]; [subst; apply memN_In; exact E | exact H].
  - simpl. rewrite IH. tauto.
Qed.

Lemma In_order_keys : forall prio ks k, In k (order_keys prio ks) <-> In k ks.
Proof.
  intros prio ks k; unfold order_keys. rewrite in_app_iff, !filter_In. split.
  - intros [[_ H]|[H _]]; [apply memN_In; exact H | exact H].
  - intro H. destruct (memN k prio) eqn:E.
    + left. split; [apply In_dedupN, memN_In; exact E | apply memN_In; exact H].
    + right. split; [exact H | reflexivity].
Qed.

Lemma In_group_order : forall prio tvm p, In p (group_order prio tvm) <-> In p tvm.
Proof.
  intros prio tvm p; unfold group_order. rewrite in_flat_map. split.
  - intros [k [_ H]]. apply filter_In in H. tauto.
  - intro H. exists (fst p). split.
    + apply In_order_keys, In_dedupN, in_map, H.
    + apply filter_In. split; [exact H | apply N.eqb_refl].
Qed.

(* ------------------------------------------------------------------ invariants *)

Section B.
  Variable u : univ.

  Definition typed_ok (n : node) : Prop :=
    (n_pass n = true -> n_in n = n_out n) /\
    (n_pass n = false -> exists i o, n_in n = Some i /\ n_out n = Some o) /\
    (forall t, n_pre n = Some t -> if n_pass n then t = TAny else n_in n = Some t) /\
    (forall t, n_post n = Some t -> if n_pass n then t = TAny else n_out n = Some t).

  Definition nodes_ok (st : gstate) : Prop :=
    forall k n, get_node st k = Some n -> typed_ok n /\ k <> kSTART /\ k <> kEND.

  Definition ends_ok (st : gstate) (p : key * key) : Prop :=
    (has_node st (fst p) = true \/ fst p = kSTART) /\ (has_node st (snd p) = true \/ snd p = kEND).

  (* a validated connection: both types known, statically compatible, and a run-time
     converter for the downstream type installed when the check said May *)
  Definition conn_ok (st : gstate) (p : key * key) : Prop :=
    exists a b, out_ty st (fst p) = Some a /\ in_ty st (snd p) = Some b /\
      check_assignable u (Some a) (Some b) <> MustNot /\
      (check_assignable u (Some a) (Some b) = May -> In (fst p, snd p, b) (g_hedge st)).

  Definition pend_ok (st : gstate) (p : key * key) : Prop := conn_ok st p \/ In p (g_tvm st).

  Definition branch_ok (st : gstate) (s : key) (b : branch) : Prop :=
    (has_node st s = true \/ s = kSTART) /\
    exists a, out_ty st s = Some a /\
      check_assignable u (Some a) (Some (b_ty b)) <> MustNot /\
      (check_assignable u (Some a) (Some (b_ty b)) = May -> In (b_ty b) (b_conv b)).

  Definition branch_pairs (st : gstate) : list (key * key) :=
    flat_map (fun p => map (pair (fst p)) (b_ends (snd p))) (g_branches st).
  Definition conns (st : gstate) : list (key * key) := g_data st ++ branch_pairs st.

  Definition all_typed (st : gstate) : Prop :=
    forall k n, get_node st k = Some n -> exists t, n_in n = Some t.

  Record inv (st : gstate) : Prop := {
    inv_nodes : nodes_ok st;
    inv_tvm : forall p, In p (g_tvm st) -> ends_ok st p;
    inv_conns : forall p, In p (conns st) -> pend_ok st p /\ ends_ok st p;
    inv_branches : forall s b, In (s, b) (g_branches st) -> branch_ok st s b;
    inv_compiled : g_compiled st = true -> g_tvm st = [] /\ all_typed st
  }.

  (* monotone extension: nothing that was known changes *)
  Record ext (st st' : gstate) : Prop := {
    ext_in : g_in st' = g_in st;
    ext_out : g_out st' = g_out st;
    ext_data : g_data st' = g_data st;
    ext_branches : g_branches st' = g_branches st;
    ext_compiled : g_compiled st' = g_compiled st;
    ext_nodes : forall k n, get_node st k = Some n ->
      exists n', get_node st' k = Some n' /\ n_pass n' = n_pass n /\ n_pre n' = n_pre n /\
                 n_post n' = n_post n /\
                 (forall t, n_in n = Some t -> n_in n' = Some t) /\
                 (forall t, n_out n = Some t -> n_out n' = Some t);
    ext_hedge : incl (g_hedge st) (g_hedge st')
  }.

  Lemma ext_refl : forall st, ext st st.
  Proof.
    intro st; constructor; auto.
    - intros k n H; exists n; repeat split; auto.
    - apply incl_refl.
  Qed.

  Lemma ext_trans : forall a b c, ext a b -> ext b c -> ext a c.
  Proof.
    intros a b c [i1 o1 d1 b1 c1 n1 h1] [i2 o2 d2 b2 c2 n2 h2]; constructor.
    - congruence.
    - congruence.
    - congruence.
    - congruence.
    - congruence.
    - intros k n H. destruct (n1 k n H) as [n' [G [P [Pr [Po [I O]]]]]].
      destruct (n2 k n' G) as [n'' [G' [P' [Pr' [Po' [I' O']]]]]].
      exists n''; repeat split; try congruence; auto.
    - eapply incl_tran; eassumption.
  Qed.

  Lemma ext_in_ty : forall st st' k t, ext st st' -> in_ty st k = Some t -> in_ty st' k = Some t.
  Proof.
    intros st st' k t E; unfold in_ty. rewrite (ext_in _ _ E), (ext_out _ _ E).
    destruct (N.eqb k kSTART); [auto|]. destruct (N.eqb k kEND); [auto|].
    destruct (get_node st k) as [n|] eqn:G; [|discriminate].
    destruct (ext_nodes _ _ E k n G) as [n' [G' [_ [_ [_ [I _]]]]]]. rewrite G'. auto.
  Qed.

  Lemma ext_out_ty : forall st st' k t, ext st st' -> out_ty st k = Some t -> out_ty st' k = Some t.
  Proof.
    intros st st' k t E; unfold out_ty. rewrite (ext_in _ _ E), (ext_out _ _ E).
    destruct (N.eqb k kSTART); [auto|]. destruct (N.eqb k kEND); [auto|].
    destruct (get_node st k) as [n|] eqn:G; [|discriminate].
    destruct (ext_nodes _ _ E k n G) as [n' [G' [_ [_ [_ [_ O]]]]]]. rewrite G'. auto.
  Qed.

  Lemma ext_has_node : forall st st' k, ext st st' -> has_node st k = true -> has_node st' k = true.
  Proof.
    intros st st' k E; unfold has_node. destruct (get_node st k) as [n|] eqn:G; [|discriminate].
    destruct (ext_nodes _ _ E k n G) as [n' [G' _]]. rewrite G'. auto.
  Qed.

  Lemma ext_ends_ok : forall st st' p, ext st st' -> ends_ok st p -> ends_ok st' p.
  Proof.
    intros st st' p E [[A|A] [B|B]]; split; eauto using ext_has_node.
  Qed.

  Lemma ext_conn_ok : forall st st' p, ext st st' -> conn_ok st p -> conn_ok st' p.
  Proof.
    intros st st' p E [a [b [Ha [Hb [Hc Hm]]]]]. exists a, b. repeat split.
    - eapply ext_out_ty; eauto.
    - eapply ext_in_ty; eauto.
    - exact Hc.
    - intro M. apply (ext_hedge _ _ E). auto.
  Qed.

  Lemma ext_branch_ok : forall st st' s b, ext st st' -> branch_ok st s b -> branch_ok st' s b.
  Proof.
    intros st st' s b E [Hn [a [Ha [Hc Hm]]]]. split.
    - destruct Hn; eauto using ext_has_node.
    - exists a. repeat split; auto. eapply ext_out_ty; eauto.
  Qed.

  (* what survives every call: known types stay, installed converters stay *)
  Record grow (st st' : gstate) : Prop := {
    grow_in : forall k t, in_ty st k = Some t -> in_ty st' k = Some t;
    grow_out : forall k t, out_ty st k = Some t -> out_ty st' k = Some t;
    grow_hedge : incl (g_hedge st) (g_hedge st')
  }.
  Lemma grow_refl : forall st, grow st st.
  Proof. intro st; constructor; auto. apply incl_refl. Qed.
  Lemma grow_trans : forall a b c, grow a b -> grow b c -> grow a c.
  Proof.
    intros a b c [i1 o1 h1] [i2 o2 h2]; constructor; auto. eapply incl_tran; eauto.
  Qed.
  Lemma ext_grow : forall st st', ext st st' -> grow st st'.
  Proof.
    intros st st' E; constructor.
    - intros k t; apply ext_in_ty; exact E.
    - intros k t; apply ext_out_ty; exact E.
    - apply (ext_hedge _ _ E).
  Qed.
  Lemma same_nodes_grow : forall st st',
    g_in st' = g_in st -> g_out st' = g_out st -> g_nodes st' = g_nodes st -> g_hedge st' = g_hedge st ->
    grow st st'.
  Proof.
    intros st st' A B C D. constructor.
    - intros k t. unfold in_ty, get_node. rewrite A, B, C. auto.
    - intros k t. unfold out_ty, get_node. rewrite A, B, C. auto.
    - rewrite D. apply incl_refl.
  Qed.
  Lemma grow_conn_ok : forall st st' p, grow st st' -> conn_ok st p -> conn_ok st' p.
  Proof.
    intros st st' p G [a [b [Ha [Hb [Hc Hm]]]]]. exists a, b. repeat split.
    - apply (grow_out _ _ G); exact Ha.
    - apply (grow_in _ _ G); exact Hb.
    - exact Hc.
    - intro M. apply (grow_hedge _ _ G). auto.
  Qed.

  (* ---- the elementary state changes *)

  Lemma ext_set_tvm : forall st t, ext st (set_tvm st t).
  Proof.
    intros; constructor; simpl; auto.
    - intros k n H; exists n; repeat split; auto.
    - apply incl_refl.
  Qed.

  Lemma ext_set_hedge_app : forall st x, ext st (set_hedge st (g_hedge st ++ [x])).
  Proof.
    intros; constructor; simpl; auto.
    - intros k n H; exists n; repeat split; auto.
    - apply incl_appl, incl_refl.
  Qed.

  Lemma get_node_set_pass_ty : forall st k t k',
    get_node (set_pass_ty st k t) k' =
    if N.eqb k k' then option_map (retype t) (get_node st k') else get_node st k'.
  Proof. intros; unfold get_node, set_pass_ty; simpl. apply get_map_node. Qed.

  (* typing a node whose type is unknown *)
  Lemma set_pass_ty_ext : forall st k t,
    nodes_ok st -> in_ty st k = None -> ext st (set_pass_ty st k t).
  Proof.
    intros st k t NO Hk. constructor; simpl; auto.
    - intros k' n G. rewrite get_node_set_pass_ty. destruct (N.eqb_spec k k') as [E|E].
      + subst k'. rewrite G. simpl. exists (retype t n). repeat split; simpl; auto.
        * intros t0 H. exfalso. unfold in_ty in Hk.
          destruct (N.eqb k kSTART); [discriminate|]. destruct (N.eqb k kEND); [discriminate|].
          rewrite G in Hk. congruence.
        * intros t0 H. exfalso. unfold in_ty in Hk.
          destruct (N.eqb k kSTART); [discriminate|]. destruct (N.eqb k kEND); [discriminate|].
          rewrite G in Hk. destruct (NO k n G) as [[P [Q _]] _].
          destruct (n_pass n) eqn:Pn.
          -- rewrite (P eq_refl) in Hk. congruence.
          -- destruct (Q eq_refl) as [i [o [Hi _]]]. congruence.
      + exists n. repeat split; auto.
    - apply incl_refl.
  Qed.

  Lemma unknown_is_pass : forall st k n,
    nodes_ok st -> get_node st k = Some n -> n_in n = None -> n_pass n = true /\ n_out n = None.
  Proof.
    intros st k n NO G Hi. destruct (NO k n G) as [[P [Q _]] _].
    destruct (n_pass n) eqn:Pn.
    - split; [reflexivity|]. rewrite <- (P eq_refl). exact Hi.
    - destruct (Q eq_refl) as [i [o [Hi' _]]]. congruence.
  Qed.

  Lemma set_pass_ty_nodes_ok : forall st k t,
    nodes_ok st -> in_ty st k = None -> nodes_ok (set_pass_ty st k t).
  Proof.
    intros st k t NO Hk k' n'. rewrite get_node_set_pass_ty.
    destruct (N.eqb_spec k k') as [E|E]; [|apply NO].
    subst k'. destruct (get_node st k) as [n|] eqn:G; simpl; [|discriminate].
    intro H; inversion H; subst n'; clear H.
    destruct (NO k n G) as [[P [Q [Pr Po]]] [S1 S2]].
    assert (Hi : n_in n = None).
    { unfold in_ty in Hk. destruct (N.eqb k kSTART); [discriminate|].
      destruct (N.eqb k kEND); [discriminate|]. rewrite G in Hk. exact Hk. }
    destruct (unknown_is_pass st k n NO G Hi) as [Pn _].
    split; [|auto]. unfold typed_ok, retype; simpl. rewrite Pn. split; [|split; [|split]].
    - intros _. reflexivity.
    - intro F; discriminate.
    - intros t0 H. specialize (Pr t0 H). rewrite Pn in Pr. exact Pr.
    - intros t0 H. specialize (Po t0 H). rewrite Pn in Po. exact Po.
  Qed.

  Lemma in_ty_node : forall st k, in_ty st k = None -> k <> kSTART /\ k <> kEND.
  Proof.
    intros st k; unfold in_ty.
    destruct (N.eqb_spec k kSTART); [discriminate|]. destruct (N.eqb_spec k kEND); [discriminate|]. auto.
  Qed.
  Lemma out_ty_node : forall st k, out_ty st k = None -> k <> kSTART /\ k <> kEND.
  Proof.
    intros st k; unfold out_ty.
    destruct (N.eqb_spec k kSTART); [discriminate|]. destruct (N.eqb_spec k kEND); [discriminate|]. auto.
  Qed.

  (* for nodes, in and out types are unknown together *)
  Lemma out_none_in_none : forall st k, nodes_ok st -> out_ty st k = None -> in_ty st k = None.
  Proof.
    intros st k NO H. destruct (out_ty_node _ _ H) as [A B]. unfold in_ty, out_ty in *.
    destruct (N.eqb_spec k kSTART) as [Ea|Ea]; [congruence|]. destruct (N.eqb_spec k kEND) as [Eb|Eb]; [congruence|].
    destruct (get_node st k) as [n|] eqn:G; [|reflexivity].
    destruct (NO k n G) as [[P [Q _]] _]. destruct (n_pass n) eqn:Pn.
    - rewrite (P eq_refl). exact H.
    - destruct (Q eq_refl) as [i [o [_ Ho]]]. congruence.
  Qed.
  Lemma in_none_out_none : forall st k, nodes_ok st -> in_ty st k = None -> out_ty st k = None.
  Proof.
    intros st k NO H. destruct (in_ty_node _ _ H) as [A B]. unfold in_ty, out_ty in *.
    destruct (N.eqb_spec k kSTART) as [Ea|Ea]; [congruence|]. destruct (N.eqb_spec k kEND) as [Eb|Eb]; [congruence|].
    destruct (get_node st k) as [n|] eqn:G; [|reflexivity].
    destruct (NO k n G) as [[P [Q _]] _]. destruct (n_pass n) eqn:Pn.
    - rewrite <- (P eq_refl). exact H.
    - destruct (Q eq_refl) as [i [o [Hi _]]]. congruence.
  Qed.

  Lemma set_pass_ty_types : forall st k t,
    has_node st k = true -> k <> kSTART -> k <> kEND ->
    in_ty (set_pass_ty st k t) k = Some t /\ out_ty (set_pass_ty st k t) k = Some t.
  Proof.
    intros st k t Hn A B. unfold in_ty, out_ty.
    destruct (N.eqb_spec k kSTART) as [Ea|Ea]; [congruence|]. destruct (N.eqb_spec k kEND) as [Eb|Eb]; [congruence|].
    rewrite get_node_set_pass_ty, N.eqb_refl. unfold has_node in Hn.
    destruct (get_node st k); [simpl; auto | discriminate].
  Qed.

  (* ---- one entry *)

  Lemma process_entry_done : forall st s e st',
    nodes_ok st -> ends_ok st (s, e) ->
    process_entry u st s e = PDone st' ->
    ext st st' /\ nodes_ok st' /\ conn_ok st' (s, e) /\ g_tvm st' = g_tvm st.
  Proof.
    intros st s e st' NO [Hs He] H. simpl in Hs, He. unfold process_entry, process_types in H.
    destruct (out_ty st s) as [ta|] eqn:Oa; destruct (in_ty st e) as [tb|] eqn:Ib.
    - destruct (check_assignable u (Some ta) (Some tb)) eqn:C; inversion H; subst st'; clear H.
      + split; [apply ext_refl|]. split; [exact NO|]. split; [|reflexivity].
        exists ta, tb. simpl. repeat split; auto; congruence.
      + split; [apply ext_set_hedge_app|]. split; [exact NO|]. split; [|reflexivity].
        exists ta, tb. simpl. repeat split; auto; try congruence.
        intros _. apply in_or_app. right. left. reflexivity.
    - inversion H; subst st'; clear H.
      destruct (in_ty_node _ _ Ib) as [E1 E2].
      destruct He as [He|He]; [|congruence].
      pose proof (set_pass_ty_ext st e ta NO Ib) as X.
      split; [exact X|]. split; [apply set_pass_ty_nodes_ok; auto|]. split; [|reflexivity].
      destruct (set_pass_ty_types st e ta He E1 E2) as [T1 T2].
      exists ta, ta. simpl. repeat split.
      + destruct (N.eqb_spec s e) as [Q|Q]; [subst; exact T2 | eapply ext_out_ty; eauto].
      + exact T1.
      + rewrite check_refl; discriminate.
      + rewrite check_refl; discriminate.
    - inversion H; subst st'; clear H.
      destruct (out_ty_node _ _ Oa) as [E1 E2].
      destruct Hs as [Hs|Hs]; [|congruence].
      pose proof (out_none_in_none st s NO Oa) as Is.
      pose proof (set_pass_ty_ext st s tb NO Is) as X.
      split; [exact X|]. split; [apply set_pass_ty_nodes_ok; auto|]. split; [|reflexivity].
      destruct (set_pass_ty_types st s tb Hs E1 E2) as [T1 T2].
      exists tb, tb. simpl. repeat split.
      + exact T2.
      + eapply ext_in_ty; eauto.
      + rewrite check_refl; discriminate.
      + rewrite check_refl; discriminate.
    - discriminate.
  Qed.

  Lemma process_entry_keep : forall st s e,
    process_entry u st s e = PKeep -> out_ty st s = None /\ in_ty st e = None.
  Proof.
    intros st s e; unfold process_entry, process_types.
    destruct (out_ty st s); destruct (in_ty st e); try discriminate; auto.
    destruct (check_assignable u (Some t) (Some t0)); discriminate.
  Qed.

  (* ---- one pass *)

  Lemma pass_spec : forall todo st st' kept ch,
    nodes_ok st -> (forall p, In p todo -> ends_ok st p) ->
    pass u st todo = Some (st', kept, ch) ->
    ext st st' /\ nodes_ok st' /\ g_tvm st' = g_tvm st /\
    (forall p, In p todo -> In p kept \/ conn_ok st' p) /\
    incl kept todo /\
    (ch = false -> st' = st /\ kept = todo) /\
    (ch = true -> (List.length kept < List.length todo)%nat).
  Proof.
    induction todo as [|[s e] rest IH]; intros st st' kept ch NO HE H; simpl in H.
    - inversion H; subst st' kept ch. splits; auto using ext_refl, incl_refl.
      discriminate.
    - destruct (process_entry u st s e) as [|st1|] eqn:PE.
      + destruct (pass u st rest) as [[[st2 kept2] ch2]|] eqn:PR; [|discriminate].
        inversion H; subst st' kept ch; clear H.
        destruct (IH st st2 kept2 ch2 NO (fun p Hp => HE p (or_intror Hp)) PR)
          as [X [NO2 [TV [Hk [Hi [Hf Ht]]]]]].
        splits; auto.
        * intros p [Hp|Hp]; [left; left; exact Hp|]. destruct (Hk p Hp); [left; right|right]; auto.
        * intros p [Hp|Hp]; [left; exact Hp | right; apply Hi; exact Hp].
        * intro F; destruct (Hf F); subst; auto.
        * intro T. simpl. specialize (Ht T). lia.
      + destruct (process_entry_done st s e st1 NO (HE _ (or_introl eq_refl)) PE) as [X1 [NO1 [C1 TV1]]].
        destruct (pass u st1 rest) as [[[st2 kept2] ch2]|] eqn:PR; [|discriminate].
        inversion H; subst st' kept ch; clear H.
        assert (HE1 : forall p, In p rest -> ends_ok st1 p).
        { intros p Hp. eapply ext_ends_ok; [exact X1|]. apply HE. right; exact Hp. }
        destruct (IH st1 st2 kept2 ch2 NO1 HE1 PR) as [X [NO2 [TV [Hk [Hi [Hf Ht]]]]]].
        splits; auto.
        * eapply ext_trans; eauto.
        * congruence.
        * intros p [Hp|Hp].
          -- subst p. right. eapply ext_conn_ok; eauto.
          -- apply Hk; exact Hp.
        * intros p Hp; right; apply Hi; exact Hp.
        * discriminate.
        * intros _. simpl. pose proof (NoDup_incl_length) as _.
          destruct ch2; [specialize (Ht eq_refl); lia|].
          destruct (Hf eq_refl) as [_ K]. subst kept2. lia.
      + discriminate.
  Qed.

  Lemma pass_nochange_unknown : forall todo st st' kept,
    pass u st todo = Some (st', kept, false) ->
    forall p, In p todo -> out_ty st (fst p) = None /\ in_ty st (snd p) = None.
  Proof.
    induction todo as [|[s e] rest IH]; intros st st' kept H p Hin; [destruct Hin|].
    simpl in H. destruct (process_entry u st s e) as [|stx|] eqn:PE.
    - destruct (pass u st rest) as [[[st2 kept2] ch2]|] eqn:PR; [|discriminate].
      inversion H; subst st' kept ch2; clear H.
      destruct Hin as [Hin|Hin].
      + subst p. simpl. apply process_entry_keep with (1 := PE).
      + eapply IH; eauto.
    - destruct (pass u stx rest) as [[[st2 kept2] ch2]|]; [|discriminate]. inversion H.
    - discriminate.
  Qed.

  (* ---- the work-list loop *)

  Definition good (st : gstate) : Prop := nodes_ok st /\ forall p, In p (g_tvm st) -> ends_ok st p.

  Lemma update_spec : forall fuel orc n st st',
    good st -> update u fuel orc n st = UOk st' ->
    ext st st' /\ good st' /\ incl (g_tvm st') (g_tvm st) /\
    (forall p, pend_ok st p -> pend_ok st' p) /\
    (forall p, In p (g_tvm st') -> out_ty st' (fst p) = None /\ in_ty st' (snd p) = None).
  Proof.
    induction fuel as [|f IH]; intros orc n st st' [NO HE] H; simpl in H; [discriminate|].
    destruct (pass u st (group_order (orc n) (g_tvm st))) as [[[st1 kept] ch]|] eqn:P; [|discriminate].
    assert (HE' : forall p, In p (group_order (orc n) (g_tvm st)) -> ends_ok st p).
    { intros p Hp. apply In_group_order in Hp. apply HE; exact Hp. }
    destruct (pass_spec _ _ _ _ _ NO HE' P) as [X [NO1 [TV [Hk [Hi [Hf Ht]]]]]].
    assert (X1 : ext st (set_tvm st1 kept)) by (eapply ext_trans; [exact X | apply ext_set_tvm]).
    assert (G1 : good (set_tvm st1 kept)).
    { split.
      - intros k nd; apply NO1.
      - simpl. intros p Hp. apply Hi in Hp. apply In_group_order in Hp.
        eapply ext_ends_ok; [exact X1|]. apply HE; exact Hp. }
    assert (PO : forall p, pend_ok st p -> pend_ok (set_tvm st1 kept) p).
    { intros p [C|T].
      - left. eapply ext_conn_ok; eauto.
      - apply In_group_order with (prio := orc n) in T. destruct (Hk p T) as [K|C].
        + right; exact K.
        + left. eapply ext_conn_ok; [apply ext_set_tvm | exact C]. }
    assert (IN : incl (g_tvm (set_tvm st1 kept)) (g_tvm st)).
    { simpl. intros p Hp. apply Hi in Hp. apply In_group_order in Hp. exact Hp. }
    destruct ch.
    - destruct (IH _ _ _ _ G1 H) as [X2 [G2 [I2 [P2 F2]]]].
      split; [eapply ext_trans; eauto|]. split; [exact G2|]. split; [eapply incl_tran; eauto|].
      split; [intros p Hp; apply P2, PO, Hp | exact F2].
    - inversion H; subst st'; clear H.
      split; [exact X1|]. split; [exact G1|]. split; [exact IN|]. split; [exact PO|].
      destruct (Hf eq_refl) as [S K]. subst st1 kept. simpl.
      intros p Hp.
      change (out_ty st (fst p) = None /\ in_ty st (snd p) = None).
      eapply pass_nochange_unknown; [exact P | exact Hp].
  Qed.

  (* ------------------------------------------------------------------ the Add* calls *)

  Lemma nlist_get_In : forall (l : list (N * node)) k n, nlist_get k l = Some n -> In (k, n) l.
  Proof.
    induction l as [|[k0 n0] l IH]; simpl; intros k n H; [discriminate|].
    destruct (N.eqb_spec k k0) as [E|E].
    - inversion H; subst; left; reflexivity.
    - right; apply IH; exact H.
  Qed.

  (* states that differ only in fields the invariant does not look at *)
  Definition same_core (st st' : gstate) : Prop :=
    g_in st' = g_in st /\ g_out st' = g_out st /\ g_nodes st' = g_nodes st /\
    g_data st' = g_data st /\ g_branches st' = g_branches st /\ g_tvm st' = g_tvm st /\
    g_hedge st' = g_hedge st /\ g_compiled st' = g_compiled st.

  Lemma same_core_inv : forall st st', same_core st st' -> inv st -> inv st'.
  Proof.
    intros [i o s n d c b t h hs he er cp] [i' o' s' n' d' c' b' t' h' hs' he' er' cp'].
    unfold same_core; simpl. intros [A1 [A2 [A3 [A4 [A5 [A6 [A7 A8]]]]]]]; subst.
    intros [I1 I2 I3 I4 I5]. constructor; [exact I1 | exact I2 | exact I3 | exact I4 | exact I5].
  Qed.

  Lemma same_core_ext : forall st st', same_core st st' -> ext st st'.
  Proof.
    intros st st' [A1 [A2 [A3 [A4 [A5 [A6 [A7 A8]]]]]]]. constructor; auto.
    - intros k n H. exists n. unfold get_node in *. rewrite A3. repeat split; auto.
    - rewrite A7. apply incl_refl.
  Qed.

  Lemma same_core_set_err : forall st, same_core st (set_err st).
  Proof. intro st; unfold same_core; simpl; repeat split; reflexivity. Qed.
  Lemma same_core_refl : forall st, same_core st st.
  Proof. intro st; unfold same_core; repeat split; reflexivity. Qed.

  Lemma inv_init : forall i o s, inv (init_graph i o s).
  Proof.
    intros i o s. constructor; simpl.
    - intros k n H; discriminate.
    - intros p [].
    - intros p [].
    - intros s0 b [].
    - discriminate.
  Qed.

  Lemma inv_good : forall st, inv st -> good st.
  Proof. intros st I; split; [apply (inv_nodes _ I) | apply (inv_tvm _ I)]. Qed.

  Lemma ext_pend_ok_same_tvm : forall st st' p,
    ext st st' -> incl (g_tvm st) (g_tvm st') -> pend_ok st p -> pend_ok st' p.
  Proof.
    intros st st' p E T [C|H]; [left; eapply ext_conn_ok; eauto | right; apply T; exact H].
  Qed.

  Lemma conns_ext : forall st st', ext st st' -> conns st' = conns st.
  Proof.
    intros st st' E. unfold conns, branch_pairs. rewrite (ext_data _ _ E), (ext_branches _ _ E). reflexivity.
  Qed.

  (* ---- addNode *)

  Lemma handler_ok_spec : forall st d h hs,
    handler_ok st d h = true -> h = Some hs ->
    match d with None => h_ty hs = TAny | Some t => t = h_ty hs end.
  Proof.
    intros st d h hs H E; subst h. unfold handler_ok in H.
    destruct (g_st st); [|discriminate]. apply andb_true_iff in H; destruct H as [_ H].
    destruct d; apply ty_eqb_eq in H; auto.
  Qed.

  Lemma add_node_spec : forall st k isp i o pre post st' ok,
    inv st ->
    (isp = true -> i = None /\ o = None) ->
    (isp = false -> exists ti to, i = Some ti /\ o = Some to) ->
    add_node st k isp i o pre post = (st', ok) ->
    inv st' /\ ext st st'.
  Proof.
    intros st k isp i o pre post st' ok I Hp Hl H. unfold add_node in H.
    destruct (g_err st); [inversion H; subst; split; [exact I | apply ext_refl]|].
    destruct (g_compiled st) eqn:CP; [inversion H; subst; split; [exact I | apply ext_refl]|].
    destruct (N.eqb k kSTART || N.eqb k kEND) eqn:K;
      [inversion H; subst; split; [eapply same_core_inv; [apply same_core_set_err | exact I] | apply same_core_ext, same_core_set_err]|].
    destruct (has_node st k) eqn:HN;
      [inversion H; subst; split; [eapply same_core_inv; [apply same_core_set_err | exact I] | apply same_core_ext, same_core_set_err]|].
    destruct (handler_ok st i pre) eqn:H1; simpl in H;
      [|inversion H; subst; split; [eapply same_core_inv; [apply same_core_set_err | exact I] | apply same_core_ext, same_core_set_err]].
    destruct (handler_ok st o post) eqn:H2; simpl in H;
      [|inversion H; subst; split; [eapply same_core_inv; [apply same_core_set_err | exact I] | apply same_core_ext, same_core_set_err]].
    inversion H; subst st' ok; clear H.
    apply orb_false_iff in K; destruct K as [K1 K2].
    apply N.eqb_neq in K1. apply N.eqb_neq in K2.
    set (n := {| n_pass := isp; n_in := i; n_out := o; n_pre := option_map h_ty pre; n_post := option_map h_ty post |}).
    set (st' := set_nodes st (g_nodes st ++ [(k, n)])).
    assert (G : forall k', get_node st' k' = match get_node st k' with Some x => Some x | None => if N.eqb k' k then Some n else None end).
    { intro k'. unfold get_node, st'; simpl. apply get_app_new. }
    assert (X : ext st st').
    { constructor; auto.
      - intros k' n0 H. exists n0. rewrite G, H. repeat split; auto.
      - apply incl_refl. }
    split; [|exact X].
    constructor.
    - intros k' n' H. rewrite G in H. destruct (get_node st k') as [x|] eqn:Gx.
      + inversion H; subst x. apply (inv_nodes _ I k' n' Gx).
      + destruct (N.eqb_spec k' k) as [E|E]; [|discriminate]. inversion H; subst n' k'. clear H.
        split; [|auto]. unfold typed_ok, n; simpl. split; [|split; [|split]].
        * intro P. destruct (Hp P); subst; reflexivity.
        * intro P. destruct (Hl P) as [ti [to [A B]]]; subst. eauto.
        * intros t Ht. destruct pre as [hs|]; [|discriminate]. simpl in Ht. inversion Ht; subst t.
          pose proof (handler_ok_spec st i (Some hs) hs H1 eq_refl) as Q.
          destruct isp.
          -- destruct (Hp eq_refl); subst. exact Q.
          -- destruct (Hl eq_refl) as [ti [to [A B]]]; subst. simpl in Q. subst. reflexivity.
        * intros t Ht. destruct post as [hs|]; [|discriminate]. simpl in Ht. inversion Ht; subst t.
          pose proof (handler_ok_spec st o (Some hs) hs H2 eq_refl) as Q.
          destruct isp.
          -- destruct (Hp eq_refl); subst. exact Q.
          -- destruct (Hl eq_refl) as [ti [to [A B]]]; subst. simpl in Q. subst. reflexivity.
    - intros p Hp0. eapply ext_ends_ok; [exact X|]. apply (inv_tvm _ I). exact Hp0.
    - intros p Hp0. rewrite (conns_ext _ _ X) in Hp0. destruct (inv_conns _ I p Hp0) as [A B].
      split; [|eapply ext_ends_ok; eauto].
      eapply ext_pend_ok_same_tvm; [exact X | apply incl_refl | exact A].
    - intros s b Hb. eapply ext_branch_ok; [exact X|]. apply (inv_branches _ I). exact Hb.
    - simpl. rewrite CP. discriminate.
  Qed.

  (* ---- addEdge *)

  Lemma update_tvm_spec : forall orc st st',
    good st -> update_tvm u orc st = UOk st' ->
    ext st st' /\ good st' /\ incl (g_tvm st') (g_tvm st) /\
    (forall p, pend_ok st p -> pend_ok st' p) /\
    (forall p, In p (g_tvm st') -> out_ty st' (fst p) = None /\ in_ty st' (snd p) = None).
  Proof. intros orc st st'; unfold update_tvm; apply update_spec. Qed.

  Ltac fail_case H I :=
    inversion H; subst;
    split; [eapply same_core_inv; [apply same_core_set_err | exact I] | apply same_core_ext, same_core_set_err].

  Ltac fail_caseg H I :=
    inversion H; subst;
    split; [eapply same_core_inv; [apply same_core_set_err | exact I] | apply ext_grow, same_core_ext, same_core_set_err].

  Lemma has_or : forall st k x, negb (has_node st k) && negb (N.eqb k x) = false -> has_node st k = true \/ k = x.
  Proof.
    intros st k x H. apply andb_false_iff in H. destruct H as [H|H]; apply negb_false_iff in H.
    - left; exact H.
    - right; apply N.eqb_eq; exact H.
  Qed.

  Lemma add_edge_spec : forall orc st s e st' ok,
    inv st -> add_edge u false orc st s e = (st', ok) -> inv st' /\ grow st st'.
  Proof.
    intros orc st s e st' ok I H. unfold add_edge in H.
    destruct (g_err st); [inversion H; subst; split; [exact I | apply grow_refl]|].
    destruct (g_compiled st) eqn:CP; [inversion H; subst; split; [exact I | apply grow_refl]|].
    destruct (N.eqb s kEND); [fail_caseg H I|].
    destruct (N.eqb e kSTART); [fail_caseg H I|].
    destruct (negb (has_node st s) && negb (N.eqb s kSTART)) eqn:Hs; [fail_caseg H I|].
    destruct (negb (has_node st e) && negb (N.eqb e kEND)) eqn:He; [fail_caseg H I|].
    destruct (mem_pair (s, e) (g_ctrl st)); [fail_caseg H I|].
    apply has_or in Hs. apply has_or in He.
    set (st1 := mark_ends (set_ctrl st (g_ctrl st ++ [(s, e)])) s e) in *.
    destruct (mem_pair (s, e) (g_data st1)); [fail_caseg H I|].
    assert (SC : same_core st st1) by (unfold same_core, st1; simpl; repeat split; reflexivity).
    pose proof (same_core_inv _ _ SC I) as I1.
    set (st1' := set_tvm st1 (g_tvm st1 ++ [(s, e)])) in *.
    unfold update_sel in H.
    destruct (update_tvm u (orc 0%nat) st1') as [st2| |] eqn:U; [|fail_caseg H I|fail_caseg H I].
    inversion H; subst st' ok; clear H.
    assert (X1 : ext st st1') by (eapply ext_trans; [apply same_core_ext; exact SC | apply ext_set_tvm]).
    assert (G1 : good st1').
    { split.
      - exact (inv_nodes _ I1).
      - unfold st1'; simpl. intros p Hp. apply in_app_or in Hp. destruct Hp as [Hp|[Hp|[]]].
        + apply (inv_tvm _ I1 p Hp).
        + subst p. split; simpl.
          * destruct Hs as [Hs|Hs]; [left|right]; auto.
          * destruct He as [He|He]; [left|right]; auto. }
    destruct (update_tvm_spec _ _ _ G1 U) as [X2 [G2 [IN2 [PO2 _]]]].
    assert (X : ext st st2) by (eapply ext_trans; eauto).
    set (st3 := set_data st2 (g_data st2 ++ [(s, e)])).
    assert (PE : forall p, pend_ok st p -> pend_ok st2 p).
    { intros p Hp. apply PO2. eapply ext_pend_ok_same_tvm; [exact X1 | | exact Hp].
      unfold st1', st1; simpl. apply incl_appl, incl_refl. }
    split.
    - constructor.
      + exact (proj1 G2).
      + exact (proj2 G2).
      + intros p Hp. unfold conns in Hp. change (g_data st3) with (g_data st2 ++ [(s, e)]) in Hp.
        change (branch_pairs st3) with (branch_pairs st2) in Hp.
        change (pend_ok st2 p /\ ends_ok st2 p).
        assert (Q : In p (conns st2) \/ p = (s, e)).
        { apply in_app_or in Hp. destruct Hp as [Hp|Hp].
          - apply in_app_or in Hp. destruct Hp as [Hp|[Hp|[]]]; [left; apply in_or_app; left; exact Hp | right; auto].
          - left; apply in_or_app; right; exact Hp. }
        destruct Q as [Q|Q].
        * rewrite (conns_ext _ _ X) in Q. destruct (inv_conns _ I p Q) as [A B].
          split; [apply PE; exact A | eapply ext_ends_ok; eauto].
        * subst p. split.
          -- apply PO2. right. unfold st1'; simpl. apply in_or_app; right; left; reflexivity.
          -- eapply ext_ends_ok; [exact X2|]. apply (proj2 G1). unfold st1'; simpl.
             apply in_or_app; right; left; reflexivity.
      + intros s0 b Hb. change (In (s0, b) (g_branches st2)) in Hb. rewrite (ext_branches _ _ X) in Hb.
        change (branch_ok st2 s0 b). eapply ext_branch_ok; [exact X|]. apply (inv_branches _ I). exact Hb.
      + change (g_compiled st2 = true -> g_tvm st2 = [] /\ all_typed st2).
        rewrite (ext_compiled _ _ X), CP. discriminate.
    - eapply grow_trans; [apply ext_grow; exact X|]. apply same_nodes_grow; reflexivity.
  Qed.

  (* ---- addBranch *)

  Lemma good_same_core : forall st st', same_core st st' -> good st -> good st'.
  Proof.
    intros [i o s n d c b t h hs he er cp] [i' o' s' n' d' c' b' t' h' hs' he' er' cp'].
    unfold same_core; simpl. intros [A1 [A2 [A3 [A4 [A5 [A6 [A7 A8]]]]]]]; subst.
    intros [G1 G2]; split; [exact G1 | exact G2].
  Qed.

  Lemma pend_ok_same_core : forall st st' p, same_core st st' -> pend_ok st p -> pend_ok st' p.
  Proof.
    intros [i o s n d c b t h hs he er cp] [i' o' s' n' d' c' b' t' h' hs' he' er' cp'] p.
    unfold same_core; simpl. intros [A1 [A2 [A3 [A4 [A5 [A6 [A7 A8]]]]]]]; subst.
    intro H; exact H.
  Qed.

  Lemma branch_ends_spec : forall ends orc j st s st',
    good st -> (has_node st s = true \/ s = kSTART) ->
    branch_ends u false orc j st s ends = Some st' ->
    ext st st' /\ good st' /\ (forall p, pend_ok st p -> pend_ok st' p) /\
    (forall e, In e ends -> pend_ok st' (s, e) /\ ends_ok st' (s, e)).
  Proof.
    induction ends as [|e rest IH]; intros orc j st s st' G Hs H; simpl in H.
    - inversion H; subst st'. split; [apply ext_refl|]. split; [exact G|]. split; [auto|]. intros e [].
    - destruct (negb (has_node st e) && negb (N.eqb e kEND)) eqn:He; [discriminate|].
      apply has_or in He.
      set (sta := set_tvm st (g_tvm st ++ [(s, e)])) in *.
      unfold update_sel in H.
      destruct (update_tvm u (orc (S j)) sta) as [st1| |] eqn:U; [|discriminate|discriminate].
      assert (Ga : good sta).
      { split; [exact (proj1 G)|]. unfold sta; simpl. intros p Hp. apply in_app_or in Hp.
        destruct Hp as [Hp|[Hp|[]]]; [apply (proj2 G p Hp)|]. subst p. split; simpl; auto. }
      destruct (update_tvm_spec _ _ _ Ga U) as [X1 [G1 [_ [PO1 _]]]].
      set (stb := mark_ends st1 s e) in *.
      assert (SC : same_core st1 stb) by (unfold same_core, stb; simpl; repeat split; reflexivity).
      pose proof (good_same_core _ _ SC G1) as Gb.
      assert (Xa : ext st sta) by apply ext_set_tvm.
      assert (Xb : ext st stb).
      { eapply ext_trans; [exact Xa|]. eapply ext_trans; [exact X1 | apply same_core_ext; exact SC]. }
      assert (Hsb : has_node stb s = true \/ s = kSTART).
      { destruct Hs as [Hs|Hs]; [left; eapply ext_has_node; eauto | right; exact Hs]. }
      destruct (IH _ _ _ _ _ Gb Hsb H) as [X2 [G2 [PO2 E2]]].
      assert (POb : forall p, pend_ok sta p -> pend_ok stb p).
      { intros p Hp. eapply pend_ok_same_core; [exact SC|]. apply PO1; exact Hp. }
      split; [eapply ext_trans; eauto|]. split; [exact G2|]. split.
      + intros p Hp. apply PO2, POb. eapply ext_pend_ok_same_tvm; [exact Xa | | exact Hp].
        unfold sta; simpl. apply incl_appl, incl_refl.
      + intros e' [E|E].
        * subst e'. split.
          -- apply PO2, POb. right. unfold sta; simpl. apply in_or_app; right; left; reflexivity.
          -- eapply ext_ends_ok; [eapply ext_trans; [exact Xb | exact X2]|]. split; simpl; auto.
        * apply E2; exact E.
  Qed.

  Lemma branch_pairs_app : forall st s b,
    branch_pairs (set_branches st (g_branches st ++ [(s, b)])) = branch_pairs st ++ map (pair s) (b_ends b).
  Proof.
    intros st s b. unfold branch_pairs; simpl. rewrite flat_map_app. simpl. rewrite app_nil_r. reflexivity.
  Qed.

  Lemma branch_pre_spec : forall orc st s t st1,
    good st -> branch_pre u false false false orc st s t = UOk st1 ->
    ext st st1 /\ good st1 /\ (forall p, pend_ok st p -> pend_ok st1 p).
  Proof.
    intros orc st s t st1 G H. unfold branch_pre in H.
    destruct (negb (N.eqb s kSTART) && is_pass st s &&
              (false || match out_ty st s with None => true | Some _ => false end)) eqn:C.
    - apply andb_true_iff in C. destruct C as [_ C]. simpl in C.
      destruct (out_ty st s) eqn:O; [discriminate|].
      pose proof (out_none_in_none st s (proj1 G) O) as Is.
      pose proof (set_pass_ty_ext st s t (proj1 G) Is) as X0.
      assert (G0 : good (set_pass_ty st s t)).
      { split; [apply set_pass_ty_nodes_ok; [exact (proj1 G) | exact Is]|].
        intros p Hp. eapply ext_ends_ok; [exact X0|]. apply (proj2 G). exact Hp. }
      unfold update_sel in H.
      destruct (update_tvm_spec _ _ _ G0 H) as [X1 [G1 [_ [PO1 _]]]].
      split; [eapply ext_trans; eauto|]. split; [exact G1|].
      intros p Hp. apply PO1. eapply ext_pend_ok_same_tvm; [exact X0 | apply incl_refl | exact Hp].
    - inversion H; subst st1. split; [apply ext_refl|]. split; [exact G | auto].
  Qed.

  Lemma add_branch_spec : forall orc st s t ends choice st' ok,
    inv st -> add_branch u false false false orc st s t ends choice = (st', ok) -> inv st' /\ grow st st'.
  Proof.
    intros orc st s t ends choice st' ok I H. unfold add_branch in H.
    destruct (g_err st); [inversion H; subst; split; [exact I | apply grow_refl]|].
    destruct (g_compiled st) eqn:CP; [inversion H; subst; split; [exact I | apply grow_refl]|].
    destruct (N.eqb s kEND); [fail_caseg H I|].
    destruct (negb (has_node st s) && negb (N.eqb s kSTART)) eqn:Hs; [fail_caseg H I|].
    destruct (Nat.eqb (List.length ends) 1); [fail_caseg H I|].
    apply has_or in Hs.
    pose proof (inv_good _ I) as G.
    destruct (branch_pre u false false false (fun n => orc 0%nat (S n)) st s t) as [st1| |] eqn:BP;
      [|fail_caseg H I|fail_caseg H I].
    destruct (branch_pre_spec _ _ _ _ _ G BP) as [X1 [G1 PO1]].
    destruct (out_ty st1 s) as [a|] eqn:Oa; [|rewrite check_none_l in H; fail_caseg H I].
    assert (FIN : forall cv st2,
      (check_assignable u (Some a) (Some t) <> MustNot) ->
      (check_assignable u (Some a) (Some t) = May -> In t cv) ->
      branch_ends u false orc 0 st1 s (order_keys (orc 0%nat 0%nat) ends) = Some st2 ->
      inv (set_branches st2 (g_branches st2 ++ [(s, {| b_ty := t; b_ends := ends; b_choice := choice; b_conv := cv |})])) /\
      grow st (set_branches st2 (g_branches st2 ++ [(s, {| b_ty := t; b_ends := ends; b_choice := choice; b_conv := cv |})]))).
    { intros cv st2 HC HM BE.
      assert (Hs1 : has_node st1 s = true \/ s = kSTART).
      { destruct Hs as [Hs|Hs]; [left; eapply ext_has_node; eauto | right; exact Hs]. }
      destruct (branch_ends_spec _ _ _ _ _ _ G1 Hs1 BE) as [X2 [G2 [PO2 E2]]].
      assert (X : ext st st2) by (eapply ext_trans; eauto).
      set (b := {| b_ty := t; b_ends := ends; b_choice := choice; b_conv := cv |}).
      split.
      + constructor.
        * exact (proj1 G2).
        * exact (proj2 G2).
        * intros p Hp. unfold conns in Hp. rewrite branch_pairs_app in Hp.
          change (g_data (set_branches st2 (g_branches st2 ++ [(s, b)]))) with (g_data st2) in Hp.
          change (pend_ok st2 p /\ ends_ok st2 p).
          rewrite app_assoc in Hp. apply in_app_or in Hp. destruct Hp as [Hp|Hp].
          -- change (In p (conns st2)) in Hp. rewrite (conns_ext _ _ X) in Hp.
             destruct (inv_conns _ I p Hp) as [A B]. split; [|eapply ext_ends_ok; eauto].
             apply PO2. apply PO1. exact A.
          -- apply in_map_iff in Hp. destruct Hp as [e [Ep He]]. subst p. simpl in He.
             apply E2. apply In_order_keys. exact He.
        * intros s0 b0 Hb. change (In (s0, b0) (g_branches st2 ++ [(s, b)])) in Hb.
          change (branch_ok st2 s0 b0). apply in_app_or in Hb. destruct Hb as [Hb|[Hb|[]]].
          -- rewrite (ext_branches _ _ X) in Hb. eapply ext_branch_ok; [exact X|]. apply (inv_branches _ I); exact Hb.
          -- inversion Hb; subst s0 b0. split.
             ++ destruct Hs as [Hs|Hs]; [left; eapply ext_has_node; eauto | right; exact Hs].
             ++ exists a. split; [eapply ext_out_ty; [exact X2 | exact Oa]|]. unfold b; simpl. split; [exact HC | exact HM].
        * change (g_compiled st2 = true -> g_tvm st2 = [] /\ all_typed st2).
          rewrite (ext_compiled _ _ X), CP. discriminate.
      + eapply grow_trans; [apply ext_grow; exact X|]. apply same_nodes_grow; reflexivity. }
    destruct (check_assignable u (Some a) (Some t)) eqn:C; [fail_caseg H I| |].
    - destruct (branch_ends u false orc 0 st1 s (order_keys (orc 0%nat 0%nat) ends)) as [st2|] eqn:BE; [|fail_caseg H I].
      inversion H; subst st' ok; clear H. apply FIN; [discriminate | discriminate | reflexivity].
    - destruct (branch_ends u false orc 0 st1 s (order_keys (orc 0%nat 0%nat) ends)) as [st2|] eqn:BE; [|fail_caseg H I].
      inversion H; subst st' ok; clear H. apply FIN; [discriminate | intros _; left; reflexivity | reflexivity].
  Qed.

  (* ---- Compile *)

  Lemma compile_spec : forall st st' ok,
    inv st -> compile st = (st', ok) ->
    inv st' /\ grow st st' /\ (ok = true -> g_compiled st' = true).
  Proof.
    intros st st' ok I H. unfold compile in H.
    destruct (g_err st); [inversion H; subst; split; [exact I|split; [apply grow_refl | discriminate]]|].
    destruct (g_has_start st); simpl in H; [|inversion H; subst; split; [exact I|split; [apply grow_refl | discriminate]]].
    destruct (g_has_end st); simpl in H; [|inversion H; subst; split; [exact I|split; [apply grow_refl | discriminate]]].
    destruct (g_tvm st) eqn:T; [|inversion H; subst; split; [exact I|split; [apply grow_refl | discriminate]]].
    destruct (existsb _ (g_nodes st)) eqn:EX; [inversion H; subst; split; [exact I|split; [apply grow_refl | discriminate]]|].
    inversion H; subst st' ok; clear H.
    destruct I as [I1 I2 I3 I4 I5]. split; [|split; [apply same_nodes_grow; reflexivity | reflexivity]].
    constructor; [exact I1 | exact I2 | exact I3 | exact I4 |].
    intros _. split; [exact T|].
    intros k n G. apply nlist_get_In in G.
    destruct (n_in n) as [t|] eqn:Hn; [eauto|].
    exfalso. assert (existsb (fun p : key * node => match n_in (snd p) with None => true | Some _ => false end) (g_nodes st) = true).
    { apply existsb_exists. exists (k, n). split; [exact G|]. simpl. rewrite Hn. reflexivity. }
    change (g_nodes (set_compiled st)) with (g_nodes st) in G. congruence.
  Qed.

  (* ---- every call, every sequence, every oracle *)

  Lemma step_spec : forall orc st o st' ok,
    inv st -> step u orc st o = (st', ok) -> inv st' /\ grow st st'.
  Proof.
    intros orc st o st' ok I H. destruct o as [k i ot pre post|k pre post|s e|s t ends choice|]; simpl in H.
    - destruct (add_node_spec st k false (Some i) (Some ot) pre post st' ok I) as [A B]; auto.
      + discriminate.
      + intros _; eauto.
      + split; [exact A | apply ext_grow; exact B].
    - destruct (add_node_spec st k true None None pre post st' ok I) as [A B]; auto.
      + discriminate.
      + split; [exact A | apply ext_grow; exact B].
    - eapply add_edge_spec; eauto.
    - eapply add_branch_spec; eauto.
    - destruct (compile_spec st st' ok I H) as [A [B _]]. auto.
  Qed.

  Lemma run_ops_spec : forall ops orcs i st st' oks,
    inv st -> run_ops u orcs i st ops = (st', oks) -> inv st' /\ grow st st'.
  Proof.
    induction ops as [|o rest IH]; intros orcs i st st' oks I H; unfold run_ops in *; simpl in H.
    - inversion H; subst; split; [exact I | apply grow_refl].
    - destruct (step_sel u false false false (orcs i) st o) as [st1 ok] eqn:Hs.
      destruct (run_ops_sel u false false false orcs (S i) st1 rest) as [st2 oks2] eqn:R.
      inversion H; subst st' oks; clear H.
      destruct (step_spec _ _ _ _ _ I Hs) as [I1 G1].
      destruct (IH _ _ _ _ _ I1 R) as [I2 G2].
      split; [exact I2 | eapply grow_trans; eauto].
  Qed.

  Lemma run_ops_app : forall ops1 ops2 orcs i st,
    run_ops u orcs i st (ops1 ++ ops2) =
    let '(st1, oks1) := run_ops u orcs i st ops1 in
    let '(st2, oks2) := run_ops u orcs (i + List.length ops1) st1 ops2 in
    (st2, oks1 ++ oks2).
  Proof.
    induction ops1 as [|o rest IH]; intros ops2 orcs i st; unfold run_ops in *; simpl.
    - rewrite Nat.add_0_r. destruct (run_ops_sel u false false false orcs i st ops2); reflexivity.
    - destruct (step_sel u false false false (orcs i) st o) as [st1 ok].
      rewrite IH. destruct (run_ops_sel u false false false orcs (S i) st1 rest) as [st2 oks2].
      replace (S i + List.length rest)%nat with (i + S (List.length rest))%nat by lia.
      destruct (run_ops_sel u false false false orcs (i + S (List.length rest)) st2 ops2); reflexivity.
  Qed.

  (* the graph a successful Compile saw: nothing is pending *)
  Lemma compiled_all_validated : forall st, inv st -> g_compiled st = true ->
    forall p, In p (conns st) -> conn_ok st p /\ ends_ok st p.
  Proof.
    intros st I C p Hp. destruct (inv_conns _ I p Hp) as [[A|A] B]; [auto|].
    destruct (inv_compiled _ I C) as [T _]. rewrite T in A. destruct A.
  Qed.
End B.
