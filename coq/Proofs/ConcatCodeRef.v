(* Proofs/ConcatCodeRef.v — the reference statement-by-statement translation of internal/concat.go
   (Model/ConcatCodeRef.v: toSliceValue, concatSliceValue, concatMaps, concatInterfaces, and the
   comparator / sort call of concatToolCalls) computes the functions of Model/Concat.v / Model/ConcatOrder.v
   that the C14 theorems are about:
     ref_toSliceValue       toSliceValue = "all elements have the dynamic type of the first" (same_types; nil first = panic)
     ref_concatSliceValue   concatSliceValue = concat_typed on a non-map element type (single element, registered
                            function, all zero / one non-zero / several non-zero)
     ref_concatMaps         one level of concatMaps = concat_maps_step, for every recursive call that is the model's
     ref_concat_maps        concatMaps with the recursion unrolled [fuel] times = concat_maps fuel
     ref_concatInterfaces   concatInterfaces = concat_key (nil chunks skipped, all nil = invalid Value)
     ref_tc_less, ref_tc_sort_stable   the comparator is tc_less and never dereferences nil; the sort is the stable one
   Loops are handled by one invariant lemma each (toSlice_loop, slice_loop, inner_loop / outer_loop = the
   collecting pass [collect], key_loop). *)
From Eino Require Import Base.Util Model.ConcatTable Model.Concat Model.ConcatGenLib Model.ConcatCodeRef
  Proofs.Concat Proofs.ConcatRechunk.

(* ---------------------------------------------------------------- generic loops *)

(* a loop that appends the elements satisfying p *)
Lemma cfold_filter {R} (p : cval -> bool) : forall (l acc : list cval),
  cfold (R := R) (fun acc x => cbind (if p x then (let acc := acc ++ [x] in Next acc) else Next acc) (fun acc => Next acc)) l acc
  = Next (acc ++ filter p l).
Proof.
  induction l as [|x l IH]; intros acc; cbn.
  - now rewrite app_nil_r.
  - destruct (p x); cbn; rewrite IH; [rewrite <- app_assoc|]; reflexivity.
Qed.

Lemma cfold_filter_idx {R} (p : cval -> bool) : forall (l acc : list cval) n,
  cfold (R := R) (fun acc '(i, x) => let item := x in
       cbind (if p item then (let acc := acc ++ [item] in Next acc) else Next acc) (fun acc => Next acc))
     (combine (seq n (List.length l)) l) acc
  = Next (acc ++ filter p l).
Proof.
  induction l as [|x l IH]; intros acc n; cbn.
  - now rewrite app_nil_r.
  - destruct (p x); cbn; rewrite IH; [rewrite <- app_assoc|]; reflexivity.
Qed.

(* ---------------------------------------------------------------- toSliceValue *)

Definition spec_toSliceValue (vs : list cval) : res sval :=
  match vs with
  | [] => Panic
  | v0 :: rest =>
      match dyn_ty v0 with
      | None => Panic
      | Some t => if same_types t rest then Ok (t, vs) else Err E_TYPE
      end
  end.

Lemma list_set_mid {A} (pre : list A) z r x : list_set (pre ++ z :: r) (List.length pre) x = Some (pre ++ x :: r).
Proof. induction pre as [|a pre IH]; cbn; [reflexivity|]. now rewrite IH. Qed.

Lemma oty_eqb_refl t : oty_eqb (Some t) (Some t) = true.
Proof. cbn. apply cty_eqb_refl. Qed.

Lemma r_set_index_mid t pre z r x : dyn_ty x = Some t ->
  r_set_index (t, pre ++ z :: r) (List.length pre) x = Ok (t, pre ++ x :: r).
Proof. intros E. unfold r_set_index. cbn [fst snd]. now rewrite E, oty_eqb_refl, list_set_mid. Qed.

Lemma toSlice_loop t z : forall rest pre,
  cfold (R := sval) (fun ret '(i, vs_i) =>
        let v := vs_i in
        let vt := (dyn_ty v) in
        if (negb (oty_eqb (Some t) vt)) then (Return (Err E_TYPE))
        else cdo (r_set_index ret i v) (fun ret =>
        Next ret))
     (combine (seq (List.length pre) (List.length rest)) rest) (t, pre ++ repeat z (List.length rest))
  = if same_types t rest then Next (t, pre ++ rest) else Return (Err E_TYPE).
Proof.
  induction rest as [|x rest IH]; intros pre; cbn [List.length seq combine cfold repeat same_types forallb].
  - reflexivity.
  - cbv zeta. destruct (dyn_ty x) as [t'|] eqn:Ex; cbn [oty_eqb].
    + destruct (cty_eqb t t') eqn:Et; cbn [negb andb cbind].
      * apply cty_eqb_eq in Et. subst t'.
        rewrite r_set_index_mid by exact Ex. cbn [cdo cbind].
        specialize (IH (pre ++ [x])). rewrite app_length in IH. cbn [List.length] in IH.
        rewrite Nat.add_1_r in IH. rewrite <- !app_assoc in IH. cbn [app] in IH. exact IH.
      * reflexivity.
    + reflexivity.
Qed.

Lemma ref_toSliceValue vs : gen_toSliceValue vs = spec_toSliceValue vs.
Proof.
  unfold gen_toSliceValue, spec_toSliceValue. destruct vs as [|v0 rest]; [reflexivity|].
  cbn [r_nth nth_error cdo]. cbv zeta. destruct (dyn_ty v0) as [t|] eqn:E0; cbn [r_make_slice cdo]; [|reflexivity].
  cbn [List.length repeat].
  pose proof (r_set_index_mid t [] (zero_of t) (repeat (zero_of t) (List.length rest)) v0 E0) as H0.
  cbn [app List.length] in H0. rewrite H0. cbn [cdo].
  unfold enumerate. cbn [List.length seq combine skipn].
  pose proof (toSlice_loop t (zero_of t) rest [v0]) as H. cbn [List.length app] in H. rewrite H.
  destruct (same_types t rest); reflexivity.
Qed.

(* ---------------------------------------------------------------- concatSliceValue *)

Section User.
Context {U : UserFn}.

Definition nz (v : cval) : bool := negb (is_zero v).

Lemma slice_loop : forall (l : list cval) n (filtered : option cval),
  cfold (R := option cval) (fun filtered '(i, val_i) =>
        let oneVal := val_i in
        cbind (if (negb (is_zero oneVal)) then (if (is_some filtered) then (Return (Err E_MULTI))
          else let filtered := (Some oneVal) in
          Next filtered)
          else (Next filtered)) (fun filtered =>
        Next filtered))
     (combine (seq n (List.length l)) l) filtered
  = match filtered, filter nz l with
    | _, [] => Next filtered
    | None, [v] => Next (Some v)
    | _, _ => Return (Err E_MULTI)
    end.
Proof.
  induction l as [|x l IH]; intros n filtered; cbn [List.length seq combine cfold filter].
  - destruct filtered; reflexivity.
  - cbv zeta. assert (Enz : nz x = negb (is_zero x)) by reflexivity. rewrite Enz.
    destruct (is_zero x); cbn [negb cbind].
    + rewrite IH. destruct filtered; reflexivity.
    + destruct filtered as [w|]; cbn [is_some cbind]; [reflexivity|].
      rewrite IH. destruct (filter nz l); reflexivity.
Qed.

Definition not_map_ty (t : cty) : Prop := match t with TMap _ => False | _ => True end.

Lemma res_map_map {A B C} (g : B -> C) (h : A -> B) (r : res A) : res_map g (res_map h r) = res_map (fun a => g (h a)) r.
Proof. destruct r; reflexivity. Qed.

Lemma ref_concatSliceValue f t vs : not_map_ty t ->
  gen_concatSliceValue (t, vs) = res_map Some (concat_typed f t vs).
Proof.
  intros Hnm. unfold gen_concatSliceValue. cbv zeta. unfold sv_elem, sv_len, sv_list, r_index. cbn [fst snd].
  assert (Hct : concat_typed f t vs =
     match vs with
     | [v] => Ok v
     | _ => match registered t with
            | Some FConcatStrings => Ok (CStr (concat_strings (strs vs)))
            | Some FUseLast => Ok (last vs CNil)
            | Some FUseFirst => Ok (hd CNil vs)
            | None => match user_registered t with
                      | Some (tag, g) => res_map (COther tag) (g (payloads vs))
                      | None => single_nonzero (zero_of t) vs
                      end
            end
     end).
  { destruct t; try reflexivity. destruct Hnm. }
  rewrite Hct. clear Hct.
  destruct vs as [|v [|v' vs']]; [| reflexivity |].
  - (* empty slice *)
    cbn [List.length Nat.eqb]. unfold get_concat_func.
    destruct (registered t) as [[]|]; cbn [is_some r_call res_map snd]; try reflexivity.
    destruct (user_registered t) as [[tag g]|]; cbn [is_some r_call res_map snd].
    + now rewrite res_map_map.
    + reflexivity.
  - cbn [List.length Nat.eqb]. unfold get_concat_func.
    destruct (registered t) as [[]|]; cbn [is_some r_call res_map snd]; try reflexivity.
    destruct (user_registered t) as [[tag g]|]; cbn [is_some r_call res_map snd].
    + now rewrite res_map_map.
    + unfold enumerate. cbn [skipn]. rewrite slice_loop. unfold single_nonzero. fold nz.
      destruct (filter nz (v :: v' :: vs')) as [|a [|b r]]; reflexivity.
Qed.

End User.

(* ---------------------------------------------------------------- concatMaps: collecting the values per key *)

Definition getd (k : string) (r : list (string * list cval)) : list cval :=
  match alist_get k r with Some l => l | None => [] end.

Definition collect_step (a : list (string * cval)) (rms : list (string * list cval)) (k : string) :=
  match alist_get k a with
  | Some x => alist_put k (getd k rms ++ [x]) rms
  | None => rms
  end.

Lemma alist_get_put_same {A} k (a : A) r : alist_get k (alist_put k a r) = Some a.
Proof.
  induction r as [|[k' a'] r IH]; cbn; [now rewrite String.eqb_refl|].
  destruct (String.eqb k k') eqn:E; cbn; [now rewrite String.eqb_refl|]. rewrite E. exact IH.
Qed.

Lemma alist_get_put_other {A} k k' (a : A) r : k <> k' -> alist_get k (alist_put k' a r) = alist_get k r.
Proof.
  intros Hne. induction r as [|[k2 a2] r IH]; cbn.
  - destruct (String.eqb k k') eqn:E; [apply String.eqb_eq in E; contradiction|reflexivity].
  - destruct (String.eqb k' k2) eqn:E2; cbn.
    + apply String.eqb_eq in E2. subst k2.
      destruct (String.eqb k k') eqn:E; [apply String.eqb_eq in E; contradiction|reflexivity].
    + destruct (String.eqb k k2); [reflexivity|exact IH].
Qed.

Lemma map_fst_put {A} k (a : A) r : map fst (alist_put k a r) = add_key k (map fst r).
Proof.
  induction r as [|[k' a'] r IH]; cbn; [reflexivity|].
  destruct (String.eqb k k') eqn:E; cbn; [apply String.eqb_eq in E; now subst|]. now rewrite IH.
Qed.

Lemma alist_get_In {A} k (r : list (string * A)) : In k (map fst r) -> exists a, alist_get k r = Some a.
Proof.
  induction r as [|[k' a'] r IH]; cbn; [intros []|].
  intros [->|H]; [rewrite String.eqb_refl; eauto|].
  destruct (String.eqb k k'); eauto.
Qed.

Lemma alist_get_Some_In {A} k (r : list (string * A)) a : alist_get k r = Some a -> In k (map fst r).
Proof.
  induction r as [|[k' a'] r IH]; cbn; [discriminate|].
  destruct (String.eqb k k') eqn:E; [apply String.eqb_eq in E; subst; auto|auto].
Qed.

(* keys_once: every key of the rendering, once *)
Lemma keys_once_spec {A} (a : list (string * A)) :
  NoDup (keys_once a) /\ forall k, In k (keys_once a) <-> In k (map fst a).
Proof.
  unfold keys_once.
  assert (G : forall (a : list (string * A)) ks, NoDup ks ->
     NoDup (fold_left (fun ks kv => add_key (fst kv) ks) a ks) /\
     forall k, In k (fold_left (fun ks kv => add_key (fst kv) ks) a ks) <-> In k ks \/ In k (map fst a)).
  { clear a. induction a as [|kv a IH]; intros ks Hnd; cbn.
    - split; [exact Hnd|]. intuition.
    - destruct (IH (add_key (fst kv) ks) (add_key_NoDup _ _ Hnd)) as [H1 H2]. split; [exact H1|].
      intros k. rewrite H2, add_key_In. intuition. }
  destruct (G a [] (NoDup_nil _)) as [H1 H2]. split; [exact H1|]. intros k. rewrite H2. cbn. intuition.
Qed.

(* the keys the collecting pass adds, for one map *)
Lemma collect_keys a : forall ks rms, (forall k, In k ks -> In k (map fst a)) ->
  map fst (fold_left (collect_step a) ks rms) = fold_left (fun acc k => add_key k acc) ks (map fst rms).
Proof.
  induction ks as [|k ks IH]; intros rms Hin; cbn; [reflexivity|].
  rewrite IH by (intros; apply Hin; now right).
  f_equal. unfold collect_step. destruct (alist_get_In k a (Hin k (or_introl eq_refl))) as [x ->].
  apply map_fst_put.
Qed.

Lemma collect_getd a k : forall ks rms, NoDup ks ->
  getd k (fold_left (collect_step a) ks rms) =
  getd k rms ++ (if in_dec string_dec k ks then match alist_get k a with Some x => [x] | None => [] end else []).
Proof.
  induction ks as [|k' ks IH]; intros rms Hnd; cbn [fold_left].
  - cbn. now rewrite app_nil_r.
  - inversion Hnd as [|? ? Hnotin Hnd']; subst. rewrite IH by exact Hnd'.
    unfold collect_step at 1. destruct (string_dec k k') as [->|Hne].
    + destruct (in_dec string_dec k' (k' :: ks)) as [_|n]; [|exfalso; apply n; now left].
      destruct (in_dec string_dec k' ks) as [i|_]; [contradiction|]. rewrite app_nil_r.
      destruct (alist_get k' a) as [x|]; [|now rewrite app_nil_r].
      unfold getd at 1. now rewrite alist_get_put_same.
    + assert (Hg : getd k (match alist_get k' a with Some x => alist_put k' (getd k' rms ++ [x]) rms | None => rms end) = getd k rms).
      { destruct (alist_get k' a); [|reflexivity]. unfold getd at 1 3. now rewrite alist_get_put_other by exact Hne. }
      rewrite Hg. f_equal.
      destruct (in_dec string_dec k (k' :: ks)) as [[e|i]|n]; destruct (in_dec string_dec k ks) as [i'|n']; try reflexivity.
      * congruence.
      * contradiction.
      * exfalso. apply n. now right.
Qed.

(* folding add_key over the de-duplicated key list is folding it over the keys *)
Lemma fold_add_key_In xs : forall ks k,
  In k (fold_left (fun acc k => add_key k acc) xs ks) <-> In k ks \/ In k xs.
Proof.
  induction xs as [|x xs IH]; intros ks k; cbn; [intuition|].
  rewrite IH, add_key_In. intuition.
Qed.

Lemma add_key_in k ks : In k ks -> add_key k ks = ks.
Proof.
  induction ks as [|a ks IH]; cbn; [intros []|].
  destruct (String.eqb k a) eqn:E; [reflexivity|].
  intros [->|H]; [rewrite String.eqb_refl in E; discriminate|]. now rewrite IH.
Qed.

Lemma fold_add_key_snoc xs x ks :
  fold_left (fun acc k => add_key k acc) (xs ++ [x]) ks = add_key x (fold_left (fun acc k => add_key k acc) xs ks).
Proof. now rewrite fold_left_app. Qed.

Lemma fold_add_key_once xs : forall ks,
  fold_left (fun acc k => add_key k acc) (fold_left (fun acc k => add_key k acc) xs []) ks
  = fold_left (fun acc k => add_key k acc) xs ks.
Proof.
  induction xs as [|x xs IH] using rev_ind; intros ks; [reflexivity|].
  rewrite !fold_add_key_snoc.
  destruct (in_dec string_dec x (fold_left (fun acc k => add_key k acc) xs [])) as [i|n].
  - rewrite add_key_in by exact i. rewrite IH. symmetry. apply add_key_in.
    apply fold_add_key_In. apply fold_add_key_In in i. destruct i as [[]|i]. now right.
  - rewrite add_key_notin by exact n. rewrite fold_add_key_snoc, IH. reflexivity.
Qed.

Lemma fold_add_key_pairs {A} (a : list (string * A)) : forall ks,
  fold_left (fun ks kv => add_key (fst kv) ks) a ks = fold_left (fun acc k => add_key k acc) (map fst a) ks.
Proof. induction a as [|kv a IH]; intros ks; cbn; [reflexivity|apply IH]. Qed.

Definition collect (l : list (list (string * cval))) (rms : list (string * list cval)) :=
  fold_left (fun rms a => fold_left (collect_step a) (keys_once a) rms) l rms.

Lemma collect_spec : forall l rms,
  map fst (collect l rms) = fold_left (fun ks m => add_keys m ks) l (map fst rms) /\
  forall k, getd k (collect l rms) = getd k rms ++ vals_at k l.
Proof.
  induction l as [|a l IH]; intros rms; cbn [collect fold_left].
  - split; [reflexivity|]. intros k. cbn. now rewrite app_nil_r.
  - destruct (keys_once_spec a) as [Hnd Hin].
    fold (collect l (fold_left (collect_step a) (keys_once a) rms)).
    destruct (IH (fold_left (collect_step a) (keys_once a) rms)) as [H1 H2]. split.
    + rewrite H1. f_equal. rewrite collect_keys by (intros k Hk; now apply Hin).
      unfold keys_once, add_keys. rewrite !fold_add_key_pairs. apply fold_add_key_once.
    + intros k. rewrite H2, collect_getd by exact Hnd. rewrite <- app_assoc. f_equal.
      unfold vals_at. cbn [flat_map]. f_equal.
      destruct (in_dec string_dec k (keys_once a)) as [i|n]; [reflexivity|].
      rewrite alist_get_None; [reflexivity|]. intros Hk. apply n. now apply Hin.
Qed.

(* ---------------------------------------------------------------- concatMaps: the two loops *)

Lemma inner_loop mt a : forall ks rms, (forall k, In k ks -> In k (map fst a)) ->
  cfold (R := option cval) (fun rms key =>
            let vals := (alist_get key rms) in
            cbind (if (negb (is_some vals)) then (let s := (@nil cval) in
              let vals := (Some s) in
              Next vals)
              else (Next vals)) (fun vals =>
            cdo (r_map_index (CMap mt a) key) (fun val =>
            cdo (r_append vals val) (fun vals =>
            let rms := (r_set_anys rms key vals) in
            Next rms))))
          ks rms = Next (fold_left (collect_step a) ks rms).
Proof.
  induction ks as [|k ks IH]; intros rms Hin; cbn [cfold fold_left]; [reflexivity|].
  cbv zeta. destruct (alist_get_In k a (Hin k (or_introl eq_refl))) as [x Hx].
  assert (Hstep : collect_step a rms k = alist_put k (getd k rms ++ [x]) rms) by (unfold collect_step; now rewrite Hx).
  rewrite Hstep. unfold getd. cbn [r_map_index]. rewrite Hx.
  destruct (alist_get k rms) as [l|]; cbn [is_some negb cbind cdo r_append r_set_anys];
    apply IH; intros; apply Hin; now right.
Qed.

Lemma outer_loop mt : forall l n rms,
  cfold (R := option cval) (fun rms '(i, ms_i) =>
        let m := ms_i in
        cdo (r_map_keys m) (fun ks_2 =>
cbind (cfold (fun rms key =>
            let vals := (alist_get key rms) in
            cbind (if (negb (is_some vals)) then (let s := (@nil cval) in
              let vals := (Some s) in
              Next vals)
              else (Next vals)) (fun vals =>
            cdo (r_map_index m key) (fun val =>
            cdo (r_append vals val) (fun vals =>
            let rms := (r_set_anys rms key vals) in
            Next rms))))
          ks_2 rms) (fun rms =>
        Next rms)))
      (combine (seq n (List.length l)) (map (CMap mt) l)) rms = Next (collect l rms).
Proof.
  induction l as [|a l IH]; intros n rms; cbn [List.length seq map combine cfold]; [reflexivity|].
  cbv zeta. cbn [r_map_keys cdo].
  pose proof (inner_loop mt a (keys_once a) rms) as Hi. cbv zeta in Hi. rewrite Hi.
  - cbn [cbind]. apply IH.
  - intros k Hk. now apply (proj2 (keys_once_spec a)).
Qed.

Lemma nonnil_loop : forall (l acc : list cval),
  cfold (R := option cval) (fun nonNilVals anyVal =>
            cbind (if (negb (is_nil anyVal)) then (let nonNilVals := (nonNilVals ++ [anyVal]) in
              Next nonNilVals)
              else (Next nonNilVals)) (fun nonNilVals =>
            Next nonNilVals)) l acc
  = Next (acc ++ filter (fun v => negb (is_nil v)) l).
Proof.
  induction l as [|x l IH]; intros acc; cbn [cfold filter].
  - now rewrite app_nil_r.
  - cbv zeta. destruct (is_nil x); cbn [negb cbind]; rewrite IH; [|rewrite <- app_assoc]; reflexivity.
Qed.

Lemma alist_put_fresh {A} k (a : A) r : ~ In k (map fst r) -> alist_put k a r = r ++ [(k, a)].
Proof.
  induction r as [|[k' a'] r IH]; cbn; intros H; [reflexivity|].
  destruct (String.eqb k k') eqn:E.
  - apply String.eqb_eq in E. subst. exfalso. apply H. now left.
  - rewrite IH; [reflexivity|]. intros Hin. apply H. now right.
Qed.

Section User2.
Context {U : UserFn}.

Definition wrap (mt : N) (r : list (string * cval)) : option cval := Some (CMap mt r).

Definition self_is (self : sval -> res (option cval)) (f : list (list (string * cval)) -> res (list (string * cval))) : Prop :=
  forall mt ms, self (TMap mt, map (CMap mt) ms) = res_map (wrap mt) (f ms).

(* the code between toSliceValue and SetMapIndex: one key's non-nil values *)
Lemma key_dispatch self f (Hs : self_is self f) v0 rest :
  match spec_toSliceValue (v0 :: rest) with
  | Ok v => if rkind_eqb (ty_kind (sv_elem v)) KdMap then self v else gen_concatSliceValue v
  | Err e => Err e
  | Panic => Panic
  end
  = res_map Some (match dyn_ty v0 with
                  | None => Panic
                  | Some t => if same_types t rest then concat_typed f t (v0 :: rest) else Err E_TYPE
                  end).
Proof.
  unfold spec_toSliceValue. destruct (dyn_ty v0) as [t|] eqn:E0; [|reflexivity].
  destruct (same_types t rest) eqn:Est; [|reflexivity].
  unfold sv_elem. cbn [fst]. destruct t as [| k | tag | mt'];
    try (cbn [ty_kind rkind_eqb]; apply ref_concatSliceValue; exact I).
  cbn [ty_kind rkind_eqb concat_typed].
  assert (Hall : same_types (TMap mt') (v0 :: rest) = true) by (rewrite same_types_cons by exact E0; exact Est).
  rewrite <- (maps_of_all_maps mt' (v0 :: rest) Hall) at 1. rewrite Hs.
  destruct (f (maps (v0 :: rest))); reflexivity.
Qed.

Lemma key_loop self f (Hs : self_is self f) mt typ l (R : list (string * list cval)) : forall ks acc,
  NoDup ks -> (forall k, In k ks -> ~ In k (map fst acc)) ->
  (forall k, In k ks -> alist_get k R = Some (vals_at k l)) ->
  cfold (R := option cval) (fun ret key =>
        let vals := (alist_get key R) in
        cdo (r_anys vals) (fun anyVals =>
        let nonNilVals := (@nil cval) in
        cbind (cfold (fun nonNilVals anyVal =>
            cbind (if (negb (is_nil anyVal)) then (let nonNilVals := (nonNilVals ++ [anyVal]) in
              Next nonNilVals)
              else (Next nonNilVals)) (fun nonNilVals =>
            Next nonNilVals))
          anyVals nonNilVals) (fun nonNilVals =>
        if (Nat.eqb (List.length nonNilVals) 0) then (cdo (r_set_map ret key (Some (r_zero_elem typ))) (fun ret =>
          Next ret))
        else cdo (gen_toSliceValue nonNilVals) (fun v =>
        let cv := (@None cval) in
        cdo (if (rkind_eqb (ty_kind (sv_elem v)) KdMap) then (self v) else (gen_concatSliceValue v)) (fun cv =>
        cdo (r_set_map ret key cv) (fun ret =>
        Next ret))))))
      ks (CMap mt acc)
  = match res_mapM (fun k => res_map (fun v => (k, v)) (concat_key f (vals_at k l))) ks with
    | Ok kvs => Next (CMap mt (acc ++ kvs))
    | Err e => Return (Err e)
    | Panic => Return Panic
    end.
Proof.
  induction ks as [|k ks IH]; intros acc Hnd Hfresh HR; cbn [cfold res_mapM].
  - now rewrite app_nil_r.
  - inversion Hnd as [|? ? Hk Hnd']; subst.
    cbv zeta. rewrite (HR k (or_introl eq_refl)). cbn [r_anys cdo].
    pose proof (nonnil_loop (vals_at k l) []) as Hn. cbv zeta in Hn. rewrite Hn. clear Hn. cbn [app cbind].
    unfold concat_key.
    assert (Hnext : forall v, 
       cbind (Next (R := option cval) (CMap mt (alist_put k v acc)))
         (cfold (fun ret key =>
        let vals := (alist_get key R) in
        cdo (r_anys vals) (fun anyVals =>
        let nonNilVals := (@nil cval) in
        cbind (cfold (fun nonNilVals anyVal =>
            cbind (if (negb (is_nil anyVal)) then (let nonNilVals := (nonNilVals ++ [anyVal]) in
              Next nonNilVals)
              else (Next nonNilVals)) (fun nonNilVals =>
            Next nonNilVals))
          anyVals nonNilVals) (fun nonNilVals =>
        if (Nat.eqb (List.length nonNilVals) 0) then (cdo (r_set_map ret key (Some (r_zero_elem typ))) (fun ret =>
          Next ret))
        else cdo (gen_toSliceValue nonNilVals) (fun v =>
        let cv := (@None cval) in
        cdo (if (rkind_eqb (ty_kind (sv_elem v)) KdMap) then (self v) else (gen_concatSliceValue v)) (fun cv =>
        cdo (r_set_map ret key cv) (fun ret =>
        Next ret)))))) ks)
       = match res_mapM (fun k => res_map (fun v => (k, v)) (concat_key f (vals_at k l))) ks with
         | Ok kvs => Next (CMap mt (acc ++ (k, v) :: kvs))
         | Err e => Return (Err e)
         | Panic => Return Panic
         end).
    { intros v. cbn [cbind]. rewrite alist_put_fresh by (apply Hfresh; now left).
      pose proof (IH (acc ++ [(k, v)]) Hnd') as IH'. cbv zeta in IH'. cbv zeta. rewrite IH'.
      - destruct (res_mapM _ ks); try reflexivity. now rewrite <- app_assoc.
      - intros k' Hk'. rewrite map_app, in_app_iff. cbn. intros [H|[->|[]]]; [|contradiction].
        revert H. apply Hfresh. now right.
      - intros k' Hk'. apply HR. now right. }
    cbv zeta in Hnext.
    destruct (filter (fun v => negb (is_nil v)) (vals_at k l)) as [|v0 rest] eqn:Ef.
    + cbn [List.length Nat.eqb r_set_map cdo res_map]. unfold r_zero_elem.
      rewrite Hnext. destruct (res_mapM _ ks); reflexivity.
    + cbn [List.length Nat.eqb]. rewrite ref_toSliceValue.
      pose proof (key_dispatch self f Hs v0 rest) as Hd.
      destruct (spec_toSliceValue (v0 :: rest)) as [v|e|]; cbn [cdo].
      * rewrite Hd. clear Hd.
        destruct (match dyn_ty v0 with
                  | Some t => if same_types t rest then concat_typed f t (v0 :: rest) else Err E_TYPE
                  | None => Panic end) as [c|e|]; cbn [res_map cdo r_set_map]; try reflexivity.
        rewrite Hnext. destruct (res_mapM _ ks); reflexivity.
      * destruct (match dyn_ty v0 with
                  | Some t => if same_types t rest then concat_typed f t (v0 :: rest) else Err E_TYPE
                  | None => Panic end) as [c|e'|]; cbn [res_map] in Hd; try discriminate.
        injection Hd as <-. reflexivity.
      * destruct (match dyn_ty v0 with
                  | Some t => if same_types t rest then concat_typed f t (v0 :: rest) else Err E_TYPE
                  | None => Panic end) as [c|e'|]; cbn [res_map] in Hd; try discriminate. reflexivity.
Qed.

End User2.

Section User3.
Context {U : UserFn}.

Theorem ref_concatMaps self f (Hs : self_is self f) mt l :
  gen_concatMaps self (TMap mt, map (CMap mt) l) = res_map (wrap mt) (concat_maps_step f l).
Proof.
  unfold gen_concatMaps. cbv zeta. change (sv_elem (TMap mt, map (CMap mt) l)) with (TMap mt).
  unfold sv_len, sv_list, enumerate. cbn [fst snd r_make_map cdo skipn].
  rewrite map_length.
  pose proof (outer_loop mt l 0 []) as Ho. cbv zeta in Ho. rewrite Ho. clear Ho. cbn [cbind].
  destruct (collect_spec l []) as [Hk Hg]. cbn [map] in Hk. fold (keys_of l) in Hk. rewrite <- keys_of_fold in Hk.
  pose proof (key_loop self f Hs mt (TMap mt) l (collect l []) (map fst (collect l [])) []) as Hl.
  cbv zeta in Hl. rewrite Hl; clear Hl.
  - rewrite Hk. unfold concat_maps_step. cbn [app].
    destruct (res_mapM _ (keys_of l)); reflexivity.
  - rewrite Hk. apply keys_of_NoDup.
  - intros k _ [].
  - intros k Hin. destruct (alist_get_In k _ Hin) as [x Hx]. rewrite Hx. f_equal.
    specialize (Hg k). unfold getd in Hg. rewrite Hx in Hg. cbn in Hg. exact Hg.
Qed.

(* tying the recursive knot as the model does *)
Fixpoint gen_maps_fuel (fuel : nat) (ms : sval) : res (option cval) :=
  match fuel with
  | O => Err 0%N
  | S n => gen_concatMaps (gen_maps_fuel n) ms
  end.

Theorem ref_concat_maps fuel : forall mt l,
  gen_maps_fuel fuel (TMap mt, map (CMap mt) l) = res_map (wrap mt) (concat_maps fuel l).
Proof.
  induction fuel as [|n IH]; intros mt l; [reflexivity|].
  cbn [gen_maps_fuel concat_maps]. apply ref_concatMaps. exact IH.
Qed.

(* concatInterfaces = one key of concatMaps on the chunks themselves *)
Theorem ref_concatInterfaces cm f (Hs : self_is cm f) t vs :
  gen_concatInterfaces cm (t, vs) =
  match filter (fun v => negb (is_nil v)) vs with
  | [] => Ok None
  | _ => res_map Some (concat_key f vs)
  end.
Proof.
  unfold gen_concatInterfaces. cbv zeta. unfold sv_list, enumerate. cbn [snd skipn].
  pose proof (cfold_filter_idx (R := option cval) (fun v => negb (is_nil v)) vs [] 0) as Hf.
  cbv zeta beta in Hf. rewrite Hf. clear Hf. cbn [app cbind]. unfold concat_key.
  destruct (filter (fun v => negb (is_nil v)) vs) as [|v0 rest]; [reflexivity|].
  cbn [List.length Nat.eqb]. rewrite ref_toSliceValue.
  pose proof (key_dispatch cm f Hs v0 rest) as Hd.
  destruct (spec_toSliceValue (v0 :: rest)) as [v|e|]; cbn [cdo crun].
  - rewrite <- Hd. destruct (rkind_eqb (ty_kind (sv_elem v)) KdMap); reflexivity.
  - now rewrite <- Hd.
  - now rewrite <- Hd.
Qed.

End User3.

(* ---------------------------------------------------------------- concatToolCalls: comparator and sort *)
From Eino Require Import Model.ConcatMsg Model.ConcatOrder.

Theorem ref_tc_less (a b : toolcall) : gen_tc_less (tc_idx a) (tc_idx b) = Some (tc_less a b).
Proof. unfold gen_tc_less, tc_less. destruct (tc_idx a), (tc_idx b); reflexivity. Qed.

Theorem ref_tc_sort_stable : gen_tc_sort_stable = true.
Proof. reflexivity. Qed.

(* with any fuel above the nesting depth of the chunks the unrolled code is concat_maps_top *)
Section User4.
Context {U : UserFn}.

Theorem ref_concat_maps_top fuel mt l : dmaps l < fuel ->
  gen_maps_fuel fuel (TMap mt, map (CMap mt) l) = res_map (wrap mt) (concat_maps_top l).
Proof.
  intros H. rewrite ref_concat_maps. f_equal. unfold concat_maps_top.
  apply fuel_indep; try lia.
  - eapply Forall_impl; [|apply bounded_top]. cbn beta. intros a Ha. lia.
  - apply bounded_top.
Qed.

End User4.

(* ---------------------------------------------------------------- the stream entry points *)
From Eino Require Import Model.ConcatStream.

Section Stream.
Variable X : Type.
Variable zero : X.

(* what every stream entry point does with the chunks it read *)
Definition entry_of (ci : list X -> res X) (vs : list X) : res X :=
  match vs with
  | [] => Err E_EMPTY
  | [v] => Ok v
  | _ => ci vs
  end.

Lemma c_loop_S {St R} n (body : St -> ctl (St + St) R) s :
  c_loop (S n) body s = match body s with Next (inl s') => c_loop n body s' | Next (inr s') => Next s' | Return r => Return r end.
Proof. reflexivity. Qed.

Lemma drain_loop : forall (s : list (sitem X)) (items : list X),
  c_loop (R := X) (S (List.length s)) (fun '(sr, items) =>
        let '(chunk, err, sr) := (r_recv zero sr) in
        if (negb (rerr_is_nil err)) then (if (rerr_is_eof err) then (Next (inr (sr, items)))
          else let t := zero in
          Return (r_ret t err))
        else let items := (items ++ [chunk]) in
        Next (inl (sr, items)))
      (s, items)
  = match drain s with
    | Some r => Next ([], items ++ r)
    | None => Return (Err E_READ)
    end.
Proof.
  induction s as [|[a|] s IH]; intros items.
  - cbn. now rewrite app_nil_r.
  - change (List.length (SVal a :: s)) with (S (List.length s)). rewrite c_loop_S.
    cbn [r_recv rerr_is_nil negb drain]. cbv zeta in *. rewrite IH.
    destruct (drain s); [rewrite <- app_assoc|]; reflexivity.
  - reflexivity.
Qed.

Theorem ref_concatStreamReader ci (s : list (sitem X)) :
  gen_concatStreamReader X zero ci s = stream_entry (entry_of ci) s.
Proof.
  unfold gen_concatStreamReader, stream_entry. cbv zeta.
  pose proof (drain_loop s []) as H. cbv zeta in H. rewrite H. clear H.
  destruct (drain s) as [[|v [|w r]]|]; try reflexivity.
  cbn. destruct (ci (v :: w :: r)); reflexivity.
Qed.

Lemma drain_loop_msg : forall (s : list (sitem X)) (msgs : list X),
  c_loop (R := X) (S (List.length s)) (fun '(s, msgs) =>
        let '(msg, err, s) := (r_recv zero s) in
        if (negb (rerr_is_nil err)) then (if (rerr_is_eof err) then (Next (inr (s, msgs)))
          else Return (r_ret zero err))
        else let msgs := (msgs ++ [msg]) in
        Next (inl (s, msgs)))
      (s, msgs)
  = match drain s with
    | Some r => Next ([], msgs ++ r)
    | None => Return (Err E_READ)
    end.
Proof.
  induction s as [|[a|] s IH]; intros msgs.
  - cbn. now rewrite app_nil_r.
  - change (List.length (SVal a :: s)) with (S (List.length s)). rewrite c_loop_S.
    cbn [r_recv rerr_is_nil negb drain]. cbv zeta in *. rewrite IH.
    destruct (drain s); [rewrite <- app_assoc|]; reflexivity.
  - reflexivity.
Qed.

Theorem ref_ConcatMessageStream ci (s : list (sitem X)) :
  gen_ConcatMessageStream X zero ci s = stream_entry (entry_of ci) s.
Proof.
  unfold gen_ConcatMessageStream, stream_entry. cbv zeta.
  pose proof (drain_loop_msg s []) as H. cbv zeta in H. rewrite H. clear H.
  destruct (drain s) as [[|v [|w r]]|]; reflexivity.
Qed.

End Stream.
