(* Proofs/C04KeyedPass.v — property C04 (round 6): the graph with keyed passthrough nodes is inside the
   hypotheses of [harness_graphs_agree] (sprog_wf, dom_ok), succeeds, and its Transform run on the caller's
   chunks concatenates to what Invoke returns on their concatenation. *)
From Eino Require Import Base.Util Model.Paradigm Model.StreamOps Model.ParadigmProg Model.ParadigmSpec
  Model.C04KeyedPass.
From Coq Require Import List String NArith.
Import ListNotations.
Local Open Scope string_scope.

Lemma keyed_pass_input_is_concat :
  vsconcat (map Val keyed_pass_chunks) = Ok keyed_pass_input.
Proof. vm_compute. reflexivity. Qed.

Lemma keyed_pass_prog_in_domain :
  sprog_wf keyed_pass_prog = true
  /\ dom_ok (compile_sprog keyed_pass_prog) keyed_pass_input = true
  /\ g_invoke (compile_sprog keyed_pass_prog) keyed_pass_input = Ok (VS "n5{af=n2<hello;ag=hello>;}")
  /\ vsconcatR (g_transform seq_mrg (compile_sprog keyed_pass_prog) (map Val keyed_pass_chunks))
     = g_invoke (compile_sprog keyed_pass_prog) keyed_pass_input
  /\ g_collect seq_mrg (compile_sprog keyed_pass_prog) (map Val keyed_pass_chunks)
     = g_invoke (compile_sprog keyed_pass_prog) keyed_pass_input.
Proof. vm_compute. repeat split. Qed.
