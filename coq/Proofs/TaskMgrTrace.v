(* Proofs/TaskMgrTrace.v — the executable trace checker of Model/TaskMgr.v only accepts runs of
   the LTS: every state it passes through is reachable, hence satisfies the invariant. *)
From Eino Require Import Base.Util Model.TaskMgr Proofs.TaskMgr.

Ltac dmatch :=
  repeat match goal with
         | |- context [match ?x with _ => _ end] => destruct x eqn:?; try discriminate
         end.

Ltac beq := repeat match goal with
  | H : (_ && _)%bool = true |- _ => apply andb_prop in H; destruct H
  | H : N.eqb _ _ = true |- _ => apply N.eqb_eq in H; subst
  | H : Bool.eqb _ _ = true |- _ => apply Bool.eqb_prop in H; subst
  | H : is_nil ?x = true |- _ => destruct x eqn:?; [clear H|discriminate H]
  | H : (_ || _)%bool = false |- _ => apply orb_false_elim in H; destruct H
  end.

Lemma step_eq s s1 s2 : step s s1 -> s1 = s2 -> step s s2.
Proof. intros H <-. exact H. Qed.

Ltac req := first [reflexivity | f_equal; congruence].

Lemma exec_ev_sound s e s' : exec_ev s e = Some s' -> s' = s \/ step s s'.
Proof.
  unfold exec_ev. destruct e; dmatch; intros H; inversion H; subst; clear H; beq;
    try (left; reflexivity); right.
  - eapply step_eq; [eapply s_spawn; eassumption|req].
  - eapply step_eq; [eapply s_sync; eassumption|req].
  - eapply step_eq; [eapply s_syncret; eassumption|req].
  - eapply step_eq; [eapply s_await; eassumption|req].
  - eapply step_eq; [eapply s_exec_lock; eassumption|req].
  - eapply step_eq; [eapply s_exec_push; eassumption|req].
  - eapply step_eq; [eapply s_exec_send; eassumption|req].
  - eapply step_eq; [eapply s_coll_send; eassumption|req].
  - eapply step_eq; [eapply s_exec_full; try eassumption|req].
    + destruct (l s); [discriminate|congruence].
    + destruct (done s); [congruence|discriminate].
  - eapply step_eq; [eapply s_coll_full; try eassumption|req].
    + destruct (l s); [discriminate|congruence].
    + destruct (done s); [congruence|discriminate].
  - eapply step_eq; [eapply s_exec_unlock; [eassumption|eassumption|]|req].
    destruct s0; try discriminate; [left; split; [reflexivity|destruct (l s); [reflexivity|discriminate]]|right; reflexivity].
  - eapply step_eq; [eapply s_recv; eassumption|req].
  - eapply step_eq; [eapply s_coll_lock; eassumption|req].
  - eapply step_eq; [eapply s_coll_unlock; left; split; eassumption|req].
  - eapply step_eq; [eapply s_coll_unlock; right; eassumption|req].
Qed.

Lemma reach_exec_ev s e s' : reach s -> exec_ev s e = Some s' -> reach s'.
Proof.
  intros R H. destruct (exec_ev_sound _ _ _ H) as [->|Hs]; [exact R|eapply r_step; eassumption].
Qed.

Lemma exec_ev2_sound s p e s' p' : reach s -> exec_ev2 (s, p) e = Some (s', p') -> reach s'.
Proof.
  intros R. unfold exec_ev2. destruct p as [[t' e']|].
  - destruct e; cbv [is_coll_ev];
      try (destruct (exec_ev s _) eqn:E; intros H; inversion H; subst;
           eapply reach_exec_ev; eassumption);
      try discriminate.
    match goal with |- context [(N.eqb ?a ?b && Bool.eqb ?c ?d)%bool] => destruct (N.eqb a b && Bool.eqb c d)%bool end;
      intros H; inversion H; subst; exact R.
  - destruct e;
      try (destruct (exec_ev s _) eqn:E; intros H; inversion H; subst; eapply reach_exec_ev; eassumption).
    destruct (cp s) eqn:Ec;
      try (destruct (exec_ev s _) eqn:E; intros H; inversion H; subst; eapply reach_exec_ev; eassumption).
    destruct (done s) as [x|] eqn:Ed;
      try (destruct (exec_ev s _) eqn:E; intros H; inversion H; subst; eapply reach_exec_ev; eassumption).
    destruct (exec_ev (recv_state s x) _) eqn:E; intros H; inversion H; subst.
    eapply reach_exec_ev; [|eassumption].
    eapply r_step; [exact R|]. unfold recv_state. apply s_recv; assumption.
Qed.

Lemma run_trace2_sound tr : forall s p i s' p',
  reach s -> run_trace2 (s, p) i tr = inl (s', p') -> reach s'.
Proof.
  induction tr as [|e tr IH]; cbn [run_trace2]; intros s p i s' p' R H.
  - inversion H; subst; exact R.
  - destruct (exec_ev2 (s, p) e) as [[s1 p1]|] eqn:E; [|discriminate].
    eapply IH; [|eassumption]. eapply exec_ev2_sound; eassumption.
Qed.

Lemma run_trace_sound tr s i s' : reach s -> run_trace s i tr = inl s' -> reach s'.
Proof.
  unfold run_trace. intros R. destruct (run_trace2 (s, None) i tr) as [[s1 [p1|]]|] eqn:E; try discriminate.
  intros H; inversion H; subst. eapply run_trace2_sound; eassumption.
Qed.

(* an accepted trace is a run of the LTS that ends in a reachable, settled state; so every
   theorem about reachable states holds along recorded executions of the implementation *)
Lemma accepts_sound tr :
  accepts tr = true -> exists s, reach s /\ Inv s /\ settled s = true.
Proof.
  unfold accepts. destruct (run_trace init 0 (normalize tr)) as [s|] eqn:E; [|discriminate].
  intros H. exists s. assert (R : reach s) by (eapply run_trace_sound; [apply r_init|eassumption]).
  split; [exact R|]. split; [apply inv_reach; exact R|exact H].
Qed.
