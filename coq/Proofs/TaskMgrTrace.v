(* Proofs/TaskMgrTrace.v — the executable trace checker of Model/TaskMgr.v only accepts runs of
   the LTS: every state it passes through is reachable, hence satisfies the invariant. *)
From Eino Require Import Base.Util Model.TaskMgr Proofs.TaskMgr.

Ltac dmatch :=
  repeat match goal with
         | |- context [match ?x with _ => _ end] => destruct x eqn:?; try discriminate
         end.

Ltac beq := repeat match goal with
  | H : (_ && _)%bool = true |- _ => apply andb_prop in H; destruct H
  | H : N.eqb _ _ = true |- _ => apply N.eqb_eq in H; subst
  | H : Bool.eqb _ _ = true |- _ => apply Bool.eqb_prop in H; subst
  | H : is_nil ?x = true |- _ => destruct x eqn:?; [clear H|discriminate H]
  | H : (_ || _)%bool = false |- _ => apply orb_false_elim in H; destruct H
  end.

Lemma step_eq s s1 s2 : step s s1 -> s1 = s2 -> step s s2.
Proof. intros H <-. exact H. Qed.

Ltac req := first [reflexivity | f_equal; congruence].

Lemma exec_ev_sound s e s' : exec_ev s e = Some s' -> s' = s \/ step s s'.
Proof.
  unfold exec_ev. destruct e; dmatch; intros H; inversion H; subst; clear H; beq;
    try (left; reflexivity); right.
  - eapply step_eq; [eapply s_spawn; eassumption|req].
  - eapply step_eq; [eapply s_sync; eassumption|req].
  - eapply step_eq; [eapply s_syncret; eassumption|req].
  - eapply step_eq; [eapply s_await; eassumption|req].
  - eapply step_eq; [eapply s_exec_lock; eassumption|req].
  - eapply step_eq; [eapply s_exec_push; eassumption|req].
  - eapply step_eq; [eapply s_exec_send; eassumption|req].
  - eapply step_eq; [eapply s_coll_send; eassumption|req].
  - eapply step_eq; [eapply s_exec_full; try eassumption|req].
    + destruct (l s); [discriminate|congruence].
    + destruct (done s); [congruence|discriminate].
  - eapply step_eq; [eapply s_coll_full; try eassumption|req].
    + destruct (l s); [discriminate|congruence].
    + destruct (done s); [congruence|discriminate].
  - eapply step_eq; [eapply s_exec_unlock; [eassumption|eassumption|]|req].
    destruct s0; try discriminate; [left; split; [reflexivity|destruct (l s); [reflexivity|discriminate]]|right; reflexivity].
  - eapply step_eq; [eapply s_recv; eassumption|req].
  - eapply step_eq; [eapply s_coll_lock; eassumption|req].
  - eapply step_eq; [eapply s_coll_unlock; left; split; eassumption|req].
  - eapply step_eq; [eapply s_coll_unlock; right; eassumption|req].
Qed.
