(* Proofs/ToolsAgree.v — converses of the answer theorems (Invoke / Stream succeed ONLY when every
   call's tool succeeds) and the agreement of Invoke and Stream on failure: for tools that do not
   implement both run interfaces themselves, Invoke succeeds exactly when Stream opens and no tool
   stream carries an error item or is empty — for every two completion orders. *)
From Coq Require Import Permutation.
From Eino Require Import Base.Util Model.Tools Proofs.Tools Proofs.ToolsMore.
Local Open Scope string_scope.

Section Agree.
  Variable kind_of : string -> option tkind.
  Variable inv : string -> string -> tres.
  Variable str : string -> string -> sres.
  Variable handler : option (string -> string -> tres).

  Notation gen_task := (gen_task kind_of handler).
  Notation gen_tasks := (gen_tasks kind_of handler).
  Notation exec_invoke := (exec_invoke inv str).
  Notation exec_stream := (exec_stream inv str).
  Notation answer := (answer kind_of inv str handler).
  Notation s_answer := (s_answer kind_of inv str handler).
  Notation tools_invoke := (tools_invoke kind_of inv str handler).
  Notation tools_stream_open := (tools_stream_open kind_of inv str handler).
  Notation scan_invoke := (scan_invoke inv str).
  Notation scan_stream := (scan_stream inv str).

  Lemma recover_t_ok_inv : forall i r o, recover_t i r = TOk o -> r = TOk o.
  Proof. intros i r o H. destruct i, r; simpl in H; congruence. Qed.

  Lemma recover_s_ok_inv : forall i r cs tl, recover_s i r = SOk cs tl -> r = SOk cs tl.
  Proof. intros i r cs tl H. destruct i, r; simpl in H; congruence. Qed.

  Lemma scan_invoke_ok_inv : forall tasks i msgs,
    scan_invoke i tasks = Ok msgs ->
    exists outs, Forall2 (fun t o => exec_invoke t = TOk o) tasks outs
                 /\ msgs = combine outs (map (fun t => c_id (task_call t)) tasks).
  Proof.
    induction tasks as [|t tasks IH]; intros i msgs H; simpl in H.
    - inversion H; subst. exists []. split; [constructor|reflexivity].
    - destruct (recover_t i (exec_invoke t)) as [o|e|] eqn:E; try discriminate.
      destruct (scan_invoke (S i) tasks) as [rest|e|] eqn:Er; simpl in H; try discriminate.
      inversion H; subst. destruct (IH _ _ Er) as [outs [A B]].
      exists (o :: outs). split.
      + constructor; auto. eapply recover_t_ok_inv; eauto.
      + simpl. rewrite B. reflexivity.
  Qed.

  Lemma scan_stream_ok_inv : forall tasks i ss,
    scan_stream i tasks = Ok ss ->
    exists sts, Forall2 (fun t s => exec_stream t = SOk (fst s) (snd s)) tasks sts
                /\ ss = map (fun p => (c_id (task_call (fst p)), fst (snd p), snd (snd p))) (combine tasks sts).
  Proof.
    induction tasks as [|t tasks IH]; intros i ss H; simpl in H.
    - inversion H; subst. exists []. split; [constructor|reflexivity].
    - destruct (recover_s i (exec_stream t)) as [cs tl|e|] eqn:E; try discriminate.
      destruct (scan_stream (S i) tasks) as [rest|e|] eqn:Er; simpl in H; try discriminate.
      inversion H; subst. destruct (IH _ _ Er) as [sts [A B]].
      exists ((cs, tl) :: sts). split.
      + constructor; auto. simpl. eapply recover_s_ok_inv; eauto.
      + simpl. rewrite B. reflexivity.
  Qed.

  Lemma gen_tasks_ok_inv : forall calls tasks,
    gen_tasks true calls = Ok tasks ->
    calls <> [] /\ Forall2 (fun c t => gen_task c = Ok t) calls tasks.
  Proof.
    intros calls tasks H. unfold Tools.gen_tasks in H. simpl in H.
    destruct calls as [|c calls]; [discriminate|]. split; [discriminate|].
    apply mapM_forall2. exact H.
  Qed.

  Lemma tasks_answers : forall calls tasks outs,
    Forall2 (fun c t => gen_task c = Ok t) calls tasks ->
    Forall2 (fun t o => exec_invoke t = TOk o) tasks outs ->
    Forall2 (fun c o => answer c = Ok (TOk o)) calls outs.
  Proof.
    intros calls tasks outs A. revert outs.
    induction A; intros outs B; inversion B; subst; constructor; auto.
    unfold Proofs.Tools.answer. rewrite H. simpl. congruence.
  Qed.

  Lemma tasks_s_answers : forall calls tasks sts,
    Forall2 (fun c t => gen_task c = Ok t) calls tasks ->
    Forall2 (fun t s => exec_stream t = SOk (fst s) (snd s)) tasks sts ->
    Forall2 (fun c s => s_answer c = Ok (SOk (fst s) (snd s))) calls sts.
  Proof.
    intros calls tasks sts A. revert sts.
    induction A; intros sts B; inversion B; subst; constructor; auto.
    unfold Proofs.Tools.s_answer. rewrite H. simpl. congruence.
  Qed.

  (* Invoke returns messages ONLY IF the message is accepted and every call's tool answers; the
     messages are then those of tools_invoke_spec (with invoke_spec: if and only if) *)
  Theorem invoke_ok_only_if : forall pi calls msgs,
    Permutation pi (seq 0 (List.length calls)) ->
    tools_invoke pi true calls = Ok msgs ->
    calls <> []
    /\ exists outs, Forall2 (fun c o => answer c = Ok (TOk o)) calls outs
                    /\ msgs = combine outs (map c_id calls).
  Proof.
    intros pi calls msgs P H.
    rewrite tools_invoke_any_order in H by (apply perm_covers; auto).
    destruct (gen_tasks true calls) as [tasks|e|] eqn:Eg; simpl in H; try discriminate.
    destruct (gen_tasks_ok_inv _ _ Eg) as [Hne A]. split; auto.
    destruct (scan_invoke_ok_inv _ _ _ H) as [outs [B C]].
    exists outs. split.
    - eapply tasks_answers; eauto.
    - rewrite C. rewrite (forall2_ids _ _ _ _ A). reflexivity.
  Qed.

  (* likewise Stream opens ONLY IF every call's tool opens a stream; what it returns is then
     [opened] (tools_stream_open_spec) *)
  Theorem stream_open_only_if : forall pi calls ss,
    Permutation pi (seq 0 (List.length calls)) ->
    tools_stream_open pi true calls = Ok ss ->
    calls <> []
    /\ exists sts, Forall2 (fun c s => s_answer c = Ok (SOk (fst s) (snd s))) calls sts
                   /\ ss = opened calls sts.
  Proof.
    intros pi calls ss P H.
    rewrite tools_stream_any_order in H by (apply perm_covers; auto).
    destruct (gen_tasks true calls) as [tasks|e|] eqn:Eg; simpl in H; try discriminate.
    destruct (gen_tasks_ok_inv _ _ Eg) as [Hne A]. split; auto.
    destruct (scan_stream_ok_inv _ _ _ H) as [sts [B C]].
    exists sts. split.
    - eapply tasks_s_answers; eauto.
    - destruct (stream_open_spec kind_of inv str handler pi calls sts Hne P (tasks_s_answers _ _ _ A B)) as [E _].
      rewrite tools_stream_any_order in E by (apply perm_covers; auto).
      rewrite Eg in E. simpl in E. congruence.
  Qed.

  (* one call, a tool that does not implement both interfaces itself: it answers when invoked
     exactly when its stream has at least one chunk and no error item *)
  Lemma derived_agree : forall c,
    kind_of (c_name c) <> Some KBoth ->
    ((exists o, answer c = Ok (TOk o)) <-> (exists cs, s_answer c = Ok (SOk cs None) /\ cs <> [])).
  Proof.
    intros c Hk. unfold Proofs.Tools.answer, Proofs.Tools.s_answer, Tools.gen_task.
    destruct (kind_of (c_name c)) as [[| |]|] eqn:Ek; simpl.
    - destruct (inv (c_name c) (c_args c)) as [o|e|]; simpl; split.
      + intros _. exists [o]. split; [reflexivity|discriminate].
      + intros _. eauto.
      + intros [o H]; discriminate.
      + intros [cs [H _]]; discriminate.
      + intros [o H]; discriminate.
      + intros [cs [H _]]; discriminate.
    - destruct (str (c_name c) (c_args c)) as [cs tl|e|]; simpl.
      + destruct tl as [e|]; simpl.
        * split; [intros [o H]; destruct cs; discriminate|intros [cs' [H _]]; discriminate].
        * destruct cs as [|s cs]; simpl.
          -- split; [intros [o H]; discriminate|]. intros [cs' [H Hne]]. inversion H; subst. congruence.
          -- split; intros _; [exists (s :: cs); split; [reflexivity|discriminate]|eauto].
      + split; [intros [o H]; discriminate|intros [cs' [H _]]; discriminate].
      + split; [intros [o H]; discriminate|intros [cs' [H _]]; discriminate].
    - congruence.
    - destruct handler as [h|]; simpl.
      + destruct (h (c_name c) (c_args c)) as [o|e|]; simpl; split.
        * intros _. exists [o]. split; [reflexivity|discriminate].
        * intros _. eauto.
        * intros [o H]; discriminate.
        * intros [cs [H _]]; discriminate.
        * intros [o H]; discriminate.
        * intros [cs [H _]]; discriminate.
      + split; [intros [o H]; discriminate|intros [cs [H _]]; discriminate].
  Qed.

  (* C17, "the streamed form concatenates to the same list" on the failure side: Invoke succeeds
     exactly when Stream opens and every opened tool stream is free of error items and non-empty
     (so that, by tools_stream_concat, its concatenation is the Invoke answer; a stream with an
     error item never reaches its normal end: tools_stream_no_eof_after_error) — for every two
     completion orders *)
  Theorem invoke_stream_agree : forall pi pi' calls,
    Permutation pi (seq 0 (List.length calls)) ->
    Permutation pi' (seq 0 (List.length calls)) ->
    (forall c, In c calls -> kind_of (c_name c) <> Some KBoth) ->
    ((exists msgs, tools_invoke pi true calls = Ok msgs)
     <-> (exists ss, tools_stream_open pi' true calls = Ok ss
                     /\ Forall (fun s : tstream => snd s = None /\ snd (fst s) <> []) ss)).
  Proof.
    intros pi pi' calls P P' Hk. split.
    - intros [msgs H]. destruct (invoke_ok_only_if _ _ _ P H) as [Hne [outs [A _]]].
      assert (exists css, Forall2 (fun c cs => s_answer c = Ok (SOk cs None) /\ cs <> []) calls css) as [css B].
      { clear - A Hk. induction A.
        - exists []. constructor.
        - destruct IHA as [css B]. { intros c Hc. apply Hk. right; auto. }
          destruct (proj1 (derived_agree x (Hk x (or_introl eq_refl))) (ex_intro _ y H)) as [cs Hcs].
          exists (cs :: css). constructor; auto. }
      set (sts := map (fun cs => (cs, @None N)) css).
      assert (C : Forall2 (fun c s => s_answer c = Ok (SOk (fst s) (snd s))) calls sts).
      { subst sts. clear - B. induction B; simpl; constructor; auto. simpl. tauto. }
      destruct (stream_open_spec kind_of inv str handler pi' calls sts Hne P' C) as [E _].
      exists (opened calls sts). split; auto.
      subst sts. unfold opened. clear - B. induction B; simpl; constructor; auto.
      simpl. split; [reflexivity|tauto].
    - intros [ss [H F]]. destruct (stream_open_only_if _ _ _ P' H) as [Hne [sts [A E]]]. subst ss.
      assert (exists outs, Forall2 (fun c o => answer c = Ok (TOk o)) calls outs) as [outs B].
      { clear - A F Hk. unfold opened in F. revert F. induction A; intros F.
        - exists []. constructor.
        - simpl in F. inversion F as [|? ? [F1 F2] F']; subst. simpl in F1, F2.
          destruct IHA as [outs B]; auto. { intros c Hc. apply Hk. right; auto. }
          destruct y as [cs tl]. simpl in *. subst tl.
          destruct (proj2 (derived_agree x (Hk x (or_introl eq_refl))) (ex_intro _ cs (conj H F2))) as [o Ho].
          exists (o :: outs). constructor; auto. }
      eexists. apply invoke_spec; eauto.
  Qed.
End Agree.
