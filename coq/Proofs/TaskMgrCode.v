(* Proofs/TaskMgrCode.v — property C03: the programs of Model/TaskMgrCode.v (the sequential text of the methods of
   taskManager, the vocabulary of the translator tie) against the hand-off LTS of Model/TaskMgr.v:

     upd_model_is_step        updateChan's attributes (first entry offered, first entry removed, a full slot ends
                              the method) make one iteration of its loop [upd_step];
     upd_step_exec / _coll    the three outcomes of [upd_step] are exactly the transitions the mutex holder has in
                              the topping-up state (send / full / fall out of the loop and unlock);
     waitone_entry            waitOne's first test and count-down are the guards of [EvAwait] / [EvEmpty];
     executor_cycle           the hook events of executor's deferred function, in program order, take the task's
                              stage ERun -> ELk -> ETop/EOut -> EDone, each accepted in that position only;
     collector_cycle          the hook events on waitOne's straight path, in program order, are the events that
                              take the collector once round CIdle -> CWait -> CGot -> CTop/CFull -> CIdle, and the
                              checker accepts each of them in that position only;
     submit_pre_first         in submit no task is started before the last state pre-handler has run;
     discipline_*             the hook's log-order discipline holds of the straight-line parts. *)
From Eino Require Import Base.Util Model.TaskMgr Model.TaskMgrCode Proofs.TaskMgr.

Lemma upd_model_is_step : forall l d, upd_of model_updateChan l d = upd_step l d.
Proof. intros [|x xs] [y|]; reflexivity. Qed.

Lemma upd_step_exec : forall s t b,
  lock s = HExec t -> get_pc t (epcs s) = Some (ETop, b) ->
  match upd_step (l s) (done s) with
  | USent xs x => step s (mk xs (Some x) (lock s) (epcs s) (cp s) (num s) (collected s))
  | UFull => step s (mk (l s) (done s) (lock s) (set_st t EOut (epcs s)) (cp s) (num s) (collected s))
  | UDone => step s (mk (l s) (done s) HNone (set_st t EDone (epcs s)) (cp s) (num s) (collected s))
  | _ => False
  end.
Proof.
  intros s t b Hl Hp. unfold upd_step.
  destruct (l s) as [|x xs] eqn:El.
  - rewrite <- El. eapply s_exec_unlock; eauto.
  - destruct (done s) as [y|] eqn:Ed.
    + rewrite <- El, <- Ed. eapply s_exec_full; eauto; congruence.
    + eapply s_exec_send; eauto.
Qed.

Lemma upd_step_coll : forall s x,
  cp s = CTop x ->
  match upd_step (l s) (done s) with
  | USent ys y => step s (mk ys (Some y) (lock s) (epcs s) (cp s) (num s) (collected s))
  | UFull => step s (mk (l s) (done s) (lock s) (epcs s) (CFull x) (num s) (collected s))
  | UDone => step s (mk (l s) (done s) HNone (epcs s) CIdle (num s) (x :: collected s))
  | _ => False
  end.
Proof.
  intros s x Hc. unfold upd_step.
  destruct (l s) as [|y ys] eqn:El.
  - rewrite <- El. apply s_coll_unlock. left. split; assumption.
  - destruct (done s) as [z|] eqn:Ed.
    + rewrite <- El, <- Ed. eapply s_coll_full; eauto; congruence.
    + eapply s_coll_send; eauto.
Qed.

(* waitOne: `if t.num == 0 { return nil, false }; t.num--` *)
Lemma waitone_entry : forall s, cp s = CIdle ->
  exec_ev s EvAwait =
    (if model_waitone_empty (num s) then None
     else Some (mk (l s) (done s) (lock s) (epcs s) CWait (Nat.pred (num s)) (collected s)))
  /\ exec_ev s EvEmpty = (if model_waitone_empty (num s) then Some s else None).
Proof.
  intros s Hc. unfold exec_ev, model_waitone_empty. rewrite Hc.
  destruct (num s); split; reflexivity.
Qed.

(* the collector goes round in the order of waitOne's text *)
Definition coll_cycle : list tk := trace_of model_waitOne.

Definition cpos (c : cpc) : option nat :=
  match c with CIdle => Some 0 | CWait => Some 1 | CGot _ => Some 2 | CTop _ | CFull _ => Some 3 | CSync _ => None end.

Definition tk_of (e : ev) : tk :=
  match e with
  | EvSpawn _ _ => KSpawn | EvSync _ _ => KSync | EvSyncRet _ => KSyncRet | EvAwait => KAwait | EvEmpty => KEmpty
  | EvLockE _ => KLockE | EvPush _ _ => KPush | EvSend _ => KSend | EvFull => KFull | EvUnlockE _ => KUnlockE
  | EvRecv _ _ => KRecv | EvLockC => KLockC | EvUnlockC => KUnlockC
  end.

Lemma coll_cycle_is : coll_cycle = [KAwait; KRecv; KLockC; KUnlockC].
Proof. reflexivity. Qed.

Lemma collector_cycle : forall s e s' i,
  exec_ev s e = Some s' -> nth_error coll_cycle i = Some (tk_of e) ->
  cpos (cp s) = Some i /\ cpos (cp s') = Some (Nat.modulo (S i) 4).
Proof.
  intros s e s' i H Hi. rewrite coll_cycle_is in Hi.
  destruct i as [|[|[|[|i]]]]; cbn in Hi; try (destruct i; discriminate Hi);
    injection Hi as Hk; destruct e; try discriminate Hk; clear Hk; unfold exec_ev in H.
  - destruct (cp s) eqn:Ec; try discriminate H. destruct (num s); try discriminate H.
    injection H as <-. cbn. split; reflexivity.
  - destruct (cp s) eqn:Ec; try discriminate H. destruct (done s) as [[t' e']|]; try discriminate H.
    destruct (N.eqb t t' && Bool.eqb e e'); try discriminate H.
    injection H as <-. cbn. split; reflexivity.
  - destruct (cp s) eqn:Ec; try discriminate H. destruct (lock s); try discriminate H.
    injection H as <-. cbn. split; reflexivity.
  - destruct (cp s) eqn:Ec; try discriminate H.
    + destruct (is_nil (l s)); try discriminate H. injection H as <-. cbn. split; reflexivity.
    + injection H as <-. cbn. split; reflexivity.
Qed.

(* an executor's deferred function: lock, push, top up, unlock *)
Definition exec_cycle : list tk :=
  match model_executor with
  | [_; ADefer b; _; _] => trace_of b
  | _ => []
  end.

Lemma exec_cycle_is : exec_cycle = [KLockE; KPush; KUnlockE].
Proof. reflexivity. Qed.

(* the executor goes through lock, push, unlock in the order of the deferred function's text *)
Definition spos (o : option (stage * bres)) : option nat :=
  match o with
  | Some (ERun, _) => Some 0 | Some (ELk, _) => Some 1 | Some (ETop, _) | Some (EOut, _) => Some 2
  | Some (EDone, _) => Some 3 | None => None
  end.

Definition ev_task (e : ev) : option task :=
  match e with EvLockE t | EvPush t _ | EvUnlockE t => Some t | _ => None end.

Lemma executor_cycle : forall s e s' i t,
  exec_ev s e = Some s' -> ev_task e = Some t -> nth_error exec_cycle i = Some (tk_of e) ->
  spos (get_pc t (epcs s)) = Some i /\ spos (get_pc t (epcs s')) = Some (S i).
Proof.
  intros s e s' i t H Ht Hi. rewrite exec_cycle_is in Hi.
  destruct i as [|[|[|i]]]; cbn in Hi; try (destruct i; discriminate Hi);
    injection Hi as Hk; destruct e; try discriminate Hk; clear Hk;
    cbn in Ht; injection Ht as <-; unfold exec_ev in H.
  - destruct (get_pc t0 (epcs s)) as [[[] b]|] eqn:Ep; try discriminate H.
    destruct (lock s); try discriminate H. injection H as <-. cbn [epcs].
    rewrite (get_pc_set t0 t0 ELk ERun b _ Ep), N.eqb_refl. split; reflexivity.
  - destruct (lock s) as [|h|]; try discriminate H.
    destruct (get_pc t0 (epcs s)) as [[[] b]|] eqn:Ep; try discriminate H.
    destruct (N.eqb t0 h && Bool.eqb e (err_of b)); try discriminate H. injection H as <-. cbn [epcs].
    rewrite (get_pc_set t0 t0 ETop ELk b _ Ep), N.eqb_refl. split; reflexivity.
  - destruct (lock s) as [|h|]; try discriminate H.
    destruct (get_pc t0 (epcs s)) as [[p b]|] eqn:Ep; try discriminate H.
    destruct (N.eqb t0 h && match p with ETop => is_nil (l s) | EOut => true | _ => false end) eqn:Eg; try discriminate H.
    injection H as <-. cbn [epcs].
    rewrite (get_pc_set t0 t0 EDone p b _ Ep), N.eqb_refl.
    destruct p; try (rewrite Bool.andb_false_r in Eg; discriminate Eg); split; reflexivity.
Qed.

(* ---- structural facts of the programs ---- *)

Fixpoint has (f : act -> bool) (a : act) : bool :=
  f a ||
  match a with
  | AIf _ th el =>
      (fix hl (q : list act) : bool := match q with [] => false | x :: r => has f x || hl r end) th ||
      (fix hl (q : list act) : bool := match q with [] => false | x :: r => has f x || hl r end) el
  | AEach b | ALoop b | ADefer b =>
      (fix hl (q : list act) : bool := match q with [] => false | x :: r => has f x || hl r end) b
  | _ => false
  end.

Definition is_pre (a : act) : bool := match a with APre => true | _ => false end.
Definition is_start (a : act) : bool := match a with AGo | AExec => true | _ => false end.
Definition is_post (a : act) : bool := match a with APost => true | _ => false end.
Definition is_recv (a : act) : bool := match a with ARecv => true | _ => false end.
Definition is_topup (a : act) : bool := match a with ATopUp => true | _ => false end.

(* as long as some action of kind [f] is still to come, no action of kind [g] occurs *)
Fixpoint all_before (f g : act -> bool) (p : list act) : bool :=
  match p with
  | [] => true
  | a :: p' => if existsb (has f) p then negb (has g a) && all_before f g p' else true
  end.

(* submit: every state pre-handler runs before any task is started *)
Lemma submit_pre_first : all_before is_pre is_start model_submit = true.
Proof. reflexivity. Qed.

(* ... and a submit that starts each task right after its own pre-handler does not have the property *)
Example submit_merged_loop_not_pre_first :
  all_before is_pre is_start
    [AIf CNoTasks [ARet [RNil]] [];
     AEach [AIf CHasPre [APre; AIf CErrSet [ARet [RVal]] []; ASetInput] []; AInc; ATrace KSpawn; AGo];
     ARet [RNil]] = false.
Proof. reflexivity. Qed.

(* waitOne: the receive, then the top-up, then - and only then - the post-handler *)
Lemma waitone_recv_topup_post :
  all_before is_recv is_topup model_waitOne = true /\ all_before is_topup is_post model_waitOne = true
  /\ existsb (has is_recv) model_waitOne = true /\ existsb (has is_topup) model_waitOne = true.
Proof. repeat split; reflexivity. Qed.

(* the hook's log-order discipline on the straight-line parts *)
Lemma discipline_waitone : discipline model_waitOne = true.
Proof. reflexivity. Qed.

Lemma discipline_executor :
  match model_executor with [_; ADefer b; _; _] => discipline b | _ => false end = true.
Proof. reflexivity. Qed.

Lemma discipline_submit :
  match model_submit with
  | [_; _; _; AEach b; AIf _ th _; _] => discipline b && discipline th
  | _ => false
  end = true.
Proof. reflexivity. Qed.

(* submit's rule for the synchronous task only fires when nothing is outstanding *)
Lemma sync_cond_idle : forall num len needAll, model_sync_cond num len needAll = true -> num = 0 /\ (len = 1 \/ needAll = true).
Proof.
  intros num len needAll H. unfold model_sync_cond in H.
  apply andb_prop in H as [H1 H2]. apply Nat.eqb_eq in H1. apply orb_prop in H2 as [H2|H2].
  - apply Nat.eqb_eq in H2. auto.
  - auto.
Qed.
