(* Proofs/StreamWf.v — ownership discipline of Model/Stream.v (property C08): in every
   reachable state every base stream and every copy-child slot is referenced by at most
   one reader (a live handle, the source of a copy parent, the source of a forwarder),
   references are in range, copy parents only refer to older parents.  This is what makes
   "the reader of a stream" well defined. *)
From Eino Require Import Base.Util Model.Stream Proofs.Stream Proofs.StreamRel.
From Coq Require Import Lia Permutation.

Inductive ref : Type := RS (s : nat) | RC (p i : nat).

Fixpoint refs (t : rd) : list ref :=
  match t with
  | RArr _ _ => []
  | RStr s => [RS s]
  | RMul sts _ => map RS sts
  | RConv _ src _ _ => refs src
  | RChild p i => [RC p i]
  end.

Definition hrefs (H : handle) : list ref := if h_live H then refs (h_rd H) else [].
Definition prefs (st : store) : list ref := flat_map (fun P => refs (p_src P)) (parents st).
Definition frefs (fw : list fwd) : list ref := flat_map (fun F => refs (f_src F)) fw.
Definition all_refs (G : state) : list ref :=
  flat_map hrefs (st_handles G) ++ prefs (st_store G) ++ frefs (st_fwds G).

(* ------------------------------------------------------------------ generic list facts *)

Lemma Forall2_refl : forall A (R : A -> A -> Prop) l, (forall a, R a a) -> Forall2 R l l.
Proof. intros A R l H. induction l; constructor; auto. Qed.

Lemma Forall2_trans : forall A (R : A -> A -> Prop) l1 l2 l3,
  (forall a b c, R a b -> R b c -> R a c) -> Forall2 R l1 l2 -> Forall2 R l2 l3 -> Forall2 R l1 l3.
Proof.
  intros A R l1 l2 l3 HT H12. revert l3. induction H12; intros l3 H23; inversion H23; subst; constructor; eauto.
Qed.

Lemma Forall2_upd_r : forall A (R : A -> A -> Prop) l l' i a b,
  Forall2 R l l' -> nth_error l i = Some a -> R a b -> Forall2 R l (upd l' i b).
Proof.
  intros A R l l' i a b H. revert i. induction H as [|x y l l' Hxy H IH]; intros [|i] Hn Hab; simpl in *; try discriminate.
  - inversion Hn; subst. constructor; auto.
  - constructor; auto.
Qed.

Lemma Forall2_nth : forall A (R : A -> A -> Prop) l l' i a,
  Forall2 R l l' -> nth_error l i = Some a -> exists b, nth_error l' i = Some b /\ R a b.
Proof.
  intros A R l l' i a H. revert i. induction H as [|x y l l' Hxy H IH]; intros [|i] Hn; simpl in *; try discriminate.
  - inversion Hn; subst. eauto.
  - apply IH. exact Hn.
Qed.

Lemma Forall2_nth_r : forall A (R : A -> A -> Prop) l l' i b,
  Forall2 R l l' -> nth_error l' i = Some b -> exists a, nth_error l i = Some a /\ R a b.
Proof.
  intros A R l l' i b H. revert i. induction H as [|x y l l' Hxy H IH]; intros [|i] Hn; simpl in *; try discriminate.
  - inversion Hn; subst. eauto.
  - apply IH. exact Hn.
Qed.

Lemma Forall2_length' : forall A (R : A -> A -> Prop) l l', Forall2 R l l' -> List.length l = List.length l'.
Proof. intros A R l l' H. induction H; simpl; auto. Qed.

Lemma Forall2_flat_map : forall A B (R : A -> A -> Prop) (f : A -> list B) l l',
  Forall2 R l l' -> (forall a b, R a b -> f b = f a) -> flat_map f l' = flat_map f l.
Proof. intros A B R f l l' H Hf. induction H; simpl; auto. rewrite IHForall2. erewrite Hf; eauto. Qed.

Lemma upd_same_len : forall A (l : list A) i a, i >= List.length l -> upd l i a = l.
Proof. induction l as [|b l IH]; intros [|i] a H; simpl in *; auto; try lia. f_equal. apply IH. lia. Qed.

Lemma flat_map_upd_perm : forall A B (f : A -> list B) l i a b,
  nth_error l i = Some a -> Permutation (f b ++ flat_map f l) (f a ++ flat_map f (upd l i b)).
Proof.
  intros A B f. induction l as [|x l IH]; intros [|i] a b H; simpl in *; try discriminate.
  - inversion H; subst. rewrite !app_assoc. apply Permutation_app_tail. apply Permutation_app_comm.
  - specialize (IH i a b H).
    rewrite (app_assoc (f b)). rewrite (Permutation_app_comm (f b) (f x)). rewrite <- app_assoc.
    rewrite IH. rewrite !app_assoc. apply Permutation_app_tail. apply Permutation_app_comm.
Qed.

(* ------------------------------------------------------------------ what Recv leaves alone *)

(* stream: only the buffer / delivered log move *)
Definition srel (s s' : stream) : Prop :=
  s_cap s' = s_cap s /\ s_sclosed s' = s_sclosed s /\ s_rclosed s' = s_rclosed s
  /\ s_user s' = s_user s /\ s_sent s' = s_sent s.

(* parent: same references, same number of children, same closed slots and counters *)
Definition prel (P P' : parent) : Prop :=
  refs (p_src P') = refs (p_src P)
  /\ List.length (p_cur P') = List.length (p_cur P)
  /\ p_closed P' = p_closed P /\ p_srcclosed P' = p_srcclosed P
  /\ (forall i, nth_error (p_cur P') i = Some None <-> nth_error (p_cur P) i = Some None).

Definition store_rel (st st' : store) : Prop :=
  Forall2 srel (streams st) (streams st') /\ Forall2 prel (parents st) (parents st').

Lemma srel_refl : forall s, srel s s.
Proof. intros s. repeat split. Qed.
Lemma prel_refl : forall P, prel P P.
Proof. intros P. repeat split; auto. Qed.
Lemma srel_trans : forall a b c, srel a b -> srel b c -> srel a c.
Proof. intros a b c (A1 & A2 & A3 & A4 & A5) (B1 & B2 & B3 & B4 & B5). repeat split; congruence. Qed.
Lemma prel_trans : forall a b c, prel a b -> prel b c -> prel a c.
Proof.
  intros a b c (A1 & A2 & A3 & A4 & A5) (B1 & B2 & B3 & B4 & B5). repeat split; try congruence.
  - intros H. apply A5. apply B5. exact H.
  - intros H. apply B5. apply A5. exact H.
Qed.

Lemma store_rel_refl : forall st, store_rel st st.
Proof. intros st. split; apply Forall2_refl; [apply srel_refl | apply prel_refl]. Qed.

Lemma store_rel_trans : forall a b c, store_rel a b -> store_rel b c -> store_rel a c.
Proof.
  intros a b c [A1 A2] [B1 B2]. split; eapply Forall2_trans; eauto; [apply srel_trans | apply prel_trans].
Qed.

Lemma store_rel_set_stream : forall st st1 sid s s',
  store_rel st st1 -> nth_error (streams st) sid = Some s -> srel s s' -> store_rel st (set_stream st1 sid s').
Proof. intros st st1 sid s s' [H1 H2] Hn Hr. split; simpl; auto. eapply Forall2_upd_r; eauto. Qed.

Lemma store_rel_set_parent : forall st st1 p P P',
  store_rel st st1 -> nth_error (parents st) p = Some P -> prel P P' -> store_rel st (set_parent st1 p P').
Proof. intros st st1 p P P' [H1 H2] Hn Hr. split; simpl; auto. eapply Forall2_upd_r; eauto. Qed.

Lemma stream_recv_srel : forall s r s', stream_recv s = (r, s') -> srel s s'.
Proof.
  intros s r s' H. unfold stream_recv in H. destruct (s_buf s).
  - destruct (s_sclosed s); inversion H; subst; apply srel_refl.
  - inversion H; subst. repeat split.
Qed.

Lemma upd_None_iff : forall (l : list (option nat)) i j c,
  nth_error l i = Some (Some c) ->
  forall v, (nth_error (upd l i (Some v)) j = Some None <-> nth_error l j = Some None).
Proof.
  intros l i j c Hi v. destruct (Nat.eq_dec i j) as [<-|Hn].
  - assert (i < List.length l) by (apply nth_error_Some; congruence).
    rewrite nth_error_upd_eq by auto. rewrite Hi. split; intros H0; discriminate.
  - rewrite nth_error_upd_neq by auto. reflexivity.
Qed.

Lemma Recv_static : forall st t r st' t', Recv st t r st' t' -> store_rel st st' /\ refs t' = refs t.
Proof.
  intros st t r st' t' H. induction H; try (split; [apply store_rel_refl | reflexivity]).
  - (* R_str *) split; auto. eapply store_rel_set_stream; eauto; [apply store_rel_refl | eapply stream_recv_srel; eauto].
  - (* R_mul_item *) split; auto. eapply store_rel_set_stream; eauto; [apply store_rel_refl | eapply stream_recv_srel; eauto].
  - (* R_mul_retire *) destruct IHRecv as [A B]. split; auto.
  - (* R_conv_item *) destruct IHRecv as [A B]. split; auto.
  - (* R_conv_skip *) destruct IHRecv1 as [A1 B1]. destruct IHRecv2 as [A2 B2]. split.
    + eapply store_rel_trans; eauto.
    + rewrite B2. simpl. exact B1.
  - (* R_conv_other *) destruct IHRecv as [A B]. split; auto.
  - (* R_child_have *) split; auto. eapply store_rel_set_parent; eauto; [apply store_rel_refl|].
    repeat split; simpl; auto. + apply upd_length. + apply (upd_None_iff _ _ _ _ H0). + apply (upd_None_iff _ _ _ _ H0).
  - (* R_child_eof *) split; auto. eapply store_rel_set_parent; eauto; [apply store_rel_refl|].
    repeat split; simpl; auto.
  - (* pull item *) destruct IHRecv as [A B]. split; auto. eapply store_rel_set_parent; eauto.
    repeat split; simpl; auto. + apply upd_length. + apply (upd_None_iff _ _ _ _ H0). + apply (upd_None_iff _ _ _ _ H0).
  - (* pull eof *) destruct IHRecv as [A B]. split; auto. eapply store_rel_set_parent; eauto.
    repeat split; simpl; auto.
  - (* pull other *) destruct IHRecv as [A B]. split; auto. eapply store_rel_set_parent; eauto.
    repeat split; simpl; auto.
Qed.

(* ------------------------------------------------------------------ what Close leaves alone *)

Definition csrel (s s' : stream) : Prop :=
  s_cap s' = s_cap s /\ s_buf s' = s_buf s /\ s_sclosed s' = s_sclosed s /\ s_user s' = s_user s
  /\ s_sent s' = s_sent s /\ s_deliv s' = s_deliv s /\ s_rclosed s <= s_rclosed s'.

Definition cprel (P P' : parent) : Prop :=
  p_src P' = p_src P /\ p_items P' = p_items P /\ p_eof P' = p_eof P
  /\ List.length (p_cur P') = List.length (p_cur P)
  /\ p_got P' = p_got P /\ p_sawEOF P' = p_sawEOF P /\ p_pulls P' = p_pulls P
  /\ (forall i, nth_error (p_cur P') i = nth_error (p_cur P) i \/ nth_error (p_cur P') i = Some None)
  /\ p_closed P <= p_closed P' /\ p_srcclosed P <= p_srcclosed P'.

Definition cstore_rel (st st' : store) : Prop :=
  Forall2 csrel (streams st) (streams st') /\ Forall2 cprel (parents st) (parents st').

Lemma csrel_refl : forall s, csrel s s.
Proof. intros s. repeat split; auto. Qed.
Lemma cprel_refl : forall P, cprel P P.
Proof. intros P. repeat split; auto. Qed.
Lemma csrel_trans : forall a b c, csrel a b -> csrel b c -> csrel a c.
Proof.
  intros a b c (A1 & A2 & A3 & A4 & A5 & A6 & A7) (B1 & B2 & B3 & B4 & B5 & B6 & B7).
  repeat split; try congruence. lia.
Qed.
Lemma cprel_trans : forall a b c, cprel a b -> cprel b c -> cprel a c.
Proof.
  intros a b c (A1 & A2 & A3 & A4 & A5 & A6 & A7 & A8 & A9 & A10) (B1 & B2 & B3 & B4 & B5 & B6 & B7 & B8 & B9 & B10).
  repeat split; try congruence; try lia. intros i. destruct (B8 i) as [E|E]; [|right; exact E].
  rewrite E. apply A8.
Qed.
Lemma cstore_rel_refl : forall st, cstore_rel st st.
Proof. intros st. split; apply Forall2_refl; [apply csrel_refl | apply cprel_refl]. Qed.
Lemma cstore_rel_trans : forall a b c, cstore_rel a b -> cstore_rel b c -> cstore_rel a c.
Proof.
  intros a b c [A1 A2] [B1 B2]. split; eapply Forall2_trans; eauto; [apply csrel_trans | apply cprel_trans].
Qed.

Lemma cstore_rel_set_stream : forall st st1 sid s s',
  cstore_rel st st1 -> nth_error (streams st) sid = Some s -> csrel s s' -> cstore_rel st (set_stream st1 sid s').
Proof. intros st st1 sid s s' [H1 H2] Hn Hr. split; simpl; auto. eapply Forall2_upd_r; eauto. Qed.

Lemma cstore_rel_set_parent : forall st st1 p P P',
  cstore_rel st st1 -> nth_error (parents st) p = Some P -> cprel P P' -> cstore_rel st (set_parent st1 p P').
Proof. intros st st1 p P P' [H1 H2] Hn Hr. split; simpl; auto. eapply Forall2_upd_r; eauto. Qed.

Lemma close_streams_static : forall sids st c st', close_streams st sids = (c, st') -> cstore_rel st st'.
Proof.
  induction sids as [|sid r IH]; intros st c st' H; cbn [close_streams] in H.
  - inversion H; subst. apply cstore_rel_refl.
  - destruct (nth_error (streams st) sid) as [s|] eqn:Es; [|inversion H; subst; apply cstore_rel_refl].
    unfold stream_close_recv in H.
    set (s1 := mkS (s_cap s) (s_buf s) (s_sclosed s) (S (s_rclosed s)) (s_user s) (s_sent s) (s_deliv s)) in *.
    assert (R1 : cstore_rel st (set_stream st sid s1)).
    { eapply cstore_rel_set_stream; eauto; [apply cstore_rel_refl|]. unfold s1. repeat split; simpl; auto. }
    destruct (Nat.ltb 0 (s_rclosed s)).
    + inversion H; subst. exact R1.
    + eapply cstore_rel_trans; [exact R1|]. eapply IH; eauto.
Qed.

Lemma Close_static : forall st t c st', Close st t c st' -> cstore_rel st st'.
Proof.
  intros st t c st' H. induction H; try apply cstore_rel_refl.
  - eapply close_streams_static; eauto.
  - eapply close_streams_static; eauto.
  - exact IHClose.
  - (* last child *)
    eapply cstore_rel_trans; [|exact IHClose].
    eapply cstore_rel_set_parent; eauto; [apply cstore_rel_refl|].
    repeat split; simpl; auto; try lia. + apply upd_length.
    + intros j. destruct (Nat.eq_dec i j) as [<-|Hn].
      * right. apply nth_error_upd_eq. apply nth_error_Some. congruence.
      * left. apply nth_error_upd_neq. exact Hn.
  - eapply cstore_rel_set_parent; eauto; [apply cstore_rel_refl|].
    repeat split; simpl; auto; try lia. + apply upd_length.
    + intros j. destruct (Nat.eq_dec i j) as [<-|Hn].
      * right. apply nth_error_upd_eq. apply nth_error_Some. congruence.
      * left. apply nth_error_upd_neq. exact Hn.
Qed.

(* ------------------------------------------------------------------ well-formed states *)

Definition ref_ok (st : store) (r : ref) : Prop :=
  match r with
  | RS s => s < List.length (streams st)
  | RC p i => exists P, nth_error (parents st) p = Some P /\ i < List.length (p_cur P)
  end.

Definition ref_below (pb : nat) (r : ref) : Prop :=
  match r with RS _ => True | RC p _ => p < pb end.

Definition acyclic (st : store) : Prop :=
  forall p P, nth_error (parents st) p = Some P -> Forall (ref_below p) (refs (p_src P)).

Definition fwd_ok (st : store) (F : fwd) : Prop :=
  exists d, nth_error (streams st) (f_dst F) = Some d /\ s_user d = false.

Definition wf (G : state) : Prop :=
  NoDup (all_refs G)
  /\ Forall (ref_ok (st_store G)) (all_refs G)
  /\ acyclic (st_store G)
  /\ Forall (fwd_ok (st_store G)) (st_fwds G)
  /\ NoDup (map f_dst (st_fwds G)).

(* [ext st st']: st' has at least the objects of st, with the same user flag / number of children *)
Definition ext (st st' : store) : Prop :=
  (forall sid d, nth_error (streams st) sid = Some d ->
     exists d', nth_error (streams st') sid = Some d' /\ s_user d' = s_user d)
  /\ (forall p P, nth_error (parents st) p = Some P ->
     exists P', nth_error (parents st') p = Some P' /\ List.length (p_cur P') = List.length (p_cur P)).

Lemma ext_refl : forall st, ext st st.
Proof. intros st. split; intros; eauto. Qed.

Lemma ext_trans : forall a b c, ext a b -> ext b c -> ext a c.
Proof.
  intros a b c [A1 A2] [B1 B2]. split.
  - intros sid d H. destruct (A1 _ _ H) as (d1 & H1 & E1). destruct (B1 _ _ H1) as (d2 & H2 & E2).
    exists d2. split; auto. congruence.
  - intros p P H. destruct (A2 _ _ H) as (P1 & H1 & E1). destruct (B2 _ _ H1) as (P2 & H2 & E2).
    exists P2. split; auto. congruence.
Qed.

Lemma store_rel_ext : forall st st', store_rel st st' -> ext st st'.
Proof.
  intros st st' [H1 H2]. split.
  - intros sid d H. destruct (Forall2_nth _ _ _ _ _ _ H1 H) as (d' & Hn & (_ & _ & _ & Hu & _)). eauto.
  - intros p P H. destruct (Forall2_nth _ _ _ _ _ _ H2 H) as (P' & Hn & (_ & Hl & _)). eauto.
Qed.

Lemma cstore_rel_ext : forall st st', cstore_rel st st' -> ext st st'.
Proof.
  intros st st' [H1 H2]. split.
  - intros sid d H. destruct (Forall2_nth _ _ _ _ _ _ H1 H) as (d' & Hn & (_ & _ & _ & Hu & _)). eauto.
  - intros p P H. destruct (Forall2_nth _ _ _ _ _ _ H2 H) as (P' & Hn & (_ & _ & _ & Hl & _)). eauto.
Qed.

Lemma ext_add_stream : forall st s, ext st (add_stream st s).
Proof.
  intros st s. split; simpl; intros; eauto.
  exists d. split; auto. rewrite nth_error_app1; auto. apply nth_error_Some. congruence.
Qed.

Lemma ext_add_parent : forall st P, ext st (add_parent st P).
Proof.
  intros st P0. split; simpl; intros; eauto.
  exists P. split; auto. rewrite nth_error_app1; auto. apply nth_error_Some. congruence.
Qed.

Lemma ext_set_stream : forall st sid s s',
  nth_error (streams st) sid = Some s -> s_user s' = s_user s -> ext st (set_stream st sid s').
Proof.
  intros st sid s s' Hn Hu. split; simpl; intros; eauto.
  destruct (Nat.eq_dec sid sid0) as [<-|Hne].
  - exists s'. split; [apply nth_error_upd_eq; apply nth_error_Some; congruence | congruence].
  - exists d. split; auto. rewrite nth_error_upd_neq; auto.
Qed.

Lemma ref_ok_ext : forall st st' r, ext st st' -> ref_ok st r -> ref_ok st' r.
Proof.
  intros st st' [s|p i] [E1 E2] H; simpl in *.
  - destruct (nth_error (streams st) s) as [d|] eqn:Ed.
    + destruct (E1 _ _ Ed) as (d' & Hn & _). apply nth_error_Some. congruence.
    + apply nth_error_None in Ed. lia.
  - destruct H as (P & HP & Hi). destruct (E2 _ _ HP) as (P' & HP' & Hl). exists P'. split; auto. lia.
Qed.

Lemma fwd_ok_ext : forall st st' F, ext st st' -> fwd_ok st F -> fwd_ok st' F.
Proof.
  intros st st' F [E1 _] (d & Hd & Hu). destruct (E1 _ _ Hd) as (d' & Hn & Hu'). exists d'. split; auto. congruence.
Qed.

Lemma prefs_store_rel : forall st st', store_rel st st' -> prefs st' = prefs st.
Proof. intros st st' [_ H2]. unfold prefs. eapply Forall2_flat_map; eauto. intros a b (E & _). exact E. Qed.

Lemma prefs_cstore_rel : forall st st', cstore_rel st st' -> prefs st' = prefs st.
Proof. intros st st' [_ H2]. unfold prefs. eapply Forall2_flat_map; eauto. intros a b (E & _). rewrite E. reflexivity. Qed.

Lemma acyclic_store_rel : forall st st', store_rel st st' -> acyclic st -> acyclic st'.
Proof.
  intros st st' [_ H2] Ha p P' HP'. destruct (Forall2_nth_r _ _ _ _ _ _ H2 HP') as (P & HP & (E & _)).
  rewrite E. eapply Ha; eauto.
Qed.

Lemma acyclic_cstore_rel : forall st st', cstore_rel st st' -> acyclic st -> acyclic st'.
Proof.
  intros st st' [_ H2] Ha p P' HP'. destruct (Forall2_nth_r _ _ _ _ _ _ H2 HP') as (P & HP & (E & _)).
  rewrite E. eapply Ha; eauto.
Qed.

Lemma flat_map_upd_same : forall A B (f : A -> list B) l i a b,
  nth_error l i = Some a -> f b = f a -> flat_map f (upd l i b) = flat_map f l.
Proof.
  intros A B f. induction l as [|x l IH]; intros [|i] a b H E; simpl in *; try discriminate.
  - inversion H; subst. rewrite E. reflexivity.
  - f_equal. eapply IH; eauto.
Qed.

Lemma map_upd_same : forall A B (f : A -> B) l i a b,
  nth_error l i = Some a -> f b = f a -> map f (upd l i b) = map f l.
Proof.
  intros A B f. induction l as [|x l IH]; intros [|i] a b H E; simpl in *; try discriminate.
  - inversion H; subst. rewrite E. reflexivity.
  - f_equal. eapply IH; eauto.
Qed.

(* a step that changes the store by [ext]-compatible updates of existing objects and keeps
   every reference list *)
Lemma wf_same_refs : forall G G',
  wf G -> all_refs G' = all_refs G -> ext (st_store G) (st_store G') ->
  acyclic (st_store G') -> map f_dst (st_fwds G') = map f_dst (st_fwds G) ->
  wf G'.
Proof.
  intros G G' (W1 & W2 & W3 & W4 & W5) Hr He Ha Hd. unfold wf. rewrite Hr, Hd. repeat split; auto.
  - eapply Forall_impl; [|exact W2]. intros r. apply ref_ok_ext. exact He.
  - (* fwd_ok: by destinations *)
    apply Forall_forall. intros F' HF'. unfold fwd_ok.
    assert (Hin : In (f_dst F') (map f_dst (st_fwds G))) by (rewrite <- Hd; apply in_map; exact HF').
    apply in_map_iff in Hin. destruct Hin as (F & HdF & HinF).
    rewrite Forall_forall in W4. destruct (W4 F HinF) as (d & Hdn & Hu).
    destruct He as [E1 _]. rewrite <- HdF. destruct (E1 _ _ Hdn) as (d' & Hn' & Hu'). exists d'. split; auto. congruence.
Qed.

Lemma init_wf : wf init_state.
Proof. repeat split; simpl; try constructor. intros p P H. destruct p; discriminate. Qed.

(* ------------------------------------------------------------------ steps that keep every reference *)

Lemma stream_send_user : forall s x r s', stream_send s x = (r, s') -> s_user s' = s_user s.
Proof.
  intros s x r s'. unfold stream_send.
  destruct (Nat.ltb 0 (s_rclosed s)); [intros H; inversion H; subst; auto|].
  destruct (s_sclosed s); [intros H; inversion H; subst; auto|].
  destruct (Nat.ltb _ _); intros H; inversion H; subst; auto.
Qed.

Lemma stream_close_send_user : forall s r s', stream_close_send s = (r, s') -> s_user s' = s_user s.
Proof. intros s r s'. unfold stream_close_send. destruct (s_sclosed s); intros H; inversion H; subst; auto. Qed.

Lemma acyclic_set_stream : forall st sid s, acyclic st -> acyclic (set_stream st sid s).
Proof. intros st sid s H. exact H. Qed.

Lemma wf_set_stream : forall G sid s s',
  wf G -> nth_error (streams (st_store G)) sid = Some s -> s_user s' = s_user s ->
  wf (mkState (set_stream (st_store G) sid s') (st_fwds G) (st_handles G)).
Proof.
  intros G sid s s' HW Hn Hu. apply (wf_same_refs G); auto.
  - simpl. eapply ext_set_stream; eauto.
  - simpl. destruct HW as (_ & _ & Ha & _). exact Ha.
Qed.

Lemma hrefs_flat_upd : forall hs h H H',
  nth_error hs h = Some H -> hrefs H' = hrefs H -> flat_map hrefs (upd hs h H') = flat_map hrefs hs.
Proof. intros. eapply flat_map_upd_same; eauto. Qed.

Lemma wf_recv_handle : forall G h H r st1 t1 H',
  wf G -> nth_error (st_handles G) h = Some H -> h_live H = true ->
  Recv (st_store G) (h_rd H) r st1 t1 ->
  h_live H' = true -> h_rd H' = t1 ->
  wf (mkState st1 (st_fwds G) (upd (st_handles G) h H')).
Proof.
  intros G h H r st1 t1 H' HW Hn Hl HR Hl' Hrd.
  destruct (Recv_static _ _ _ _ _ HR) as [SR Ht]. apply (wf_same_refs G); auto.
  - unfold all_refs; simpl. rewrite (prefs_store_rel _ _ SR).
    rewrite (hrefs_flat_upd _ _ H); auto. unfold hrefs. rewrite Hl, Hl', Hrd. exact Ht.
  - simpl. apply store_rel_ext. exact SR.
  - simpl. eapply acyclic_store_rel; eauto. apply HW.
Qed.

Lemma wf_close_handle : forall G h H c st1 H',
  wf G -> nth_error (st_handles G) h = Some H ->
  Close (st_store G) (h_rd H) c st1 ->
  h_live H' = h_live H -> h_rd H' = h_rd H ->
  wf (mkState st1 (st_fwds G) (upd (st_handles G) h H')).
Proof.
  intros G h H c st1 H' HW Hn HC Hl' Hrd.
  pose proof (Close_static _ _ _ _ HC) as SR. apply (wf_same_refs G); auto.
  - unfold all_refs; simpl. rewrite (prefs_cstore_rel _ _ SR).
    rewrite (hrefs_flat_upd _ _ H); auto. unfold hrefs. rewrite Hl', Hrd. reflexivity.
  - simpl. apply cstore_rel_ext. exact SR.
  - simpl. eapply acyclic_cstore_rel; eauto. apply HW.
Qed.

Lemma frefs_upd : forall fw k F F',
  nth_error fw k = Some F -> refs (f_src F') = refs (f_src F) -> frefs (upd fw k F') = frefs fw.
Proof. intros. unfold frefs. eapply flat_map_upd_same; eauto. Qed.

(* a forwarder step: store changed by a Recv on its source / a Close of its source / an
   update of a non-reference field of a stream *)
Lemma wf_fwd_step : forall G k F st1 F',
  wf G -> nth_error (st_fwds G) k = Some F ->
  refs (f_src F') = refs (f_src F) -> f_dst F' = f_dst F ->
  ext (st_store G) st1 -> prefs st1 = prefs (st_store G) -> acyclic st1 ->
  wf (mkState st1 (upd (st_fwds G) k F') (st_handles G)).
Proof.
  intros G k F st1 F' HW Hn Hr Hd He Hp Ha. apply (wf_same_refs G); auto.
  - unfold all_refs; simpl. rewrite Hp. rewrite (frefs_upd _ _ F); auto.
  - simpl. eapply map_upd_same; eauto.
Qed.

(* ------------------------------------------------------------------ constructors *)

Lemma live_rd_nth : forall G h t, live_rd G h = Some t ->
  exists H, nth_error (st_handles G) h = Some H /\ h_live H = true /\ h_rd H = t.
Proof.
  intros G h t H. unfold live_rd in H. destruct (nth_error (st_handles G) h) as [Hh|]; [|discriminate].
  destruct (h_live Hh) eqn:E; [|discriminate]. inversion H; subst. eauto.
Qed.

Lemma consume_handles : forall G h H, nth_error (st_handles G) h = Some H ->
  st_handles (consume G h) = upd (st_handles G) h (mkH (h_rd H) false (h_closed H) (h_got H) (h_eof H)).
Proof. intros G h H E. unfold consume. rewrite E. reflexivity. Qed.

Lemma consume_perm : forall G h t, live_rd G h = Some t ->
  Permutation (flat_map hrefs (st_handles G)) (refs t ++ flat_map hrefs (st_handles (consume G h))).
Proof.
  intros G h t Hl. destruct (live_rd_nth _ _ _ Hl) as (H & Hn & Hlv & Hrd).
  rewrite (consume_handles _ _ _ Hn).
  pose proof (flat_map_upd_perm _ _ hrefs _ _ _ (mkH (h_rd H) false (h_closed H) (h_got H) (h_eof H)) Hn) as P.
  unfold hrefs at 1 in P. simpl in P. unfold hrefs at 2 in P. rewrite Hlv in P. rewrite <- Hrd. exact P.
Qed.

Lemma NoDup_app_intro : forall A (l1 l2 : list A),
  NoDup l1 -> NoDup l2 -> (forall x, In x l1 -> ~ In x l2) -> NoDup (l1 ++ l2).
Proof.
  intros A. induction l1 as [|a l1 IH]; intros l2 H1 H2 Hd; simpl; auto.
  inversion H1; subst. constructor.
  - intros Hin. apply in_app_or in Hin. destruct Hin as [Hin|Hin]; [contradiction|].
    apply (Hd a); [left; reflexivity | exact Hin].
  - apply IH; auto. intros x Hx. apply Hd. right. exact Hx.
Qed.

Lemma NoDup_app_elim : forall A (l1 l2 : list A),
  NoDup (l1 ++ l2) -> NoDup l1 /\ NoDup l2 /\ (forall x, In x l1 -> ~ In x l2).
Proof.
  intros A. induction l1 as [|a l1 IH]; intros l2 H; simpl in *.
  - split; [constructor | split; auto].
  - inversion H; subst. destruct (IH _ H3) as (A1 & A2 & A3). split; [|split; auto].
    + constructor; auto. intros Hin. apply H2. apply in_or_app. left. exact Hin.
    + intros x [<-|Hx] Hin; [apply H2; apply in_or_app; right; exact Hin | eapply A3; eauto].
Qed.

Lemma all_refs_perm_wf : forall G G' extra,
  wf G ->
  Permutation (all_refs G') (extra ++ all_refs G) ->
  NoDup extra -> (forall r, In r extra -> ~ ref_ok (st_store G) r) ->
  ext (st_store G) (st_store G') -> Forall (ref_ok (st_store G')) extra ->
  NoDup (all_refs G') /\ Forall (ref_ok (st_store G')) (all_refs G').
Proof.
  intros G G' extra (W1 & W2 & _) HP Hnd Hfresh He Hok. split.
  - eapply Permutation_NoDup; [apply Permutation_sym; exact HP|].
    apply NoDup_app_intro; auto. intros r Hin Hin2. apply (Hfresh r Hin).
    rewrite Forall_forall in W2. apply W2. exact Hin2.
  - eapply Permutation_Forall; [apply Permutation_sym; exact HP|].
    apply Forall_app. split; auto. eapply Forall_impl; [|exact W2]. intros r. apply ref_ok_ext. exact He.
Qed.

Lemma wf_pipe : forall G cap,
  wf G ->
  wf (mkState (add_stream (st_store G) (new_stream cap true)) (st_fwds G)
              (st_handles G ++ [mkH (RStr (List.length (streams (st_store G)))) true false [] false])).
Proof.
  intros G cap HW. pose proof HW as (W1 & W2 & W3 & W4 & W5).
  set (sid := List.length (streams (st_store G))).
  set (G' := mkState _ _ _).
  assert (HP : Permutation (all_refs G') ([RS sid] ++ all_refs G)).
  { unfold all_refs, G'; simpl. rewrite flat_map_app. simpl. unfold hrefs at 2. simpl.
    rewrite <- app_assoc. simpl. symmetry. apply Permutation_middle. }
  destruct (all_refs_perm_wf G G' [RS sid] HW HP) as [N1 N2].
  - repeat constructor. intros [].
  - intros r [<-|[]]. simpl. unfold sid. lia.
  - apply ext_add_stream.
  - repeat constructor. simpl. rewrite app_length. simpl. unfold sid. lia.
  - repeat split; auto. simpl. eapply Forall_impl; [|exact W4]. intros F. apply fwd_ok_ext. apply ext_add_stream.
Qed.

Lemma wf_array : forall G xs,
  wf G -> wf (mkState (st_store G) (st_fwds G) (st_handles G ++ [mkH (RArr [] xs) true false [] false])).
Proof.
  intros G xs HW. apply (wf_same_refs G); auto.
  - unfold all_refs; simpl. rewrite flat_map_app. simpl. rewrite app_nil_r. reflexivity.
  - apply ext_refl.
  - apply HW.
Qed.

Lemma wf_conv : forall G h t f,
  wf G -> live_rd G h = Some t ->
  wf (mkState (st_store (consume G h)) (st_fwds (consume G h))
              (st_handles (consume G h) ++ [mkH (RConv f t [] []) true false [] false])).
Proof.
  intros G h t f HW Hl. pose proof HW as (W1 & W2 & W3 & W4 & W5).
  rewrite consume_store, consume_fwds.
  set (G' := mkState _ _ _).
  assert (HP : Permutation (all_refs G') ([] ++ all_refs G)).
  { unfold all_refs, G'; simpl. rewrite flat_map_app. simpl. unfold hrefs at 2. simpl. rewrite app_nil_r.
    apply Permutation_app_tail. rewrite (consume_perm G h t Hl). apply Permutation_app_comm. }
  destruct (all_refs_perm_wf G G' [] HW HP) as [N1 N2]; try (constructor; fail).
  - intros r [].
  - apply ext_refl.
  - repeat split; auto.
Qed.

Lemma hrefs_repeat_arr : forall rest n,
  flat_map hrefs (repeat (mkH (RArr [] rest) true false [] false) n) = [].
Proof. intros rest n. induction n; simpl; auto. Qed.

Lemma hrefs_children : forall p l,
  flat_map hrefs (map (fun i => mkH (RChild p i) true false [] false) l) = map (RC p) l.
Proof. intros p l. induction l; simpl; auto. unfold hrefs at 1. simpl. f_equal. exact IHl. Qed.

Lemma wf_copy_arr : forall G h d rest n,
  wf G -> live_rd G h = Some (RArr d rest) ->
  wf (mkState (st_store (consume G h)) (st_fwds (consume G h))
              (st_handles (consume G h) ++ repeat (mkH (RArr [] rest) true false [] false) n)).
Proof.
  intros G h d rest n HW Hl. pose proof HW as (W1 & W2 & W3 & W4 & W5).
  rewrite consume_store, consume_fwds.
  set (G' := mkState _ _ _).
  assert (HP : Permutation (all_refs G') ([] ++ all_refs G)).
  { unfold all_refs, G'; simpl. rewrite flat_map_app. rewrite hrefs_repeat_arr. rewrite app_nil_r.
    apply Permutation_app_tail. rewrite (consume_perm G h _ Hl). simpl. reflexivity. }
  destruct (all_refs_perm_wf G G' [] HW HP) as [N1 N2]; try (constructor; fail).
  - intros r [].
  - apply ext_refl.
  - repeat split; auto.
Qed.

Lemma NoDup_map_inj : forall A B (f : A -> B) l, (forall a b, f a = f b -> a = b) -> NoDup l -> NoDup (map f l).
Proof.
  intros A B f l Hinj H. induction H; simpl; constructor; auto.
  intros Hin. apply in_map_iff in Hin. destruct Hin as (y & Hy & Hin). apply Hinj in Hy. subst. contradiction.
Qed.

Lemma new_parent_cur_len : forall t n, List.length (p_cur (new_parent t n)) = n.
Proof. intros. simpl. apply repeat_length. Qed.

Lemma wf_copy : forall G h t n,
  wf G -> live_rd G h = Some t ->
  wf (mkState (add_parent (st_store (consume G h)) (new_parent t n)) (st_fwds (consume G h))
              (st_handles (consume G h) ++
               map (fun i => mkH (RChild (List.length (parents (st_store (consume G h)))) i) true false [] false) (seq 0 n))).
Proof.
  intros G h t n HW Hl. pose proof HW as (W1 & W2 & W3 & W4 & W5).
  rewrite consume_store, consume_fwds.
  set (p := List.length (parents (st_store G))).
  set (G' := mkState _ _ _).
  assert (HP : Permutation (all_refs G') (map (RC p) (seq 0 n) ++ all_refs G)).
  { unfold all_refs, G'; simpl. rewrite flat_map_app. rewrite hrefs_children.
    unfold prefs at 1. simpl. rewrite flat_map_app. simpl. rewrite app_nil_r. fold (prefs (st_store G)).
    rewrite (consume_perm G h t Hl). rewrite <- !app_assoc.
    rewrite (Permutation_app_swap_app (flat_map hrefs (st_handles (consume G h)))).
    apply Permutation_app_head.
    rewrite (Permutation_app_swap_app (refs t) (flat_map hrefs (st_handles (consume G h)))).
    apply Permutation_app_head. apply Permutation_app_swap_app. }
  assert (Hrt : Forall (ref_ok (st_store G)) (refs t)).
  { rewrite Forall_forall in W2. apply Forall_forall. intros r Hr. apply W2.
    unfold all_refs. apply in_or_app. left.
    eapply Permutation_in; [apply Permutation_sym; apply (consume_perm G h t Hl)|]. apply in_or_app. left. exact Hr. }
  destruct (all_refs_perm_wf G G' (map (RC p) (seq 0 n)) HW HP) as [N1 N2].
  - apply NoDup_map_inj; [intros a b E; inversion E; auto | apply seq_NoDup].
  - intros r Hin. apply in_map_iff in Hin. destruct Hin as (i & <- & _). simpl. intros (P & HPn & _).
    assert (p < List.length (parents (st_store G))) by (apply nth_error_Some; congruence). unfold p in *. lia.
  - apply ext_add_parent.
  - apply Forall_forall. intros r Hin. apply in_map_iff in Hin. destruct Hin as (i & <- & Hi). apply in_seq in Hi.
    simpl. exists (new_parent t n). split.
    + rewrite nth_error_app2 by (unfold p; lia). unfold p. rewrite Nat.sub_diag. reflexivity.
    + rewrite new_parent_cur_len. lia.
  - repeat split; auto.
    + (* acyclic *) intros q Q HQ. simpl in HQ.
      destruct (Nat.lt_ge_cases q p) as [Hlt|Hge].
      * rewrite nth_error_app1 in HQ by exact Hlt. eapply W3; eauto.
      * rewrite nth_error_app2 in HQ by exact Hge. fold p in HQ.
        destruct (q - p) as [|k] eqn:Ek; simpl in HQ; [|destruct k; discriminate].
        inversion HQ; subst Q. simpl. assert (q = p) by lia. subst q.
        eapply Forall_impl; [|exact Hrt]. intros [s|q0 i0]; simpl; auto. intros (P0 & HP0 & _).
        apply nth_error_Some. congruence.
Qed.

(* ------------------------------------------------------------------ merge *)

Lemma live_rd_consume_other : forall G h h', h <> h' -> live_rd (consume G h) h' = live_rd G h'.
Proof.
  intros G h h' Hn. unfold live_rd, consume. destruct (nth_error (st_handles G) h) as [H|] eqn:E; auto.
  simpl. rewrite nth_error_upd_neq by exact Hn. reflexivity.
Qed.

Lemma live_rds_consume_other : forall r G h,
  ~ In h r -> live_rds (consume G h) r = live_rds G r.
Proof.
  induction r as [|h' r IH]; intros G h Hn; simpl; auto.
  rewrite live_rd_consume_other by (intros E; apply Hn; left; auto).
  rewrite IH by (intros E; apply Hn; right; auto). reflexivity.
Qed.

Lemma existsb_eqb_In : forall x l, existsb (Nat.eqb x) l = true <-> In x l.
Proof.
  intros x l. rewrite existsb_exists. split.
  - intros (y & Hy & E). apply Nat.eqb_eq in E. subst. exact Hy.
  - intros H. exists x. split; auto. apply Nat.eqb_refl.
Qed.

Lemma nodupb_cons : forall x r, nodupb (x :: r) = true -> ~ In x r /\ nodupb r = true.
Proof.
  intros x r H. simpl in H. apply andb_prop in H. destruct H as [H1 H2]. split; auto.
  intros Hin. apply existsb_eqb_In in Hin. rewrite Hin in H1. discriminate.
Qed.

Lemma consume_all_perm : forall hs G ts,
  nodupb hs = true -> live_rds G hs = Some ts ->
  Permutation (flat_map hrefs (st_handles G))
              (flat_map refs ts ++ flat_map hrefs (st_handles (consume_all G hs))).
Proof.
  induction hs as [|h r IH]; intros G ts Hnd Hl; simpl in *.
  - inversion Hl; subst. simpl. reflexivity.
  - destruct (live_rd G h) as [t|] eqn:E; [|discriminate].
    destruct (live_rds G r) as [ts'|] eqn:E'; [|discriminate]. inversion Hl; subst ts. clear Hl.
    destruct (nodupb_cons _ _ Hnd) as [Hni Hnd'].
    rewrite (consume_perm G h t E). simpl. rewrite <- app_assoc. apply Permutation_app_head.
    apply IH; auto. rewrite live_rds_consume_other; auto.
Qed.

Lemma frefs_app : forall a b, frefs (a ++ b) = frefs a ++ frefs b.
Proof. intros. unfold frefs. apply flat_map_app. Qed.

Lemma seq_snoc : forall a k, seq a (S k) = seq a k ++ [a + k].
Proof. intros a k. rewrite seq_S. reflexivity. Qed.

(* the loop of MergeStreamReaders: references are moved, fresh streams are appended *)
Lemma merge_collect_spec : forall ts st fw ss arr st' fw' ss' arr',
  merge_collect st fw ts ss arr = (st', fw', ss', arr') ->
  parents st' = parents st
  /\ exists k,
       streams st' = streams st ++ repeat (new_stream 5 false) k
       /\ map f_dst fw' = map f_dst fw ++ seq (List.length (streams st)) k
       /\ Permutation (map RS ss' ++ frefs fw')
                      (map RS ss ++ frefs fw ++ flat_map refs ts ++ map RS (seq (List.length (streams st)) k)).
Proof.
  induction ts as [|t r IH]; intros st fw ss arr st' fw' ss' arr' H; simpl in H.
  - inversion H; subst. split; auto. exists 0. simpl. rewrite !app_nil_r. repeat split; auto.
  - assert (Hfwd : forall t0, refs t0 = refs t -> 
              merge_collect (add_stream st (new_stream 5 false)) (fw ++ [mkF t0 (List.length (streams st)) FRecv false]) r
                            (ss ++ [List.length (streams st)]) arr = (st', fw', ss', arr') ->
              parents st' = parents st /\
              exists k, streams st' = streams st ++ repeat (new_stream 5 false) k
                /\ map f_dst fw' = map f_dst fw ++ seq (List.length (streams st)) k
                /\ Permutation (map RS ss' ++ frefs fw')
                     (map RS ss ++ frefs fw ++ (refs t ++ flat_map refs r) ++ map RS (seq (List.length (streams st)) k))).
    { intros t0 Ht0 H0. destruct (IH _ _ _ _ _ _ _ _ H0) as (P1 & k & S1 & D1 & Pm). split; [exact P1|].
      exists (S k). simpl in S1. rewrite <- app_assoc in S1. simpl in S1.
      split; [exact S1|]. simpl in D1. rewrite app_length in D1. simpl in D1.
      rewrite map_app in D1. simpl in D1. rewrite <- app_assoc in D1. simpl in D1.
      replace (List.length (streams st) + 1) with (S (List.length (streams st))) in D1 by lia.
      split; [exact D1|].
      rewrite Pm. simpl. rewrite app_length. simpl.
      replace (List.length (streams st) + 1) with (S (List.length (streams st))) by lia.
      rewrite map_app. simpl. rewrite frefs_app. unfold frefs at 2. simpl. rewrite app_nil_r. rewrite Ht0.
      rewrite <- !app_assoc. apply Permutation_app_head. simpl.
      (* RS n :: frefs fw ++ refs t ++ R ++ S  ~  frefs fw ++ refs t ++ R ++ RS n :: S *)
      rewrite !app_assoc. apply Permutation_middle. }
    destruct t as [d rest | s | sts ch | f src cin cout | p i].
    + destruct (IH _ _ _ _ _ _ _ _ H) as (P1 & k & S1 & D1 & Pm). split; auto. exists k. repeat split; auto.
    + destruct (IH _ _ _ _ _ _ _ _ H) as (P1 & k & S1 & D1 & Pm). split; auto. exists k. repeat split; auto.
      rewrite Pm. rewrite map_app. simpl. rewrite <- !app_assoc. apply Permutation_app_head. simpl.
      apply Permutation_middle.
    + destruct (IH _ _ _ _ _ _ _ _ H) as (P1 & k & S1 & D1 & Pm). split; auto. exists k. repeat split; auto.
      rewrite Pm. rewrite map_app. simpl. rewrite <- !app_assoc. apply Permutation_app_head.
      apply Permutation_app_swap_app.
    + apply Hfwd in H; auto.
    + apply Hfwd in H; auto.
Qed.

Lemma ref_eq_dec : forall a b : ref, {a = b} + {a <> b}.
Proof. decide equality; apply Nat.eq_dec. Qed.

(* Permutation goals between concatenations of the same blocks: by counting occurrences *)
Ltac perm_count :=
  apply (Permutation_count_occ ref_eq_dec); intros ?x;
  repeat match goal with
         | H : Permutation _ _ |- _ =>
             let E := fresh "E" in
             pose proof (proj1 (Permutation_count_occ ref_eq_dec _ _) H x) as E; clear H
         end;
  repeat rewrite count_occ_app in *; lia.

Lemma consume_all_handles_len : forall hs G, List.length (st_handles (consume_all G hs)) = List.length (st_handles G).
Proof.
  induction hs as [|a l IH]; intros G; simpl; auto. rewrite IH. unfold consume.
  destruct (nth_error (st_handles G) a); simpl; auto. apply upd_length.
Qed.

Lemma wf_merge_gen : forall G hs ts st1 fw1 ss arr st2 newrefs rdnew,
  wf G -> nodupb hs = true -> live_rds G hs = Some ts ->
  merge_collect (st_store G) (st_fwds G) ts [] [] = (st1, fw1, ss, arr) ->
  refs rdnew = map RS ss ++ newrefs ->
  ext st1 st2 -> parents st2 = parents st1 ->
  NoDup newrefs -> (forall r, In r newrefs -> ~ ref_ok st1 r /\ ref_ok st2 r) ->
  wf (mkState st2 fw1 (st_handles (consume_all G hs) ++ [mkH rdnew true false [] false])).
Proof.
  intros G hs ts st1 fw1 ss arr st2 newrefs rdnew HW Hnd Hl Hm Hrd He Hpar Hnn Hnew.
  pose proof HW as (W1 & W2 & W3 & W4 & W5).
  destruct (merge_collect_spec _ _ _ _ _ _ _ _ _ Hm) as (P1 & k & S1 & D1 & Pm).
  pose proof (consume_all_perm hs G ts Hnd Hl) as Pc.
  set (n0 := List.length (streams (st_store G))) in *.
  set (G' := mkState _ _ _).
  assert (E01 : ext (st_store G) st1).
  { split.
    - intros sid d Hd. exists d. split; auto. rewrite S1. rewrite nth_error_app1; auto. apply nth_error_Some. congruence.
    - intros p P HP. exists P. split; auto. rewrite P1. exact HP. }
  assert (Hpre : prefs st2 = prefs (st_store G)) by (unfold prefs; rewrite Hpar, P1; reflexivity).
  assert (HP : Permutation (all_refs G') ((newrefs ++ map RS (seq n0 k)) ++ all_refs G)).
  { unfold all_refs, G'; simpl. rewrite flat_map_app. simpl. unfold hrefs at 2. simpl. rewrite app_nil_r.
    rewrite Hrd. rewrite Hpre. simpl in Pm. perm_count. }
  assert (Hfresh1 : forall r, In r (map RS (seq n0 k)) -> ~ ref_ok (st_store G) r /\ ref_ok st1 r).
  { intros r Hin. apply in_map_iff in Hin. destruct Hin as (s & <- & Hs). apply in_seq in Hs. simpl. split; [unfold n0 in *; lia|].
    rewrite S1, app_length, repeat_length. unfold n0 in *. lia. }
  destruct (all_refs_perm_wf G G' (newrefs ++ map RS (seq n0 k)) HW HP) as [N1 N2].
  - apply NoDup_app_intro; auto.
    + apply NoDup_map_inj; [intros a b E; inversion E; auto | apply seq_NoDup].
    + intros r Hr Hr2. destruct (Hnew r Hr) as [A _]. destruct (Hfresh1 r Hr2) as [_ B]. contradiction.
  - intros r Hin. apply in_app_or in Hin. destruct Hin as [Hin|Hin].
    + destruct (Hnew r Hin) as [A _]. intros Hok. apply A. eapply ref_ok_ext; eauto.
    + apply (Hfresh1 r Hin).
  - simpl. eapply ext_trans; eauto.
  - apply Forall_app. split.
    + apply Forall_forall. intros r Hr. apply (Hnew r Hr).
    + apply Forall_forall. intros r Hr. simpl. eapply ref_ok_ext; [exact He|]. apply (Hfresh1 r Hr).
  - repeat split; auto.
    + (* acyclic *) intros p P HP0. simpl in HP0. rewrite Hpar, P1 in HP0. eapply W3; eauto.
    + (* fwd_ok *) simpl. apply Forall_forall. intros F HF.
      assert (Hd : In (f_dst F) (map f_dst fw1)) by (apply in_map; exact HF).
      rewrite D1 in Hd. apply in_app_or in Hd. destruct Hd as [Hd|Hd].
      * apply in_map_iff in Hd. destruct Hd as (F0 & E0 & HF0). rewrite Forall_forall in W4.
        destruct (W4 F0 HF0) as (d & Hdn & Hu). rewrite E0 in Hdn.
        destruct (ext_trans _ _ _ E01 He) as [X _]. destruct (X _ _ Hdn) as (d' & Hd' & Hu'). exists d'. split; auto. congruence.
      * apply in_seq in Hd. fold n0 in Hd.
        assert (Hn1 : nth_error (streams st1) (f_dst F) = Some (new_stream 5 false)).
        { rewrite S1. fold n0. rewrite nth_error_app2 by lia.
          apply nth_error_repeat. lia. }
        destruct He as [X _]. destruct (X _ _ Hn1) as (d' & Hd' & Hu'). exists d'. split; auto.
    + (* dst NoDup *) simpl. rewrite D1. apply NoDup_app_intro; auto; [apply seq_NoDup|].
      intros s Hs Hs2. apply in_seq in Hs2. apply in_map_iff in Hs. destruct Hs as (F0 & E0 & HF0).
      rewrite Forall_forall in W4. destruct (W4 F0 HF0) as (d & Hdn & _).
      assert (f_dst F0 < n0) by (apply nth_error_Some; congruence). lia.
Qed.

(* ------------------------------------------------------------------ every step keeps wf *)

Lemma acyclic_ext_same_parents : forall st st', parents st' = parents st -> acyclic st -> acyclic st'.
Proof. intros st st' E H p P HP. rewrite E in HP. eapply H; eauto. Qed.

Lemma do_op_wf : forall fuel G o b G', do_op fuel G o = (b, G') -> wf G -> wf G'.
Proof.
  intros fuel G o b G' H HW.
  destruct o as [cap | xs | h n | hs | h f | sid x | sid | h ch | h | k ch]; simpl in H.
  - inversion H; subst. apply wf_pipe. exact HW.
  - inversion H; subst. apply wf_array. exact HW.
  - (* OCopy *)
    destruct (live_rd G h) as [t|] eqn:El; [|inversion H; subst; auto].
    destruct (Nat.ltb n 2); [inversion H; subst; auto|].
    destruct t; inversion H; subst; clear H;
      try (apply (wf_copy G h _ n HW El)).
    eapply wf_copy_arr; eauto.
  - (* OMerge *)
    destruct hs as [|h0 [|h1 hs']]; [inversion H; subst; auto| |].
    { destruct (live_rd G h0); inversion H; subst; auto. }
    destruct (nodupb (h0 :: h1 :: hs')) eqn:End; cbn [negb] in H; [|inversion H; subst; auto].
    destruct (live_rds G (h0 :: h1 :: hs')) as [ts|] eqn:El; [|inversion H; subst; auto].
    rewrite consume_all_store, consume_all_fwds in H.
    destruct (merge_collect _ _ ts [] []) as [[[st1 fw1] ss] arr] eqn:Em.
    destruct ss as [|s0 ss']; destruct arr as [|a0 arr']; inversion H; subst; clear H.
    + eapply (wf_merge_gen G (h0 :: h1 :: hs') ts st1 fw1 [] [] st1 [] (RMul [] (seq 0 0))); eauto;
        try apply ext_refl; try (constructor; fail); try (intros r []; fail).
    + eapply (wf_merge_gen G (h0 :: h1 :: hs') ts st1 fw1 [] (a0 :: arr') st1 [] (RArr [] (a0 :: arr'))); eauto;
        try apply ext_refl; try (constructor; fail); try (intros r []; fail).
    + eapply (wf_merge_gen G (h0 :: h1 :: hs') ts st1 fw1 (s0 :: ss') [] st1 []); eauto;
        try apply ext_refl; try (constructor; fail); try (intros r []; fail).
      cbn [refs]. rewrite app_nil_r. reflexivity.
    + eapply (wf_merge_gen G (h0 :: h1 :: hs') ts st1 fw1 (s0 :: ss') (a0 :: arr') (add_stream st1 (array_stream (a0 :: arr')))
                           [RS (List.length (streams st1))]); eauto.
      * cbn [refs]. simpl. rewrite map_app. reflexivity.
      * apply ext_add_stream.
      * repeat constructor. intros [].
      * intros r [<-|[]]. simpl. rewrite app_length. simpl. lia.
  - (* OConv *)
    destruct (live_rd G h) as [t|] eqn:El; [|inversion H; subst; auto].
    inversion H; subst. apply wf_conv; auto.
  - (* OSend *)
    destruct (nth_error (streams (st_store G)) sid) as [s|] eqn:Es; [|inversion H; subst; auto].
    destruct (negb (s_user s)); [inversion H; subst; auto|].
    destruct (stream_send s x) as [r s'] eqn:E. inversion H; subst.
    eapply wf_set_stream; eauto. eapply stream_send_user; eauto.
  - (* OCloseSend *)
    destruct (nth_error (streams (st_store G)) sid) as [s|] eqn:Es; [|inversion H; subst; auto].
    destruct (negb (s_user s)); [inversion H; subst; auto|].
    destruct (stream_close_send s) as [r s'] eqn:E. inversion H; subst.
    eapply wf_set_stream; eauto. eapply stream_close_send_user; eauto.
  - (* ORecv *)
    destruct (nth_error (st_handles G) h) as [Hh|] eqn:Eh; [|inversion H; subst; auto].
    destruct (h_live Hh) eqn:Elv; cbn [negb] in H; [|inversion H; subst; auto].
    destruct (recv fuel (st_store G) (h_rd Hh) ch) as [[[r st1] t1] ch1] eqn:Er.
    inversion H; subst. eapply wf_recv_handle; eauto. eapply recv_Recv; eauto.
  - (* OClose *)
    destruct (nth_error (st_handles G) h) as [Hh|] eqn:Eh; [|inversion H; subst; auto].
    destruct (h_live Hh) eqn:Elv; cbn [negb] in H; [|inversion H; subst; auto].
    destruct (close_rd fuel (st_store G) (h_rd Hh)) as [r st1] eqn:Er.
    inversion H; subst. eapply wf_close_handle; eauto. eapply close_Close; eauto.
  - (* OFwd *)
    destruct (nth_error (st_fwds G) k) as [F|] eqn:EF; [|inversion H; subst; auto].
    pose proof HW as (W1 & W2 & W3 & W4 & W5).
    assert (HFok : fwd_ok (st_store G) F) by (eapply Forall_nth_error in EF; eauto).
    destruct (f_st F) as [|x| |].
    + destruct (recv fuel (st_store G) (f_src F) ch) as [[[r st1] src1] ch1] eqn:Er.
      apply recv_Recv in Er. destruct (Recv_static _ _ _ _ _ Er) as [SR Ht].
      destruct r.
      * inversion H; subst. eapply wf_fwd_step; eauto.
        -- apply store_rel_ext; auto. -- apply prefs_store_rel; auto. -- eapply acyclic_store_rel; eauto.
      * destruct (nth_error (streams st1) (f_dst F)) as [d|] eqn:Ed; [|inversion H; subst; auto].
        destruct (stream_close_send d) as [r0 d'] eqn:Ec. inversion H; subst.
        eapply wf_fwd_step; eauto.
        -- eapply ext_trans; [apply store_rel_ext; eauto|]. eapply ext_set_stream; eauto. eapply stream_close_send_user; eauto.
        -- simpl. unfold prefs. simpl. apply prefs_store_rel; auto.
        -- apply acyclic_set_stream. eapply acyclic_store_rel; eauto.
      * inversion H; subst. eapply wf_fwd_step; eauto.
        -- apply store_rel_ext; auto. -- apply prefs_store_rel; auto. -- eapply acyclic_store_rel; eauto.
      * inversion H; subst. eapply wf_fwd_step; eauto.
        -- apply store_rel_ext; auto. -- apply prefs_store_rel; auto. -- eapply acyclic_store_rel; eauto.
      * inversion H; subst. eapply wf_fwd_step; eauto.
        -- apply store_rel_ext; auto. -- apply prefs_store_rel; auto. -- eapply acyclic_store_rel; eauto.
    + destruct (nth_error (streams (st_store G)) (f_dst F)) as [d|] eqn:Ed; [|inversion H; subst; auto].
      destruct (stream_send d x) as [r d'] eqn:Es.
      destruct r; try (inversion H; subst; auto; fail).
      * inversion H; subst. eapply wf_fwd_step; eauto.
        eapply ext_set_stream; eauto. eapply stream_send_user; eauto.
      * destruct (stream_close_send d) as [r0 d''] eqn:Ec. inversion H; subst.
        eapply wf_fwd_step; eauto. eapply ext_set_stream; eauto. eapply stream_close_send_user; eauto.
    + destruct (close_rd fuel (st_store G) (f_src F)) as [r st1] eqn:Er.
      apply close_Close in Er. pose proof (Close_static _ _ _ _ Er) as SR.
      inversion H; subst. eapply wf_fwd_step; eauto.
      -- apply cstore_rel_ext; auto. -- apply prefs_cstore_rel; auto. -- eapply acyclic_cstore_rel; eauto.
    + inversion H; subst; auto.
Qed.

Lemma run_wf : forall fuel ops G bs G', run fuel G ops = (bs, G') -> wf G -> wf G'.
Proof.
  intros fuel. induction ops as [|o r IH]; intros G bs G' H HG; simpl in H.
  - inversion H; subst; auto.
  - destruct (do_op fuel G o) as [b G1] eqn:E1. destruct (run fuel G1 r) as [bs2 G2] eqn:E2.
    inversion H; subst. eapply IH; eauto. eapply do_op_wf; eauto.
Qed.

Lemma reachable_wf : forall fuel ops bs G, run fuel init_state ops = (bs, G) -> wf G.
Proof. intros. eapply run_wf; eauto. apply init_wf. Qed.
