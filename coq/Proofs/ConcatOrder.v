(* Proofs/ConcatOrder.v — determinism: the result of chunk concatenation does not depend
   on the order in which Go iterates over its maps (Model/ConcatOrder.v), nor on the order
   in which the association lists that stand for Go maps are written down. *)
From Eino Require Import Base.Util Model.ConcatTable Model.Concat Model.ConcatMsg Model.ConcatOrder.
From Eino Require Import Proofs.Concat Proofs.ConcatRechunk Proofs.ConcatMsg.
From Coq Require Import Sorting.Permutation Sorting.Sorted.

Section User.
Context {U : UserFn} {L : UserLaw}.

(* ------------------------------------------------------------------ ceq *)

Lemma ceq_is_nil a b : ceq a b -> is_nil a = is_nil b.
Proof. destruct 1; reflexivity. Qed.

Lemma ceq_is_zero a b : ceq a b -> is_zero a = is_zero b.
Proof. destruct 1; reflexivity. Qed.

Lemma ceq_dyn_ty a b : ceq a b -> dyn_ty a = dyn_ty b.
Proof. destruct 1; reflexivity. Qed.

Lemma ceq_refl_n n : forall v, depth v < n -> ceq v v.
Proof.
  induction n as [|n IH]; intros v H; [lia|].
  destruct v as [s|k z| |t p|mt m]; constructor.
  - tauto.
  - intros k v v' H1 H2. rewrite H1 in H2. inversion H2; subst v'.
    apply IH. apply (depth_alist_get mt) in H1. lia.
Qed.

Lemma ceq_refl v : ceq v v.
Proof. apply (ceq_refl_n (S (depth v))). lia. Qed.

Lemma ceq_sym a b : ceq a b -> ceq b a.
Proof.
  induction 1 as [| | | |mt m m' Hn Hv IH]; constructor.
  - intros k. symmetry. apply Hn.
  - intros k v v' H1 H2. apply (IH k v' v); assumption.
Qed.

Lemma ceq_trans a b : ceq a b -> forall c, ceq b c -> ceq a c.
Proof.
  induction 1 as [| | | |mt m m' Hn Hv IH]; intros c Hc; try exact Hc.
  inversion Hc as [| | | |mt' m1 m'' Hn' Hv']; subst. constructor.
  - intros k. rewrite Hn. apply Hn'.
  - intros k v v'' H1 H2.
    destruct (alist_get k m') as [v'|] eqn:E.
    + apply (IH k v v' H1 E). apply (Hv' k v' v'' E H2).
    + apply Hn in E. congruence.
Qed.

Lemma ceq_map_meq mt m m' : ceq (CMap mt m) (CMap mt m') <-> meq m m'.
Proof.
  unfold meq. split; intros H; inversion H; subst; constructor; assumption.
Qed.

Lemma meq_nonempty m m' : meq m m' -> nonempty_map m = nonempty_map m'.
Proof.
  intros H. inversion H as [| | | |mt a b Hn _]; subst.
  destruct m as [|[k v] m], m' as [|[k' v'] m']; cbn; try reflexivity.
  - specialize (Hn k'). cbn in Hn. rewrite String.eqb_refl in Hn. destruct Hn as [Hn _]. specialize (Hn eq_refl). discriminate.
  - specialize (Hn k). cbn in Hn. rewrite String.eqb_refl in Hn. destruct Hn as [_ Hn]. specialize (Hn eq_refl). discriminate.
Qed.

Lemma In_fst_exists {A} k (m : list (string * A)) : In k (map fst m) -> exists x, In (k, x) m.
Proof. intros H. apply in_map_iff in H. destruct H as [[k' x] [E H]]. cbn in E. subst. eauto. Qed.

Lemma alist_get_in_fst {A} k (m : list (string * A)) : alist_get k m <> None -> In k (map fst m).
Proof.
  induction m as [|[k' v] m IH]; cbn; [congruence|].
  destruct (String.eqb k k') eqn:E; [apply String.eqb_eq in E; auto|]. intros H. right. apply IH, H.
Qed.

Lemma ceqb_sound n : forall a b, ceqb n a b = true -> ceq a b.
Proof.
  induction n as [|n IH]; intros a b H; [discriminate|].
  destruct a as [s|k z| |t p|mt m], b as [s'|k' z'| |t' p'|mt' m']; cbn in H; try discriminate.
  - apply String.eqb_eq in H. subst. constructor.
  - apply andb_true_iff in H. destruct H as [H1 H2]. apply N.eqb_eq in H1. apply Z.eqb_eq in H2. subst. constructor.
  - constructor.
  - apply andb_true_iff in H. destruct H as [H1 H2]. apply N.eqb_eq in H1, H2. subst. constructor.
  - apply andb_true_iff in H. destruct H as [H H3]. apply andb_true_iff in H. destruct H as [H1 H2].
    apply N.eqb_eq in H1. subst mt'.
    rewrite forallb_forall in H2, H3.
    assert (K1 : forall k, In k (map fst m) -> exists v v', alist_get k m = Some v /\ alist_get k m' = Some v' /\ ceqb n v v' = true).
    { intros k Hk. apply In_fst_exists in Hk. destruct Hk as [x Hx]. specialize (H2 _ Hx). cbn [fst] in H2.
      destruct (alist_get k m) as [v|]; [|discriminate]. destruct (alist_get k m') as [v'|]; [|discriminate]. eauto. }
    assert (K2 : forall k, In k (map fst m') -> alist_get k m <> None).
    { intros k Hk. apply In_fst_exists in Hk. destruct Hk as [x Hx]. specialize (H3 _ Hx). cbn [fst] in H3.
      destruct (alist_get k m); [discriminate|discriminate]. }
    constructor.
    + intros k. split; intros N.
      * destruct (alist_get k m') eqn:E; [|reflexivity]. exfalso. apply (K2 k); [|exact N].
        apply alist_get_in_fst. congruence.
      * destruct (alist_get k m) eqn:E; [|reflexivity]. exfalso.
        destruct (K1 k) as [v [v' [_ [E' _]]]]; [apply alist_get_in_fst; congruence|]. congruence.
    + intros k v v' E E'. destruct (K1 k) as [w [w' [W [W' HW]]]]; [apply alist_get_in_fst; congruence|].
      rewrite E in W. rewrite E' in W'. inversion W; inversion W'; subst. apply IH, HW.
Qed.

(* ------------------------------------------------------------------ lists of values *)

Lemma F2_filter {A} (R : A -> A -> Prop) (p : A -> bool) l l' :
  (forall a b, R a b -> p a = p b) -> Forall2 R l l' -> Forall2 R (filter p l) (filter p l').
Proof.
  intros Hp. induction 1 as [|a b l l' Hab _ IH]; cbn; [constructor|].
  rewrite (Hp a b Hab). destruct (p b); [constructor|]; assumption.
Qed.

Lemma F2_last {A} (R : A -> A -> Prop) l l' d d' : R d d' -> Forall2 R l l' -> R (last l d) (last l' d').
Proof.
  intros Hd. induction 1 as [|a b l l' Hab H IH]; cbn; [exact Hd|].
  destruct H; [exact Hab|]. exact IH.
Qed.

Lemma F2_In_l {A B} (R : A -> B -> Prop) l l' a : Forall2 R l l' -> In a l -> exists b, In b l' /\ R a b.
Proof.
  induction 1 as [|x y l l' Hxy _ IH]; cbn; [contradiction|].
  intros [->|Hin]; [exists y; auto|]. destruct (IH Hin) as [b [Hb Rb]]. exists b. auto.
Qed.

Lemma F2_In_r {A B} (R : A -> B -> Prop) l l' b : Forall2 R l l' -> In b l' -> exists a, In a l /\ R a b.
Proof.
  induction 1 as [|x y l l' Hxy _ IH]; cbn; [contradiction|].
  intros [->|Hin]; [exists x; auto|]. destruct (IH Hin) as [a [Ha Ra]]. exists a. auto.
Qed.

Lemma F2_strs vs vs' : Forall2 ceq vs vs' -> strs vs = strs vs'.
Proof.
  unfold strs. induction 1 as [|a b l l' Hab _ IH]; cbn; [reflexivity|].
  rewrite IH. destruct Hab; reflexivity.
Qed.

Lemma F2_payloads vs vs' : Forall2 ceq vs vs' -> payloads vs = payloads vs'.
Proof.
  unfold payloads. induction 1 as [|a b l l' Hab _ IH]; cbn; [reflexivity|].
  rewrite IH. destruct Hab; reflexivity.
Qed.

Lemma F2_maps vs vs' : Forall2 ceq vs vs' -> Forall2 meq (maps vs) (maps vs').
Proof.
  unfold maps. induction 1 as [|a b l l' Hab _ IH]; cbn; [constructor|].
  destruct Hab; cbn; try exact IH. constructor; [|exact IH].
  apply (ceq_map_meq mt). constructor; assumption.
Qed.

Lemma F2_same_types t vs vs' : Forall2 ceq vs vs' -> same_types t vs = same_types t vs'.
Proof.
  unfold same_types. induction 1 as [|a b l l' Hab _ IH]; cbn; [reflexivity|].
  rewrite IH, (ceq_dyn_ty a b Hab). reflexivity.
Qed.

Lemma single_nonzero_cong z vs vs' :
  Forall2 ceq vs vs' -> rrel ceq (single_nonzero z vs) (single_nonzero z vs').
Proof.
  intros H. unfold single_nonzero.
  pose proof (F2_filter ceq (fun v => negb (is_zero v)) vs vs'
                (fun a b Hab => f_equal negb (ceq_is_zero a b Hab)) H) as F.
  destruct F as [|a b l l' Hab F]; cbn; [apply ceq_refl|].
  destruct F; cbn; [exact Hab|exact I].
Qed.

(* ------------------------------------------------------------------ concat_typed, concat_key *)

Lemma rrel_res_map_CMap mt r r' : rrel meq r r' -> rrel ceq (res_map (CMap mt) r) (res_map (CMap mt) r').
Proof. destruct r, r'; cbn; auto. apply ceq_map_meq. Qed.

Lemma concat_typed_cong f g t vs vs' :
  Forall2 ceq vs vs' ->
  (forall mt, t = TMap mt -> rrel meq (f (maps vs)) (g (maps vs'))) ->
  rrel ceq (concat_typed f t vs) (concat_typed g t vs').
Proof.
  intros H Hm. unfold concat_typed.
  destruct t as [|k|tag|mt].
  - destruct H as [|a b l l' Hab H]; [|destruct H as [|a2 b2 l l' Hab2 H]]; [| exact Hab |].
    + rewrite registered_str. cbn. constructor.
    + rewrite registered_str. cbn [rrel].
      rewrite (F2_strs (a :: a2 :: l) (b :: b2 :: l')) by (repeat constructor; assumption). constructor.
  - destruct H as [|a b l l' Hab H]; [|destruct H as [|a2 b2 l l' Hab2 H]]; [| exact Hab |].
    + rewrite registered_num. cbn. constructor.
    + rewrite registered_num. cbn [rrel]. apply F2_last; [constructor|]. repeat constructor; assumption.
  - destruct H as [|a b l l' Hab H]; [|destruct H as [|a2 b2 l l' Hab2 H]]; [| exact Hab |].
    + cbn [registered user_registered]. destruct (ufn tag) as [ug|]; [|apply single_nonzero_cong; constructor].
      cbn [payloads flat_map]. destruct (ug []); cbn; auto. constructor.
    + cbn [registered user_registered].
      destruct (ufn tag) as [ug|]; [|apply single_nonzero_cong; repeat constructor; assumption].
      rewrite (F2_payloads (a :: a2 :: l) (b :: b2 :: l')) by (repeat constructor; assumption).
      destruct (ug _); cbn; auto. constructor.
  - apply rrel_res_map_CMap. apply (Hm mt eq_refl).
Qed.

Lemma concat_key_cong n f g vs vs' :
  (forall xs xs', bounded n xs -> xs <> [] -> Forall2 meq xs xs' -> rrel meq (f xs) (g xs')) ->
  vbounded n vs -> Forall2 ceq vs vs' ->
  rrel ceq (concat_key f vs) (concat_key g vs').
Proof.
  intros Hfg B H. unfold concat_key.
  pose proof (F2_filter ceq (fun v => negb (is_nil v)) vs vs'
                (fun a b Hab => f_equal negb (ceq_is_nil a b Hab)) H) as F.
  pose proof (vbounded_filter n (fun v => negb (is_nil v)) vs B) as BF.
  destruct F as [|v0 v0' rest rest' H0 F]; [constructor|].
  rewrite <- (ceq_dyn_ty v0 v0' H0).
  destruct (dyn_ty v0) as [t|] eqn:Et; [|exact I].
  rewrite <- (F2_same_types t rest rest' F).
  destruct (same_types t rest); [|exact I].
  apply concat_typed_cong; [constructor; assumption|].
  intros mt ->. apply Hfg.
  - apply maps_bounded. exact BF.
  - destruct v0; cbn in Et; discriminate.
  - apply F2_maps. constructor; assumption.
Qed.

(* ------------------------------------------------------------------ keys and values per key *)

Lemma alist_get_In_fst {A} k (m : list (string * A)) : alist_get k m <> None <-> In k (map fst m).
Proof.
  induction m as [|[k' v] m IH]; cbn; [tauto|].
  destruct (String.eqb k k') eqn:E.
  - apply String.eqb_eq in E. subst. split; [auto|discriminate].
  - apply String.eqb_neq in E. rewrite IH. split; [auto|]. intros [->|H]; [congruence|exact H].
Qed.

Lemma meq_keys m m' : meq m m' -> forall k, In k (map fst m) <-> In k (map fst m').
Proof.
  intros H k. inversion H as [| | | |mt a b Hn _]; subst.
  rewrite <- !alist_get_In_fst. specialize (Hn k). tauto.
Qed.

Lemma keys_of_meq ms ms' : Forall2 meq ms ms' -> forall k, In k (keys_of ms) <-> In k (keys_of ms').
Proof.
  intros H k. rewrite !keys_of_In. split.
  - intros [m [Hm Hk]]. destruct (F2_In_l _ _ _ _ H Hm) as [m' [Hm' R]].
    exists m'. split; [exact Hm'|]. apply (meq_keys m m' R), Hk.
  - intros [m' [Hm' Hk]]. destruct (F2_In_r _ _ _ _ H Hm') as [m [Hm R]].
    exists m. split; [exact Hm|]. apply (meq_keys m m' R), Hk.
Qed.

Lemma vals_at_meq k ms ms' : Forall2 meq ms ms' -> Forall2 ceq (vals_at k ms) (vals_at k ms').
Proof.
  unfold vals_at. induction 1 as [|m m' l l' Hm _ IH]; cbn; [constructor|].
  apply Forall2_app; [|exact IH].
  inversion Hm as [| | | |mt a b Hn Hv]; subst.
  destruct (alist_get k m) as [v|] eqn:E, (alist_get k m') as [v'|] eqn:E'.
  - constructor; [|constructor]. apply (Hv k); assumption.
  - apply Hn in E'. congruence.
  - apply Hn in E. congruence.
  - constructor.
Qed.

(* ------------------------------------------------------------------ the key loop in any order *)

Lemma res_mapM_all_ok {A B} (f : A -> res B) l :
  (forall a, In a l -> exists b, f a = Ok b) -> exists c, res_mapM f l = Ok c.
Proof.
  induction l as [|a l IH]; intros H; cbn; [eexists; reflexivity|].
  destruct (H a) as [b Hb]; [now left|]. rewrite Hb. cbn.
  destruct IH as [c Hc]; [intros; apply H; now right|]. rewrite Hc. cbn. eexists; reflexivity.
Qed.

Lemma mapM_keys_rel (F G : string -> res cval) K K' :
  (forall k, In k K <-> In k K') ->
  (forall k, In k K -> rrel ceq (F k) (G k)) ->
  (forall k, F k <> Panic) -> (forall k, G k <> Panic) ->
  rrel meq (res_mapM (fun k => res_map (fun v => (k, v)) (F k)) K)
           (res_mapM (fun k => res_map (fun v => (k, v)) (G k)) K').
Proof.
  intros HK HR PF PG.
  assert (NP : forall (H : string -> res cval) KL, (forall k, H k <> Panic) ->
               res_mapM (fun k => res_map (fun v => (k, v)) (H k)) KL <> Panic).
  { intros H KL PH. apply res_mapM_no_panic. intros k _. specialize (PH k). destruct (H k); cbn; congruence. }
  destruct (res_mapM _ K) as [c|e|] eqn:Ec.
  - destruct (mapM_pairs_inv F K c Ec) as [Hfst Hget].
    destruct (res_mapM_all_ok (fun k => res_map (fun v => (k, v)) (G k)) K') as [c' Ec'].
    { intros k Hk. apply HK in Hk. destruct (Hget k Hk) as [v [Hv _]].
      pose proof (HR k Hk) as R. rewrite Hv in R. destruct (G k) as [v'| |]; cbn in R; try contradiction.
      eexists; reflexivity. }
    rewrite Ec'. destruct (mapM_pairs_inv G K' c' Ec') as [Hfst' Hget'].
    cbn [rrel]. constructor.
    + intros k. split; intros N.
      * destruct (alist_get k c') eqn:E'; [|reflexivity]. exfalso.
        assert (In k (map fst c')) by (apply alist_get_In_fst; congruence).
        rewrite Hfst' in H. apply HK in H. rewrite <- Hfst in H. apply alist_get_In_fst in H. congruence.
      * destruct (alist_get k c) eqn:E; [|reflexivity]. exfalso.
        assert (In k (map fst c)) by (apply alist_get_In_fst; congruence).
        rewrite Hfst in H. apply HK in H. rewrite <- Hfst' in H. apply alist_get_In_fst in H. congruence.
    + intros k v v' E E'.
      assert (Hk : In k K) by (rewrite <- Hfst; apply alist_get_In_fst; congruence).
      destruct (Hget k Hk) as [w [Hw Gw]]. destruct (Hget' k (proj1 (HK k) Hk)) as [w' [Hw' Gw']].
      rewrite E in Gw. rewrite E' in Gw'. inversion Gw; inversion Gw'; subst w w'.
      pose proof (HR k Hk) as R. rewrite Hw, Hw' in R. exact R.
  - assert (Fl : fails (res_mapM (fun k => res_map (fun v => (k, v)) (F k)) K)) by (rewrite Ec; reflexivity).
    apply res_mapM_fails_inv in Fl. destruct Fl as [k [Hk Fk]].
    assert (Gk : fails (res_map (fun v => (k, v)) (G k))).
    { pose proof (HR k Hk) as R. unfold fails in *. destruct (F k), (G k); cbn in *; try contradiction; auto; discriminate. }
    pose proof (res_mapM_fails (fun k => res_map (fun v => (k, v)) (G k)) K' k (proj1 (HK k) Hk) Gk) as Fl'.
    pose proof (NP G K' PG) as NP'.
    unfold fails in Fl'. destruct (res_mapM _ K'); cbn in *; [discriminate|exact I|congruence].
  - exfalso. apply (NP F K PF). exact Ec.
Qed.

(* ------------------------------------------------------------------ concatMaps under any schedule *)

Lemma sched_ok_ord s l : sched_ok s -> Permutation (s_ord s l) l.
Proof. destruct 1; cbn; auto. Qed.

Lemma sched_ok_sub s k : sched_ok s -> sched_ok (s_sub s k).
Proof. destruct 1; cbn; auto. constructor. Qed.

Lemma concat_maps_o_no_panic fuel : forall s ms, concat_maps_o fuel s ms <> Panic.
Proof.
  induction fuel as [|f IH]; intros s ms; cbn; [discriminate|].
  apply res_mapM_no_panic. intros k _.
  pose proof (concat_key_no_panic (concat_maps_o f (s_sub s k)) (vals_at k ms) (IH (s_sub s k))) as H.
  destruct (concat_key _ (vals_at k ms)); cbn; congruence.
Qed.

Lemma concat_maps_top_no_panic ms : concat_maps_top ms <> Panic.
Proof. apply concat_maps_no_panic. Qed.

Lemma concat_maps_o_rel n : forall s xs xs',
  sched_ok s -> bounded n xs -> 0 < n -> Forall2 meq xs xs' ->
  rrel meq (concat_maps_o n s xs) (concat_maps_top xs').
Proof.
  induction n as [|n IH]; intros s xs xs' Hs B P H; [lia|].
  rewrite (concat_maps_top_unfold xs'). cbn [concat_maps_o]. unfold concat_maps_step.
  apply mapM_keys_rel.
  - intros k. rewrite <- (keys_of_meq xs xs' H k). split; apply Permutation_in.
    + apply sched_ok_ord, Hs.
    + apply Permutation_sym, sched_ok_ord, Hs.
  - intros k _. apply (concat_key_cong n).
    + intros ys ys' By Ny Hy. apply IH; [apply sched_ok_sub, Hs|exact By| |exact Hy].
      destruct ys as [|y ys]; [congruence|]. apply (bounded_pos n y (y :: ys) By). now left.
    + apply vals_at_bounded, B.
    + apply vals_at_meq, H.
  - intros k. apply concat_key_no_panic. apply concat_maps_o_no_panic.
  - intros k. apply concat_key_no_panic. apply concat_maps_top_no_panic.
Qed.

(* concatMaps: any schedule, any representation of the argument maps *)
Theorem concat_maps_order s xs xs' :
  sched_ok s -> Forall2 meq xs xs' -> rrel meq (concat_maps_top_o s xs) (concat_maps_top xs').
Proof.
  intros Hs H. unfold concat_maps_top_o. apply concat_maps_o_rel; [exact Hs|apply bounded_top|lia|exact H].
Qed.

(* concatStreamReader / ConcatItems *)
Theorem concat_stream_order s vs vs' :
  sched_ok s -> Forall2 ceq vs vs' -> rrel ceq (concat_stream_o s vs) (concat_stream vs').
Proof.
  intros Hs H. unfold concat_stream_o, concat_stream.
  destruct H as [|v0 v0' l l' H0 H]; [exact I|].
  destruct H as [|v1 v1' l l' H1 H]; [exact H0|].
  assert (HH : Forall2 ceq (v0 :: v1 :: l) (v0' :: v1' :: l')) by (repeat constructor; assumption).
  unfold concat_items_o, concat_items. rewrite <- (ceq_dyn_ty v0 v0' H0).
  destruct (dyn_ty v0) as [t|] eqn:Et; [|exact I].
  destruct t as [|k|tag|mt]; try (apply concat_typed_cong; [exact HH|discriminate]).
  apply rrel_res_map_CMap.
  rewrite (fuel_indep (S (depth_list (v0' :: v1' :: l'))) (S (dmaps (maps (v0' :: v1' :: l'))))).
  - fold (concat_maps_top (maps (v0' :: v1' :: l'))).
    apply concat_maps_o_rel; [exact Hs| |lia|apply F2_maps, HH].
    apply maps_bounded, vbounded_top.
  - apply maps_bounded, vbounded_top.
  - apply bounded_top.
  - lia.
  - lia.
Qed.

(* the first-appearance schedule is the function the correspondence check evaluates *)
Lemma concat_maps_o_first n : forall ms, concat_maps_o n SFirst ms = concat_maps n ms.
Proof.
  induction n as [|n IH]; intros ms; cbn; [reflexivity|].
  unfold concat_maps_step. apply res_mapM_ext_in. intros k _.
  rewrite (concat_key_ext (concat_maps_o n SFirst) (concat_maps n)); [reflexivity|apply IH].
Qed.

Lemma concat_stream_o_first vs : concat_stream_o SFirst vs = concat_stream vs.
Proof.
  unfold concat_stream_o, concat_stream. destruct vs as [|v0 [|v1 l]]; try reflexivity.
  unfold concat_items_o, concat_items. destruct (dyn_ty v0) as [[| | |mt]|]; try reflexivity.
  rewrite concat_maps_o_first. reflexivity.
Qed.

End User.
