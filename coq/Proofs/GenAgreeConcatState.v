(* Proofs/GenAgreeConcatState.v — the table of package-level state regenerated from the Go sources
   (Gen/ConcatState.v, written by tools/go2v "concatstate" on every run) is the table the models of C14 assume
   (Model/ConcatState.v).  A cache, a pool, a memo table or any other package-level variable that the
   concatenation code starts to write (or to call methods on, or to take the address of), and a second writer of
   the registry, break this proof. *)
From Eino Require Import Base.Util Model.ConcatState.
From Eino Require Gen.ConcatState.

Theorem gen_state_effects_agree : Gen.ConcatState.state_effects = Model.ConcatState.state_effects.
Proof. reflexivity. Qed.
Print Assumptions gen_state_effects_agree.
