(* Proofs/DagLegacy.v — C02: the skip work list of channelManager.reportBranch BEFORE the repair fa983c2
   (finding F-C02b), kept as machine-checked documentation of what was wrong: a target was put on the work
   list whenever its reportSkip answered "all control predecessors skipped", also when it had been skipped
   (and queued) before. [propagate_v0] counts the work-list entries it processes. *)
From Eino Require Import Base.Util Model.Graph Proofs.DagExamples.
Open Scope N_scope.

Section Legacy.
  Variable V : Type.

  Definition report_skip_to_v0 (cs : chans V) (from : key) (targets : list key) : chans V * list key :=
    fold_left (fun acc t =>
      let '(cs0, nw) := acc in
      match alookup t cs0 with
      | None => acc
      | Some c =>
          let '(c', sk) := dag_report_skip V c [from] in
          (upd_chan V cs0 t (fun _ => c'), if sk then nw ++ [t] else nw)
      end) targets (cs, []).

  (* Some (channels, processed entries) or None when the fuel runs out *)
  Fixpoint propagate_v0 (g : graph) (fuel : nat) (work : list key) (cs : chans V) (steps : nat) : option (chans V * nat) :=
    match work with
    | [] => Some (cs, steps)
    | k :: work' =>
      match fuel with
      | O => None
      | S fuel' =>
        match find_node g k with
        | None => Some (cs, steps)
        | Some n =>
          let '(cs', newly) := report_skip_to_v0 cs k (succs n) in
          propagate_v0 g fuel' (work' ++ newly) cs' (S steps)
        end
      end
    end.

  Definition report_branch_v0 (g : graph) (fuel : nat) (from : key) (skipped : list key) (cs : chans V) : option (chans V * nat) :=
    let '(cs', newly) := report_skip_to_v0 cs from skipped in propagate_v0 g fuel newly cs' O.
End Legacy.

(* START -> 2;  2 -{branch, selects 20}-> 3 | 20;  3 -> 4 -> ... -> (2+depth) -> 20;  20 -> END *)
Fixpoint chain_nodes (k : key) (depth : nat) : list node :=
  match depth with
  | O => []
  | S O => [mk_node k [20] [20] []]
  | S d => mk_node k [k + 1] [k + 1] [] :: chain_nodes (k + 1) d
  end.

Definition skip_chain (depth : nat) : graph :=
  {| g_nodes := mk_node kSTART [2] [2] []
                :: mk_node 2 [] [] [{| b_ends := [3; 20]; b_nodata := false; b_table := [[20]] |}]
                :: chain_nodes 3 depth ++ [mk_node 20 [kEND] [kEND] []];
     g_mode := Dag; g_eager := false; g_max := 0 |}.

(* the Workflow shape of corpus/C02/datacycle_skip_hang.json: 4 -> 5 (control + data), 5 -> 4 (data only) *)
Definition data_cycle : graph :=
  {| g_nodes := [ mk_node kSTART [2] [2] [];
                  mk_node 2 [] [] [{| b_ends := [4; kEND]; b_nodata := true; b_table := [[kEND]] |}];
                  mk_node 4 [5] [5] [];
                  mk_node 5 [kEND; 4] [kEND] [] ];
     g_mode := Dag; g_eager := true; g_max := 0 |}.

(* runner.run before the repair 91b08ee (finding F-C02): the channels of nodes that nothing leads to were not
   skipped up front *)
Definition run_flat_v0 {V St} (ops : vops V) (exec : St -> path -> V -> res V * St)
           (sub : nat -> path -> V -> St -> outcome V * St) (sched : nat -> list key -> nat)
           (p : path) (g : graph) (x : V) (s : St) : outcome V * St :=
  match calc_next V ops g (init_chans_v0 V g) [(kSTART, x)] with
  | Err e => (Fail [mkerr e] [run_marker V p], s)
  | Panic => (Fail [mkerr ePanic] [run_marker V p], s)
  | Ok (cs1, ready) =>
    match alookup kEND ready with
    | Some v => (Done v [run_marker V p], s)
    | None => iterate V St ops exec sub sched p g (loop_fuel g) (init_state V St p cs1 ready s)
    end
  end.
