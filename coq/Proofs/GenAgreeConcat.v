(* Proofs/GenAgreeConcat.v — the registry table regenerated from the Go sources
   (Gen/ConcatTable.v, written by tools/go2v on every run) is the table the model and the
   theorems of C14 use (Model/ConcatTable.v). A changed registry breaks these proofs. *)
From Eino Require Import Base.Util Model.ConcatTable.
From Eino Require Gen.ConcatTable.

Theorem gen_table_agrees : Gen.ConcatTable.table = Model.ConcatTable.table.
Proof. reflexivity. Qed.

Theorem gen_schema_registrations_agree :
  Gen.ConcatTable.schema_registrations = Model.ConcatTable.schema_registrations.
Proof. reflexivity. Qed.
