(* Proofs/GenAgreeConcat.v — the tables regenerated from the Go sources (Gen/ConcatTable.v,
   Gen/ConcatMsgTable.v, written by tools/go2v on every run) are the tables the models and
   the theorems of C14 were written from (Model/ConcatTable.v, Model/ConcatMsgTable.v).
   A changed registry, a new / removed struct field, or a field that ConcatMessages /
   concatToolCalls treats differently breaks these proofs. *)
From Eino Require Import Base.Util Model.ConcatTable Model.ConcatMsgTable.
From Eino Require Gen.ConcatTable Gen.ConcatMsgTable.

Theorem gen_table_agrees : Gen.ConcatTable.table = Model.ConcatTable.table.
Proof. reflexivity. Qed.

Theorem gen_schema_registrations_agree :
  Gen.ConcatTable.schema_registrations = Model.ConcatTable.schema_registrations.
Proof. reflexivity. Qed.

Theorem gen_message_fields_agree :
  Gen.ConcatMsgTable.message_fields = Model.ConcatMsgTable.message_fields.
Proof. reflexivity. Qed.

Theorem gen_message_handling_agrees :
  Gen.ConcatMsgTable.message_handling = Model.ConcatMsgTable.message_handling.
Proof. reflexivity. Qed.

Theorem gen_toolcall_handling_agrees :
  Gen.ConcatMsgTable.toolcall_handling = Model.ConcatMsgTable.toolcall_handling.
Proof. reflexivity. Qed.
