(* Proofs/BuilderReject2.v — property C20, rejection through the deferred front-ends:
   what [rejects_each_kind] says for a Graph call, said for the calls a Chain / Workflow
   makes later on the user's behalf:
     * a trigger-mode option (and, for a Workflow, a step limit) makes Compile fail;
     * a Workflow input declared from a node that does not exist makes every Compile fail,
       whatever order the nodes are visited in;
     * a Workflow branch from an unknown node / with a single target makes Compile fail;
     * once the build error is set a Workflow Compile fails. *)
From Eino Require Import Base.Util Model.Builder Proofs.Builder Proofs.BuilderReject Proofs.BuilderDag Proofs.BuilderSound.
Local Open Scope string_scope.
Local Open Scope list_scope.

(* ------------------------------------------------------------------ the component tag never changes *)
Lemma cmp_add_node : forall g k nk a b c, g_cmp (fst (g_add_node g k nk a b c)) = g_cmp g.
Proof.
  intros. unfold g_add_node, fail. destruct (g_err g); [reflexivity|].
  repeat (dif; [reflexivity|]). reflexivity.
Qed.

Lemma cmp_add_edge : forall g s e nc nd fs, g_cmp (fst (g_add_edge g s e nc nd fs)) = g_cmp g.
Proof.
  intros. unfold g_add_edge, fail. destruct (g_err g); [reflexivity|].
  repeat (dif; try reflexivity); simpl;
    try (rewrite (ss_cmp _ _ (ss_update_pending _)); simpl);
    repeat (match goal with |- context[if ?b then _ else _] => destruct b end); reflexivity.
Qed.

Lemma cmp_branch_ends : forall ends g s, g_cmp (fst (branch_ends g s ends)) = g_cmp g.
Proof.
  induction ends as [|e rest IH]; intros g s; simpl; [reflexivity|].
  dif; [reflexivity|]. rewrite IH.
  repeat (match goal with |- context[if ?b then _ else _] => destruct b end); simpl;
    rewrite (ss_cmp _ _ (ss_update_pending _)); reflexivity.
Qed.

Lemma cmp_add_branch : forall g s ends sk, g_cmp (fst (g_add_branch g s ends sk)) = g_cmp g.
Proof.
  intros. unfold g_add_branch, fail. destruct (g_err g); [reflexivity|].
  repeat (dif; [reflexivity|]).
  assert (C1 : forall n : node, g_cmp (if nkind_eqb (n_kind n) NPass && negb (n_out n) then update_pending (set_typed s g) else g) = g_cmp g).
  { intros n. dif; [rewrite (ss_cmp _ _ (ss_update_pending _))|]; reflexivity. }
  destruct sk.
  - simpl. destruct (alist_get s (g_nodes g)); [apply C1|reflexivity].
  - match goal with |- context[branch_ends ?G s ends] =>
      pose proof (cmp_branch_ends ends G s) as H; destruct (branch_ends G s ends) as [g3 [er|]] end; simpl in *; [reflexivity|].
    rewrite H. simpl. destruct (alist_get s (g_nodes g)); [apply C1|reflexivity].
Qed.

Lemma cmp_run_inputs : forall is g k m, g_cmp (fst (fst (run_inputs g k m is))) = g_cmp g.
Proof.
  induction is as [|i rest IH]; intros g k m; simpl; [reflexivity|].
  assert (H : g_cmp (fst (fst (run_input g k m i))) = g_cmp g).
  { unfold run_input. destruct (wi_kind i).
    - destruct (check_mapped m (wi_fields i)) as [m' [e|]]; [reflexivity|].
      pose proof (cmp_add_edge g (wi_from i) k false false (wi_fields i)) as X.
      destruct (g_add_edge g (wi_from i) k false false (wi_fields i)); exact X.
    - destruct (check_mapped m (wi_fields i)) as [m' [e|]]; [reflexivity|].
      pose proof (cmp_add_edge g (wi_from i) k true false (wi_fields i)) as X.
      destruct (g_add_edge g (wi_from i) k true false (wi_fields i)); exact X.
    - pose proof (cmp_add_edge g (wi_from i) k false true []) as X.
      destruct (g_add_edge g (wi_from i) k false true []); exact X. }
  destruct (run_input g k m i) as [[g' m'] [e|]]; simpl in *; [assumption|]. rewrite IH. assumption.
Qed.

Lemma cmp_run_nodes : forall order w, g_cmp (w_g (fst (run_nodes w order))) = g_cmp (w_g w).
Proof.
  induction order as [|k rest IH]; intros w; simpl; [reflexivity|].
  destruct (alist_get k (w_nodes w)) as [n|]; [|apply IH].
  pose proof (cmp_run_inputs (wn_pending n) (w_g w) k (wn_mapped n)) as H.
  destruct (run_inputs (w_g w) k (wn_mapped n) (wn_pending n)) as [[g' m'] [e|]]; simpl in *; [assumption|].
  rewrite IH. simpl. assumption.
Qed.

Lemma cmp_run_branches : forall v bs w, g_cmp (w_g (fst (run_branches v w bs))) = g_cmp (w_g w).
Proof.
  induction bs as [|[from ends] rest IH]; intros w; simpl; [reflexivity|].
  dif; [dif; reflexivity|].
  pose proof (cmp_add_branch (w_g w) from ends true) as H.
  destruct (g_add_branch (w_g w) from ends true) as [g' o]. rewrite IH. simpl in *. assumption.
Qed.

(* ------------------------------------------------------------------ options *)
Lemma g_compile_rejects_option : forall g o,
  g_cmp g <> CGraph -> (o_trigger o <> None \/ (g_cmp g = CWorkflow /\ (0 < o_max_steps o)%Z)) ->
  is_err (snd (g_compile fixed g o)).
Proof.
  intros g o C [T|[W M]]; apply compile_rejects.
  - apply I_trigger_mode_on_chain_or_workflow; assumption.
  - apply I_max_steps_in_dag_mode; [|assumption]. unfold dag_mode. rewrite W. apply orb_true_r.
Qed.

Lemma cmp_end_edges : forall ps c g, g_cmp (c_g (fst (end_edges c g ps))) = g_cmp g.
Proof.
  induction ps as [|p rest IH]; intros c g; simpl; [reflexivity|].
  pose proof (cmp_add_edge g p END_ false false []) as H.
  destruct (g_add_edge g p END_ false false []) as [g' oo]; simpl in *.
  destruct (err_of oo); [assumption|]. rewrite IH. assumption.
Qed.

(* Chain: a trigger-mode option is refused *)
Theorem chain_rejects_trigger_option : forall c o,
  g_cmp (c_g c) = CChain -> o_trigger o <> None -> is_err (snd (c_compile fixed c o)).
Proof.
  intros c o C T. rewrite c_compile_unfold.
  assert (P : forall pre : cstate * option ecls, g_cmp (c_g (fst pre)) = CChain ->
    is_err (snd (match pre with
                 | (c', Some e) => (c', OErr e)
                 | (c', None) => let '(g', out) := g_compile fixed (c_g c') o in (c_set_g g' c', out)
                 end))).
  { intros [c' [e|]] H; simpl in *; [eexists; reflexivity|].
    assert (X : is_err (snd (g_compile fixed (c_g c') o))).
    { apply g_compile_rejects_option; [congruence|left; assumption]. }
    destruct (g_compile fixed (c_g c') o); exact X. }
  apply P. simpl.
  destruct (c_err c); [assumption|]. dif; [assumption|]. dif; [assumption|].
  rewrite cmp_end_edges. assumption.
Qed.

(* ------------------------------------------------------------------ Workflow *)
(* with the build error set, the node phase cannot clear it *)
Lemma run_inputs_sticky : forall is g k m e,
  g_err g = Some e -> is <> [] -> snd (run_inputs g k m is) <> None.
Proof.
  intros is g k m e E N. destruct is as [|i rest]; [congruence|]. simpl.
  assert (H : snd (run_input g k m i) <> None).
  { unfold run_input. destruct (wi_kind i).
    - destruct (check_mapped m (wi_fields i)) as [m' [er|]]; simpl; [congruence|].
      rewrite (g_add_edge_sticky _ _ _ _ _ _ _ E). simpl. congruence.
    - destruct (check_mapped m (wi_fields i)) as [m' [er|]]; simpl; [congruence|].
      rewrite (g_add_edge_sticky _ _ _ _ _ _ _ E). simpl. congruence.
    - rewrite (g_add_edge_sticky _ _ _ _ _ _ _ E). simpl. congruence. }
  destruct (run_input g k m i) as [[g' m'] [er|]]; simpl in *; congruence.
Qed.

Lemma run_nodes_sticky : forall order w e,
  g_err (w_g w) = Some e ->
  snd (run_nodes w order) <> None \/ g_err (w_g (fst (run_nodes w order))) = Some e.
Proof.
  induction order as [|k rest IH]; intros w e E; simpl; [right; assumption|].
  destruct (alist_get k (w_nodes w)) as [n|]; [|apply IH; assumption].
  destruct (wn_pending n) as [|i is] eqn:P.
  - simpl. apply IH. simpl. assumption.
  - pose proof (run_inputs_sticky (i :: is) (w_g w) k (wn_mapped n) e E) as H.
    destruct (run_inputs (w_g w) k (wn_mapped n) (i :: is)) as [[g' m'] [er|]]; simpl in *.
    + left. congruence.
    + exfalso. apply H; [discriminate|reflexivity].
Qed.

(* the static values stage touches neither the build error nor the component tag *)
Lemma run_statics_err_cmp : forall v order w,
  g_err (w_g (fst (run_statics v w order))) = g_err (w_g w) /\
  g_cmp (w_g (fst (run_statics v w order))) = g_cmp (w_g w).
Proof.
  induction order as [|k rest IH]; intros w; simpl; [auto|].
  destruct (alist_get k (w_nodes w)) as [n|]; [|apply IH].
  destruct (wn_static n) as [|f fs]; [apply IH|].
  dif; [auto|].
  destruct (check_mapped (wn_mapped n) (f :: fs)) as [m' [e|]]; [auto|].
  match goal with |- context[run_statics v ?W rest] => destruct (IH W) as [A B]; rewrite A, B end. auto.
Qed.

(* what Workflow.compile does once the deferred branches are in *)
Definition after_nodes (w : wstate) (o : copt) (ord sord : list string) : wstate * outcome :=
  match run_nodes w (ord ++ map fst (w_nodes w)) with
  | (w2, Some er) => (w2, OErr er)
  | (w2, None) =>
    match run_statics fixed w2 (sord ++ map fst (w_nodes w2)) with
    | (w3, Some e) => (w3, OErr e)
    | (w3, None) => let '(g', out) := g_compile fixed (w_g w3) o in (w_set_g g' w3, out)
    end
  end.

Lemma after_branches_error : forall w o ord sord e,
  g_err (w_g w) = Some e -> is_err (snd (after_nodes w o ord sord)).
Proof.
  intros w o ord sord e E. unfold after_nodes.
  destruct (run_nodes_sticky (ord ++ map fst (w_nodes w)) w e E) as [H|H];
    destruct (run_nodes w (ord ++ map fst (w_nodes w))) as [w2 [er|]]; simpl in *; try (eexists; reflexivity).
  - congruence.
  - destruct (run_statics_err_cmp fixed (sord ++ map fst (w_nodes w2)) w2) as [A _].
    destruct (run_statics fixed w2 (sord ++ map fst (w_nodes w2))) as [w3 [er|]]; simpl in *; [eexists; reflexivity|].
    rewrite H in A. rewrite (g_compile_sticky fixed _ o _ A). simpl. eexists; reflexivity.
Qed.

(* inference never touches the build error or the compiled flag *)
Lemma resolve_pass_flags' : forall todo y,
  g_err (fst (resolve_pass y todo)) = g_err y /\ g_compiled (fst (resolve_pass y todo)) = g_compiled y.
Proof.
  induction todo as [|[[a b] f] rest IH]; intros y; [simpl; auto|]. simpl.
  dif.
  - specialize (IH y). destruct (resolve_pass y rest); simpl in *. assumption.
  - match goal with |- context[resolve_pass ?G rest] => destruct (IH G) as [A B]; rewrite A, B end.
    destruct f; simpl; repeat dif; auto.
Qed.

Lemma update_pending_flags' : forall y,
  g_err (update_pending y) = g_err y /\ g_compiled (update_pending y) = g_compiled y.
Proof.
  intros y. unfold update_pending. generalize (S (List.length (g_pending y))). intros n.
  induction n as [|n IH]; simpl; [auto|].
  destruct IH as [A B]. unfold resolve_once at 1 3.
  pose proof (resolve_pass_flags' (g_pending (Nat.iter n resolve_once y)) (set_pending [] (Nat.iter n resolve_once y))) as P.
  destruct (resolve_pass _ _) as [y' kept]; simpl in *. destruct P as [P1 P2]. split; congruence.
Qed.

(* ---- deferred AddBranch calls *)
Definition dead (w : wstate) : Prop := g_err (w_g w) <> None.

Lemma run_branches_stop_is_err : forall bs w w' out,
  run_branches fixed w bs = (w', Some out) -> is_err out.
Proof.
  induction bs as [|[from ends] rest IH]; intros w w' out; simpl; [discriminate|].
  dif; [intros H; inversion H; eexists; reflexivity|].
  destruct (g_add_branch (w_g w) from ends true). apply IH.
Qed.

Lemma run_branches_dead : forall bs w w',
  dead w -> run_branches fixed w bs = (w', None) -> dead w'.
Proof.
  induction bs as [|[from ends] rest IH]; intros w w' D; simpl.
  - intros H; inversion H; subst; assumption.
  - dif; [discriminate|].
    unfold dead in D. destruct (g_err (w_g w)) as [e|] eqn:E; [|congruence].
    rewrite (g_add_branch_sticky _ _ _ _ _ E).
    replace (w_set_g (w_g w) w) with w by (destruct w; reflexivity).
    apply IH. unfold dead. congruence.
Qed.

Definition bad_branch_call (g : gstate) (b : string * list string) : Prop :=
  fst b = END_ \/ (has_node g (fst b) = false /\ fst b <> START) \/ List.length (snd b) = 1%nat.

Lemma add_branch_skip_keys : forall g s ends, keys (fst (g_add_branch g s ends true)) = keys g.
Proof.
  intros. unfold g_add_branch, fail. destruct (g_err g); [reflexivity|].
  repeat (dif; [reflexivity|]). simpl.
  destruct (alist_get s (g_nodes g)); [dif; [|reflexivity]|reflexivity].
  change (keys (update_pending (set_typed s g)) = keys g).
  rewrite (ss_keys _ _ (ss_update_pending _)). apply (ss_keys _ _ (ss_set_typed s g)).
Qed.

Lemma add_branch_skip_compiled : forall g s ends, g_compiled (fst (g_add_branch g s ends true)) = g_compiled g.
Proof.
  intros. unfold g_add_branch, fail. destruct (g_err g); [reflexivity|].
  destruct (g_compiled g) eqn:C; [simpl; assumption|].
  repeat (dif; [simpl; assumption|]). simpl.
  destruct (alist_get s (g_nodes g)); [dif; simpl; [|assumption]|simpl; assumption].
  destruct (update_pending_flags' (set_typed s g)) as [_ X]. rewrite X. simpl. assumption.
Qed.

Lemma has_node_of_keys : forall g g' k, keys g' = keys g -> has_node g' k = has_node g k.
Proof.
  intros g g' k H. destruct (has_node g k) eqn:E.
  - apply has_node_keys. rewrite H. apply has_node_keys. assumption.
  - apply has_node_false. rewrite H. apply has_node_false. assumption.
Qed.

Lemma bad_branch_call_rejected : forall g b,
  g_err g = None -> g_compiled g = false -> bad_branch_call g b ->
  g_err (fst (g_add_branch g (fst b) (snd b) true)) <> None.
Proof.
  intros g [s ends] E C V. unfold bad_branch_call in V. simpl in *. unfold g_add_branch. rewrite E, C.
  destruct V as [V|[[V1 V2]|V]].
  - subst s. simpl. discriminate.
  - dif; [simpl; discriminate|]. rewrite V1. apply String.eqb_neq in V2. rewrite V2. simpl. discriminate.
  - repeat (dif; [simpl; discriminate|]). rewrite V in *. discriminate.
Qed.

Lemma run_branches_bad_call : forall bs w w',
  g_compiled (w_g w) = false ->
  (exists b, In b bs /\ bad_branch_call (w_g w) b) ->
  run_branches fixed w bs = (w', None) -> dead w'.
Proof.
  induction bs as [|[from ends] rest IH]; intros w w' C [b [I V]]; simpl in *; [contradiction|].
  dif; [discriminate|].
  destruct (g_err (w_g w)) as [e|] eqn:E.
  - (* already dead *)
    rewrite (g_add_branch_sticky _ _ _ _ _ E).
    replace (w_set_g (w_g w) w) with w by (destruct w; reflexivity).
    apply run_branches_dead. unfold dead. congruence.
  - pose proof (add_branch_skip_keys (w_g w) from ends) as K.
    pose proof (add_branch_skip_compiled (w_g w) from ends) as K2.
    destruct I as [I|I].
    + subst b. pose proof (bad_branch_call_rejected (w_g w) (from, ends) E C V) as R. simpl in R.
      destruct (g_add_branch (w_g w) from ends true) as [g' o]; simpl in *.
      apply run_branches_dead. exact R.
    + destruct (g_add_branch (w_g w) from ends true) as [g' o]; simpl in *.
      destruct (g_err g') eqn:E'; [apply run_branches_dead; unfold dead; simpl; congruence|].
      apply IH; simpl; [congruence|].
      exists b. split; [assumption|].
      destruct V as [V|[[V1 V2]|V]]; [left; assumption| |right; right; assumption].
      right; left. split; [|assumption]. rewrite (has_node_of_keys (w_g w) g' _ K). assumption.
Qed.

Lemma dead_after_branches : forall w o ord sord,
  dead w -> is_err (snd (after_nodes w o ord sord)).
Proof.
  intros w o ord sord D. unfold dead in D. destruct (g_err (w_g w)) as [e|] eqn:E; [|congruence].
  eapply after_branches_error; eassumption.
Qed.

(* a deferred AddBranch from END, from an unknown node, or with a single target: Compile fails *)
Theorem workflow_rejects_bad_branch_call : forall w o ord sord,
  g_compiled (w_g w) = false ->
  (exists b, In b (w_branches w) /\ bad_branch_call (w_g w) b) ->
  is_err (snd (w_compile fixed w o ord sord)).
Proof.
  intros w o ord sord C V. unfold w_compile. destruct (g_err (w_g w)); [eexists; reflexivity|].
  destruct (run_branches fixed w (w_branches w)) as [w1 [out|]] eqn:B.
  - simpl. eapply run_branches_stop_is_err; eassumption.
  - apply (dead_after_branches w1 o ord sord). eapply run_branches_bad_call; eassumption.
Qed.

(* ---- options on a Workflow *)
Lemma w_compile_rejects_option : forall w o ord sord,
  g_cmp (w_g w) = CWorkflow -> (o_trigger o <> None \/ (0 < o_max_steps o)%Z) ->
  is_err (snd (w_compile fixed w o ord sord)).
Proof.
  intros w o ord sord C V. unfold w_compile. destruct (g_err (w_g w)); [eexists; reflexivity|].
  pose proof (cmp_run_branches fixed (w_branches w) w) as C1.
  destruct (run_branches fixed w (w_branches w)) as [w1 [out|]] eqn:B; simpl in C1.
  - simpl. eapply run_branches_stop_is_err; eassumption.
  - pose proof (cmp_run_nodes (ord ++ map fst (w_nodes w1)) w1) as C2.
    destruct (run_nodes w1 (ord ++ map fst (w_nodes w1))) as [w2 [er|]]; simpl in *; [eexists; reflexivity|].
    destruct (run_statics_err_cmp fixed (sord ++ map fst (w_nodes w2)) w2) as [_ C3].
    destruct (run_statics fixed w2 (sord ++ map fst (w_nodes w2))) as [w3 [er|]]; simpl in *; [eexists; reflexivity|].
    assert (X : is_err (snd (g_compile fixed (w_g w3) o))).
    { apply g_compile_rejects_option; [congruence|]. destruct V; [left; assumption|right; split; [congruence|assumption]]. }
    destruct (g_compile fixed (w_g w3) o); exact X.
Qed.

(* ---- a deferred input from a node that does not exist *)
Definition unknown_source (g : gstate) (i : winput) : Prop :=
  has_node g (wi_from i) = false /\ wi_from i <> START.

Lemma run_input_unknown : forall g k m i,
  unknown_source g i -> snd (run_input g k m i) <> None.
Proof.
  intros g k m i [U1 U2]. unfold run_input.
  assert (A : forall nc nd fs, err_of (snd (g_add_edge g (wi_from i) k nc nd fs)) <> None).
  { intros nc nd fs. unfold g_add_edge. destruct (g_err g); [simpl; congruence|].
    repeat (dif; [simpl; congruence|]). exfalso.
    rewrite U1 in *. apply String.eqb_neq in U2. rewrite U2 in *. discriminate. }
  destruct (wi_kind i).
  - destruct (check_mapped m (wi_fields i)) as [m' [e|]]; simpl; [congruence|].
    specialize (A false false (wi_fields i)). destruct (g_add_edge g (wi_from i) k false false (wi_fields i)); exact A.
  - destruct (check_mapped m (wi_fields i)) as [m' [e|]]; simpl; [congruence|].
    specialize (A true false (wi_fields i)). destruct (g_add_edge g (wi_from i) k true false (wi_fields i)); exact A.
  - specialize (A false true []). destruct (g_add_edge g (wi_from i) k false true []); exact A.
Qed.

Lemma keys_add_edge : forall g s e nc nd fs, keys (fst (g_add_edge g s e nc nd fs)) = keys g.
Proof.
  intros. unfold g_add_edge, fail. destruct (g_err g); [reflexivity|].
  destruct (g_compiled g); [reflexivity|]. destruct (nc && nd); [reflexivity|].
  repeat (dif; [reflexivity|]).
  fold (add_ctrl g s e).
  assert (K1 : keys (if nc then g else add_ctrl g s e) = keys g).
  { destruct nc; [reflexivity|]. apply (add_ctrl_fields g s e). }
  set (g1 := if nc then g else add_ctrl g s e) in *.
  destruct nd; [exact K1|]. dif; [reflexivity|]. simpl.
  change (keys (update_pending (set_pending (g_pending g1 ++ [(s, e, fs)]) g1)) = keys g).
  rewrite (ss_keys _ _ (ss_update_pending _)). exact K1.
Qed.

Lemma keys_run_input : forall g k m i, keys (fst (fst (run_input g k m i))) = keys g.
Proof.
  intros. unfold run_input. destruct (wi_kind i).
  - destruct (check_mapped m (wi_fields i)) as [m' [e|]]; [reflexivity|].
    pose proof (keys_add_edge g (wi_from i) k false false (wi_fields i)) as X.
    destruct (g_add_edge g (wi_from i) k false false (wi_fields i)); exact X.
  - destruct (check_mapped m (wi_fields i)) as [m' [e|]]; [reflexivity|].
    pose proof (keys_add_edge g (wi_from i) k true false (wi_fields i)) as X.
    destruct (g_add_edge g (wi_from i) k true false (wi_fields i)); exact X.
  - pose proof (keys_add_edge g (wi_from i) k false true []) as X.
    destruct (g_add_edge g (wi_from i) k false true []); exact X.
Qed.

Lemma keys_run_inputs : forall is g k m, keys (fst (fst (run_inputs g k m is))) = keys g.
Proof.
  induction is as [|i rest IH]; intros g k m; simpl; [reflexivity|].
  pose proof (keys_run_input g k m i) as H.
  destruct (run_input g k m i) as [[g' m'] [e|]]; simpl in *; [assumption|]. rewrite IH. assumption.
Qed.

Lemma run_inputs_unknown : forall is g k m i,
  In i is -> unknown_source g i -> snd (run_inputs g k m is) <> None.
Proof.
  induction is as [|j rest IH]; intros g k m i I U; [contradiction|]. simpl.
  destruct I as [I|I].
  - subst j. pose proof (run_input_unknown g k m i U) as H.
    destruct (run_input g k m i) as [[g' m'] [e|]]; simpl in *; congruence.
  - pose proof (keys_run_input g k m j) as K.
    destruct (run_input g k m j) as [[g' m'] [e|]]; simpl in *; [congruence|].
    apply (IH g' k m' i I). destruct U as [U1 U2]. split; [|assumption].
    rewrite (has_node_of_keys g g' _ K). assumption.
Qed.

Lemma alist_get_set_other : forall {A} k k' (a : A) l, k <> k' -> alist_get k (alist_set k' a l) = alist_get k l.
Proof.
  intros A k k' a l N. induction l as [|[x y] l IH]; simpl.
  - apply String.eqb_neq in N. rewrite N. reflexivity.
  - destruct (String.eqb k' x) eqn:E; simpl.
    + apply String.eqb_eq in E; subst x. apply String.eqb_neq in N. rewrite N. reflexivity.
    + destruct (String.eqb k x); [reflexivity|assumption].
Qed.

(* whatever the order: a node that still carries such an input makes the node phase fail *)
Lemma run_nodes_unknown : forall order w k n i,
  alist_get k (w_nodes w) = Some n -> In i (wn_pending n) -> unknown_source (w_g w) i ->
  In k order -> snd (run_nodes w order) <> None.
Proof.
  induction order as [|x rest IH]; intros w k n i G I U O; [contradiction|]. simpl.
  destruct (String.eqb x k) eqn:X.
  - apply String.eqb_eq in X; subst x. rewrite G.
    pose proof (run_inputs_unknown (wn_pending n) (w_g w) k (wn_mapped n) i I U) as H.
    destruct (run_inputs (w_g w) k (wn_mapped n) (wn_pending n)) as [[g' m'] [e|]]; simpl in *; congruence.
  - apply String.eqb_neq in X.
    destruct O as [O|O]; [congruence|].
    destruct (alist_get x (w_nodes w)) as [nx|] eqn:GX; [|eapply IH; eassumption].
    pose proof (keys_run_inputs (wn_pending nx) (w_g w) x (wn_mapped nx)) as K.
    destruct (run_inputs (w_g w) x (wn_mapped nx) (wn_pending nx)) as [[g' m'] [e|]]; simpl in *; [congruence|].
    apply (IH _ k n i); simpl; try assumption.
    + rewrite alist_get_set_other by congruence. assumption.
    + destruct U as [U1 U2]. split; [|assumption]. rewrite (has_node_of_keys (w_g w) g' _ K). assumption.
Qed.

Lemma alist_get_in_keys : forall {A} k (l : list (string * A)) a, alist_get k l = Some a -> In k (map fst l).
Proof.
  intros A k l a. induction l as [|[x y] l IH]; simpl; [discriminate|].
  destruct (String.eqb k x) eqn:E; [apply String.eqb_eq in E; auto|auto].
Qed.

Lemma run_branches_unknown_kept : forall bs w w' k n i,
  alist_get k (w_nodes w) = Some n -> unknown_source (w_g w) i ->
  run_branches fixed w bs = (w', None) ->
  alist_get k (w_nodes w') = Some n /\ unknown_source (w_g w') i.
Proof.
  induction bs as [|[from ends] rest IH]; intros w w' k n i G U; simpl.
  - intros H; inversion H; subst; auto.
  - dif; [discriminate|].
    pose proof (add_branch_skip_keys (w_g w) from ends) as K.
    destruct (g_add_branch (w_g w) from ends true) as [g' o]; simpl in K.
    apply IH; simpl; [assumption|].
    destruct U as [U1 U2]. split; [|assumption]. rewrite (has_node_of_keys (w_g w) g' _ K). assumption.
Qed.

Theorem workflow_rejects_unknown_input_source : forall w o ord sord k n i,
  alist_get k (w_nodes w) = Some n -> In i (wn_pending n) -> unknown_source (w_g w) i ->
  is_err (snd (w_compile fixed w o ord sord)).
Proof.
  intros w o ord sord k n i G I U. unfold w_compile. destruct (g_err (w_g w)); [eexists; reflexivity|].
  destruct (run_branches fixed w (w_branches w)) as [w1 [out|]] eqn:B.
  - simpl. eapply run_branches_stop_is_err; eassumption.
  - destruct (run_branches_unknown_kept _ _ _ _ _ _ G U B) as [G1 U1].
    pose proof (run_nodes_unknown (ord ++ map fst (w_nodes w1)) w1 k n i G1 I U1) as H.
    destruct (run_nodes w1 (ord ++ map fst (w_nodes w1))) as [w2 [e|]]; simpl in *; [eexists; reflexivity|].
    exfalso. apply H; [|reflexivity]. apply in_or_app. right. eapply alist_get_in_keys; eassumption.
Qed.

(* ------------------------------------------------------------------ the component tag of reachable states *)
Section Cmp.
  Variable c0 : cmp.
  Let P (g : gstate) : Prop := g_cmp g = c0.
  Lemma Pc_add_node : forall g k nk ns nko ok, P g -> P (fst (g_add_node g k nk ns nko ok)).
  Proof. unfold P. intros. rewrite cmp_add_node. assumption. Qed.
  Lemma Pc_add_edge : forall g s e nc nd fs, P g -> P (fst (g_add_edge g s e nc nd fs)).
  Proof. unfold P. intros. rewrite cmp_add_edge. assumption. Qed.
  Lemma Pc_add_branch : forall g s ends sk, P g -> P (fst (g_add_branch g s ends sk)).
  Proof. unfold P. intros. rewrite cmp_add_branch. assumption. Qed.
  Lemma Pc_compile : forall v g o, P g -> P (fst (g_compile v g o)).
  Proof. unfold P. intros. rewrite (ss_cmp _ _ (g_compile_skel v g o)). assumption. Qed.
  Lemma Pc_set_err : forall g e, P g -> P (set_err e g).
  Proof. unfold P. intros. assumption. Qed.
  Lemma Pc_set_prenode : forall g x, P g -> P (set_h_prenode x g).
  Proof. unfold P. intros. assumption. Qed.
End Cmp.

Theorem reachable_cmp :
  (forall v st cs, g_cmp (c_g (final (cstep v) (c_init st) cs)) = CChain)
  /\ (forall v st cs, g_cmp (w_g (final (wstep v) (w_init st) cs)) = CWorkflow).
Proof.
  split; intros v st cs.
  - apply (run_keeps (cstep v) (fun c => g_cmp (c_g c) = CChain)); [|reflexivity].
    intros s c H.
    apply (lcinv_cstep (fun g => g_cmp g = CChain) (Pc_add_node CChain) (Pc_add_edge CChain) (Pc_add_branch CChain) (Pc_compile CChain)).
    exact H.
  - apply (run_keeps (wstep v) (fun w => g_cmp (w_g w) = CWorkflow)); [|reflexivity].
    intros s c H.
    apply (lwinv_wstep (fun g => g_cmp g = CWorkflow) (Pc_add_node CWorkflow) (Pc_add_edge CWorkflow) (Pc_add_branch CWorkflow)
             (Pc_compile CWorkflow) (Pc_set_err CWorkflow) (Pc_set_prenode CWorkflow)).
    exact H.
Qed.

(* non-vacuity witnesses *)
Definition wf_unknown_input : list wcall :=
  [ WAddNode "a" NLambda false; WAddInput "a" START WNormal []; WAddInput "a" "ghost" WDepOnly [];
    WAddInput END_ "a" WNormal [] ].

Lemma wf_unknown_input_rejected :
  snd (wstep fixed (final (wstep fixed) (w_init false) wf_unknown_input) (WCompile opt_default [] []))
  = OErr EEdgeStartUnknown.
Proof. vm_compute. reflexivity. Qed.

Lemma wf_unknown_input_hyp :
  let w := final (wstep fixed) (w_init false) wf_unknown_input in
  exists n i, alist_get "a" (w_nodes w) = Some n /\ In i (wn_pending n) /\ unknown_source (w_g w) i.
Proof.
  vm_compute. eexists. eexists. split; [reflexivity|]. split; [right; left; reflexivity|].
  split; [reflexivity|discriminate].
Qed.
