(* Proofs/StreamAcct.v — lemmas about Model/StreamAcct.v (property C19). *)
From Eino Require Import Base.Util Model.StreamAcct.
From Coq Require Import Lia Permutation.
Open Scope N_scope.

(* ---- the defect F-C19 on the code before the repair, by evaluation *)
Definition witness_none : task :=
  {| t_node := 2; t_write_to := [1];
     t_branches := [ {| b_nodata := false; b_ends := [3; 4]; b_sel := [] |} ] |}.
Definition witness_twice : task :=
  {| t_node := 2; t_write_to := [3];
     t_branches := [ {| b_nodata := false; b_ends := [3; 4]; b_sel := [3] |} ] |}.
