(* Proofs/StreamAcct.v — lemmas about Model/StreamAcct.v (property C19). *)
From Eino Require Import Base.Util Model.StreamAcct.
From Coq Require Import Lia Permutation.
Open Scope N_scope.

(* ------------------------------------------------------------------ lists *)
Lemma remove_one_in_perm : forall h l, In h l -> Permutation l (h :: remove_one h l).
Proof.
  induction l as [|x l IH]; simpl; intros Hin; [contradiction|].
  destruct (N.eqb_spec h x) as [->|Hne]; [reflexivity|].
  destruct Hin as [->|Hin]; [congruence|].
  rewrite (IH Hin) at 1. apply perm_swap.
Qed.

Lemma remove_one_perm_cons : forall h a b, Permutation a (h :: b) -> Permutation (remove_one h a) b.
Proof.
  intros h a b HP.
  assert (Hin : In h a) by (eapply Permutation_in; [symmetry; exact HP|left; reflexivity]).
  apply Permutation_cons_inv with (a := h).
  rewrite <- (remove_one_in_perm h a Hin). exact HP.
Qed.

Lemma NoDup_app_intro : forall (A : Type) (a b : list A),
  NoDup a -> NoDup b -> (forall x, In x a -> In x b -> False) -> NoDup (a ++ b).
Proof.
  induction a as [|x a IH]; simpl; intros b Ha Hb Hd; [exact Hb|].
  inversion Ha; subst. constructor.
  - intros Hin. apply in_app_or in Hin as [Hin|Hin]; [contradiction|]. eapply Hd; [left; reflexivity|exact Hin].
  - apply IH; auto. intros y Hy1 Hy2. eapply Hd; [right; exact Hy1|exact Hy2].
Qed.

Lemma fresh_handles_length : forall from n, List.length (fresh_handles from n) = n.
Proof. intros. unfold fresh_handles. now rewrite map_length, seq_length. Qed.

Lemma fresh_handles_in : forall from n h, In h (fresh_handles from n) -> from <= h < from + N.of_nat n.
Proof.
  unfold fresh_handles. intros from n h Hin. apply in_map_iff in Hin as (i & <- & Hi).
  apply in_seq in Hi. lia.
Qed.

Lemma fresh_handles_nodup : forall from n, NoDup (fresh_handles from n).
Proof.
  intros. unfold fresh_handles. apply FinFun.Injective_map_NoDup; [|apply seq_NoDup].
  intros a b Hab. lia.
Qed.

(* ------------------------------------------------------------------ stores *)
(* the history is consistent with the live handles: every created handle is below s_next and is
   either live or retired; children and merged streams are younger than their sources; every live
   handle was created *)
Definition created (hist : list hev) (h : handle) : Prop :=
  In (HFresh h) hist \/ (exists p cs, In (HCopy p cs) hist /\ In h cs) \/ (exists hs, In (HMerge hs h) hist).
Definition retired (hist : list hev) (h : handle) : Prop :=
  In (HConsume h) hist \/ (exists cs, In (HCopy h cs) hist) \/ (exists hs h', In (HMerge hs h') hist /\ In h hs).

Definition hist_ok (s : store) : Prop :=
  (forall h, created (s_hist s) h -> h < s_next s /\ (In h (s_open s) \/ retired (s_hist s) h)) /\
  (forall p cs, In (HCopy p cs) (s_hist s) -> forall c, In c cs -> p < c) /\
  (forall hs h', In (HMerge hs h') (s_hist s) -> forall h, In h hs -> h < h') /\
  (forall h, In h (s_open s) -> created (s_hist s) h).

Definition store_ok (s : store) : Prop :=
  NoDup (s_open s) /\ (forall h, In h (s_open s) -> h < s_next s) /\ hist_ok s.

Definition copy_len (n : Z) : nat := if (n <? 2)%Z then 1%nat else Z.to_nat n.

Lemma remove_one_in_other_h : forall k y l, In y l -> y <> k -> In y (remove_one k l).
Proof.
  induction l as [|x l IH]; simpl; intros Hy Hne; [contradiction|].
  destruct (N.eqb_spec k x) as [->|Hkx].
  - destruct Hy as [->|Hy]; [congruence|exact Hy].
  - destruct Hy as [->|Hy]; [now left|right; auto].
Qed.

Lemma created_cons : forall e hist h, created hist h -> created (e :: hist) h.
Proof.
  intros e hist h [H|[(p & cs & H1 & H2)|(hs & H)]].
  - left. now right.
  - right. left. exists p, cs. split; [now right|exact H2].
  - right. right. exists hs. now right.
Qed.

Lemma retired_cons : forall e hist h, retired hist h -> retired (e :: hist) h.
Proof.
  intros e hist h [H|[(cs & H)|(hs & h' & H1 & H2)]].
  - left. now right.
  - right. left. exists cs. now right.
  - right. right. exists hs, h'. split; [now right|exact H2].
Qed.

Lemma copy_item_spec : forall h n s hs s',
  store_ok s -> In h (s_open s) -> copy_item h n s = (hs, s') ->
  store_ok s' /\ Permutation (s_open s') (remove_one h (s_open s) ++ hs) /\
  List.length hs = copy_len n /\ s_next s <= s_next s'.
Proof.
  intros h n s hs s' (Hnd & Hlt & Hc & Hcp & Hmg & Hop) Hin Hcopy. unfold copy_item, copy_len in *.
  destruct (n <? 2)%Z eqn:En.
  - inversion Hcopy; subst hs s'.
    split; [exact (conj Hnd (conj Hlt (conj Hc (conj Hcp (conj Hmg Hop)))))|]. split; [|split; [reflexivity|lia]].
    rewrite (remove_one_in_perm h (s_open s) Hin) at 1.
    change (h :: remove_one h (s_open s)) with ([h] ++ remove_one h (s_open s)). apply Permutation_app_comm.
  - inversion Hcopy; subst hs s'; clear Hcopy. simpl. apply Z.ltb_ge in En.
    assert (Hrem : Permutation (s_open s) (h :: remove_one h (s_open s))) by now apply remove_one_in_perm.
    assert (Hsub : forall x, In x (remove_one h (s_open s)) -> In x (s_open s)).
    { intros x Hx. eapply Permutation_in; [symmetry; exact Hrem|right; exact Hx]. }
    set (cs := fresh_handles (s_next s) (Z.to_nat n)) in *.
    split; [split; [|split]|split; [reflexivity|split; [apply fresh_handles_length|lia]]].
    + simpl. apply NoDup_app_intro.
      * eapply Permutation_NoDup in Hnd; [|exact Hrem]. now inversion Hnd.
      * apply fresh_handles_nodup.
      * intros x Hx Hy. apply Hsub in Hx. apply Hlt in Hx. apply fresh_handles_in in Hy. lia.
    + intros x Hx. simpl in *. apply in_app_or in Hx as [Hx|Hx].
      * apply Hsub in Hx. apply Hlt in Hx. lia.
      * apply fresh_handles_in in Hx. lia.
    + unfold hist_ok. simpl. split; [|split; [|split]].
      * intros x [Hx|[(p & cs' & [E|Hp] & Hx)|(ms & [E|Hm])]]; try discriminate.
        -- destruct Hx as [E|Hx]; [discriminate|].
           assert (Hcr : created (s_hist s) x) by now left.
           destruct (Hc x Hcr) as [Hl [Ho|Hr]]; split; try lia.
           ++ destruct (N.eq_dec x h) as [->|Hne]; [right; right; left; exists cs; now left|].
              left. apply in_or_app. left. now apply remove_one_in_other_h.
           ++ right. now apply retired_cons.
        -- inversion E; subst p cs'. apply fresh_handles_in in Hx. split; [lia|]. left. apply in_or_app. right.
           unfold cs. unfold fresh_handles. apply in_map_iff. exists (N.to_nat (x - s_next s)). split; [lia|]. apply in_seq. lia.
        -- assert (Hcr : created (s_hist s) x) by (right; left; eauto).
           destruct (Hc x Hcr) as [Hl [Ho|Hr]]; split; try lia.
           ++ destruct (N.eq_dec x h) as [->|Hne]; [right; right; left; exists cs; now left|].
              left. apply in_or_app. left. now apply remove_one_in_other_h.
           ++ right. now apply retired_cons.
        -- assert (Hcr : created (s_hist s) x) by (right; right; eauto).
           destruct (Hc x Hcr) as [Hl [Ho|Hr]]; split; try lia.
           ++ destruct (N.eq_dec x h) as [->|Hne]; [right; right; left; exists cs; now left|].
              left. apply in_or_app. left. now apply remove_one_in_other_h.
           ++ right. now apply retired_cons.
      * intros p cs' [E|Hp] c Hcin.
        -- inversion E; subst p cs'. apply fresh_handles_in in Hcin. apply Hlt in Hin. lia.
        -- eapply Hcp; eauto.
      * intros ms h' [E|Hm] x Hx; [discriminate|]. eapply Hmg; eauto.
      * intros x Hx. apply in_app_or in Hx as [Hx|Hx].
        -- apply created_cons. apply Hop. now apply Hsub.
        -- right. left. exists h, cs. split; [now left|exact Hx].
Qed.

(* ------------------------------------------------------------------ uniqueKeys and the map writes *)
Lemma memb_in : forall k l, memb k l = true <-> In k l.
Proof.
  intros. unfold memb. rewrite existsb_exists. split.
  - intros (x & Hx & He). apply N.eqb_eq in He. now subst.
  - intros H. exists k. split; [exact H|apply N.eqb_refl].
Qed.

Lemma unique_from_spec : forall l seen,
  NoDup (unique_from seen l) /\
  (forall k, In k (unique_from seen l) <-> (In k l /\ ~ In k seen)).
Proof.
  induction l as [|x l IH]; intros seen; simpl.
  - split; [constructor|]. intros k; tauto.
  - destruct (memb x seen) eqn:Em.
    + apply memb_in in Em. destruct (IH seen) as [Hnd Hiff]. split; [exact Hnd|].
      intros k. rewrite Hiff. split; [tauto|]. intros [[->|H] Hn]; tauto.
    + assert (Hx : ~ In x seen) by (intros H; apply memb_in in H; congruence).
      destruct (IH (x :: seen)) as [Hnd Hiff]. split.
      * constructor; [|exact Hnd]. rewrite Hiff. simpl. tauto.
      * intros k. simpl. rewrite Hiff. simpl. split.
        -- intros [->|[H1 H2]]; [tauto|]. split; [tauto|]. intros H. apply H2. now right.
        -- intros [[->|H1] H2]; [now left|]. destruct (N.eq_dec x k) as [->|Hne]; [now left|].
           right. split; [exact H1|]. intros [H|H]; [congruence|contradiction].
Qed.

Lemma unique_keys_nodup : forall l, NoDup (unique_keys l).
Proof. intros. apply (unique_from_spec l []). Qed.

Lemma unique_keys_in : forall l k, In k (unique_keys l) <-> In k l.
Proof. intros. unfold unique_keys. rewrite (proj2 (unique_from_spec l [])). simpl. tauto. Qed.

Lemma unique_from_length : forall l seen, (List.length (unique_from seen l) <= List.length l)%nat.
Proof.
  induction l as [|x l IH]; intros seen; simpl; [lia|].
  destruct (memb x seen); simpl; [specialize (IH seen)|specialize (IH (x :: seen))]; lia.
Qed.

Lemma unique_keys_length : forall l, (List.length (unique_keys l) <= List.length l)%nat.
Proof. intros. apply unique_from_length. Qed.

Lemma map_assign_fresh : forall k h m, ~ In k (map fst m) -> map_assign k h m = m ++ [(k, h)].
Proof.
  induction m as [|[k' h'] m IH]; simpl; intros Hn; [reflexivity|].
  destruct (N.eqb_spec k k') as [->|Hne]; [tauto|]. rewrite IH; tauto.
Qed.

Lemma assign_all_nodup : forall next vs m,
  NoDup next -> (forall k, In k next -> ~ In k (map fst m)) -> (List.length next <= List.length vs)%nat ->
  assign_all next vs m = Ok (m ++ combine next vs).
Proof.
  induction next as [|k next IH]; intros vs m Hnd Hfresh Hlen; simpl.
  - now rewrite app_nil_r.
  - destruct vs as [|h vs]; simpl in Hlen; [lia|]. inversion Hnd; subst.
    rewrite map_assign_fresh by (apply Hfresh; now left).
    rewrite IH; [now rewrite <- app_assoc|exact H2| |lia].
    intros k' Hk'. rewrite map_app. simpl. intros Hin. apply in_app_or in Hin as [Hin|[<-|[]]].
    + eapply Hfresh; [right; exact Hk'|exact Hin].
    + contradiction.
Qed.

Lemma combine_snd_firstn : forall (A B : Type) (a : list A) (b : list B),
  (List.length a <= List.length b)%nat -> map snd (combine a b) = firstn (List.length a) b.
Proof.
  induction a as [|x a IH]; intros b Hl; simpl; [reflexivity|].
  destruct b as [|y b]; simpl in *; [lia|]. f_equal. apply IH. lia.
Qed.

Lemma combine_fst : forall (A B : Type) (a : list A) (b : list B),
  (List.length a <= List.length b)%nat -> map fst (combine a b) = a.
Proof.
  induction a as [|x a IH]; intros b Hl; simpl; [reflexivity|].
  destruct b as [|y b]; simpl in *; [lia|]. f_equal. apply IH. lia.
Qed.

Lemma last_opt_split : forall (A : Type) (l : list A) x,
  last_opt l = Some x -> l = firstn (List.length l - 1) l ++ [x].
Proof.
  intros A l x H. unfold last_opt in H. apply nth_error_split in H as (l1 & l2 & -> & Hl).
  rewrite app_length in Hl. simpl in Hl. assert (l2 = []) by (destruct l2; [reflexivity|simpl in Hl; lia]). subst l2.
  rewrite app_length. simpl. replace (List.length l1 + 1 - 1)%nat with (List.length l1 + 0)%nat by lia.
  rewrite firstn_app_2. simpl. now rewrite app_nil_r.
Qed.

Lemma last_opt_some : forall (A : Type) (l : list A), (1 <= List.length l)%nat -> exists x, last_opt l = Some x.
Proof.
  intros A l H. unfold last_opt. destruct (nth_error l (List.length l - 1)) eqn:E; [eauto|].
  apply nth_error_None in E. lia.
Qed.

(* the shape of the first copy: the copies reserved for the successors, then one per branch *)
Lemma first_copy_split : forall (vs : list handle) w b,
  List.length vs = copy_len (Z.of_nat (w + 2 * b)) ->
  let vs' := firstn (List.length vs - b) vs in
  let bin := firstn b (skipn (w + b) vs) in
  vs = vs' ++ bin /\ List.length bin = b /\ (1 <= List.length vs')%nat /\
  (w + b <= List.length vs)%nat /\ (b <= List.length (skipn (w + b) vs))%nat /\ (b <= List.length vs)%nat /\
  (List.length vs' = Nat.max 1 (w + b))%nat.
Proof.
  intros vs w b Hlen vs' bin. subst vs' bin. unfold copy_len in Hlen.
  destruct (Z.of_nat (w + 2 * b) <? 2)%Z eqn:E.
  - apply Z.ltb_lt in E. assert (b = 0)%nat by lia. subst b.
    rewrite Nat.sub_0_r, firstn_all. change (firstn 0 (skipn (w + 0) vs)) with (@nil handle).
    rewrite app_nil_r, skipn_length. cbn [Datatypes.length]. repeat split; try lia.
  - apply Z.ltb_ge in E. rewrite Nat2Z.id in Hlen.
    replace (List.length vs - b)%nat with (w + b)%nat by lia.
    assert (Hs : List.length (skipn (w + b) vs) = b) by (rewrite skipn_length; lia).
    rewrite (firstn_all2 (skipn (w + b) vs)) by lia. rewrite firstn_skipn, firstn_length.
    repeat split; try lia.
Qed.

(* ------------------------------------------------------------------ resolveCompletedTasks, one task *)
Definition next_keys (t : task) : list key := unique_keys (selected t ++ t_write_to t).

(* permutations of handle lists by counting occurrences *)
Definition cnt (l : list handle) (x : handle) : nat := count_occ N.eq_dec l x.
Lemma perm_cnt : forall a b, Permutation a b <-> (forall x, cnt a x = cnt b x).
Proof. intros. apply Permutation_count_occ. Qed.
Lemma cnt_app : forall a b x, cnt (a ++ b) x = (cnt a x + cnt b x)%nat.
Proof. intros. apply count_occ_app. Qed.
Lemma cnt_cons : forall h a x, cnt (h :: a) x = (cnt [h] x + cnt a x)%nat.
Proof. intros. change (h :: a) with ([h] ++ a). apply cnt_app. Qed.
Lemma cnt_nil : forall x, cnt [] x = 0%nat.
Proof. reflexivity. Qed.

Lemma resolve_task_perm : forall t out s,
  store_ok s -> In out (s_open s) ->
  exists r, resolve_task t out s = Ok r /\
    store_ok (r_store r) /\
    Permutation (s_open (r_store r))
                (remove_one out (s_open s) ++ r_branch_in r ++ map snd (r_writes r) ++ r_closed r) /\
    map fst (r_writes r) = next_keys t /\
    List.length (r_branch_in r) = List.length (t_branches t).
Proof.
  intros t out s Hok Hin. unfold resolve_task.
  set (w := List.length (t_write_to t)). set (b := List.length (t_branches t)).
  fold (next_keys t). set (next := next_keys t).
  destruct (copy_item out (Z.of_nat (w + 2 * b)) s) as [vs s1] eqn:E1.
  destruct (copy_item_spec _ _ _ _ _ Hok Hin E1) as (Hok1 & HP1 & Hlen1 & _).
  destruct (first_copy_split vs w b Hlen1) as (Hsplit & Hbin & Hvs1 & Hl1 & Hl2 & Hl3 & Hvs').
  set (vs' := firstn (List.length vs - b) vs) in *.
  set (bin := firstn b (skipn (w + b) vs)) in *.
  replace (Nat.ltb (List.length vs) (w + b)) with false by (symmetry; apply Nat.ltb_ge; lia).
  replace (Nat.ltb (List.length (skipn (w + b) vs)) b) with false by (symmetry; apply Nat.ltb_ge; lia).
  replace (Nat.ltb (List.length vs) b) with false by (symmetry; apply Nat.ltb_ge; lia).
  assert (Hnd : NoDup next) by apply unique_keys_nodup.
  rewrite perm_cnt in HP1.
  destruct (0 <? Z.of_nat (List.length next) - Z.of_nat (List.length vs'))%Z eqn:Ec.
  - (* the branches generated more successors than copies were reserved *)
    apply Z.ltb_lt in Ec.
    destruct (last_opt_some _ vs' Hvs1) as (l & Hl). rewrite Hl.
    pose proof (last_opt_split _ _ _ Hl) as Hvs'split.
    set (pre := firstn (List.length vs' - 1) vs') in *.
    destruct (copy_item l (Z.of_nat (List.length next) - Z.of_nat (List.length vs') + 1) s1) as [nvs s2] eqn:E2.
    assert (HP1' : Permutation (s_open s1) (l :: (remove_one out (s_open s) ++ pre ++ bin))).
    { apply perm_cnt. intros x. rewrite HP1, Hsplit, Hvs'split. rewrite cnt_cons, !cnt_app. lia. }
    assert (Hl_in : In l (s_open s1)).
    { eapply Permutation_in; [symmetry; exact HP1'|]. now left. }
    destruct (copy_item_spec _ _ _ _ _ Hok1 Hl_in E2) as (Hok2 & HP2 & Hlen2 & _).
    apply remove_one_perm_cons in HP1'. rewrite perm_cnt in HP1', HP2.
    assert (Hnvs : List.length nvs = (List.length next - List.length vs' + 1)%nat).
    { rewrite Hlen2. unfold copy_len.
      replace (Z.of_nat (List.length next) - Z.of_nat (List.length vs') + 1 <? 2)%Z with false
        by (symmetry; apply Z.ltb_ge; lia). lia. }
    assert (Hpre : List.length pre = (List.length vs' - 1)%nat) by (subst pre; rewrite firstn_length; lia).
    assert (Hfull : List.length (pre ++ nvs) = List.length next) by (rewrite app_length; lia).
    simpl. rewrite assign_all_nodup; [|exact Hnd|intros k _ []|lia]. simpl.
    eexists. split; [reflexivity|]. simpl. split; [exact Hok2|]. split; [|split].
    + rewrite combine_snd_firstn by lia. rewrite <- Hfull, firstn_all, skipn_all, app_nil_r.
      apply perm_cnt. intros x. rewrite HP2, !cnt_app, HP1', !cnt_app. lia.
    + apply combine_fst. lia.
    + exact Hbin.
  - (* enough copies: the spare ones are closed *)
    apply Z.ltb_ge in Ec. simpl.
    rewrite assign_all_nodup; [|exact Hnd|intros k _ []|lia]. simpl.
    eexists. split; [reflexivity|]. simpl. split; [exact Hok1|]. split; [|split].
    + rewrite combine_snd_firstn by lia.
      apply perm_cnt. intros x. rewrite HP1, Hsplit, !cnt_app.
      rewrite <- (firstn_skipn (List.length next) vs') at 1. rewrite cnt_app. lia.
    + apply combine_fst. lia.
    + exact Hbin.
Qed.

(* ------------------------------------------------------------------ updateValues *)
Lemma update_values_perm : forall t writes,
  Permutation (map snd writes)
              (map snd (u_chan (update_values t writes)) ++ u_closed (update_values t writes)).
Proof.
  intros t writes. unfold update_values. simpl. induction writes as [|[k h] ws IH]; simpl; [constructor|].
  destruct (is_data_pred t k); simpl.
  - now constructor.
  - rewrite IH. apply Permutation_middle.
Qed.

Lemma update_values_count : forall t writes,
  (List.length (u_chan (update_values t writes)) + List.length (u_closed (update_values t writes)) = List.length writes)%nat.
Proof.
  intros. pose proof (Permutation_length (update_values_perm t writes)) as H.
  rewrite app_length, !map_length in H. lia.
Qed.

(* ------------------------------------------------------------------ core statements *)
Lemma init_store_ok : forall h, store_ok (init_store h).
Proof.
  intros h. split; [|split]; simpl.
  - constructor; [intros []|constructor].
  - intros x [<-|[]]. lia.
  - unfold hist_ok. simpl. split; [|split; [|split]].
    + intros x [[E|[]]|[(p & cs & [E|[]] & _)|(hs & [E|[]])]]; try discriminate.
      inversion E; subst x. split; [lia|]. left. now left.
    + intros p cs [E|[]]. discriminate.
    + intros hs h' [E|[]]. discriminate.
    + intros x [<-|[]]. left. now left.
Qed.

(* handle level: after resolveCompletedTasks + updateValues every live handle derived from the
   task's output is held by exactly one consumer, and nothing else changed in the store *)
Lemma every_copy_has_one_consumer_l : forall t out s,
  store_ok s -> In out (s_open s) ->
  exists r, resolve_task t out s = Ok r /\
    let u := update_values t (r_writes r) in
    NoDup (s_open (r_store r)) /\
    Permutation (s_open (r_store r))
                (remove_one out (s_open s) ++
                 r_branch_in r ++ map snd (u_chan u) ++ (u_closed u ++ r_closed r)) /\
    map fst (r_writes r) = next_keys t /\
    List.length (r_branch_in r) = List.length (t_branches t).
Proof.
  intros t out s Hok Hin. destruct (resolve_task_perm t out s Hok Hin) as (r & Hr & Hok' & HP & Hk & Hb).
  exists r. split; [exact Hr|]. cbv zeta. repeat split; [apply Hok'| |exact Hk|exact Hb].
  pose proof (update_values_perm t (r_writes r)) as HU. rewrite perm_cnt in HP, HU.
  apply perm_cnt. intros x. rewrite HP, !cnt_app, HU, !cnt_app. lia.
Qed.

(* count level, as in DESIGN §5: copies made = channel writes + branch evaluations + explicit closes *)
Lemma copies_eq_consumers_l : forall t,
  exists a, account_task t = Ok a /\
    a_handles a = (a_branch_evals a + a_chan_writes a + a_closes a)%nat /\
    a_branch_evals a = List.length (t_branches t) /\
    (a_chan_writes a + a_update_closes a)%nat = List.length (next_keys t) /\
    a_closes a = (a_resolve_closes a + a_update_closes a)%nat.
Proof.
  intros t. unfold account_task.
  destruct (resolve_task_perm t 0 (init_store 0) (init_store_ok 0)) as (r & Hr & Hok' & HP & Hk & Hb); [now left|].
  rewrite Hr. simpl. eexists. split; [reflexivity|]. unfold account_of. simpl.
  pose proof (update_values_count t (r_writes r)) as HU. unfold update_values in HU. simpl in HU.
  apply Permutation_length in HP. simpl in HP.
  rewrite !app_length, map_length in HP.
  assert (Hw : List.length (r_writes r) = List.length (next_keys t)) by (rewrite <- Hk; now rewrite map_length).
  repeat split; lia.
Qed.

Lemma balanced_l : forall t, exists a, account_task t = Ok a /\ balanced a = true.
Proof.
  intros t. destruct (copies_eq_consumers_l t) as (a & Ha & H1 & _). exists a. split; [exact Ha|].
  unfold balanced. now apply Nat.eqb_eq.
Qed.

(* every generated successor receives exactly one value *)
Lemma successors_once_l : forall t out s r,
  store_ok s -> In out (s_open s) -> resolve_task t out s = Ok r ->
  NoDup (map fst (r_writes r)) /\
  (forall k, In k (map fst (r_writes r)) <-> In k (selected t) \/ In k (t_write_to t)).
Proof.
  intros t out s r Hok Hin Hr. destruct (resolve_task_perm t out s Hok Hin) as (r' & Hr' & _ & _ & Hk & _).
  rewrite Hr in Hr'. inversion Hr'; subst r'. rewrite Hk. unfold next_keys. split.
  - apply unique_keys_nodup.
  - intros k. rewrite unique_keys_in, in_app_iff. tauto.
Qed.

(* ---- the defect F-C19 on the code before the repair, by evaluation *)
Definition witness_none : task :=
  {| t_node := 2; t_write_to := [1];
     t_branches := [ {| b_nodata := false; b_ends := [3; 4]; b_sel := [] |} ] |}.
Definition witness_twice : task :=
  {| t_node := 2; t_write_to := [3];
     t_branches := [ {| b_nodata := false; b_ends := [3; 4]; b_sel := [3] |} ] |}.

Lemma v0_refuted_l :
  ~ (forall t a, account_task_v0 t = Ok a ->
       a_handles a = (a_branch_evals a + a_chan_writes a + a_closes a)%nat).
Proof.
  intros H. specialize (H witness_none). vm_compute in H. specialize (H _ eq_refl). discriminate.
Qed.

Lemma v0_twice_refuted_l :
  ~ (forall t a, account_task_v0 t = Ok a ->
       a_handles a = (a_branch_evals a + a_chan_writes a + a_closes a)%nat).
Proof.
  intros H. specialize (H witness_twice). vm_compute in H. specialize (H _ eq_refl). discriminate.
Qed.

(* ---- callback copies: one copy per handler plus the continuing stream *)
Lemma on_with_stream_handle_spec : forall n h s next given s',
  store_ok s -> In h (s_open s) -> on_with_stream_handle n h s = (next, given, s') ->
  store_ok s' /\
  Permutation (s_open s') (remove_one h (s_open s) ++ given ++ [next]) /\
  List.length given = n.
Proof.
  intros n h s next given s' Hok Hin H. unfold on_with_stream_handle in H. destruct n as [|n].
  - inversion H; subst next given s'. split; [exact Hok|]. split; [|reflexivity]. simpl.
    rewrite (remove_one_in_perm h (s_open s) Hin) at 1. apply Permutation_cons_append.
  - destruct (copy_item h (Z.of_nat (S n + 1)) s) as [cs s1] eqn:E. inversion H; subst next given s'; clear H.
    destruct (copy_item_spec _ _ _ _ _ Hok Hin E) as (Hok1 & HP & Hlen & _).
    assert (Hl : List.length cs = (S n + 1)%nat).
    { rewrite Hlen. unfold copy_len. replace (Z.of_nat (S n + 1) <? 2)%Z with false by (symmetry; apply Z.ltb_ge; lia). lia. }
    assert (Hne : cs <> []) by (intros ->; simpl in Hl; lia).
    split; [exact Hok1|]. split.
    + rewrite HP. apply Permutation_app_head. now rewrite <- app_removelast_last.
    + pose proof (app_removelast_last h Hne) as Es. apply (f_equal (@List.length handle)) in Es.
      rewrite app_length in Es. simpl in Es. lia.
Qed.

(* ---- every stream is released: closed or drained by a consumer, or — a stream that was copied —
   all its copies are released, or — a stream that was merged — the merged stream is released
   (closing the last copy closes the source, schema/stream.go parentStreamReader.close; closing a
   merged stream closes its sources, multiStreamReader.close; the same for reading them to EOF) *)
Inductive released (hist : list hev) : handle -> Prop :=
| rel_consume : forall h, In (HConsume h) hist -> released hist h
| rel_copy : forall h cs, In (HCopy h cs) hist -> (forall c, In c cs -> released hist c) -> released hist h
| rel_merge : forall hs h h', In (HMerge hs h') hist -> In h hs -> released hist h' -> released hist h.

Lemma all_released : forall s, store_ok s -> s_open s = [] ->
  forall h, created (s_hist s) h -> released (s_hist s) h.
Proof.
  intros s (_ & _ & Hc & Hcp & Hmg & _) Hopen.
  assert (Hind : forall n h, (N.to_nat (s_next s - h) <= n)%nat -> created (s_hist s) h -> released (s_hist s) h).
  { induction n as [|n IH]; intros h Hn Hcr.
    - destruct (Hc h Hcr) as [Hl _]. lia.
    - destruct (Hc h Hcr) as [Hl [Ho|[Hr|[(cs & Hr)|(hs & h' & Hr & Hin)]]]].
      + rewrite Hopen in Ho. destruct Ho.
      + now apply rel_consume.
      + apply (rel_copy _ h cs Hr). intros c Hcin.
        pose proof (Hcp h cs Hr c Hcin) as Hlt.
        assert (Hcc : created (s_hist s) c) by (right; left; eauto).
        destruct (Hc c Hcc) as [Hlc _]. apply IH; [lia|exact Hcc].
      + pose proof (Hmg hs h' Hr h Hin) as Hlt.
        assert (Hcc : created (s_hist s) h') by (right; right; eauto).
        destruct (Hc h' Hcc) as [Hlc _]. apply (rel_merge _ hs h h' Hr Hin). apply IH; [lia|exact Hcc]. }
  intros h Hcr. eapply Hind; [apply Nat.le_refl|exact Hcr].
Qed.

(* ---- "drained or closed", literally.  A consumer ends with its handle either by closing it or by
   reading it to EOF ([drains h]).  The propagation rules of schema/stream.go:
     closed:  a copied stream is closed when ALL its copies are (parentStreamReader.close: the last
              child closes the source); the sources of a merged stream are closed when it is
              (multiStreamReader.close)
     drained: a copied stream has been read to EOF as soon as ONE copy has (the children pull the shared
              source); a merged stream ends only after every source has ended, so draining it drains them
   Whatever the consumers do, every released stream is closed or drained at its source. *)
Section DrainedOrClosed.
Variable drains : handle -> bool.

Inductive sclosed (hist : list hev) : handle -> Prop :=
| sc_consume : forall h, In (HConsume h) hist -> drains h = false -> sclosed hist h
| sc_copy : forall h cs, In (HCopy h cs) hist -> (forall c, In c cs -> sclosed hist c) -> sclosed hist h
| sc_merge : forall hs h h', In (HMerge hs h') hist -> In h hs -> sclosed hist h' -> sclosed hist h.

Inductive sdrained (hist : list hev) : handle -> Prop :=
| sd_consume : forall h, In (HConsume h) hist -> drains h = true -> sdrained hist h
| sd_copy : forall h cs c, In (HCopy h cs) hist -> In c cs -> sdrained hist c -> sdrained hist h
| sd_merge : forall hs h h', In (HMerge hs h') hist -> In h hs -> sdrained hist h' -> sdrained hist h.

Lemma all_or_some : forall (P Q : handle -> Prop) (cs : list handle),
  (forall c, In c cs -> P c \/ Q c) -> (forall c, In c cs -> P c) \/ (exists c, In c cs /\ Q c).
Proof.
  intros P Q. induction cs as [|a cs IH]; intros H.
  - left. intros c [].
  - destruct (H a (or_introl eq_refl)) as [Ha|Ha].
    + destruct (IH (fun c Hc => H c (or_intror Hc))) as [Hall|(c & Hc & Hq)].
      * left. intros c [<-|Hc]; auto.
      * right. exists c. split; [now right|exact Hq].
    + right. exists a. split; [now left|exact Ha].
Qed.

Lemma released_closed_or_drained : forall hist h, released hist h -> sclosed hist h \/ sdrained hist h.
Proof.
  intros hist h H. induction H as [h Hc|h cs Hcp _ IH|hs h h' Hm Hin _ IH].
  - destruct (drains h) eqn:E; [right; now apply sd_consume|left; now apply sc_consume].
  - destruct (all_or_some _ _ cs IH) as [Hall|(c & Hc & Hd)].
    + left. now apply (sc_copy hist h cs).
    + right. now apply (sd_copy hist h cs c).
  - destruct IH as [Hc|Hd]; [left; now apply (sc_merge hist hs h h')|right; now apply (sd_merge hist hs h h')].
Qed.
End DrainedOrClosed.
