(* Proofs/IsolationCancel.v — property C09, clause "runs do not share … callback context": the
   context of a call is the call's own.  In the engine model the moment at which a run finds its
   context cancelled ([rs_cancel], checked at the top of every iteration of the main loop,
   compose/graph_run.go:273) is per-run data like the option map and the step limit: it never
   changes during the run, whatever runs beside it; a cancelled call returns — in ANY trigger
   mode, all-predecessor graphs included — within (n + 1) supersteps; and since every call is the
   call it is alone (engine_concurrent_equals_solo), cancelling one call cancels no other. *)
From Eino Require Import Base.Util Model.Isolation Model.IsolationEngine Proofs.Isolation Proofs.IsolationDriver Proofs.IsolationEngine.
From Coq Require Import Lia.

Section Sstep1.
  Variable run_sub : graph -> val -> list copt -> option stv -> out val * option stv * list string.

  Lemma sstep1_keeps_cancel : forall g r r', sstep1 run_sub g r = Some r' -> rs_cancel r' = rs_cancel r.
  Proof.
    intros g r r' H. unfold sstep1 in H.
    destruct (rs_res r); try discriminate.
    destruct (cancelled r). { inversion H; subst; reflexivity. }
    destruct (negb (g_dag g) && Nat.leb (rs_max r) (rs_steps r)). { inversion H; subst; reflexivity. }
    destruct (rs_next r) as [|t ts]. { inversion H; subst; reflexivity. }
    destruct (run_pres g (t :: ts) (rs_st r)) as [[tasks1 st1] ev1].
    destruct (run_nodes run_sub g (rs_opts r) tasks1 st1) as [[[done err] st2] ev2].
    destruct err. { inversion H; subst; reflexivity. }
    inversion H; subst; clear H.
    match goal with |- context [next_tasks ?g ?d ?r0 ?e] => destruct (next_tasks_fields g d r0 e) as (_ & _ & _ & _ & E) end.
    rewrite E. reflexivity.
  Qed.

  (* a run whose context is found cancelled ends there, with the error of the cancelled context *)
  Lemma sstep1_cancelled : forall g r, rs_res r = None -> cancelled r = true ->
    exists r', sstep1 run_sub g r = Some r' /\ rs_res r' = Some (Fail "other"%string).
  Proof.
    intros g r Hr Hc. unfold sstep1. rewrite Hr, Hc. eexists; split; reflexivity.
  Qed.
End Sstep1.

Lemma sstep_keeps_cancel : forall d g r r', sstep d g r = Some r' -> rs_cancel r' = rs_cancel r.
Proof. intros d g r r' H. destruct (sstep_unfold d g r) as (rs & E). rewrite E in H. eapply sstep1_keeps_cancel; eauto. Qed.

Lemma sstep_cancelled : forall d g r, rs_res r = None -> cancelled r = true ->
  exists r', sstep d g r = Some r' /\ rs_res r' = Some (Fail "other"%string).
Proof. intros d g r A B. destruct (sstep_unfold d g r) as (rs & E). rewrite E. apply sstep1_cancelled; auto. Qed.

(* the moment of cancellation bounds the number of supersteps, in every trigger mode *)
Lemma cancel_bounded_gen : forall c n,
  forall k r, rs_cancel r = Some n -> n - rs_steps r <= k -> rs_res (iter_opt (S k) (estep c) r) <> None.
Proof.
  intros c n. induction k as [|k IH]; intros r Hc Hk.
  - simpl. destruct (rs_res r) as [o|] eqn:Er.
    + unfold estep. rewrite (sstep_final _ _ _ o Er). rewrite Er; discriminate.
    + assert (Hcan : cancelled r = true).
      { unfold cancelled. rewrite Hc. apply Nat.leb_le. lia. }
      destruct (sstep_cancelled (co_depth c) (co_graph c) r Er Hcan) as (r' & E & F).
      unfold estep. rewrite E. rewrite F. discriminate.
  - destruct (rs_res r) as [o|] eqn:Er.
    + simpl. unfold estep at 1. rewrite (sstep_final _ _ _ o Er). rewrite Er; discriminate.
    + destruct (sstep_progress (co_depth c) (co_graph c) r Er) as (r' & E).
      change (iter_opt (S (S k)) (estep c) r) with
        (match estep c r with None => r | Some a' => iter_opt (S k) (estep c) a' end).
      unfold estep at 1. rewrite E.
      pose proof (sstep_keeps_cancel _ _ _ _ E) as Hc'.
      destruct (sstep_measure _ _ _ _ E) as (_ & _ & [Hres | Hst]).
      * destruct (rs_res r') as [o|] eqn:Er'; [|congruence].
        simpl. unfold estep at 1. rewrite (sstep_final _ _ _ o Er'). rewrite Er'. discriminate.
      * apply IH; [congruence|]. rewrite Hst. lia.
Qed.

(* what a call starts from: no superstep done, the call's own moment of cancellation — or a
   result already (options that designate nothing that exists) *)
Lemma einit_cancel : forall c k,
  rs_res (einit c k) <> None \/ (rs_cancel (einit c k) = ca_cancel k /\ rs_steps (einit c k) = 0).
Proof.
  intros c k. unfold einit.
  destruct (check_opts (co_depth c) (g_nodes (co_graph c)) (ca_opts k)); [|left; discriminate].
  unfold run_init.
  destruct (extract_opts (g_nodes (co_graph c)) (ca_opts k) []) as [om|e]; [|left; discriminate].
  right.
  match goal with |- context [next_tasks ?g ?d ?r0 ?e] => destruct (next_tasks_fields g d r0 e) as (A & _ & _ & _ & E) end.
  rewrite A, E. split; reflexivity.
Qed.

(* a call whose context is cancelled during its superstep n-1 has returned after n+1 supersteps:
   any compiled object, any trigger mode (the all-predecessor graphs have no step limit) *)
Theorem engine_cancelled_call_returns : forall (c : cobj) k n, ca_cancel k = Some n -> erun c (S n) k <> None.
Proof.
  intros c k n Hn. unfold erun.
  assert (H : rs_res (iter_opt (S n) (estep c) (einit c k)) <> None).
  { destruct (einit_cancel c k) as [Hres | [Hc Hs]].
    - destruct (rs_res (einit c k)) as [o|] eqn:Er; [|congruence].
      simpl. unfold estep at 1. rewrite (sstep_final _ _ _ o Er). rewrite Er. discriminate.
    - apply (cancel_bounded_gen c n n (einit c k)); [congruence|lia]. }
  unfold cobs, eobs. destruct (rs_res (iter_opt (S n) (estep c) (einit c k))) as [[v|e]|]; congruence.
Qed.

(* the context of a call is its own at every moment of every interleaving: the moment at which
   run i finds its context cancelled is the one call i brought, whatever the other runs do
   (cancel their own contexts, fail, return) *)
Theorem engine_context_fixed : forall (c : cobj) (ks : list call) sched c' rs',
  grun (lift estep) sched (c, map (einit c) ks) = Some (c', rs') ->
  forall i k r', nth_error ks i = Some k -> nth_error rs' i = Some r' ->
    rs_cancel r' = rs_cancel (einit c k).
Proof.
  intros c ks sched c' rs' G i k r' Hk Hr'.
  destruct (runs_non_interfering_pure _ _ estep _ _ _ _ _ G) as (_ & _ & Hall).
  assert (Hi : nth_error (map (einit c) ks) i = Some (einit c k)) by (rewrite nth_error_map, Hk; reflexivity).
  destruct (Hall i _ Hi) as (r1 & Hr1 & Hit & _). rewrite Hr' in Hr1; inversion Hr1; subst r1; clear Hr1.
  revert Hit. generalize (count i sched) (einit c k). clear.
  induction n as [|n IH]; simpl; intros r Hit.
  - inversion Hit; subst; auto.
  - destruct (estep c r) as [r1|] eqn:E; try discriminate.
    rewrite (IH _ Hit). exact (sstep_keeps_cancel _ _ _ _ E).
Qed.

(* ---------------------------------------------------------------- non-vacuity *)

Local Open Scope string_scope.

(* the first example call with its context cancelled by node a (superstep 0) *)
Definition ex_call_cancelled : call :=
  {| ca_in := VR tagS 0 2 "in2"; ca_opts := []; ca_max := None; ca_fut := false; ca_cancel := Some 1%nat; ca_suffix := "" |}.

(* three calls interleaved superstep by superstep, the middle one cancels its own context: it
   returns the error of the cancelled context after its first superstep, the others are the calls
   they are alone *)
Lemma ex_cancel_interleaved :
  exists rs', grun (lift estep) [0; 1; 2; 1; 0; 2; 0; 2; 0; 2; 0; 2; 0; 2]%nat
                   (ex_obj, map (einit ex_obj) [ex_call1; ex_call_cancelled; ex_call3]) = Some (ex_obj, rs') /\
    all_final (lift estep) (ex_obj, rs') = true /\
    map (fun r => option_map fst (eobs false r)) rs' =
      [Some "ok:V{<tSELF> n=2 lim=2 h=({p0=V{<tSELF> n=2 lim=2 h=in2>a[o=d0]>w>w>f>p0}})>j}";
       Some "err:other"; Some "err:maxsteps"] /\
    map rs_cancel rs' = [None; Some 1%nat; None] /\
    erun ex_obj 2 ex_call_cancelled = Some ("err:other", ["n:a"]).
Proof.
  eexists. split; [vm_compute; reflexivity|]. split; [vm_compute; reflexivity|].
  split; [vm_compute; reflexivity|]. split; vm_compute; reflexivity.
Qed.
