(* Proofs/TaskMgrProgress.v — the hand-off protocol cannot hang: deadlock freedom (invariant) plus
   a variant that every protocol step decreases. No fairness is needed beyond "an executor that can
   move eventually moves", which is what quantifying over all maximal step sequences says. *)
From Eino Require Import Base.Util Model.TaskMgr Proofs.TaskMgr.
From Coq Require Import Permutation Wf_nat.

Local Notation length := List.length.

(* ------------------------------------------------------------------ variant *)

Definition w (p : stage) : nat :=
  match p with ERun => 6 | ELk => 5 | ETop => 2 | EOut => 1 | EDone => 0 end.
Definition wc (c : cpc) : nat :=
  match c with CIdle => 0 | CSync _ => 1 | CWait => 5 | CGot _ => 4 | CTop _ => 3 | CFull _ => 2 end.
Fixpoint wsum (m : list (task * (stage * bres))) : nat :=
  match m with [] => 0 | (_, (p, _)) :: m' => w p + wsum m' end.
Definition mu (s : st) : nat :=
  wsum (epcs s) + 2 * length (l s) + length (opt_list (done s)) + 6 * num s + wc (cp s).

Lemma wsum_set t p p0 b m :
  get_pc t m = Some (p0, b) -> wsum (set_st t p m) + w p0 = wsum m + w p.
Proof.
  induction m as [|[t2 [p2 b2]] m IH]; simpl; [discriminate|].
  destruct (N.eqb t t2); simpl.
  - intros H; inversion H; subst. lia.
  - intros H. specialize (IH H). lia.
Qed.

Ltac rw_all := repeat match goal with
  | H : cp _ = _ |- _ => rewrite H in *
  | H : lock _ = _ |- _ => rewrite H in *
  | H : l _ = _ :: _ |- _ => rewrite H in *
  | H : l _ = [] |- _ => rewrite H in *
  | H : done _ = Some _ |- _ => rewrite H in *
  | H : done _ = None |- _ => rewrite H in *
  | H : num _ = _ |- _ => rewrite H in *
  end.

Lemma dstep_mu a a' : dstep a a' -> mu a' < mu a.
Proof.
  intros [s1 s2 Hs Hlen]. unfold mu.
  destruct Hs; simpl in *; split_or; rw_all; simpl in *;
    try (rewrite app_length in Hlen; simpl in Hlen; lia);
    try match goal with
        | H : get_pc ?t ?m = Some (?p0, ?b) |- context [wsum (set_st ?t ?p ?m)] =>
            pose proof (wsum_set t p p0 b m H)
        end;
    subst; simpl in *; rewrite ?app_length; simpl; try lia.
Qed.

(* ------------------------------------------------------------------ deadlock freedom *)

Lemma holder_steps s x : Inv s -> lock s = HExec x -> exists s', dstep s s'.
Proof.
  intros I Hl. destruct (i_lockE s I x Hl) as (p & b & G & Hh).
  destruct p; try discriminate.
  - eexists. constructor; [eapply s_exec_push; eassumption|]. simpl. apply length_set.
  - destruct (l s) as [|y ys] eqn:El.
    + eexists. constructor; [eapply s_exec_unlock; [eassumption|eassumption|left; auto]|]. simpl. apply length_set.
    + destruct (done s) as [d|] eqn:Ed.
      * eexists. constructor; [eapply s_exec_full; [eassumption|eassumption|congruence|congruence]|]. simpl. apply length_set.
      * eexists. constructor; [eapply s_exec_send; eassumption|]. reflexivity.
  - eexists. constructor; [eapply s_exec_unlock; [eassumption|eassumption|right; reflexivity]|]. simpl. apply length_set.
Qed.

Lemma missing_key (l1 l2 : list N) :
  length l1 < length l2 -> NoDup l2 -> exists x, In x l2 /\ ~ In x l1.
Proof.
  intros Hlen Hnd.
  destruct (forallb (fun x => existsb (N.eqb x) l1) l2) eqn:E.
  - exfalso. assert (Hi : incl l2 l1).
    { intros x Hx. rewrite forallb_forall in E. specialize (E x Hx).
      apply existsb_exists in E. destruct E as (y & Hy & Heq). apply N.eqb_eq in Heq. subst. exact Hy. }
    pose proof (NoDup_incl_length Hnd Hi). lia.
  - assert (Hex : exists x, In x l2 /\ existsb (N.eqb x) l1 = false).
    { clear Hlen Hnd. induction l2 as [|a l2 IH]; simpl in E; [discriminate|].
      destruct (existsb (N.eqb a) l1) eqn:Ea.
      - simpl in E. destruct (IH E) as (x & Hx & Hf). exists x. split; [right; auto|auto].
      - exists a. split; [left; auto|auto]. }
    destruct Hex as (x & Hx & Hf). exists x. split; [assumption|].
    intros Hin. assert (existsb (N.eqb x) l1 = true).
    { apply existsb_exists. exists x. split; [assumption|apply N.eqb_refl]. }
    congruence.
Qed.

Lemma in_keys t m : In t (map fst m) -> exists p b, get_pc t m = Some (p, b).
Proof.
  intros H. destruct (get_pc t m) as [[p b]|] eqn:G; [eauto|]. apply get_pc_none in G. contradiction.
Qed.

Definition drained (s : st) : Prop := cp s = CIdle /\ num s = 0.

Lemma deadlock_free s : Inv s -> drained s \/ exists s', dstep s s'.
Proof.
  intros I. destruct (cp s) eqn:Ec.
  - (* CIdle *) destruct (num s) eqn:En.
    + left. split; assumption.
    + right. eexists. constructor; [eapply s_await; eassumption|]. reflexivity.
  - (* CSync t *) right. pose proof (i_sync s I t Ec) as Hs.
    destruct (get_pc t (epcs s)) as [[p b]|] eqn:G; [|congruence].
    destruct (holding p) eqn:Hh.
    + eapply holder_steps; [exact I|]. eapply i_hold; eauto.
    + destruct p; try discriminate.
      * (* ERun *) destruct (lock s) eqn:El.
        -- eexists. constructor; [eapply s_exec_lock; eassumption|]. simpl. apply length_set.
        -- eapply holder_steps; eauto.
        -- apply (i_lockC s I) in El. rewrite Ec in El. discriminate.
      * eexists. constructor; [eapply s_syncret; eassumption|]. reflexivity.
  - (* CWait *) right. destruct (done s) as [d|] eqn:Ed.
    + eexists. constructor; [eapply s_recv; eassumption|]. reflexivity.
    + destruct (lock s) eqn:El.
      * (* nobody holds the lock: the list is empty, so some task has not been pushed yet *)
        destruct (i_wake s I) as [Kl|(x & b1 & K1 & _)]; [rewrite Ec; reflexivity|assumption| |congruence].
        pose proof (i_count s I) as Kc. rewrite Ec in Kc. simpl in Kc.
        destruct (missing_key (map fst (collected s)) (map fst (epcs s))) as (t & Ht & Hn).
        { rewrite !map_length. unfold entry in *. lia. }
        { apply (i_keys s I). }
        destruct (in_keys _ _ Ht) as (p & b & G).
        assert (Hnp : ~ pushed s t).
        { intros Hp. apply (i_places s I) in Hp. unfold places in Hp. rewrite Kl, Ed, Ec in Hp. simpl in Hp. contradiction. }
        destruct p.
        -- eexists. constructor; [eapply s_exec_lock; eassumption|]. simpl. apply length_set.
        -- pose proof (i_hold s I _ _ _ G eq_refl). congruence.
        -- exfalso. apply Hnp. exists ETop, b. auto.
        -- exfalso. apply Hnp. exists EOut, b. auto.
        -- exfalso. apply Hnp. exists EDone, b. auto.
      * eapply holder_steps; eauto.
      * apply (i_lockC s I) in El. rewrite Ec in El. discriminate.
  - (* CGot *) right. destruct (lock s) eqn:El.
    + eexists. constructor; [eapply s_coll_lock; eassumption|]. reflexivity.
    + eapply holder_steps; eauto.
    + apply (i_lockC s I) in El. rewrite Ec in El. discriminate.
  - (* CTop *) right. destruct (l s) as [|y ys] eqn:El.
    + eexists. constructor; [eapply s_coll_unlock; left; split; eassumption|]. reflexivity.
    + destruct (done s) as [d|] eqn:Ed.
      * eexists. constructor; [eapply s_coll_full; [eassumption|congruence|congruence]|]. reflexivity.
      * eexists. constructor; [eapply s_coll_send; eassumption|]. reflexivity.
  - (* CFull *) right. eexists. constructor; [eapply s_coll_unlock; right; eassumption|]. reflexivity.
Qed.

(* ------------------------------------------------------------------ every schedule gets there *)

(* on every maximal sequence of protocol steps from s, P is reached *)
Inductive AF (P : st -> Prop) : st -> Prop :=
| af_now s : P s -> AF P s
| af_next s : (exists s', dstep s s') -> (forall s', dstep s s' -> AF P s') -> AF P s.

Lemma dstep_inv s s' : Inv s -> dstep s s' -> Inv s'.
Proof. intros I Hd. destruct Hd as [a b Hs Hl]. exact (inv_step a b I Hs). Qed.

(* J: a property that the protocol steps maintain until P holds *)
Lemma af_general (P J : st -> Prop) :
  (forall s, Inv s -> J s -> P s \/ ((exists s', dstep s s') /\ forall s', dstep s s' -> J s')) ->
  forall s, Inv s -> J s -> AF P s.
Proof.
  intros HJ s. induction s as [s IH] using (induction_ltof1 _ mu). unfold ltof in IH.
  intros I Js. destruct (HJ s I Js) as [Hp|[Hex Hall]].
  - apply af_now; assumption.
  - apply af_next; [assumption|]. intros s' Hd. apply IH.
    + apply dstep_mu; assumption.
    + eapply dstep_inv; eassumption.
    + apply Hall; assumption.
Qed.

Lemma dstep_keys s s' : dstep s s' -> map fst (epcs s') = map fst (epcs s).
Proof.
  intros [s1 s2 Hs Hlen]. destruct Hs; simpl in *; rewrite ?map_fst_set; auto;
    rewrite app_length in Hlen; simpl in Hlen; lia.
Qed.

Lemma drained_all_collected s :
  Inv s -> drained s -> Permutation (map fst (collected s)) (map fst (epcs s)).
Proof.
  intros I [Hc Hn]. pose proof (i_count s I) as Kc. rewrite Hc, Hn in Kc. simpl in Kc.
  apply NoDup_Permutation_bis.
  - pose proof (i_nodup s I) as KN. unfold places in KN. rewrite !map_app in KN.
    apply NoDup_app_r in KN. apply NoDup_app_r in KN. apply NoDup_app_r in KN. exact KN.
  - rewrite !map_length. unfold entry in *. lia.
  - intros t Ht. apply in_map_iff in Ht. destruct Ht as ([t' e] & <- & Hin). simpl.
    destruct (i_flag s I t' e) as (p & b & G & _).
    { unfold places. apply in_or_app; right. apply in_or_app; right. apply in_or_app; right. exact Hin. }
    destruct (in_dec N.eq_dec t' (map fst (epcs s))) as [Hi|Hi]; [exact Hi|].
    apply get_pc_none in Hi. congruence.
Qed.

(* waitAll: from any reachable state, whatever the interleaving, the protocol drains: the
   collector is idle, nothing is outstanding, and exactly the submitted tasks were collected *)
Lemma progress_all s :
  reach s ->
  AF (fun s' => drained s' /\ Permutation (map fst (collected s')) (map fst (epcs s))) s.
Proof.
  intros R. pose proof (inv_reach s R) as I.
  apply (af_general _ (fun s' => map fst (epcs s') = map fst (epcs s))); [|exact I|reflexivity].
  intros s1 I1 J1. destruct (deadlock_free s1 I1) as [D|Hex].
  - left. split; [exact D|]. rewrite <- J1. apply drained_all_collected; assumption.
  - right. split; [exact Hex|]. intros s2 Hd. rewrite (dstep_keys _ _ Hd). exact J1.
Qed.

(* waitOne: a collector that has started to wait gets exactly one more task, whatever the
   interleaving (eager mode calls wait once per loop iteration) *)
Definition in_wait (c : cpc) : bool := match c with CWait | CGot _ | CTop _ | CFull _ => true | _ => false end.

Lemma progress_one a :
  reach a -> cp a = CWait ->
  AF (fun s' => cp s' = CIdle /\ num s' = num a /\ exists x, collected s' = x :: collected a) a.
Proof.
  intros R Hc. pose proof (inv_reach a R) as I.
  apply (af_general _ (fun s' =>
            (in_wait (cp s') = true /\ num s' = num a /\ collected s' = collected a) \/
            (cp s' = CIdle /\ num s' = num a /\ exists x, collected s' = x :: collected a)));
    [|exact I|left; rewrite Hc; auto].
  intros s1 I1 [(Hw & Hn & Hcol)|Hdone]; [|left; exact Hdone].
  right. destruct (deadlock_free s1 I1) as [[D _]|Hex]; [rewrite D in Hw; discriminate|].
  split; [exact Hex|]. intros s2 Hd. inversion Hd as [sa sb Hs Hlen]; subst sa sb. clear Hd Hex.
  inversion Hs; subst; simpl in *; split_or; rw_all; simpl in *; try discriminate;
    try (left; repeat split; congruence);
    try (rewrite app_length in Hlen; simpl in Hlen; lia).
  - right. split; [reflexivity|]. split; [reflexivity|]. rewrite Hcol. eauto.
  - right. split; [reflexivity|]. split; [reflexivity|]. rewrite Hcol. eauto.
Qed.
