(* Proofs/RunLoop.v — lemmas about the generic run loop of Model/RunLoop.v (owner: C05/C06).
   Everything is proved inside the section over an arbitrary channel discipline
   (fold, getr), arbitrary node bodies (exec), pre-handlers and interrupt sets: the results
   hold for Pregel and DAG channels alike. *)
From Eino Require Import Base.Util Model.RunLoop.
Open Scope N_scope.

Section LoopProofs.
  Context {V CS GS ENV SCP SINFO : Type}.
  Variable zero : V.
  Variable fold : CS -> list (N * V) -> res CS.
  Variable getr : CS -> res (CS * list (N * V)).
  Variable pre : N -> V -> GS -> V * GS.
  Variable exec : N -> option SCP -> V -> ENV -> @texec V SCP SINFO * ENV.
  Variable before after : list N.

  Notation taskT := (@task V SCP).
  Notation lstateT := (@lstate V CS GS SCP).
  Notation sresT := (@sres V CS GS SCP SINFO).
  Notation texecT := (@texec V SCP SINFO).
  Notation cptT := (@checkpoint V CS GS SCP).
  Notation infT := (@iinfo GS SINFO).
  Notation decideB := (decide zero fold getr before after).
  Notation stepB := (step zero fold getr pre exec before after).
  Notation iterB := (iterate zero fold getr pre exec before after).
  Notation resumeB := (resume zero fold getr pre exec before after).
  Notation initB := (init fold getr before).
  Notation startB := (start zero fold getr pre exec before after).

  (* ------------------------------------------------------------------ *)
  (* fresh tasks, save / restore                                         *)
  (* ------------------------------------------------------------------ *)
  Definition fresh_task (t : taskT) : Prop := t_skip t = false /\ t_cp t = None.
  Definition fresh_state (s : lstateT) : Prop := Forall fresh_task (ls_next s).

  Lemma mk_task_fresh : forall kv, fresh_task (mk_task kv).
  Proof. intros kv; split; reflexivity. Qed.

  Lemma map_mk_task_fresh : forall l, Forall fresh_task (map (@mk_task V SCP) l).
  Proof. induction l; simpl; constructor; auto using mk_task_fresh. Qed.

  Lemma restore_save : forall s : lstateT, fresh_state s -> restore (save s) = s.
  Proof.
    intros [cs next gs] Hf; unfold fresh_state in Hf; simpl in Hf.
    unfold restore, save; simpl. f_equal.
    induction next as [|t next IH]; simpl; auto.
    inversion Hf as [|? ? [Hs Hc] Hf']; subst.
    rewrite IH by assumption. f_equal.
    destruct t as [k i sk cp]; simpl in *; subst; reflexivity.
  Qed.

  Lemma with_gs_id : forall s : lstateT, with_gs s (ls_gs s) = s.
  Proof. intros [cs next gs]; reflexivity. Qed.

  (* loop_split, part 1: resuming from the checkpoint that holds exactly a loop state continues
     the loop from that state (whatever the state modifier does to the graph state) *)
  Lemma resume_save : forall fuel sm (s : lstateT) env,
    fresh_state s ->
    resumeB fuel sm (save s) env = iterB fuel (with_gs s (sm (ls_gs s))) env [].
  Proof.
    intros fuel sm s env Hf. unfold resume. rewrite (restore_save s Hf). reflexivity.
  Qed.

  Lemma resume_save_id : forall fuel (s : lstateT) env,
    fresh_state s -> resumeB fuel (fun g => g) (save s) env = iterB fuel s env [].
  Proof. intros; rewrite resume_save by assumption; rewrite with_gs_id; reflexivity. Qed.

  (* ------------------------------------------------------------------ *)
  (* the shape of what one step can decide                               *)
  (* ------------------------------------------------------------------ *)
  Lemma plain_interrupt_inv : forall cs gs pending hb ha i c,
    @plain_interrupt V CS GS SCP SINFO cs gs pending hb ha = Interrupted i c ->
    i = {| ii_gs := gs; ii_before := hb; ii_after := ha; ii_rerun := []; ii_subs := [] |} /\
    c = {| cp_cs := cs; cp_inputs := pending; cp_gs := gs; cp_skip := []; cp_subs := [] |}.
  Proof. unfold plain_interrupt; intros; inversion H; auto. Qed.

  (* a plain interrupt saves exactly the loop state the run would continue from *)
  Lemma plain_interrupt_save : forall cs gs pending hb ha,
    @plain_interrupt V CS GS SCP SINFO cs gs pending hb ha =
    Interrupted {| ii_gs := gs; ii_before := hb; ii_after := ha; ii_rerun := []; ii_subs := [] |}
                (save {| ls_cs := cs; ls_next := map mk_task pending; ls_gs := gs |}).
  Proof.
    intros; unfold plain_interrupt, save; simpl. do 2 f_equal.
    rewrite map_map; simpl.
    induction pending as [|[k v] l IH]; simpl; congruence.
  Qed.

  Lemma rerun_interrupt_inv : forall cs (gs : GS) (rs : list (N * texecT)) tf pending hb ha (i : infT) (c : cptT),
    rerun_interrupt zero fold cs gs rs tf pending hb ha = Interrupted i c ->
    exists cs1, fold cs tf = Ok cs1 /\
      i = {| ii_gs := gs; ii_before := hb; ii_after := ha; ii_rerun := reruns rs; ii_subs := subinfos rs |} /\
      c = {| cp_cs := cs1;
             cp_inputs := pending ++ map (fun kc => (fst kc, zero)) (subcps rs) ++ map (fun k => (k, zero)) (reruns rs);
             cp_gs := gs; cp_skip := map fst (subcps rs); cp_subs := subcps rs |}.
  Proof.
    unfold rerun_interrupt; intros. destruct (fold cs tf) eqn:Hf; try discriminate.
    inversion H; subst. eexists; split; [reflexivity|split; reflexivity].
  Qed.

  Lemma rerun_interrupt_not_continue : forall cs (gs : GS) (rs : list (N * texecT)) tf pending hb ha (s : lstateT),
    rerun_interrupt zero fold cs gs rs tf pending hb ha <> Continue s.
  Proof. unfold rerun_interrupt; intros; destruct (fold cs tf); discriminate. Qed.

  Lemma rerun_interrupt_not_done : forall cs (gs : GS) (rs : list (N * texecT)) tf pending hb ha (v : V),
    rerun_interrupt zero fold cs gs rs tf pending hb ha <> Done v.
  Proof. unfold rerun_interrupt; intros; destruct (fold cs tf); discriminate. Qed.

  (* [decide] continues only when no interrupt point was hit, and then all tasks are fresh *)
  Lemma decide_continue : forall cs (gs1 : GS) (rs : list (N * texecT)) (s' : lstateT),
    decideB cs gs1 rs = Continue s' ->
    exists cs2 ready,
      calc fold getr cs (outs rs) = Ok (cs2, ready) /\
      first_fail rs = None /\ subcps rs = [] /\ reruns rs = [] /\ rs <> [] /\
      nlist_get kEnd ready = None /\
      hits before ready = [] /\ afters after rs = [] /\
      s' = {| ls_cs := cs2; ls_next := map mk_task ready; ls_gs := gs1 |}.
  Proof.
    unfold decide; intros cs gs1 rs s' H.
    destruct (first_fail rs) eqn:Hff; try discriminate.
    destruct (negb (is_nil (subcps rs) && is_nil (reruns rs))) eqn:Hrr.
    { exfalso; eapply rerun_interrupt_not_continue; eauto. }
    destruct (is_nil rs) eqn:Hn; try discriminate.
    destruct (calc fold getr cs (outs rs)) as [[cs2 ready]| |] eqn:Hc; try discriminate.
    destruct (nlist_get kEnd ready) eqn:He; try discriminate.
    destruct (is_nil (hits before ready) && is_nil (afters after rs)) eqn:Hh.
    - inversion H; subst. exists cs2, ready.
      apply negb_false_iff in Hrr. apply andb_prop in Hrr as [H1 H2]. apply andb_prop in Hh as [H3 H4].
      repeat split; auto.
      + destruct (subcps rs); [reflexivity|discriminate].
      + destruct (reruns rs); [reflexivity|discriminate].
      + intro; subst; discriminate.
      + destruct (hits before ready); [reflexivity|discriminate].
      + destruct (afters after rs); [reflexivity|discriminate].
    - destruct (calc fold getr cs2 []) as [[cs4 ready2]| |]; try discriminate.
      destruct (nlist_get kEnd ready2); discriminate.
  Qed.

  Lemma decide_continue_fresh : forall cs (gs1 : GS) (rs : list (N * texecT)) (s' : lstateT),
    decideB cs gs1 rs = Continue s' -> fresh_state s'.
  Proof.
    intros cs gs1 rs s' H. apply decide_continue in H as (cs2 & ready & _ & _ & _ & _ & _ & _ & _ & _ & ->).
    unfold fresh_state; simpl. apply map_mk_task_fresh.
  Qed.

  (* ------------------------------------------------------------------ *)
  (* step = submit ; decide                                              *)
  (* ------------------------------------------------------------------ *)
  Definition submitted (s : lstateT) : list taskT * GS := run_pres pre (ls_next s) (ls_gs s).
  Definition results (s : lstateT) (env : ENV) : list (N * texecT) * ENV := exec_all exec (fst (submitted s)) env.

  Lemma step_unfold : forall bf af s env,
    step zero fold getr pre exec bf af s env =
      (decide zero fold getr bf af (ls_cs s) (snd (submitted s)) (fst (results s env)),
       events_of (fst (submitted s)) (fst (results s env)), snd (results s env)).
  Proof.
    intros bf af s env. unfold step, results, submitted.
    destruct (run_pres pre (ls_next s) (ls_gs s)) as [ts gs1]; simpl.
    destruct (exec_all exec ts env) as [rs env1]; reflexivity.
  Qed.

  Lemma run_pres_keys : forall ts gs, map t_key (fst (run_pres pre ts gs)) = map (@t_key V SCP) ts.
  Proof.
    induction ts as [|t ts IH]; intros gs; simpl; auto.
    destruct (if t_skip t then (t_in t, gs) else pre (t_key t) (t_in t) gs) as [v gs1].
    specialize (IH gs1). destruct (run_pres pre ts gs1) as [rest gs2]; simpl in *. f_equal; auto.
  Qed.

  Lemma run_pres_cps : forall ts gs, map t_cp (fst (run_pres pre ts gs)) = map (@t_cp V SCP) ts.
  Proof.
    induction ts as [|t ts IH]; intros gs; simpl; auto.
    destruct (if t_skip t then (t_in t, gs) else pre (t_key t) (t_in t) gs) as [v gs1].
    specialize (IH gs1). destruct (run_pres pre ts gs1) as [rest gs2]; simpl in *. f_equal; auto.
  Qed.

  Lemma exec_all_keys : forall ts env, map fst (fst (exec_all exec ts env)) = map (@t_key V SCP) ts.
  Proof.
    induction ts as [|t ts IH]; intros env; simpl; auto.
    destruct (exec (t_key t) (t_cp t) (t_in t) env) as [r env1].
    specialize (IH env1). destruct (exec_all exec ts env1) as [rest env2]; simpl in *. f_equal; auto.
  Qed.

  Lemma events_of_keys : forall (ts : list taskT) (rs : list (N * texecT)),
    List.length rs = List.length ts ->
    map (@ev_key V) (events_of ts rs) = map t_key ts.
  Proof.
    induction ts as [|t ts IH]; intros [|r rs] Hl; simpl in *; try discriminate; auto.
    f_equal; apply IH; lia.
  Qed.

  Lemma exec_all_length : forall ts env, List.length (fst (exec_all exec ts env)) = List.length ts.
  Proof.
    intros. rewrite <- (map_length fst), exec_all_keys, map_length. reflexivity.
  Qed.

  (* the nodes whose bodies run in a step are exactly the pending tasks of the loop state *)
  Lemma step_event_keys : forall s env r evs env',
    stepB s env = (r, evs, env') ->
    map (@ev_key V) evs = map t_key (ls_next s).
  Proof.
    intros s env r evs env' H. rewrite step_unfold in H. inversion H; subst.
    rewrite events_of_keys.
    - unfold submitted. apply run_pres_keys.
    - unfold results. apply exec_all_length.
  Qed.

  Lemma step_continue_fresh : forall s env s' evs env',
    stepB s env = (Continue s', evs, env') -> fresh_state s'.
  Proof.
    intros s env s' evs env' H. rewrite step_unfold in H. inversion H.
    eapply decide_continue_fresh; eauto.
  Qed.

  (* after a step that continues, no pending task is an interrupt-before node *)
  Lemma step_continue_no_before : forall s env s' evs env',
    stepB s env = (Continue s', evs, env') ->
    forall k, In k (map t_key (ls_next s')) -> memN k before = false.
  Proof.
    intros s env s' evs env' H k Hk. rewrite step_unfold in H. inversion H as [[Hd He Hv]].
    apply decide_continue in Hd as (cs2 & ready & _ & _ & _ & _ & _ & _ & Hh & _ & ->).
    simpl in Hk. rewrite map_map in Hk; simpl in Hk.
    unfold hits in Hh.
    destruct (memN k before) eqn:Hm; auto.
    assert (In k (filter (fun k => memN k before) (map fst ready))) by (apply filter_In; auto).
    rewrite Hh in H0; destruct H0.
  Qed.

  (* ------------------------------------------------------------------ *)
  (* C06 (a): interrupt-before nodes                                      *)
  (* ------------------------------------------------------------------ *)
  Notation ekey := (@ev_key V).

  Lemma iterate_log0 : forall bf af fuel (s : lstateT) env log,
    iterate zero fold getr pre exec bf af fuel s env log =
    let '(o, l, e) := iterate zero fold getr pre exec bf af fuel s env [] in (o, log ++ l, e).
  Proof.
    intros bf af; induction fuel as [|f IH]; intros s env log; simpl.
    - rewrite app_nil_r; reflexivity.
    - destruct (step zero fold getr pre exec bf af s env) as [[r evs] env1].
      destruct r; simpl; try reflexivity.
      rewrite (IH s0 env1 (log ++ evs)), (IH s0 env1 evs).
      destruct (iterate zero fold getr pre exec bf af f s0 env1 []) as [[o l] e].
      rewrite app_assoc; reflexivity.
  Qed.

  (* in a run segment an interrupt-before node executes only as one of the tasks the segment
     starts with *)
  Lemma iterate_before_only_pending : forall fuel (s : lstateT) env o log env',
    iterB fuel s env [] = (o, log, env') ->
    forall ev, In ev log -> memN (ekey ev) before = true -> In (ekey ev) (map t_key (ls_next s)).
  Proof.
    induction fuel as [|f IH]; intros s env o log env' H ev Hin Hm; simpl in H.
    { inversion H; subst; destruct Hin. }
    destruct (stepB s env) as [[r evs] env1] eqn:Hs.
    pose proof (step_event_keys _ _ _ _ _ Hs) as Hk.
    assert (Hev : In ev evs -> In (ekey ev) (map t_key (ls_next s))).
    { intro Hi. rewrite <- Hk. apply (in_map ekey) in Hi. exact Hi. }
    destruct r as [s'|v|i c|e]; simpl in H.
    - rewrite iterate_log0 in H. destruct (iterB f s' env1 []) as [[o' l'] e'] eqn:Hit.
      inversion H; subst. apply in_app_or in Hin as [Hi|Hi]; auto.
      exfalso. pose proof (IH _ _ _ _ _ Hit ev Hi Hm) as Hp.
      rewrite (step_continue_no_before _ _ _ _ _ Hs _ Hp) in Hm. discriminate.
    - inversion H; subst; auto.
    - inversion H; subst; auto.
    - inversion H; subst; auto.
  Qed.

  (* a fresh segment never executes an interrupt-before node *)
  Lemma start_no_before : forall fuel cs0 (gs0 : GS) x env o log env',
    startB fuel cs0 gs0 x env = (o, log, env') ->
    forall ev, In ev log -> memN (ekey ev) before = false.
  Proof.
    unfold start, start_gen, init_gen; intros fuel cs0 gs0 x env o log env' H ev Hin.
    destruct (calc fold getr cs0 [(kStart, x)]) as [[cs1 ready]| |]; simpl in H;
      try (inversion H; subst; destruct Hin).
    destruct (nlist_get kEnd ready); simpl in H; try (inversion H; subst; destruct Hin).
    destruct (is_nil (hits before ready)) eqn:Hh; simpl in H; try (inversion H; subst; destruct Hin).
    destruct (memN (ekey ev) before) eqn:Hm; auto. exfalso.
    pose proof (iterate_before_only_pending _ _ _ _ _ _ H ev Hin Hm) as Hp. simpl in Hp.
    rewrite map_map in Hp; simpl in Hp.
    assert (In (ekey ev) (hits before ready)) by (unfold hits; apply filter_In; auto).
    destruct (hits before ready); [destruct H0|discriminate].
  Qed.

  (* a resumed segment executes an interrupt-before node only if it is a pending input of the checkpoint *)
  Lemma resume_before_only_pending : forall fuel sm (c : cptT) env o log env',
    resumeB fuel sm c env = (o, log, env') ->
    forall ev, In ev log -> memN (ekey ev) before = true -> In (ekey ev) (map fst (cp_inputs c)).
  Proof.
    unfold resume; intros fuel sm c env o log env' H ev Hin Hm.
    pose proof (iterate_before_only_pending _ _ _ _ _ _ H ev Hin Hm) as Hp.
    simpl in Hp. rewrite map_map in Hp. simpl in Hp. exact Hp.
  Qed.

  (* ------------------------------------------------------------------ *)
  (* C06 (c): what an interrupt reports is what the checkpoint holds      *)
  (* ------------------------------------------------------------------ *)
  Definition reported (i : infT) (k : N) : Prop :=
    In k (ii_before i) \/ In k (ii_rerun i) \/ In k (map fst (ii_subs i)).

  Definition info_ok (rs : list (N * texecT)) (i : infT) (c : cptT) : Prop :=
    ii_gs i = cp_gs c /\
    ii_after i = afters after rs /\
    ii_rerun i = reruns rs /\
    ii_subs i = subinfos rs /\
    cp_subs c = subcps rs /\
    cp_skip c = map fst (cp_subs c) /\
    map fst (ii_subs i) = map fst (cp_subs c) /\
    (forall k, In k (ii_before i) -> memN k before = true /\ In k (map fst (cp_inputs c))) /\
    (forall k, In k (map fst (cp_inputs c)) -> memN k before = true -> reported i k) /\
    (forall k, In k (ii_rerun i) -> In (k, zero) (cp_inputs c)) /\
    (forall k, In k (map fst (ii_subs i)) -> In (k, zero) (cp_inputs c)).

  Lemma hits_in : forall (l : list (N * V)) k, In k (hits before l) <-> memN k before = true /\ In k (map fst l).
  Proof. unfold hits; intros; rewrite filter_In; tauto. Qed.

  Lemma hits_app : forall (a b : list (N * V)), hits before (a ++ b) = hits before a ++ hits before b.
  Proof. unfold hits; intros; rewrite map_app, filter_app; reflexivity. Qed.

  Lemma subs_keys : forall rs : list (N * texecT), map fst (subinfos rs) = map fst (subcps rs).
  Proof.
    unfold subinfos, subcps. induction rs as [|[k r] rs IH]; simpl; auto.
    destruct r; simpl; auto. f_equal; auto.
  Qed.

  Lemma plain_info_ok : forall cs (gs : GS) pending ha (rs : list (N * texecT)) i c,
    subcps rs = [] -> reruns rs = [] -> ha = afters after rs ->
    plain_interrupt cs gs pending (hits before pending) ha = Interrupted i c -> info_ok rs i c.
  Proof.
    intros cs gs pending ha rs i c Hs Hr Ha H. apply plain_interrupt_inv in H as [-> ->].
    unfold info_ok, reported; simpl. rewrite Hs, Hr.
    assert (subinfos rs = []) as ->.
    { pose proof (subs_keys rs) as Hk. rewrite Hs in Hk. destruct (subinfos rs); [reflexivity|discriminate]. }
    repeat split; auto; try contradiction.
    - apply hits_in in H; tauto.
    - apply hits_in in H; tauto.
    - intros k Hk Hm. left. apply hits_in. auto.
  Qed.

  (* an interrupt built from the results [rs'] is faithful w.r.t. all collected results [rs] when the
     two agree on reruns and nested interrupts *)
  Lemma rerun_info_ok_gen : forall cs (gs : GS) (rs rs' : list (N * texecT)) tf pending ha i c,
    ha = afters after rs -> reruns rs = reruns rs' -> subcps rs = subcps rs' -> subinfos rs = subinfos rs' ->
    rerun_interrupt zero fold cs gs rs' tf pending (hits before pending) ha = Interrupted i c ->
    info_ok rs i c.
  Proof.
    intros cs gs rs rs' tf pending ha i c Ha Hr Hs Hi H.
    apply rerun_interrupt_inv in H as (cs1 & _ & -> & ->).
    unfold info_ok, reported; simpl. rewrite Hr, Hs, Hi. rewrite subs_keys.
    repeat split; auto.
    - apply hits_in in H; tauto.
    - apply hits_in in H. rewrite !map_app. apply in_or_app. left; tauto.
    - intros k Hk Hm. rewrite !map_app, !map_map in Hk; simpl in Hk.
      apply in_app_or in Hk as [Hk|Hk]; [left; apply hits_in; auto|].
      apply in_app_or in Hk as [Hk|Hk]; [right; right; exact Hk|].
      right; left. rewrite map_id in Hk. exact Hk.
    - intros k Hk. apply in_or_app; right. apply in_or_app; right.
      apply in_map_iff. eauto.
    - intros k Hk. apply in_or_app; right. apply in_or_app; left.
      apply in_map_iff in Hk as ([k' cp] & <- & Hk). apply in_map_iff. exists (k', cp); auto.
  Qed.

  Lemma rerun_info_ok : forall cs (gs : GS) (rs : list (N * texecT)) tf pending ha i c,
    ha = afters after rs ->
    rerun_interrupt zero fold cs gs rs tf pending (hits before pending) ha = Interrupted i c ->
    info_ok rs i c.
  Proof. intros; eapply rerun_info_ok_gen; eauto. Qed.

  (* batch mode: every interrupt decided by a step *)
  Lemma decide_info_ok : forall cs (gs1 : GS) (rs : list (N * texecT)) i c,
    decideB cs gs1 rs = Interrupted i c -> info_ok rs i c.
  Proof.
    unfold decide; intros cs gs1 rs i c H.
    destruct (first_fail rs); try discriminate.
    destruct (negb (is_nil (subcps rs) && is_nil (reruns rs))) eqn:Hrr.
    { eapply (rerun_info_ok cs gs1 rs (outs rs) [] (afters after rs)); eauto. }
    apply negb_false_iff in Hrr. apply andb_prop in Hrr as [H1 H2].
    assert (subcps rs = []) by (destruct (subcps rs); [reflexivity|discriminate]).
    assert (reruns rs = []) by (destruct (reruns rs); [reflexivity|discriminate]).
    destruct (is_nil rs); try discriminate.
    destruct (calc fold getr cs (outs rs)) as [[cs2 ready]| |]; try discriminate.
    destruct (nlist_get kEnd ready); try discriminate.
    destruct (is_nil (hits before ready) && is_nil (afters after rs)); try discriminate.
    destruct (calc fold getr cs2 []) as [[cs4 ready2]| |]; try discriminate.
    destruct (nlist_get kEnd ready2); try discriminate.
    rewrite <- hits_app in H. eapply plain_info_ok; eauto.
  Qed.

  (* the initial task set (no task has completed yet) *)
  Lemma init_info_ok : forall cs0 (gs0 : GS) x i c,
    initB cs0 gs0 x = Interrupted i c -> info_ok [] i c /\ ii_before i <> [].
  Proof.
    unfold init, init_gen; intros cs0 gs0 x i c H.
    destruct (calc fold getr cs0 [(kStart, x)]) as [[cs1 ready]| |]; try discriminate.
    destruct (nlist_get kEnd ready); try discriminate.
    simpl in H. destruct (is_nil (hits before ready)) eqn:Hh; try discriminate.
    split.
    - eapply plain_info_ok; eauto.
    - apply plain_interrupt_inv in H as [-> _]. simpl. intro E; rewrite E in Hh; discriminate.
  Qed.

  (* ------------------------------------------------------------------ *)
  (* C06 (b): interrupt-after nodes                                       *)
  (* ------------------------------------------------------------------ *)
  (* when an interrupt-after node completes in a step, the loop does not continue: the segment ends
     with this step — Interrupted (reporting the node), Done, or Failed *)
  Lemma decide_after_stops : forall cs (gs1 : GS) (rs : list (N * texecT)) k,
    In k (afters after rs) ->
    match decideB cs gs1 rs with
    | Continue _ => False
    | Interrupted i _ => In k (ii_after i)
    | Done _ | Failed _ => True
    end.
  Proof.
    intros cs gs1 rs k Hk.
    destruct (decideB cs gs1 rs) as [s'|v|i c|e] eqn:Hd; auto.
    - apply decide_continue in Hd as (cs2 & ready & _ & _ & _ & _ & _ & _ & _ & Ha & _).
      rewrite Ha in Hk. destruct Hk.
    - apply decide_info_ok in Hd as (_ & Ha & _). rewrite Ha. exact Hk.
  Qed.

  Lemma step_after_stops : forall (s : lstateT) env k,
    In k (afters after (fst (results s env))) ->
    forall fuel log, exists o,
      iterB (S fuel) s env log = (o, log ++ events_of (fst (submitted s)) (fst (results s env)), snd (results s env)) /\
      match o with
      | OInterrupted i _ => In k (ii_after i)
      | ODone _ | OFailed _ => True
      | OLimit => False
      end.
  Proof.
    intros s env k Hk fuel log. simpl. rewrite step_unfold.
    pose proof (decide_after_stops (ls_cs s) (snd (submitted s)) (fst (results s env)) k Hk) as Hd.
    destruct (decideB (ls_cs s) (snd (submitted s)) (fst (results s env))) as [s'|v|i c|e];
      [destruct Hd|eexists; split; [reflexivity|auto]..].
  Qed.

  (* ------------------------------------------------------------------ *)
  (* C05: a nested checkpoint is used once                                *)
  (* ------------------------------------------------------------------ *)
  (* the tasks restored from a checkpoint carry the nested checkpoints of the checkpoint *)
  Lemma restore_cps : forall (c : cptT) t,
    In t (ls_next (restore c)) -> t_cp t = nlist_get (t_key t) (cp_subs c) /\ t_skip t = memN (t_key t) (cp_skip c).
  Proof.
    unfold restore; simpl; intros c t Hin. apply in_map_iff in Hin as (kv & <- & _). simpl; auto.
  Qed.

  (* every loop state reached after the first step of a segment has only fresh tasks: no nested
     checkpoint, pre-handler not skipped *)
  Inductive reach : lstateT -> ENV -> lstateT -> ENV -> Prop :=
  | reach_step : forall s env s' evs env', stepB s env = (Continue s', evs, env') -> reach s env s' env'
  | reach_trans : forall s env s1 env1 s2 env2, reach s env s1 env1 -> reach s1 env1 s2 env2 -> reach s env s2 env2.

  Lemma reach_fresh : forall s env s' env', reach s env s' env' -> fresh_state s'.
  Proof. induction 1; eauto using step_continue_fresh. Qed.

  Lemma sub_checkpoint_used_once_l : forall (c : cptT),
    (forall t, In t (ls_next (restore c)) ->
       t_cp t = nlist_get (t_key t) (cp_subs c) /\ t_skip t = memN (t_key t) (cp_skip c)) /\
    (forall s env s' env', reach s env s' env' ->
       forall t, In t (ls_next s') -> t_cp t = None /\ t_skip t = false).
  Proof.
    intro c; split.
    - exact (restore_cps c).
    - intros s env s' env' Hr t Hin.
      pose proof (reach_fresh _ _ _ _ Hr) as Hf.
      unfold fresh_state in Hf. rewrite Forall_forall in Hf. destruct (Hf t Hin); auto.
  Qed.

  (* ------------------------------------------------------------------ *)
  (* C06 (d): a checkpoint is written exactly when an interrupt is returned and an id was given *)
  (* ------------------------------------------------------------------ *)
  Lemma call_written_iff : forall {B : Type} (ser : cptT -> B) deser
      (fresh : ENV -> @outcome V CS GS SCP SINFO * list (@event V) * ENV)
      (resumed : (GS -> GS) -> cptT -> ENV -> @outcome V CS GS SCP SINFO * list (@event V) * ENV)
      with_id store sm env co store' env',
    call ser deser fresh resumed with_id store sm env = (co, store', env') ->
    (co_written co = true <-> (with_id = true /\ exists i c, co_out co = OInterrupted i c)) /\
    (forall i c, co_out co = OInterrupted i c -> with_id = true -> store' = Some (ser c)) /\
    (co_written co = false -> store' = store).
  Proof.
    intros B ser deser fresh resumed with_id store sm env co store' env' H. unfold call in H.
    destruct (match (if with_id then store else None) with
              | Some b => match deser b with Some c => resumed sm c env | None => (OFailed eChan, [], env) end
              | None => fresh env end) as [[o l] e].
    destruct o as [v|i c|e0|]; try (inversion H; subst; simpl; repeat split;
      try (intros [? (? & ? & ?)]; discriminate); try discriminate; auto; intros; discriminate).
    destruct with_id; inversion H; subst; simpl; repeat split; eauto; try discriminate.
    - intros i' c' Hc _. inversion Hc; reflexivity.
    - intros [? _]; discriminate.
  Qed.

  (* ------------------------------------------------------------------ *)
  (* C05: interrupt points are transparent                               *)
  (* The uninterrupted run is the same loop with empty interrupt sets.   *)
  (* What the channel layer must satisfy is stated relative to an        *)
  (* invariant [Inv] of the channel state (discharged for the Pregel and *)
  (* the DAG channels of Model/Graph.v in Proofs/Interrupt.v).           *)
  (* ------------------------------------------------------------------ *)
  Variable Inv : CS -> Prop.
  Hypothesis H_fold_inv : forall cs l cs', Inv cs -> fold cs l = Ok cs' -> Inv cs'.
  Hypothesis H_getr_inv : forall cs cs' r, Inv cs -> getr cs = Ok (cs', r) -> Inv cs'.
  (* folding no completed task into the channels changes nothing *)
  Hypothesis H_fold_nil : forall cs, Inv cs -> fold cs [] = Ok cs.
  (* channels that have just been read are not ready again *)
  Hypothesis H_getr_idem : forall cs cs' r, Inv cs -> getr cs = Ok (cs', r) -> getr cs' = Ok (cs', []).

  Notation decideU := (decide zero fold getr [] []).
  Notation stepU := (step zero fold getr pre exec [] []).
  Notation iterU := (iterate zero fold getr pre exec [] []).
  Notation initU := (init fold getr []).
  Notation startU := (start zero fold getr pre exec [] []).

  Lemma calc_inv : forall cs l cs2 ready,
    Inv cs -> calc fold getr cs l = Ok (cs2, ready) ->
    Inv cs2 /\ calc fold getr cs2 [] = Ok (cs2, []).
  Proof.
    unfold calc; intros cs l cs2 ready Hi H.
    destruct (fold cs l) as [cs1| |] eqn:Hf; simpl in H; try discriminate.
    assert (Inv cs1) by eauto. assert (Inv cs2) by eauto. split; auto.
    rewrite H_fold_nil by assumption. simpl. eapply H_getr_idem; eauto.
  Qed.

  Lemma hits_nil : forall ready : list (N * V), hits [] ready = [].
  Proof. unfold hits; intros; induction (map fst ready); simpl; auto. Qed.

  Lemma afters_nil : forall rs : list (N * texecT), afters [] rs = [].
  Proof. unfold afters; intros; induction (map fst (outs rs)); simpl; auto. Qed.

  (* the info a plain interrupt reports *)
  Definition plain_info (gs : GS) (hb ha : list N) : infT :=
    {| ii_gs := gs; ii_before := hb; ii_after := ha; ii_rerun := []; ii_subs := [] |}.

  (* one decision, with and without interrupt points, on the same collected results *)
  Lemma decide_sim : forall cs (gs1 : GS) (rs : list (N * texecT)),
    Inv cs ->
    match decideU cs gs1 rs with
    | Continue s' =>
        Inv (ls_cs s') /\ fresh_state s' /\
        (decideB cs gs1 rs = Continue s' \/
         exists hb ha, (hb <> [] \/ ha <> []) /\ decideB cs gs1 rs = Interrupted (plain_info gs1 hb ha) (save s'))
    | Done v => decideB cs gs1 rs = Done v
    | Failed e => decideB cs gs1 rs = Failed e
    | Interrupted i c => exists i', decideB cs gs1 rs = Interrupted i' c
    end.
  Proof.
    intros cs gs1 rs Hi. unfold decide.
    destruct (first_fail rs) eqn:Hff; auto.
    destruct (negb (is_nil (subcps rs) && is_nil (reruns rs))) eqn:Hrr.
    { unfold rerun_interrupt. destruct (fold cs (outs rs)); eauto. }
    destruct (is_nil rs) eqn:Hn; auto.
    destruct (calc fold getr cs (outs rs)) as [[cs2 ready]| |] eqn:Hc; auto.
    destruct (nlist_get kEnd ready) eqn:He; auto.
    rewrite hits_nil, afters_nil. simpl.
    destruct (calc_inv _ _ _ _ Hi Hc) as [Hi2 Hc2].
    split; [exact Hi2|]. split; [unfold fresh_state; simpl; apply map_mk_task_fresh|].
    destruct (is_nil (hits before ready) && is_nil (afters after rs)) eqn:Hh; auto.
    right. rewrite Hc2. simpl. rewrite !app_nil_r.
    exists (hits before ready), (afters after rs). split.
    - destruct (hits before ready); [|left; discriminate].
      destruct (afters after rs); [discriminate|right; discriminate].
    - rewrite plain_interrupt_save. reflexivity.
  Qed.

  Definition final (o : @outcome V CS GS SCP SINFO) : Prop :=
    match o with ODone _ | OFailed _ => True | _ => False end.

  Lemma iterate_log : forall bf af fuel (s : lstateT) env log,
    iterate zero fold getr pre exec bf af fuel s env log =
    let '(o, l, e) := iterate zero fold getr pre exec bf af fuel s env [] in (o, log ++ l, e).
  Proof.
    intros bf af; induction fuel as [|f IH]; intros s env log; simpl.
    - rewrite app_nil_r; reflexivity.
    - destruct (step zero fold getr pre exec bf af s env) as [[r evs] env1].
      destruct r; simpl; try reflexivity.
      rewrite (IH s0 env1 (log ++ evs)), (IH s0 env1 evs).
      destruct (iterate zero fold getr pre exec bf af f s0 env1 []) as [[o l] e].
      rewrite app_assoc; reflexivity.
  Qed.

  (* one segment of the interrupted run against the uninterrupted run from the same loop state:
     either the segment runs to the same end, or it stops at an interrupt point with the checkpoint
     that holds exactly the loop state the uninterrupted run is in at that moment *)
  Lemma iter_segment : forall fuelU (s : lstateT) env oU logU envU,
    Inv (ls_cs s) ->
    iterU fuelU s env [] = (oU, logU, envU) -> final oU ->
    forall fuelR, (fuelU <= fuelR)%nat ->
      iterB fuelR s env [] = (oU, logU, envU) \/
      exists s' i l1 env1 l2 fuelU',
        iterB fuelR s env [] = (OInterrupted i (save s'), l1, env1) /\
        fresh_state s' /\ Inv (ls_cs s') /\ (fuelU' < fuelU)%nat /\
        iterU fuelU' s' env1 [] = (oU, l2, envU) /\ logU = l1 ++ l2.
  Proof.
    induction fuelU as [|f IH]; intros s env oU logU envU Hi HU Hfin fuelR Hle.
    { simpl in HU; inversion HU; subst; destruct Hfin. }
    destruct fuelR as [|fR]; [lia|]. simpl in HU |- *.
    rewrite step_unfold in HU |- *.
    set (gs1 := snd (submitted s)) in *. set (rs := fst (results s env)) in *.
    set (evs := events_of (fst (submitted s)) rs) in *. set (env1 := snd (results s env)) in *.
    pose proof (decide_sim (ls_cs s) gs1 rs Hi) as Hsim.
    destruct (decideU (ls_cs s) gs1 rs) as [s'|v|i c|e] eqn:HdU.
    - destruct Hsim as (Hi' & Hfr & [HdR | (hb & ha & _ & HdR)]).
      + rewrite HdR. simpl in HU. rewrite iterate_log in HU |- *.
        destruct (iterU f s' env1 []) as [[o l] e] eqn:HU'. inversion HU; subst.
        destruct (IH s' env1 oU l envU Hi' HU' Hfin fR ltac:(lia)) as [HR | (s2 & i & l1 & e1 & l2 & fU' & HR & Hf2 & Hi2 & Hlt & HU2 & Hl)].
        * left. rewrite HR. reflexivity.
        * right. rewrite HR. exists s2, i, (evs ++ l1), e1, l2, fU'.
          repeat split; auto. subst l. rewrite app_assoc. reflexivity.
      + right. rewrite HdR. simpl in HU. rewrite iterate_log in HU.
        destruct (iterU f s' env1 []) as [[o l] e] eqn:HU'. inversion HU; subst.
        exists s', (plain_info gs1 hb ha), evs, env1, l, f. repeat split; auto.
    - rewrite Hsim. left. exact HU.
    - simpl in HU. inversion HU; subst. destruct Hfin.
    - rewrite Hsim. left. exact HU.
  Qed.

  (* ------------------------------------------------------------------ *)
  (* the run driven through a store, any number of resumes               *)
  (* ------------------------------------------------------------------ *)
  Section DriveEquiv.
    Context {B : Type}.
    Variable ser : cptT -> B.
    Variable deser : B -> option cptT.
    Hypothesis H_ser : forall c, deser (ser c) = Some c.     (* the byte store round-trips (C12) *)
    Variable fuelR : nat.                                    (* step limit of every call *)
    Variable cs0 : CS.
    Variable gs0 : GS.
    Variable x : V.

    Notation call_obsT := (@call_obs V CS GS SCP SINFO).
    Notation driveR := (drive ser deser (startB fuelR cs0 gs0 x) (resumeB fuelR) (fun _ e => e) true).
    Notation callR := (call ser deser (startB fuelR cs0 gs0 x) (resumeB fuelR) true).

    Notation freshT := (ENV -> @outcome V CS GS SCP SINFO * list (@event V) * ENV)%type.

    Definition interrupted_call (co : call_obsT) : Prop :=
      co_written co = true /\ exists i c, co_out co = OInterrupted i c.

    Lemma drive_unfold : forall (fresh : ENV -> @outcome V CS GS SCP SINFO * list (@event V) * ENV)
        (resumed : (GS -> GS) -> cptT -> ENV -> @outcome V CS GS SCP SINFO * list (@event V) * ENV)
        (tick : nat -> ENV -> ENV) with_id n k mods (store : option B) (env : ENV),
      drive ser deser fresh resumed tick with_id n k mods store env =
      let '(co, store', env') := call ser deser fresh resumed with_id store (mods k) (tick k env) in
      match co_out co, n, with_id with
      | OInterrupted _ _, S n', true =>
          let '(rest, env'') := drive ser deser fresh resumed tick with_id n' (S k) mods store' env' in (co :: rest, env'')
      | _, _, _ => ([co], env')
      end.
    Proof. intros; destruct n; reflexivity. Qed.


    (* [drive] only applies [fresh] and [resumed]: extensionally equal segments give the same run *)
    Lemma drive_ext : forall (fresh fresh' : freshT)
        (resumed resumed' : (GS -> GS) -> cptT -> ENV -> @outcome V CS GS SCP SINFO * list (@event V) * ENV)
        (tick : nat -> ENV -> ENV) with_id,
      (forall e, fresh e = fresh' e) -> (forall sm c e, resumed sm c e = resumed' sm c e) ->
      forall n k mods (store : option B) env,
        drive ser deser fresh resumed tick with_id n k mods store env =
        drive ser deser fresh' resumed' tick with_id n k mods store env.
    Proof.
      intros fresh fresh' resumed resumed' tick with_id Hf Hr.
      induction n as [|n IH]; intros k mods store env; simpl; unfold call;
        rewrite Hf; destruct (if with_id then store else None) as [b|];
        try destruct (deser b) as [c|]; try rewrite Hr; try reflexivity.
      - destruct (resumed' (mods k) c (tick k env)) as [[o l] e]. destruct o; try reflexivity.
        destruct with_id; try reflexivity. rewrite IH. reflexivity.
      - destruct (fresh' (tick k env)) as [[o l] e]. destruct o; try reflexivity.
        destruct with_id; try reflexivity. rewrite IH. reflexivity.
    Qed.

    Lemma call_resumed_state : forall (fresh : freshT) (s : lstateT) env,
      fresh_state s ->
      call ser deser fresh (resumeB fuelR) true (Some (ser (save s))) (fun g => g) env =
      let '(o, l, env') := iterB fuelR s env [] in
      match o with
      | OInterrupted _ c => ({| co_out := o; co_log := l; co_written := true |}, Some (ser c), env')
      | _ => ({| co_out := o; co_log := l; co_written := false |}, Some (ser (save s)), env')
      end.
    Proof.
      intros fresh s env Hf. unfold call. rewrite H_ser. rewrite resume_save_id by assumption.
      destruct (iterB fuelR s env []) as [[o l] e]. destruct o; reflexivity.
    Qed.

    Lemma drive_from_state : forall (fresh : freshT) fuelU (s : lstateT) env oU logU envU n k,
      fresh_state s -> Inv (ls_cs s) ->
      iterU fuelU s env [] = (oU, logU, envU) -> final oU ->
      (fuelU <= fuelR)%nat -> (fuelU <= S n)%nat ->
      exists cos lastlog,
        drive ser deser fresh (resumeB fuelR) (fun _ e => e) true n k (fun _ g => g) (Some (ser (save s))) env =
          (cos ++ [{| co_out := oU; co_log := lastlog; co_written := false |}], envU) /\
        Forall interrupted_call cos /\ List.concat (map co_log cos) ++ lastlog = logU.
    Proof.
      intros fresh. induction fuelU as [fuelU IH] using lt_wf_ind.
      intros s env oU logU envU n k Hf Hi HU Hfin HleR Hlen.
      rewrite drive_unfold. rewrite call_resumed_state by assumption.
      destruct (iter_segment fuelU s env oU logU envU Hi HU Hfin fuelR HleR)
        as [HR | (s' & i & l1 & env1 & l2 & fU' & HR & Hf' & Hi' & Hlt & HU' & Hl)].
      - rewrite HR. exists [], logU. destruct oU; try destruct Hfin; simpl; auto.
      - rewrite HR. simpl.
        destruct n as [|n'].
        { assert (fU' = 0)%nat by lia. subst fU'. simpl in HU'. inversion HU'; subst. destruct Hfin. }
        destruct (IH fU' Hlt s' env1 oU l2 envU n' (S k) Hf' Hi' HU' Hfin ltac:(lia) ltac:(lia))
          as (cos & lastlog & Hd & Hall & Hlog).
        rewrite Hd.
        exists ({| co_out := OInterrupted i (save s'); co_log := l1; co_written := true |} :: cos), lastlog.
        split; [reflexivity|]. split.
        + constructor; auto. split; simpl; eauto.
        + simpl. rewrite <- app_assoc. rewrite Hlog. symmetry; exact Hl.
    Qed.

    (* resume_equiv: the run with interrupt points, driven through the store with as many resumes
       as it takes, against the same run without interrupt points *)
    Lemma resume_equiv_l : forall fuelU env oU logU envU n,
      Inv cs0 ->
      startU fuelU cs0 gs0 x env = (oU, logU, envU) -> final oU ->
      (fuelU <= fuelR)%nat -> (fuelU <= n)%nat ->
      exists cos lastlog,
        driveR n 0 (fun _ g => g) None env =
          (cos ++ [{| co_out := oU; co_log := lastlog; co_written := false |}], envU) /\
        Forall interrupted_call cos /\ List.concat (map co_log cos) ++ lastlog = logU.
    Proof.
      intros fuelU env oU logU envU n Hi0 HU Hfin HleR Hlen.
      rewrite drive_unfold. unfold call. unfold start, start_gen, init, init_gen in *.
      destruct (calc fold getr cs0 [(kStart, x)]) as [[cs1 ready]| |] eqn:Hc.
      - destruct (nlist_get kEnd ready) eqn:He.
        + simpl in HU |- *. inversion HU; subst. exists [], []. auto.
        + rewrite hits_nil in HU. simpl in HU.
          destruct (calc_inv _ _ _ _ Hi0 Hc) as [Hi1 _].
          set (s0 := {| ls_cs := cs1; ls_next := map mk_task ready; ls_gs := gs0 |}) in *.
          assert (Hf0 : fresh_state s0) by (unfold fresh_state; simpl; apply map_mk_task_fresh).
          destruct (is_nil (hits before ready)) eqn:Hh; simpl.
          * destruct (iter_segment fuelU s0 env oU logU envU Hi1 HU Hfin fuelR HleR)
              as [HR | (s' & i & l1 & env1 & l2 & fU' & HR & Hf' & Hi' & Hlt & HU' & Hl)].
            -- rewrite HR. exists [], logU. destruct oU; try destruct Hfin; simpl; auto.
            -- rewrite HR. simpl. destruct n as [|n']; [lia|].
               match goal with |- context[drive ser deser ?f _ _ true n' 1%nat] =>
                 destruct (drive_from_state f fU' s' env1 oU l2 envU n' 1%nat Hf' Hi' HU' Hfin ltac:(lia) ltac:(lia))
                 as (cos & lastlog & Hd & Hall & Hlog) end.
               rewrite Hd.
               exists ({| co_out := OInterrupted i (save s'); co_log := l1; co_written := true |} :: cos), lastlog.
               split; [reflexivity|]. split.
               ++ constructor; auto. split; simpl; eauto.
               ++ simpl. rewrite <- app_assoc. rewrite Hlog. symmetry; exact Hl.
          * assert (Hsave : {| cp_cs := cs1; cp_inputs := ready; cp_gs := gs0; cp_skip := []; cp_subs := [] |}
                            = save s0 :> cptT).
            { unfold save, s0; simpl. rewrite map_map; simpl. f_equal.
              clear; induction ready as [|[k v] l IH]; simpl; congruence. }
            rewrite Hsave.
            destruct n as [|n'].
            { assert (fuelU = 0)%nat by lia. subst fuelU. simpl in HU. inversion HU; subst. destruct Hfin. }
            match goal with |- context[drive ser deser ?f _ _ true n' 1%nat] =>
            destruct (drive_from_state f fuelU s0 env oU logU envU n' 1%nat Hf0 Hi1 HU Hfin HleR ltac:(lia))
              as (cos & lastlog & Hd & Hall & Hlog) end.
            rewrite Hd.
            exists ({| co_out := OInterrupted (plain_info gs0 (hits before ready) []) (save s0); co_log := []; co_written := true |} :: cos), lastlog.
            split; [reflexivity|]. split.
            ++ constructor; auto. split; simpl; eauto.
            ++ simpl. exact Hlog.
      - simpl in HU |- *. inversion HU; subst. exists [], []. auto.
      - simpl in HU |- *. inversion HU; subst. exists [], []. auto.
    Qed.
  End DriveEquiv.
End LoopProofs.
