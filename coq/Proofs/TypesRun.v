(* Proofs/TypesRun.v — run-time type safety of a compiled graph (Model/TypeBuilder.v, Section Run). *)
From Eino Require Import Base.Util Model.Types Model.TypeBuilder Proofs.TypesLattice Proofs.TypesBuilder.
From Coq Require Import Lia.
Arguments check_assignable : simpl never.

Section R.
  Variable u : univ.
  Variable emit : list (key * dyn).

  Notation asrt := (assert_type u).

  (* what the Go compiler guarantees about the values the user's lambdas return *)
  Definition emit_ok (st : gstate) : Prop :=
    forall k n t, get_node st k = Some n -> n_pass n = false -> n_out n = Some t ->
                  has_type u (emit_of emit st k) t = true.

  (* decidable form, for concrete examples *)
  Definition emit_okb (st : gstate) : bool :=
    forallb (fun p => n_pass (snd p) ||
                      match n_out (snd p) with
                      | Some t => has_type u (emit_of emit st (fst p)) t
                      | None => true
                      end) (g_nodes st).
  Lemma emit_okb_sound : forall st, emit_okb st = true -> emit_ok st.
  Proof.
    intros st H k n t G P O. unfold emit_okb in H. rewrite forallb_forall in H.
    specialize (H (k, n) (nlist_get_In _ _ _ G)). simpl in H. rewrite P, O in H. exact H.
  Qed.

  (* a compiled graph *)
  Definition compiled_ok (st : gstate) : Prop := inv u st /\ g_compiled st = true.

  Definition task_ok (st : gstate) (x : key * dyn) : Prop :=
    exists t, in_ty st (fst x) = Some t /\ asrt (snd x) t = true.
  Definition done_ok (st : gstate) (x : key * dyn) : Prop :=
    exists t, out_ty st (fst x) = Some t /\ has_type u (snd x) t = true.

  Lemma types_of_node : forall st k n, nodes_ok st -> get_node st k = Some n ->
    in_ty st k = n_in n /\ out_ty st k = n_out n.
  Proof.
    intros st k n NO G. destruct (NO k n G) as [_ [A B]]. unfold in_ty, out_ty.
    destruct (N.eqb_spec k kSTART); [congruence|]. destruct (N.eqb_spec k kEND); [congruence|].
    rewrite G. auto.
  Qed.

  (* the heart of it: a validated connection transfers only assignable values, possibly
     through the converter *)
  Lemma transfer_ok : forall st s t d,
    conn_ok u st (s, t) -> done_ok st (s, d) ->
    conv_all asrt d (hedge_of st s t) = true ->
    task_ok st (t, d).
  Proof.
    intros st s t d [a [b [Ha [Hb [Hc Hm]]]]] [a' [Ha' Hd]] Hcv. simpl in *.
    rewrite Ha in Ha'. inversion Ha'; subst a'. exists b. split; [exact Hb|]. simpl.
    destruct (check_assignable u (Some a) (Some b)) eqn:C.
    - exfalso; apply Hc; reflexivity.
    - eapply must_sound; eauto.
    - specialize (Hm eq_refl). unfold conv_all in Hcv. rewrite forallb_forall in Hcv. apply Hcv.
      unfold hedge_of. apply in_map_iff. exists (s, t, b). split; [reflexivity|].
      apply filter_In. split; [exact Hm|]. unfold pair_eqb; simpl. rewrite !N.eqb_refl. reflexivity.
  Qed.

  Lemma eval_branches_safe : forall st s d bs,
    done_ok st (s, d) ->
    (forall b, In b bs -> branch_ok u st s b) ->
    match eval_branches asrt d bs with
    | inl o => o = RTypeErr \/ o = ROther
    | inr ts => forall t, In t ts -> exists b, In b bs /\ In t (b_ends b)
    end.
  Proof.
    intros st s d bs [a [Ha Hd]] HB. simpl in Ha, Hd. induction bs as [|b r IH]; simpl.
    - intros t [].
    - destruct (conv_all asrt d (b_conv b)) eqn:CV; simpl; [|left; reflexivity].
      assert (A : asrt d (b_ty b) = true).
      { destruct (HB b (or_introl eq_refl)) as [_ [a' [Ha' [Hc Hm]]]].
        rewrite Ha in Ha'. inversion Ha'; subst a'.
        destruct (check_assignable u (Some a) (Some (b_ty b))) eqn:C.
        - exfalso; apply Hc; reflexivity.
        - eapply must_sound; eauto.
        - specialize (Hm eq_refl). unfold conv_all in CV. rewrite forallb_forall in CV. apply CV; exact Hm. }
      rewrite A; simpl.
      destruct (subsetN (b_choice b) (b_ends b)) eqn:SB; simpl; [|right; reflexivity].
      specialize (IH (fun b0 Hb0 => HB b0 (or_intror Hb0))).
      destruct (eval_branches asrt d r) as [o|ts]; [exact IH|].
      intros t Ht. apply in_app_or in Ht. destruct Ht as [Ht|Ht].
      + exists b. split; [left; reflexivity|]. rewrite subsetN_spec in SB. apply SB; exact Ht.
      + destruct (IH t Ht) as [b0 [Hb0 Ht0]]. exists b0. split; [right; exact Hb0 | exact Ht0].
  Qed.

  Lemma branches_of_In : forall st s b, In b (branches_of st s) -> In (s, b) (g_branches st).
  Proof.
    intros st s b H. unfold branches_of in H. apply in_map_iff in H. destruct H as [[s0 b0] [E H]].
    simpl in E; subst b0. apply filter_In in H. destruct H as [H Q]. simpl in Q. apply N.eqb_eq in Q. subst s0. exact H.
  Qed.

  Lemma succ_of_In : forall st s t, In t (succ_of st s) -> In (s, t) (g_data st).
  Proof.
    intros st s t H. unfold succ_of in H. apply in_map_iff in H. destruct H as [[s0 t0] [E H]].
    simpl in E; subst t0. apply filter_In in H. destruct H as [H Q]. simpl in Q. apply N.eqb_eq in Q. subst s0. exact H.
  Qed.

  Lemma branch_pair_In : forall st s b t, In (s, b) (g_branches st) -> In t (b_ends b) -> In (s, t) (branch_pairs st).
  Proof.
    intros st s b t H Ht. unfold branch_pairs. apply in_flat_map. exists (s, b). split; [exact H|].
    simpl. apply in_map. exact Ht.
  Qed.

  Lemma resolve_safe : forall st done,
    inv u st ->
    (forall x, In x done -> done_ok st x) ->
    match resolve asrt st done with
    | inl o => o = RTypeErr \/ o = ROther
    | inr ws => forall t s d, In (t, s, d) ws -> In (s, t) (conns st) /\ done_ok st (s, d)
    end.
  Proof.
    intros st done I. induction done as [|[s d] rest IH]; intros HD; simpl.
    - intros t s d [].
    - pose proof (eval_branches_safe st s d (branches_of st s) (HD _ (or_introl eq_refl))) as EB.
      assert (HB : forall b, In b (branches_of st s) -> branch_ok u st s b).
      { intros b Hb. apply (inv_branches _ _ I). apply branches_of_In; exact Hb. }
      specialize (EB HB). destruct (eval_branches asrt d (branches_of st s)) as [o|ts]; [exact EB|].
      specialize (IH (fun x Hx => HD x (or_intror Hx))).
      destruct (resolve asrt st rest) as [o|ws]; [exact IH|].
      intros t s0 d0 Hw. apply in_app_or in Hw. destruct Hw as [Hw|Hw]; [|apply IH; exact Hw].
      apply in_map_iff in Hw. destruct Hw as [t0 [E Ht]]. inversion E; subst t0 s0 d0; clear E.
      split; [|apply HD; left; reflexivity].
      unfold conns. apply in_or_app. apply in_app_or in Ht. destruct Ht as [Ht|Ht].
      + right. destruct (EB t Ht) as [b [Hb Hte]]. eapply branch_pair_In; [apply branches_of_In; exact Hb | exact Hte].
      + left. apply succ_of_In; exact Ht.
  Qed.

  Lemma value_for_In : forall t ws, In t (targets ws) -> exists s, In (t, s, value_for t ws) ws.
  Proof.
    intros t ws H. unfold targets in H. apply (proj1 (In_dedupN _ _)) in H. apply in_map_iff in H.
    destruct H as [[[t0 s0] d0] [E H]]. simpl in E; subst t0.
    unfold value_for.
    set (f := fun w : key * key * dyn => N.eqb (fst (fst w)) t).
    assert (X0 : In (t, s0, d0) (filter f ws)).
    { apply filter_In. split; [exact H | unfold f; simpl; apply N.eqb_refl]. }
    destruct (filter f ws) as [|[[t1 s1] d1] l] eqn:F; [destruct X0|].
    assert (X : In (t1, s1, d1) (filter f ws)) by (rewrite F; left; reflexivity).
    apply filter_In in X. destruct X as [X Q]. unfold f in Q; simpl in Q. apply N.eqb_eq in Q. subst t1.
    exists s1. change (In (t, s1, match filter f ws with [] => DNil | w :: _ => snd w end) ws).
    rewrite F. exact X.
  Qed.

  Lemma next_safe : forall st done,
    compiled_ok st ->
    (forall x, In x done -> done_ok st x) ->
    match next u asrt st done with
    | inl o => o <> RPanicRec /\ o <> RPanicEsc
    | inr tasks => forall x, In x tasks -> task_ok st x /\ has_node st (fst x) = true
    end.
  Proof.
    intros st done [I C] HD. unfold next.
    pose proof (resolve_safe st done I HD) as RS.
    destruct (resolve asrt st done) as [o|ws].
    - destruct RS; subst; split; discriminate.
    - destruct (edges_ok asrt st ws) eqn:EO; simpl; [|split; discriminate].
      destruct (fan_in ws); [split; discriminate|].
      assert (TK : forall t, In t (targets ws) -> task_ok st (t, value_for t ws) /\ (has_node st t = true \/ t = kEND)).
      { intros t Ht. destruct (value_for_In t ws Ht) as [s Hw].
        destruct (RS _ _ _ Hw) as [Hc Hd].
        destruct (compiled_all_validated u st I C _ Hc) as [CO [_ EO2]]. simpl in EO2.
        split; [|exact EO2]. eapply transfer_ok; eauto.
        unfold edges_ok in EO. rewrite forallb_forall in EO. apply (EO _ Hw). }
      destruct (memN kEND (targets ws)) eqn:ME.
      + apply memN_In in ME. destruct (TK _ ME) as [[t [Ht Ha]] _]. simpl in Ht, Ha.
        unfold in_ty in Ht. simpl in Ht. inversion Ht; subst t.
        cbv zeta. rewrite Ha. split; discriminate.
      + intros x Hx. apply in_map_iff in Hx. destruct Hx as [t [E Ht]]. subst x. simpl.
        destruct (TK t Ht) as [A [B|B]]; [auto|].
        exfalso. subst t. apply memN_In in Ht. congruence.
  Qed.

  Lemma has_type_assert : forall d t, asrt d t = true -> has_type u d t = true.
  Proof. intros d t H. unfold has_type. rewrite <- assert_type_assignable. exact H. Qed.
  Lemma assert_has_type : forall d t, has_type u d t = true -> asrt d t = true.
  Proof. intros d t H. rewrite assert_type_assignable. exact H. Qed.

  (* what Go's static typing guarantees about the state handlers of the lambda nodes: a
     handler declared for the type t returns a value of type t.  (The handlers of a
     passthrough node are declared for any: nothing is known about what they return.) *)
  Definition hret_ok (st : gstate) : Prop :=
    forall k n, get_node st k = Some n -> n_pass n = false ->
      (forall d t, n_pre_ret n = Some d -> n_pre n = Some t -> has_type u d t = true) /\
      (forall d t, n_post_ret n = Some d -> n_post n = Some t -> has_type u d t = true).

  Definition hret_okb (st : gstate) : bool :=
    forallb (fun p => n_pass (snd p) ||
       (match n_pre_ret (snd p), n_pre (snd p) with Some d, Some t => has_type u d t | _, _ => true end &&
        match n_post_ret (snd p), n_post (snd p) with Some d, Some t => has_type u d t | _, _ => true end)) (g_nodes st).
  Lemma hret_okb_sound : forall st, hret_okb st = true -> hret_ok st.
  Proof.
    intros st H k n G P. unfold hret_okb in H. rewrite forallb_forall in H.
    specialize (H (k, n) (nlist_get_In _ _ _ G)). simpl in H. rewrite P in H. simpl in H.
    apply andb_true_iff in H. destruct H as [H1 H2]. split; intros d t R T.
    - rewrite R, T in H1. exact H1.
    - rewrite R, T in H2. exact H2.
  Qed.

  Definition tasks_ok (st : gstate) (tasks : list (key * dyn)) : Prop :=
    forall x, In x tasks -> task_ok st x /\ has_node st (fst x) = true.

  (* the pre handlers: no assertion fails; a passthrough node's handler may return a value
     that is not of the node's type (ordinary error) *)
  Lemma pre_all_safe : forall st tasks,
    compiled_ok st -> hret_ok st -> tasks_ok st tasks ->
    match pre_all asrt st tasks with
    | inl o => o = RTypeErr
    | inr t1 => tasks_ok st t1
    end.
  Proof.
    intros st tasks [I C] HR. pose proof (inv_nodes _ _ I) as NO.
    induction tasks as [|[k d] rest IH]; intros HT; simpl.
    - intros x [].
    - destruct (HT (k, d) (or_introl eq_refl)) as [[t [It At]] Hn]. simpl in It, At, Hn.
      unfold pre_res. simpl. unfold has_node in Hn. destruct (get_node st k) as [n|] eqn:G; [|discriminate].
      destruct (NO k n G) as [[Pp [Pl [Pr _]]] _].
      destruct (types_of_node st k n NO G) as [Ti _].
      assert (IHr : match pre_all asrt st rest with inl o => o = RTypeErr | inr t1 => tasks_ok st t1 end).
      { apply IH. intros x Hx. apply HT. right; exact Hx. }
      assert (KEEP : forall d1, asrt d1 t = true ->
                match (match pre_all asrt st rest with inl o => inl o | inr l => inr ((k, d1) :: l) end) with
                | inl o => o = RTypeErr | inr t1 => tasks_ok st t1 end).
      { intros d1 A1. destruct (pre_all asrt st rest) as [o|l]; [exact IHr|].
        intros x [Hx|Hx]; [|apply IHr; exact Hx]. subst x. split; [exists t; simpl; auto|]. simpl. unfold has_node. rewrite G. reflexivity. }
      unfold run_handler. destruct (n_pre n) as [t0|] eqn:Pn; [|apply KEEP; exact At].
      specialize (Pr t0 eq_refl).
      destruct (n_pass n) eqn:Ps.
      + subst t0. rewrite assert_any. simpl. rewrite <- Ti, It.
        destruct (asrt (match n_pre_ret n with Some r => r | None => d end) t) eqn:A1; [apply KEEP; exact A1 | reflexivity].
      + rewrite Ti, Pr in It. inversion It; subst t0. rewrite At. simpl. apply KEEP.
        destruct (n_pre_ret n) as [r|] eqn:R; [|exact At].
        apply assert_has_type. destruct (HR k n G Ps) as [H1 _]. eapply H1; eauto.
  Qed.

  Lemma post_safe : forall st k d,
    compiled_ok st -> emit_ok st -> hret_ok st -> task_ok st (k, d) -> has_node st k = true ->
    exists r, post_res asrt st k (node_out asrt emit st (k, d)) = Some r /\
              (r = TTypeErr \/ exists d1, r = TVal d1 /\ done_ok st (k, d1)).
  Proof.
    intros st k d [I C] EM HR [t [It At]] Hn. simpl in It, At. pose proof (inv_nodes _ _ I) as NO.
    unfold has_node in Hn. destruct (get_node st k) as [n|] eqn:G; [|discriminate].
    destruct (NO k n G) as [[Pp [Pl [_ Po]]] _].
    destruct (types_of_node st k n NO G) as [Ti To].
    (* the value the node hands to its post handler, of the node's output type *)
    assert (OUT : exists o to, node_out asrt emit st (k, d) = Some o /\ n_out n = Some to /\ has_type u o to = true).
    { unfold node_out. simpl. rewrite G. destruct (n_pass n) eqn:Ps.
      - exists d, t. split; [reflexivity|]. split; [rewrite <- (Pp eq_refl), <- Ti; exact It | apply has_type_assert; exact At].
      - destruct (Pl eq_refl) as [ti [to [Hi Ho]]]. rewrite Hi. rewrite Ti, Hi in It. inversion It; subst t. rewrite At.
        exists (emit_of emit st k), to. split; [reflexivity|]. split; [exact Ho | eapply EM; eauto]. }
    destruct OUT as [o [to [NOUT [Ho HT]]]]. rewrite NOUT. unfold post_res. rewrite G.
    assert (KEEP : forall d1, has_type u d1 to = true ->
              exists r, Some (TVal d1) = Some r /\ (r = TTypeErr \/ exists d2, r = TVal d2 /\ done_ok st (k, d2))).
    { intros d1 H1. exists (TVal d1). split; [reflexivity|]. right. exists d1. split; [reflexivity|].
      exists to. simpl. split; [rewrite To; exact Ho | exact H1]. }
    unfold run_handler. destruct (n_post n) as [t0|] eqn:Pn; [|apply KEEP; exact HT].
    specialize (Po t0 eq_refl).
    destruct (n_pass n) eqn:Ps.
    - subst t0. rewrite assert_any. simpl. rewrite Ho.
      destruct (asrt (match n_post_ret n with Some r => r | None => o end) to) eqn:A1.
      + apply KEEP. apply has_type_assert; exact A1.
      + exists TTypeErr. split; [reflexivity | left; reflexivity].
    - rewrite Po in Ho. inversion Ho; subst t0. rewrite (assert_has_type _ _ HT). simpl. apply KEEP.
      destruct (n_post_ret n) as [r|] eqn:R; [|exact HT].
      destruct (HR k n G Ps) as [_ H2]. eapply H2; eauto.
  Qed.

  Lemma collect_safe : forall st t1,
    compiled_ok st -> emit_ok st -> hret_ok st -> tasks_ok st t1 ->
    forallb (fun r : option tres => match r with Some _ => true | None => false end)
            (map (fun t => post_res asrt st (fst t) (node_out asrt emit st t)) t1) = true /\
    match collect_outs t1 (map (fun t => post_res asrt st (fst t) (node_out asrt emit st t)) t1) with
    | inl o => o = RTypeErr
    | inr l => forall y, In y l -> done_ok st y
    end.
  Proof.
    intros st t1 CO EM HR. induction t1 as [|[k d] rest IH]; intros HT; simpl.
    - split; [reflexivity | intros y []].
    - destruct (HT (k, d) (or_introl eq_refl)) as [TK Hn]. simpl in Hn.
      destruct (post_safe st k d CO EM HR TK Hn) as [r [PR Q]]. rewrite PR.
      destruct (IH (fun x Hx => HT x (or_intror Hx))) as [F L]. rewrite F. split; [reflexivity|].
      destruct Q as [Q|[d1 [Q D1]]]; subst r; [reflexivity|].
      destruct (collect_outs rest _) as [o|l]; [exact L|].
      intros y [Hy|Hy]; [subst y; exact D1 | apply L; exact Hy].
  Qed.

  Lemma exec_all_safe : forall st tasks,
    compiled_ok st -> emit_ok st -> hret_ok st -> tasks_ok st tasks ->
    match exec_all asrt emit st tasks with
    | inl o => o = RTypeErr
    | inr done => forall y, In y done -> done_ok st y
    end.
  Proof.
    intros st tasks CO EM HR HT. unfold exec_all.
    assert (F1 : forallb (fun t => has_node st (fst t)) tasks = true).
    { apply forallb_forall. intros x Hx. apply (HT x Hx). }
    rewrite F1; simpl.
    pose proof (pre_all_safe st tasks CO HR HT) as PS.
    destruct (pre_all asrt st tasks) as [o|t1]; [exact PS|].
    destruct (collect_safe st t1 CO EM HR PS) as [F L]. rewrite F. simpl. exact L.
  Qed.

  Lemma loop_safe : forall st steps tasks,
    compiled_ok st -> emit_ok st -> hret_ok st -> tasks_ok st tasks ->
    loop u asrt emit st steps tasks <> RPanicRec /\ loop u asrt emit st steps tasks <> RPanicEsc.
  Proof.
    intros st steps. induction steps as [|n IH]; intros tasks CO EM HR HT; simpl; [split; discriminate|].
    destruct tasks as [|x rest] eqn:T; [split; discriminate|]. rewrite <- T in *.
    pose proof (exec_all_safe st tasks CO EM HR HT) as ES.
    destruct (exec_all asrt emit st tasks) as [o|done]; [subst o; split; discriminate|].
    pose proof (next_safe st done CO ES) as NS.
    destruct (next u asrt st done) as [o|tasks']; [exact NS|].
    apply IH; auto.
  Qed.

  Theorem run_safe : forall st input,
    compiled_ok st -> emit_ok st -> hret_ok st -> has_type u input (g_in st) = true ->
    run u asrt emit st input <> RPanicRec /\ run u asrt emit st input <> RPanicEsc.
  Proof.
    intros st input CO EM HR HI. unfold run.
    assert (D : forall x, In x [(kSTART, input)] -> done_ok st x).
    { intros x [Hx|[]]. subst x. exists (g_in st). split; [reflexivity | exact HI]. }
    pose proof (next_safe st _ CO D) as NS.
    destruct (next u asrt st [(kSTART, input)]) as [o|tasks]; [exact NS|].
    apply loop_safe; auto.
  Qed.

End R.
