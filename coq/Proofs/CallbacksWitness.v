(* Proofs/CallbacksWitness.v — concrete witnesses (by computation) for the code as it was before
   the repair of F-C10 (8b69b91), and the definitions the examples of Props/C10.v use. *)
From Coq Require Import List Arith NArith Bool.
From Eino Require Import Base.Util Base.GoSlice Model.Callbacks Model.CallbacksSched.
From Eino Require Import Proofs.CallbacksSlice Proofs.Callbacks Proofs.CallbacksEngine Proofs.CallbacksSched.
Import ListNotations.
Local Open Scope N_scope.

Definition w_plain (globals : list handler) : world :=
  {| w_pol := pol_double; w_globals := globals; w_needs := fun _ _ => true |}.

(* the scenario of F-C10: parent list [1;2;3] with one spare slot, two siblings *)
Definition fc10_pre : list op := [ORaw 0 100 0%nat [1; 2; 3] 1%nat; OAppend (Some 0) 1 101 [[4]]].
Definition fc10_post : list op := [OAppend (Some 0) 2 102 [[5]]; OOn 0 TEnd; OOn 2 TStart; OOn 1 TEnd].

(* the graph of F-C10 *)
Definition fc10_opts : list copt := [([1], []); ([2], []); ([3], []); ([4], [[1]]); ([5], [[2]])].
Definition fc10_stages : list (list gnode) := [[GLambda 1 1 1 1 false; GLambda 2 2 2 1 false]].

Lemma handler_lists_immutable_v0_refuted_witness :
  exists (w : world) (pre : list op) (parent : option ukey) (u : ukey) (inf : info)
         (opts : list (list handler)) (post : list op) (inh : list handler),
    inherited_list (run_script false w pre) parent = Some inh /\
    no_rebind u post /\
    observed_list (run_script false w (pre ++ OAppend parent u inf opts :: post)) u
    = Some [1; 2; 3; 5] /\
    inh ++ List.concat opts = [1; 2; 3; 4].
Proof.
  exists (w_plain []), [ORaw 0 100 0%nat [1; 2; 3] 1%nat], (Some 0), 1, 101, [[4]],
         [OAppend (Some 0) 2 102 [[5]]], [1; 2; 3].
  split; [vm_compute; reflexivity|]. split.
  - intros o [<-|[]]; discriminate.
  - split; vm_compute; reflexivity.
Qed.

Lemma handler_lists_immutable_on_v0_refuted_witness :
  exists (w : world) (pre : list op) (parent : option ukey) (u : ukey) (inf : info)
         (opts : list (list handler)) (post : list op) (inh : list handler),
    inherited_list (run_script false w pre) parent = Some inh /\
    no_rebind u post /\
    (forall o, In o post -> exists v t, o = OOn v t) /\
    observed_list (run_script false w (pre ++ OAppend parent u inf opts :: post)) u
    = Some [1; 2; 3; 9] /\
    inh ++ List.concat opts = [1; 2; 3; 4].
Proof.
  exists (w_plain [9]), [ORaw 0 100 0%nat [1; 2; 3] 1%nat], (Some 0), 1, 101, [[4]],
         [OOn 0 TEnd], [1; 2; 3].
  split; [vm_compute; reflexivity|]. split.
  - intros o [<-|[]]; discriminate.
  - split; [intros o [<-|[]]; eauto|]. split; vm_compute; reflexivity.
Qed.

Lemma designated_only_there_v0_refuted_witness :
  exists (w : world) (pre : list op) (parent : option ukey) (u : ukey) (inf : info)
         (opts : list (list handler)) (post : list op) (inh : list handler) (x : handler),
    inherited_list (run_script false w pre) parent = Some inh /\
    (forall o, In o pre -> creates o <> Some u) /\
    no_rebind u post /\
    ~ In x inh /\ ~ In x (List.concat opts) /\ ~ In x (w_globals w) /\
    exists e, In e (st_log (run_script false w (pre ++ OAppend parent u inf opts :: post))) /\
              ev_unit e = u /\ ev_handler e = x.
Proof.
  exists (w_plain []), [ORaw 0 100 0%nat [1; 2; 3] 1%nat], (Some 0), 1, 101, [[4]],
         [OAppend (Some 0) 2 102 [[5]]; OOn 1 TEnd], [1; 2; 3], 5.
  split; [vm_compute; reflexivity|].
  split; [intros o [<-|[]]; discriminate|].
  split; [intros o [<-|[<-|[]]]; discriminate|].
  split; [simpl; intros [H|[H|[H|[]]]]; discriminate|].
  split; [simpl; intros [H|[]]; discriminate|].
  split; [simpl; tauto|].
  exists (Ev 1 5 TEnd 101). split; [vm_compute; tauto|]. split; reflexivity.
Qed.

Lemma exactly_once_paired_v0_refuted_witness :
  exists w is_stream g ginf opts stages t e,
    NoDup (g :: stages_uids stages) /\
    traces (graph_prog is_stream g ginf opts stages) t /\
    In e (graph_table is_stream g ginf opts stages) /\
    ue_list e = [1; 2; 3; 4] /\
    filter (of_unit (ue_unit e)) (st_log (run_script false w t)) =
      [Ev 1 5 TStart 1; Ev 1 3 TStart 1; Ev 1 2 TStart 1; Ev 1 1 TStart 1;
       Ev 1 1 TEnd 1; Ev 1 2 TEnd 1; Ev 1 3 TEnd 1; Ev 1 5 TEnd 1] /\
    filter (of_unit (ue_unit e)) (st_log (run_script false w t)) <> uexp_events w e /\
    (* while the canonical order hides it *)
    filter (of_unit (ue_unit e)) (st_log (run_script false w (graph_ops is_stream g ginf opts stages)))
      = uexp_events w e.
Proof.
  exists (w_plain []), false, 0, 0, fc10_opts, fc10_stages,
         (flatten_alt (graph_prog false 0 0 fc10_opts fc10_stages)),
         {| ue_unit := 1; ue_info := 1; ue_list := [1; 2; 3; 4]; ue_timings := [TStart; TEnd] |}.
  split; [vm_compute; repeat (constructor; [simpl; intuition discriminate|]); constructor|].
  split; [apply traces_flatten_alt|].
  split; [vm_compute; tauto|].
  split; [reflexivity|].
  split; [vm_compute; reflexivity|].
  split; [vm_compute; discriminate | vm_compute; reflexivity].
Qed.

Lemma canonical_order_is_a_schedule_witness :
  forall is_stream g ginf opts stages,
    flatten (graph_prog is_stream g ginf opts stages) = graph_ops is_stream g ginf opts stages /\
    traces (graph_prog is_stream g ginf opts stages) (graph_ops is_stream g ginf opts stages).
Proof. intros. split; [apply flatten_graph_prog | apply graph_ops_is_a_schedule]. Qed.


(* F-C10c (repaired by db1b29b): a tool call naming a tool the ToolsNode does not have is answered by
   the UnknownToolsHandler; before the repair its runnable was built with callback injection off, so
   the call's context was created (ReuseHandlers with the tool's run info) and no On followed *)
Definition call_ops_unknown_v0 (tn : ukey) (c : ukey * info * N * bool) : list op :=
  let '(cu, cinf, _, _) := c in [OReuse tn cu cinf].

Lemma unknown_tool_call_v0_refuted_witness :
  exists (w : world) (is_stream : bool) (pre : list op) (tn : ukey) (c : ukey * info * N * bool),
    let cu := fst (fst (fst c)) in
    (* the handlers that apply to the tool call: those of the ToolsNode *)
    observed_list (run_script true w (pre ++ call_ops is_stream tn c)) cu = Some [1] /\
    (* the call as it is executed now: start and end, with the tool's run info *)
    filter (of_unit cu) (st_log (run_script true w (pre ++ call_ops is_stream tn c))) =
      [Ev cu 1 TStart 7; Ev cu 1 TEnd 7] /\
    (* before the repair: the same handlers applied, none was invoked *)
    observed_list (run_script true w (pre ++ call_ops_unknown_v0 tn c)) cu = Some [1] /\
    filter (of_unit cu) (st_log (run_script true w (pre ++ call_ops_unknown_v0 tn c))) = [].
Proof.
  exists (w_plain []), false, [ORaw 0 100 0%nat [1] 0%nat], 0, (5, 7, 1, false).
  vm_compute. repeat split; reflexivity.
Qed.

(* F-C10d (repaired by 31b7668): a component that panics. Before the repair the injected callbacks
   fired the start and then nothing (the panic left runWithCallbacks before any end callback) *)
Definition lambda_ops_panic_v0 (is_stream : bool) (parent : ukey) (opts : list copt) (uid : ukey) (key : N)
           (inf : info) (natives : N) : list op :=
  [OAppend (Some parent) uid inf (designated key opts); OOn uid (start_timing_of (pick_native is_stream natives))].

Lemma panicking_unit_v0_refuted_witness :
  exists (w : world) (pre : list op) (opts : list copt),
    (* the node as it is executed now (fails = true: an error or a contained panic): start ++ error *)
    filter (of_unit 2) (st_log (run_script true w (pre ++ fst (node_ops false 0 opts (GLambda 2 1 2 1 true))))) =
      [Ev 2 4 TStart 2; Ev 2 1 TStart 2; Ev 2 1 TError 2; Ev 2 4 TError 2] /\
    (* before the repair: the starts, and no end of any kind *)
    filter (of_unit 2) (st_log (run_script true w (pre ++ lambda_ops_panic_v0 false 0 opts 2 1 2 1))) =
      [Ev 2 4 TStart 2; Ev 2 1 TStart 2].
Proof.
  exists (w_plain []), [ORaw 0 100 0%nat [1] 0%nat], [([4], [[1]])].
  vm_compute. split; reflexivity.
Qed.
