(* Proofs/GenAgreeC20Ch.v — property C20, translator tie for the deferred-error handling of a Chain: the Gallina
   functions tools/go2v (extractor "c20chain") translated statement by statement from compose/chain.go
   (Gen/C20Chain.v) are the model's:
     - reportError keeps the FIRST error ([c_report]);
     - addNode — the body of every Append<Component> — is [c_append]: nothing happens once an error is recorded,
       a compiled chain records ErrChainCompiled, the key is the WithNodeKey option or the generated "node_<i>"
       (the counter is bumped either way), graph.addNode's error is recorded, START is the previous node of the
       first node, one edge from every previous node (the first refused edge is recorded and ends the call), the
       new node becomes the only previous node;
     - Compile = addEndIfNeeded (the recorded error first, also once END is connected: F-C20d; an empty chain; one
       END edge per previous node, once) followed by the graph's compile: [c_compile fixed];
   and the public wrappers Graph.AddEdge / graph.AddBranch are the calls [gstep] makes (no mapping, control and data
   edge; skipData = false).
   Hypotheses visible in the statements: the node handed to addNode is not nil; WithNodeKey("") is no option.
   Unrecognised shape: neutral Gen file, [C.tie_available = false], the theorems hold vacuously. *)
From Eino Require Import Base.Util Model.Builder Model.BuilderGenLib Model.BuilderChGenLib Proofs.Builder.
From Eino Require Gen.C20Chain.
Module C := Gen.C20Chain.
Local Open Scope string_scope.
Local Open Scope list_scope.

Ltac cvacuous TA := unfold C.tie_available in TA; discriminate TA.

Lemma c_eta_g : forall c, c_set_g (c_g c) c = c.
Proof. intros []; reflexivity. Qed.

Theorem gen_graph_wrappers_agree : C.tie_available = true ->
  (forall v g s e, gstep v g (GAddEdge s e) = C.graph_AddEdge g s e)
  /\ (forall v g s ends, gstep v g (GAddBranch s ends) = C.graph_AddBranch g s ends).
Proof. intros TA; first [cvacuous TA | clear TA; split; reflexivity]. Qed.

Theorem gen_chain_reportError_agrees : C.tie_available = true -> forall c e,
  C.reportError c (Some e) = c_report c e.
Proof.
  intros TA; first [cvacuous TA | clear TA;
  intros c e; unfold C.reportError, c_report, c_set_err; destruct (c_err c); reflexivity ].
Qed.

(* the loop that hangs the new node on the previous ones, as the model states it *)
Lemma edges_loop : forall body pres c key,
  (forall c0 p, body c0 p =
     let '(g, o) := g_add_edge (c_g c0) p key false false [] in
     match err_of o with
     | Some e => (c_report (c_set_g g c0) e, Some tt)
     | None => (c_set_g g c0, None)
     end) ->
  cfor_each body pres c =
  match add_edges_from (c_g c) pres key with
  | (g2, Some e) => (c_report (c_set_g g2 c) e, Some tt)
  | (g2, None) => (c_set_g g2 c, None)
  end.
Proof.
  intros body pres; induction pres as [|p rest IH]; intros c key HB; simpl.
  - rewrite c_eta_g. reflexivity.
  - rewrite HB. destruct (g_add_edge (c_g c) p key false false []) as [g o].
    destruct (err_of o) as [e|]; [reflexivity|].
    rewrite (IH _ key HB). simpl.
    destruct (add_edges_from g rest key) as [g2 [e|]]; destruct c; reflexivity.
Qed.

Definition opt_key (key : option string) : string := match key with Some k => k | None => "" end.

Lemma length_zero_is_nil' : forall {A} (l : list A), Nat.eqb (List.length l) 0 = is_nil l.
Proof. intros A [|a l]; reflexivity. Qed.

Theorem gen_chain_addNode_agrees : C.tie_available = true -> forall c nk key ns,
  key <> Some "" ->
  C.addNode false c (opt_key key) nk ns = c_append c nk key ns.
Proof.
  intros TA; first [cvacuous TA | clear TA;
  intros c nk key ns HK; unfold C.addNode, c_append;
  destruct (c_err c) as [e0|] eqn:E; cbn [is_some]; [reflexivity|];
  destruct (g_compiled (c_g c)) eqn:K;
  [ unfold C.reportError, c_report, c_set_err; rewrite E; reflexivity | ];
  unfold C.nextNodeKey, gg_addNode; cbv beta iota zeta;
  assert (HN : (if String.eqb (opt_key key) "" then "node_" +++ nat_str (c_idx c) else opt_key key)
               = match key with Some k => k | None => "node_" +++ nat_str (c_idx c) end)
    by (destruct key as [k|]; simpl; [|reflexivity]; destruct (String.eqb k "") eqn:EK; [|reflexivity];
        apply String.eqb_eq in EK; subst; exfalso; apply HK; reflexivity);
  assert (HO : negb (String.eqb (opt_key key) "") = is_some key)
    by (destruct key as [k|]; simpl; [|reflexivity]; destruct (String.eqb k "") eqn:EK; [|reflexivity];
        apply String.eqb_eq in EK; subst; exfalso; apply HK; reflexivity);
  rewrite HN, HO;
  change (c_set_idx (c_idx c + 1)%N c) with (c_bump c);
  set (nodeKey := match key with Some k => k | None => "node_" +++ nat_str (c_idx c) end);
  destruct (g_add_node (c_g (c_bump c)) nodeKey nk ns (is_some key) false) as [g1 o];
  destruct (err_of o) as [e1|]; cbn [is_some];
  [ unfold C.reportError, c_report, c_set_err, c_set_g, c_bump; simpl; rewrite E; reflexivity | ];
  rewrite length_zero_is_nil';
  set (X := c_set_g g1 (c_bump c));
  replace (if is_nil (c_pre X) then c_set_pre (c_pre X ++ [START]) X else X)
    with (c_set_pre (if is_nil (c_pre (c_bump c)) then [START] else c_pre (c_bump c)) X)
    by (unfold X; destruct c as [ce cg ci [|p ps] ch]; reflexivity);
  set (Y := c_set_pre (if is_nil (c_pre (c_bump c)) then [START] else c_pre (c_bump c)) X);
  rewrite (edges_loop _ (c_pre Y) Y nodeKey);
  [ replace (c_pre Y) with (if is_nil (c_pre (c_bump c)) then [START] else c_pre (c_bump c)) by reflexivity;
    replace (c_g Y) with g1 by reflexivity;
    destruct (add_edges_from g1 (if is_nil (c_pre (c_bump c)) then [START] else c_pre (c_bump c)) nodeKey) as [g2 [e|]]; reflexivity
  | intros c0 p; unfold C.gg_AddEdge, C.graph_AddEdge;
    destruct (g_add_edge (c_g c0) p nodeKey false false []) as [g o0];
    destruct (err_of o0) as [e|]; cbn [is_some]; [|reflexivity];
    unfold C.reportError, c_report, c_set_err; simpl; destruct (c_err c0); reflexivity ] ].
Qed.

(* the loop of addEndIfNeeded, as the model states it (the local fixpoint of c_compile) *)
Definition ends_fix (c : cstate) : gstate -> list string -> cstate * option ecls :=
  fix ends (g : gstate) (ps : list string) : cstate * option ecls :=
    match ps with
    | [] => (c_set_has_end true (c_set_g g c), None)
    | p :: rest =>
      let '(g', oo) := g_add_edge g p END_ false false [] in
      match err_of oo with Some e => (c_set_g g' c, Some e) | None => ends g' rest end
    end.

Lemma end_edges_loop : forall body ps g c,
  (forall c1 k, body c1 k =
     let '(g', o) := g_add_edge (c_g c1) k END_ false false [] in
     match err_of o with Some e => (c_set_g g' c1, Some (Some e)) | None => (c_set_g g' c1, None) end) ->
  match cfor_each body ps (c_set_g g c) with
  | (c', Some r) => (c', r)
  | (c', None) => (c_set_has_end true c', None)
  end = ends_fix c g ps.
Proof.
  intros body ps; induction ps as [|p rest IH]; intros g c HB; simpl; [reflexivity|].
  rewrite HB. replace (c_g (c_set_g g c)) with g by reflexivity.
  destruct (g_add_edge g p END_ false false []) as [g' o].
  destruct (err_of o) as [e|]; [destruct c; reflexivity|].
  replace (c_set_g g' (c_set_g g c)) with (c_set_g g' c) by (destruct c; reflexivity).
  apply IH, HB.
Qed.

Theorem gen_chain_compile_agrees : C.tie_available = true -> forall c o,
  C.compile c o = c_compile fixed c o.
Proof.
  intros TA; first [cvacuous TA | clear TA;
  intros c o; unfold C.compile, C.addEndIfNeeded, c_compile; cbn [fixed v_chain_err_first negb andb];
  destruct (c_err c) as [e|] eqn:E; cbn [is_some]; [reflexivity|];
  destruct (c_has_end c); [cbn [is_some]; reflexivity|];
  rewrite length_zero_is_nil'; destruct (is_nil (c_pre c)) eqn:P; [reflexivity|];
  fold (ends_fix c);
  match goal with |- context[cfor_each ?B (c_pre c) c] =>
    pose proof (end_edges_loop B (c_pre c) (c_g c) c) as H end;
  rewrite c_eta_g in H; rewrite H;
  [ destruct (ends_fix c (c_g c) (c_pre c)) as [c' [e|]]; reflexivity
  | intros c1 k; unfold C.gg_AddEdge, C.graph_AddEdge;
    destruct (g_add_edge (c_g c1) k END_ false false []) as [g' o0];
    destruct (err_of o0); reflexivity ] ].
Qed.

(* the public methods that hand a component to addNode: every graph.Add<Component>Node is
   [gNode, options := to<Component>Node(node, opts...); return g.addNode(key, gNode, options)] and every
   Chain.Append<Component> is [gNode, options := …; c.addNode(gNode, options); return c] — the method's own key,
   the node and options made of the method's own arguments, addNode's answer handed back (a Chain records it) —, so
   what [gstep] / [cstep] say about AddLambdaNode / AddPassthroughNode / AddGraphNode and AppendLambda /
   AppendPassthrough / AppendGraph (the methods the correspondence drives; a Workflow's Add<Component>Node methods call
   the graph's: Gen/C20Workflow.v) holds for the methods of the other components, which the harness cannot wire into
   its one-type graphs.  A wrapper that drops the error, uses another key or another node has the verdict [false]. *)
Definition names_in (want have : list string) : bool :=
  forallb (fun m => existsb (String.eqb m) have) want.
Theorem gen_node_wrappers_uniform : C.tie_available = true ->
  forallb snd C.graph_node_wrappers = true /\ forallb snd C.chain_node_wrappers = true
  /\ names_in ["AddLambdaNode"; "AddPassthroughNode"; "AddGraphNode"] (map fst C.graph_node_wrappers) = true
  /\ names_in ["AppendLambda"; "AppendPassthrough"; "AppendGraph"] (map fst C.chain_node_wrappers) = true.
Proof. intros TA; first [cvacuous TA | clear TA; vm_compute; repeat split; reflexivity]. Qed.

Print Assumptions gen_graph_wrappers_agree.
Print Assumptions gen_node_wrappers_uniform.
Print Assumptions gen_chain_reportError_agrees.
Print Assumptions gen_chain_addNode_agrees.
Print Assumptions gen_chain_compile_agrees.
