(* Proofs/BuilderReject.v — property C20, part D/E/F:
   D. every listed kind of ill-formed call / ill-formed graph is answered by an error,
      whatever the state it is made in (hence at any position of any call sequence);
   E. in the repaired version no call has the panic outcome;
   F. machine-checked witnesses of the four repaired defects on the original version. *)
From Eino Require Import Base.Util Model.Builder Proofs.Builder.
Local Open Scope string_scope.
Local Open Scope list_scope.

Definition is_err (o : outcome) : Prop := exists e, o = OErr e.

Lemma is_err_OErr : forall e, is_err (OErr e).
Proof. intros e; exists e; reflexivity. Qed.
#[local] Hint Resolve is_err_OErr : core.

Lemma fail_is_err : forall g e, is_err (snd (fail g e)).
Proof. intros; simpl; auto. Qed.
#[local] Hint Resolve fail_is_err : core.

Lemma neq_eqb_false : forall a b : string, a <> b -> String.eqb a b = false.
Proof. intros a b H. apply String.eqb_neq. assumption. Qed.

(* ------------------------------------------------------------------ node keys are stable *)
Lemma has_node_set_typed : forall g k' k, has_node (set_typed k' g) k = has_node g k.
Proof.
  intros g k' k. unfold has_node, set_typed. simpl.
  induction (g_nodes g) as [|[k0 n0] l IH]; simpl; [reflexivity|].
  destruct (String.eqb k0 k'); simpl; destruct (String.eqb k k0); simpl; auto.
Qed.

Definition same_keys (g g' : gstate) : Prop := forall k, has_node g' k = has_node g k.

Lemma same_keys_refl : forall g, same_keys g g.
Proof. intros g k; reflexivity. Qed.
Lemma same_keys_trans : forall a b c, same_keys a b -> same_keys b c -> same_keys a c.
Proof. intros a b c H1 H2 k. rewrite H2, H1. reflexivity. Qed.

Lemma resolve_pass_keys : forall todo g, same_keys g (fst (resolve_pass g todo)).
Proof.
  induction todo as [|[[s e] fs] rest IH]; intros g; simpl; [apply same_keys_refl|].
  dif.
  - specialize (IH g). destruct (resolve_pass g rest) as [g' kept]; simpl in *. assumption.
  - eapply same_keys_trans; [|apply IH].
    intros k.
    match goal with |- has_node (match fs with [] => ?G1 | _ => _ end) k = _ =>
      transitivity (has_node G1 k); [destruct fs; reflexivity|] end.
    repeat dif; try apply has_node_set_typed; reflexivity.
Qed.

Lemma resolve_once_keys : forall g, same_keys g (resolve_once g).
Proof.
  intros g. unfold resolve_once.
  pose proof (resolve_pass_keys (g_pending g) (set_pending [] g)) as H.
  destruct (resolve_pass (set_pending [] g) (g_pending g)) as [g' kept]; simpl in *.
  intros k. specialize (H k). unfold has_node in *; simpl in *. assumption.
Qed.

Lemma iter_keys : forall n g, same_keys g (Nat.iter n resolve_once g).
Proof.
  induction n as [|n IH]; intros g; simpl; [apply same_keys_refl|].
  eapply same_keys_trans; [apply IH|apply resolve_once_keys].
Qed.

Lemma update_pending_keys : forall g, same_keys g (update_pending g).
Proof. intros g. unfold update_pending. apply iter_keys. Qed.

(* ================================================================== D1. Graph: Add* calls *)
Inductive gviolation (g : gstate) : gcall -> Prop :=
| V_reserved : forall k nk a b, is_se k = true -> gviolation g (GAddNode k nk a b)
| V_dup_node : forall k nk a b, has_node g k = true -> gviolation g (GAddNode k nk a b)
| V_need_state : forall k nk b, g_state g = false -> gviolation g (GAddNode k nk true b)
| V_node_key_option : forall k nk a, g_cmp g <> CChain -> gviolation g (GAddNode k nk a true)
| V_edge_from_end : forall t, gviolation g (GAddEdge END_ t)
| V_edge_to_start : forall s, gviolation g (GAddEdge s START)
| V_edge_unknown_start : forall s t, has_node g s = false -> s <> START -> gviolation g (GAddEdge s t)
| V_edge_unknown_end : forall s t, has_node g t = false -> t <> END_ -> gviolation g (GAddEdge s t)
| V_dup_edge : forall s t, pmem s t (g_ctrl g) = true -> gviolation g (GAddEdge s t)
| V_branch_from_end : forall ends, gviolation g (GAddBranch END_ ends)
| V_branch_unknown_start : forall s ends, has_node g s = false -> s <> START -> gviolation g (GAddBranch s ends)
| V_branch_single_target : forall s t, gviolation g (GAddBranch s [t])
| V_branch_unknown_end : forall s ends t,
    In t ends -> has_node g t = false -> t <> END_ -> gviolation g (GAddBranch s ends).

Lemma add_node_rejects : forall g k nk ns nko ok,
  is_se k = true \/ has_node g k = true \/ (ns = true /\ g_state g = false) \/ (nko = true /\ g_cmp g <> CChain) ->
  is_err (snd (g_add_node g k nk ns nko ok)).
Proof.
  intros g k nk ns nko ok H. unfold g_add_node.
  destruct (g_err g); [simpl; auto|]. destruct (g_compiled g); [simpl; auto|].
  destruct (is_se k) eqn:R; [auto|]. destruct (has_node g k) eqn:D; [auto|].
  destruct H as [H|[H|[[H1 H2]|[H1 H2]]]]; try discriminate.
  - subst ns. rewrite H2. simpl. auto.
  - dif; [auto|]. subst nko. destruct (g_cmp g); simpl; auto. congruence.
Qed.

Lemma branch_ends_unknown : forall ends g s t,
  In t ends -> has_node g t = false -> t <> END_ -> exists g' er, branch_ends g s ends = (g', Some er).
Proof.
  induction ends as [|e rest IH]; intros g s t I U NE; [contradiction|]. simpl.
  dif; [eauto|].
  destruct I as [I|I].
  - subst e. rewrite U, (neq_eqb_false _ _ NE) in Heqb. discriminate.
  - apply IH with (t := t); auto.
    repeat dif; unfold has_node in *; simpl; fold (has_node (update_pending (set_pending (g_pending g ++ [(s, e, [])]) g)) t);
      rewrite (update_pending_keys _ t); unfold has_node; simpl; assumption.
Qed.

Theorem graph_rejects_add : forall v g c, gviolation g c -> is_err (snd (gstep v g c)).
Proof.
  intros v g c V. destruct V; simpl.
  - apply add_node_rejects; auto.
  - apply add_node_rejects; auto.
  - apply add_node_rejects; auto.
  - apply add_node_rejects; auto.
  - unfold g_add_edge. destruct (g_err g); [simpl; auto|]. destruct (g_compiled g); simpl; auto.
  - unfold g_add_edge. destruct (g_err g); [simpl; auto|]. destruct (g_compiled g); [simpl; auto|]. simpl.
    dif; auto.
  - unfold g_add_edge. destruct (g_err g); [simpl; auto|]. destruct (g_compiled g); [simpl; auto|]. simpl.
    repeat (dif; [solve [auto]|]). rewrite H, (neq_eqb_false _ _ H0) in *. simpl in *. discriminate.
  - unfold g_add_edge. destruct (g_err g); [simpl; auto|]. destruct (g_compiled g); [simpl; auto|]. simpl.
    repeat (dif; [solve [auto]|]). rewrite H, (neq_eqb_false _ _ H0) in *. simpl in *. discriminate.
  - unfold g_add_edge. destruct (g_err g); [simpl; auto|]. destruct (g_compiled g); [simpl; auto|]. simpl.
    repeat (dif; [solve [auto]|]). congruence.
  - unfold g_add_branch. destruct (g_err g); [simpl; auto|]. destruct (g_compiled g); simpl; auto.
  - unfold g_add_branch. destruct (g_err g); [simpl; auto|]. destruct (g_compiled g); [simpl; auto|].
    repeat (dif; [solve [auto]|]). rewrite H, (neq_eqb_false _ _ H0) in *. simpl in *. discriminate.
  - unfold g_add_branch. destruct (g_err g); [simpl; auto|]. destruct (g_compiled g); [simpl; auto|].
    dif; [auto|]. dif; [auto|]. simpl. auto.
  - unfold g_add_branch. destruct (g_err g); [simpl; auto|]. destruct (g_compiled g); [simpl; auto|].
    repeat (dif; [solve [auto]|]). simpl.
    match goal with |- context[branch_ends ?G s ends] =>
      destruct (branch_ends_unknown ends G s t H) as [g' [er E]]; auto;
      [|rewrite E; auto] end.
    match goal with |- has_node (set_h_prebranch _ ?G1) t = false => change (has_node G1 t = false) end.
    destruct (alist_get s (g_nodes g)) as [n|]; [|assumption].
    dif; [rewrite (update_pending_keys _ t), has_node_set_typed|]; assumption.
Qed.

(* ================================================================== D2. compile-time checks *)
Definition dag_mode (g : gstate) (o : copt) : bool :=
  match o_trigger o with Some true => true | _ => false end
  || match g_cmp g with CWorkflow => true | _ => false end.

Inductive gill (g : gstate) (o : copt) : Prop :=
| I_no_entry : g_starts g = [] -> gill g o
| I_no_exit : g_ends g = [] -> gill g o
| I_uninferable_edge : g_pending g <> [] -> gill g o
| I_uninferable_node : has_untyped g = true -> gill g o
| I_duplicate_mapping_target : existsb (fun kf => has_dup (snd kf)) (g_fm g) = true -> gill g o
| I_trigger_mode_on_chain_or_workflow : g_cmp g <> CGraph -> o_trigger o <> None -> gill g o
| I_sub_graph_invalid : existsb (fun kn => nkind_eqb (n_kind (snd kn)) NSubBad) (g_nodes g) = true -> gill g o
| I_dag_rejected : dag_mode g o = true -> validate_dag g = false -> gill g o
| I_max_steps_in_dag_mode : dag_mode g o = true -> (0 < o_max_steps o)%Z -> gill g o.

Theorem compile_rejects : forall g o, gill g o -> is_err (snd (g_compile fixed g o)).
Proof.
  intros g o I. unfold g_compile. destruct (g_err g); [simpl; auto|]. simpl.
  fold (dag_mode g o).
  repeat (dif; [solve [simpl; auto]|]). exfalso.
  destruct I as [H|H|H|H|H|H1 H2|H|H1 H2|H1 H2].
  - rewrite H in *. discriminate.
  - rewrite H in *. discriminate.
  - destruct (g_pending g); [congruence|discriminate].
  - congruence.
  - congruence.
  - destruct (g_cmp g); try congruence; destruct (o_trigger o); simpl in *; congruence.
  - congruence.
  - rewrite H1, H2 in *. discriminate.
  - rewrite H1 in *. apply Z.ltb_lt in H2. simpl in *. congruence.
Qed.

(* ================================================================== D3. Chain (deferred) *)
Inductive cviolation (c : cstate) : ccall -> Prop :=
| CV_reserved_key : forall nk k ns, is_se k = true -> cviolation c (CAppend nk (Some k) ns)
| CV_duplicate_key : forall nk k ns, has_node (c_g c) k = true -> cviolation c (CAppend nk (Some k) ns)
| CV_need_state : forall nk key, g_state (c_g c) = false -> cviolation c (CAppend nk key true)
| CV_parallel_too_few : forall items, (List.length items <= 1)%nat -> cviolation c (CParallel items)
| CV_parallel_duplicate_key : forall items,
    has_dup (map (fun it : citem => fst (fst it)) items) = true -> cviolation c (CParallel items)
| CV_parallel_several_previous : forall items, c_start_node c = None -> cviolation c (CParallel items)
| CV_branch_too_few : forall items, (List.length items <= 1)%nat -> cviolation c (CBranch items)
| CV_branch_duplicate_key : forall items,
    has_dup (map (fun it : citem => fst (fst it)) items) = true -> cviolation c (CBranch items)
| CV_branch_several_previous : forall items, c_start_node c = None -> cviolation c (CBranch items).

Lemma c_append_rejects : forall c nk key ns,
  is_err (snd (g_add_node (c_g c) (match key with Some k => k | None => "node_" +++ nat_str (c_idx c) end)
                          nk ns (is_some key) false)) ->
  c_err (c_append c nk key ns) <> None.
Proof.
  intros c nk key ns H. unfold c_append. destruct (c_err c) eqn:E; [congruence|].
  dif; [apply c_report_some|].
  change (c_g (c_bump c)) with (c_g c).
  destruct (g_add_node (c_g c) _ nk ns (is_some key) false) as [g1 o].
  destruct H as [e He]; simpl in He; subst o. simpl. apply c_report_some.
Qed.

Theorem chain_rejects : forall c call,
  cviolation c call -> c_err (fst (cstep fixed c call)) <> None.
Proof.
  intros c call V. destruct V; cbn [cstep fst].
  - apply c_append_rejects. apply add_node_rejects; auto.
  - apply c_append_rejects. apply add_node_rejects; auto.
  - apply c_append_rejects. apply add_node_rejects; auto.
  - unfold c_parallel. dif; [apply c_report_some|].
    apply Nat.leb_le in H. rewrite H. apply c_report_some.
  - unfold c_parallel. dif; [apply c_report_some|]. unfold citem in *. congruence.
  - unfold c_parallel. repeat (dif; [apply c_report_some|]). rewrite H. apply c_report_some.
  - unfold c_branch. dif; [apply c_report_some|].
    destruct items as [|i1 [|i2 rest]]; try apply c_report_some. simpl in H. lia.
  - unfold c_branch. dif; [apply c_report_some|]. unfold citem in *. congruence.
  - unfold c_branch. dif; [apply c_report_some|].
    destruct items as [|i1 [|i2 rest]]; try apply c_report_some. rewrite H. apply c_report_some.
Qed.

(* with [chain_first_error_sticks]: the violation is reported by every later Compile *)
Corollary chain_rejects_at_compile : forall c call cs,
  cviolation c call ->
  exists e, Forall2 (fun k o => c_is_compile k = true -> o = OErr e) cs
                    (snd (run_calls (cstep fixed) (fst (cstep fixed c call)) cs)).
Proof.
  intros c call cs V. pose proof (chain_rejects c call V) as H.
  destruct (c_err (fst (cstep fixed c call))) as [e|] eqn:E; [|congruence].
  exists e. apply chain_first_error_sticks; assumption.
Qed.

(* ================================================================== D4. Workflow (deferred) *)
(* Add* violations are swallowed but recorded in the graph's build error *)
Theorem workflow_rejects_node : forall w k nk ns,
  g_compiled (w_g w) = false ->
  is_se k = true \/ has_node (w_g w) k = true \/ (ns = true /\ g_state (w_g w) = false) ->
  g_err (w_g (fst (wstep fixed w (WAddNode k nk ns)))) <> None.
Proof.
  intros w k nk ns C V. simpl.
  assert (E : is_err (snd (g_add_node (w_g w) k nk ns false false))).
  { apply add_node_rejects. tauto. }
  destruct (g_add_node (w_g w) k nk ns false false) as [g' o] eqn:A. simpl in *.
  destruct E as [e E]; subst o.
  destruct (g_add_node_records _ _ _ _ _ _ _ _ A) as [R|[_ [_ R]]]; [congruence|congruence].
Qed.

(* a branch to a node that was never added: an error at Compile (F-C20a: it was a panic) *)
Definition bad_branch (w : wstate) (b : string * list string) : bool :=
  existsb (fun e => negb (String.eqb e END_) && negb (is_some (alist_get e (w_nodes w)))) (snd b).

Lemma run_branches_nodes : forall v bs w, w_nodes (fst (run_branches v w bs)) = w_nodes w.
Proof.
  induction bs as [|[from ends] rest IH]; intros w; simpl; [reflexivity|].
  dif; [dif; reflexivity|].
  destruct (g_add_branch (w_g w) from ends true) as [g' o]. rewrite IH. reflexivity.
Qed.

Lemma run_branches_bad : forall bs w,
  existsb (bad_branch w) bs = true ->
  snd (run_branches fixed w bs) = Some (OErr EBranchEndUnknown).
Proof.
  induction bs as [|[from ends] rest IH]; intros w H; simpl in *; [discriminate|].
  unfold bad_branch at 1 in H. simpl in H.
  dif; [reflexivity|]. simpl in H.
  destruct (g_add_branch (w_g w) from ends true) as [g' o].
  apply IH. assumption.
Qed.

Theorem workflow_rejects_unknown_branch_target : forall w o ord sord,
  existsb (bad_branch w) (w_branches w) = true ->
  is_err (snd (w_compile fixed w o ord sord)).
Proof.
  intros w o ord sord H. unfold w_compile. destruct (g_err (w_g w)); [simpl; auto|].
  pose proof (run_branches_bad _ _ H) as B.
  destruct (run_branches fixed w (w_branches w)) as [w1 out]; simpl in B; subst out. simpl. auto.
Qed.

(* whatever graph.compile rejects, Workflow.compile rejects too (it ends in graph.compile),
   and it never accepts anything with the build error set *)
Lemma w_compile_outcome : forall w o ord sord,
  is_err (snd (w_compile fixed w o ord sord)) \/
  exists w2, snd (w_compile fixed w o ord sord) = snd (g_compile fixed (w_g w2) o).
Proof.
  intros w o ord sord. unfold w_compile. destruct (g_err (w_g w)); [left; simpl; auto|].
  destruct (run_branches fixed w (w_branches w)) as [w1 [out|]] eqn:B.
  - left. simpl.
    assert (K : forall bs w0 w1 out, run_branches fixed w0 bs = (w1, Some out) -> is_err out).
    { induction bs as [|[from ends] rest IH]; intros w0 w1' out'; simpl; [discriminate|].
      dif; [intros H; inv H; auto|]. destruct (g_add_branch (w_g w0) from ends true). apply IH. }
    eapply K; eassumption.
  - destruct (run_nodes w1 _) as [w2 [er|]]; [left; simpl; auto|].
    destruct (run_statics fixed w2 _) as [w3 [er|]]; [left; simpl; auto|].
    right. exists w3. destruct (g_compile fixed (w_g w3) o); reflexivity.
Qed.

(* ================================================================== E. never a panic *)
Lemma g_add_node_no_panic : forall g k nk a b c, snd (g_add_node g k nk a b c) <> OPanic.
Proof.
  intros. unfold g_add_node, fail. destruct (g_err g); [simpl; congruence|].
  repeat (dif; [simpl; congruence|]). simpl; congruence.
Qed.

Lemma g_add_edge_no_panic : forall g s t a b fs, snd (g_add_edge g s t a b fs) <> OPanic.
Proof.
  intros. unfold g_add_edge, fail. destruct (g_err g); [simpl; congruence|].
  repeat (dif; [simpl; congruence|]). simpl; congruence.
Qed.

Lemma g_add_branch_no_panic : forall g s ends sk, snd (g_add_branch g s ends sk) <> OPanic.
Proof.
  intros. unfold g_add_branch, fail. destruct (g_err g); [simpl; congruence|].
  repeat (dif; [simpl; congruence|]).
  destruct (branch_ends _ _ _) as [g3 [er|]]; simpl; congruence.
Qed.

Lemma g_compile_no_panic : forall g o, snd (g_compile fixed g o) <> OPanic.
Proof.
  intros. unfold g_compile. destruct (g_err g); [simpl; congruence|]. simpl.
  repeat (dif; [simpl; congruence|]). simpl; congruence.
Qed.

Theorem gstep_no_panic : forall g c, snd (gstep fixed g c) <> OPanic.
Proof.
  intros g []; simpl; auto using g_add_node_no_panic, g_add_edge_no_panic, g_add_branch_no_panic, g_compile_no_panic.
Qed.

Theorem cstep_no_panic : forall c call, snd (cstep fixed c call) <> OPanic.
Proof.
  intros c []; simpl; try congruence.
  unfold c_compile.
  match goal with |- snd (let (c', o0) := ?X in _) <> _ => destruct X as [c' [e|]] end; [simpl; congruence|].
  pose proof (g_compile_no_panic (c_g c') o) as H.
  destruct (g_compile fixed (c_g c') o); simpl in *; assumption.
Qed.

Theorem wstep_no_panic : forall w call, snd (wstep fixed w call) <> OPanic.
Proof.
  intros w []; simpl; unfold w_add_input.
  - destruct (g_add_node _ _ _ _ _ _); simpl; congruence.
  - destruct (alist_get _ _); simpl; congruence.
  - congruence.
  - destruct (alist_get _ _); simpl; congruence.
  - destruct (alist_get _ _); simpl; congruence.
  - destruct (w_compile_outcome w o ord sord) as [[e E]|[w2 E]]; rewrite E; [congruence|].
    apply g_compile_no_panic.
Qed.

(* ================================================================== F. witnesses on v0 *)
(* F-C20a: Workflow.AddBranch to a node that was never added: Compile panics *)
Definition wf_branch_to_unknown : list wcall :=
  [ WAddNode "a" NLambda false; WAddInput "a" START WNormal []; WAddInput END_ "a" WNormal [];
    WAddBranch "a" ["x"; END_]; WCompile opt_default [] [] ].

Lemma wf_branch_unknown_v0 : snd (run_calls (wstep v0) (w_init false) wf_branch_to_unknown)
  = [OOk; OOk; OOk; OOk; OPanic].
Proof. vm_compute. reflexivity. Qed.

Lemma wf_branch_unknown_fixed : snd (run_calls (wstep fixed) (w_init false) wf_branch_to_unknown)
  = [OOk; OOk; OOk; OOk; OErr EBranchEndUnknown].
Proof. vm_compute. reflexivity. Qed.

(* F-C20b: Compile twice with a field mapping: the first runner's view changes *)
Definition wf_compile_twice : list wcall :=
  [ WAddNode "a" NLambda false; WAddInput "a" START WNormal ["A"]; WAddInput END_ "a" WNormal [];
    WCompile opt_default [] [] ].

Definition first_runner (v : ver) : option (wstate * runner) :=
  let '(w1, os) := run_calls (wstep v) (w_init false) wf_compile_twice in
  match os with
  | [_; _; _; OCompiled r] => Some (w1, r)
  | _ => None
  end.

Lemma wf_compile_twice_v0 :
  match first_runner v0 with
  | Some (w1, r) =>
      rv_prenode (runner_view (w_g w1) r) = ["a"] /\
      rv_prenode (runner_view (w_g (fst (wstep v0 w1 (WCompile opt_default [] [])))) r) = ["a"; "a"]
  | None => False
  end.
Proof. vm_compute. split; reflexivity. Qed.

Lemma wf_compile_twice_fixed :
  match first_runner fixed with
  | Some (w1, r) =>
      rv_prenode (runner_view (w_g w1) r) = ["a"] /\
      rv_prenode (runner_view (w_g (fst (wstep fixed w1 (WCompile opt_default [] [])))) r) = ["a"]
  | None => False
  end.
Proof. vm_compute. split; reflexivity. Qed.

(* F-C20c: an unconnected pass-through node: Compile panics *)
Definition orphan_passthrough : list gcall :=
  [ GAddNode "a" NLambda false false; GAddNode "p" NPass false false;
    GAddEdge START "a"; GAddEdge "a" END_; GCompile opt_default ].

Lemma orphan_passthrough_v0 : snd (run_calls (gstep v0) (g_init CGraph false) orphan_passthrough)
  = [OOk; OOk; OOk; OOk; OPanic].
Proof. vm_compute. reflexivity. Qed.

Lemma orphan_passthrough_fixed : snd (run_calls (gstep fixed) (g_init CGraph false) orphan_passthrough)
  = [OOk; OOk; OOk; OOk; OErr EUninferred].
Proof. vm_compute. reflexivity. Qed.

(* F-C20d: a Chain forgets its deferred error once the END edges exist *)
Definition chain_error_after_failed_compile : list ccall :=
  [ CAppend NLambda None false; CCompile (mkOpt (Some false) 0%Z);
    CBranch [("b1", NLambda, None)]; CCompile opt_default ].

Lemma chain_error_dropped_v0 :
  match snd (run_calls (cstep v0) (c_init false) chain_error_after_failed_compile) with
  | [OOk; OErr ETriggerUnsupported; OOk; OCompiled _] => True
  | _ => False
  end.
Proof. vm_compute. exact I. Qed.

Lemma chain_error_kept_fixed :
  snd (run_calls (cstep fixed) (c_init false) chain_error_after_failed_compile)
  = [OOk; OErr ETriggerUnsupported; OOk; OErr EBrOne].
Proof. vm_compute. reflexivity. Qed.

(* the universally quantified claims are false for the original version *)
Lemma never_panics_v0_false : ~ (forall w call, snd (wstep v0 w call) <> OPanic).
Proof.
  intros H.
  apply (H (final (wstep v0) (w_init false)
              [WAddNode "a" NLambda false; WAddInput "a" START WNormal []; WAddInput END_ "a" WNormal [];
               WAddBranch "a" ["x"; END_]])
           (WCompile opt_default [] [])).
  vm_compute. reflexivity.
Qed.

Lemma gstep_panics_v0 : ~ (forall g c, snd (gstep v0 g c) <> OPanic).
Proof.
  intros H.
  apply (H (final (gstep v0) (g_init CGraph false)
              [GAddNode "a" NLambda false false; GAddNode "p" NPass false false; GAddEdge START "a"; GAddEdge "a" END_])
           (GCompile opt_default)).
  vm_compute. reflexivity.
Qed.

Lemma runner_unaffected_v0_false :
  ~ (forall w o ord sord w1 r cs, wstep v0 w (WCompile o ord sord) = (w1, OCompiled r) ->
      runner_view (w_g (final (wstep v0) w1 cs)) r = runner_view (w_g w1) r).
Proof.
  intros H.
  remember (final (wstep v0) (w_init false)
              [WAddNode "a" NLambda false; WAddInput "a" START WNormal ["A"]; WAddInput END_ "a" WNormal []]) as w eqn:Ew.
  vm_compute in Ew.
  destruct (wstep v0 w (WCompile opt_default [] [])) as [w1 o] eqn:E.
  pose proof E as E'. rewrite Ew in E'. vm_compute in E'.
  destruct o as [| | |r]; try discriminate E'.
  specialize (H _ _ _ _ _ _ [WCompile opt_default [] []] E).
  inversion E'; subst w1 r; clear E'. vm_compute in H. discriminate H.
Qed.

Lemma chain_sticks_v0_false :
  ~ (forall c e cs, c_err c = Some e ->
       Forall2 (fun call o => c_is_compile call = true -> o = OErr e) cs (snd (run_calls (cstep v0) c cs))).
Proof.
  intros H.
  specialize (H (final (cstep v0) (c_init false)
                   [CAppend NLambda None false; CCompile (mkOpt (Some false) 0%Z); CBranch [("b1", NLambda, None)]])
                EBrOne [CCompile opt_default]).
  assert (P : c_err (final (cstep v0) (c_init false)
                   [CAppend NLambda None false; CCompile (mkOpt (Some false) 0%Z); CBranch [("b1", NLambda, None)]])
              = Some EBrOne) by (vm_compute; reflexivity).
  specialize (H P). vm_compute in H. inversion H as [|x y l l' H1 H2]; subst.
  specialize (H1 eq_refl). discriminate H1.
Qed.
