(* Proofs/FieldMapFresh.v — the successor's input is made anew by every conversion:
   every heap object (pointer target, map) of the value convertTo returns that does not lie at or
   below a mapped path carries the tag "allocated by this call" (invariant [own_ok] of
   Proofs/FieldMapOwn.v, here exported for the final value).  Two conversions — two requests on
   one compiled runnable, two chunks of one stream — therefore share no object except what the
   mapped values themselves bring along: what a successor does to the input it was handed cannot
   show in the input of another run. *)
From Coq Require Import Permutation.
From Eino Require Import Base.Util Base.FMUniverse Model.FieldMap Model.FieldMapOwn
  Proofs.FieldMapOverlap Proofs.FieldMapAssign Proofs.FieldMapComm Proofs.FieldMapGetPut Proofs.FieldMapRun
  Proofs.FieldMapOwn.

Lemma sub_incl : forall f W W', (forall p, In p W -> In p W') -> forall r, In r (sub f W) -> In r (sub f W').
Proof.
  intros f W W' H r Hr. apply in_sub. apply H. apply in_sub. exact Hr.
Qed.

Lemma own_ok_incl : forall v W, own_ok v W -> forall W', (forall p, In p W -> In p W') -> own_ok v W'.
Proof.
  intros v W H. induction H as [v W Hin| | | |n fs W Hf IH| |u w W Hw IH| |ks e es W Hf IH]; intros W' Hi.
  - apply oo_written. apply Hi. exact Hin.
  - apply oo_nil.
  - apply oo_int.
  - apply oo_str.
  - apply oo_struct. intros f x Hx. eapply IH; [exact Hx|]. apply sub_incl. exact Hi.
  - apply oo_ptr0.
  - apply oo_ptr. apply IH. exact Hi.
  - apply oo_map0.
  - apply oo_map. intros k x Hx. eapply IH; [exact Hx|]. apply sub_incl. exact Hi.
Qed.

(* the invariant after all assignments: the assigned paths accumulate *)
Lemma oassign_all_own_inv : forall env T m d W d' fl,
  own_ok d W -> nonempty_keys m -> no_conflict (keys m) ->
  (forall p, In p (keys m) -> fresh_for p W) ->
  oassign_all env T d m = Some (d', fl) -> own_ok d' (keys m ++ W).
Proof.
  intros env T. induction m as [|[p x] m IH]; intros d W d' fl Hd Hne Hnc Hf Ha; simpl in Ha.
  - inversion Ha; subst. exact Hd.
  - inversion Hne as [|? ? Hp Hne']; subst. simpl in Hp.
    simpl in Hnc. destruct Hnc as [Hc Hnc].
    destruct p as [|f p]; [contradiction|]. cbn [oassign_one] in Ha.
    destruct (oassign env T d (f :: p) x) as [[d1 fl1]|] eqn:E1; [|discriminate].
    destruct (oassign_own env (f :: p) T d W x d1 fl1 Hd (Hf _ (or_introl eq_refl)) E1) as [-> Hd1].
    destruct (oassign_all env T d1 m) as [[d2 fl2]|] eqn:E2; [|discriminate].
    inversion Ha; subst.
    assert (H2 : own_ok d' (keys m ++ (f :: p) :: W)).
    { eapply (IH d1 ((f :: p) :: W)); eauto.
      intros p' Hin q [<-|Hq].
      + rewrite conflict_sym. rewrite Forall_forall in Hc. apply Hc. exact Hin.
      + apply Hf; [right; exact Hin | exact Hq]. }
    eapply own_ok_incl; [exact H2|].
    intros q Hq. unfold keys in *. simpl. apply in_app_or in Hq. destruct Hq as [Hq|[Hq|Hq]].
    + right. apply in_or_app. left. exact Hq.
    + left. exact Hq.
    + right. apply in_or_app. right. exact Hq.
Qed.

(* convertTo on overlap-free keys: every object of the result outside the mapped paths is new *)
Theorem convert_to_w_fresh : forall env T m d fl,
  no_conflict (keys m) -> convert_to_w env T m = Ok (d, fl) -> own_ok d (keys m).
Proof.
  intros env T m d fl Hnc H. unfold convert_to_w in H.
  destruct (oassign_all env T (tag true (new_instance T)) m) as [[d' fl']|] eqn:E; [|discriminate].
  inversion H; subst d' fl'. clear H.
  destruct (nonempty_keys_dec m) as [Hne|Hne].
  - rewrite <- (app_nil_r (keys m)). eapply (oassign_all_own_inv env T m _ []); eauto.
    + apply own_ok_tag_true.
    + intros p _ q [].
  - destruct (no_conflict_nil_single m Hnc Hne) as [x ->]. apply oo_written. left. reflexivity.
Qed.
