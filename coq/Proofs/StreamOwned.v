(* Proofs/StreamOwned.v — property C08: every base stream and every copy-child slot has an owner.

   [covers G]: every base stream of the store and every child slot of every copy parent is
   referenced by some reader of the state (a live handle, the source of a copy parent, the
   source of a forwarder) — with [ownership_linear] by exactly one.  Consequence
   ([run_all_done_closed_once]): when user code has closed every reader it holds and every
   forwarder goroutine has finished, every base stream has been receive-closed exactly once
   ("the underlying source is closed exactly once") and every copy parent has closed its
   source exactly once. *)
From Eino Require Import Base.Util Model.Stream Proofs.Stream Proofs.StreamRel Proofs.StreamWf Proofs.StreamClose Proofs.StreamLink Proofs.StreamSem Proofs.StreamOnce.
From Coq Require Import Lia Permutation.

Definition covers (G : state) : Prop :=
  (forall sid, sid < List.length (streams (st_store G)) -> In (RS sid) (all_refs G))
  /\ (forall q Q i, nth_error (parents (st_store G)) q = Some Q -> i < List.length (p_cur Q) ->
        In (RC q i) (all_refs G)).

Lemma init_covers : covers init_state.
Proof. split; simpl; [intros sid H; lia | intros q Q i H; destruct q; discriminate]. Qed.

(* a step that only adds references *)
Lemma covers_perm : forall G G' extra, covers G ->
  Permutation (all_refs G') (extra ++ all_refs G) ->
  (forall sid, sid < List.length (streams (st_store G')) ->
     sid < List.length (streams (st_store G)) \/ In (RS sid) extra) ->
  (forall q Q' i, nth_error (parents (st_store G')) q = Some Q' -> i < List.length (p_cur Q') ->
     (exists Q, nth_error (parents (st_store G)) q = Some Q /\ i < List.length (p_cur Q)) \/ In (RC q i) extra) ->
  covers G'.
Proof.
  intros G G' extra [C1 C2] HP HS HQ. split.
  - intros sid Hlt. eapply Permutation_in; [apply Permutation_sym; exact HP|]. apply in_or_app.
    destruct (HS sid Hlt) as [H|H]; auto.
  - intros q Q' i Hq Hi. eapply Permutation_in; [apply Permutation_sym; exact HP|]. apply in_or_app.
    destruct (HQ q Q' i Hq Hi) as [(Q & HQn & Hlt)|H]; eauto.
Qed.

(* a step that keeps every reference list and the shape of the store *)
Lemma covers_same : forall G G', covers G -> all_refs G' = all_refs G ->
  List.length (streams (st_store G')) = List.length (streams (st_store G)) ->
  (forall q Q', nth_error (parents (st_store G')) q = Some Q' ->
     exists Q, nth_error (parents (st_store G)) q = Some Q /\ List.length (p_cur Q') = List.length (p_cur Q)) ->
  covers G'.
Proof.
  intros G G' HC Hr Hl Hp. apply (covers_perm G G' []); auto.
  - simpl. rewrite Hr. reflexivity.
  - intros sid H. left. lia.
  - intros q Q' i Hq Hi. left. destruct (Hp _ _ Hq) as (Q & HQ & E). exists Q. split; auto. lia.
Qed.

Lemma parents_len_store_rel : forall st st', store_rel st st' ->
  forall q Q', nth_error (parents st') q = Some Q' ->
  exists Q, nth_error (parents st) q = Some Q /\ List.length (p_cur Q') = List.length (p_cur Q).
Proof.
  intros st st' [_ H] q Q' HQ'. destruct (Forall2_nth_r _ _ _ _ _ _ H HQ') as (Q & HQ & (_ & E & _)). eauto.
Qed.

Lemma parents_len_cstore_rel : forall st st', cstore_rel st st' ->
  forall q Q', nth_error (parents st') q = Some Q' ->
  exists Q, nth_error (parents st) q = Some Q /\ List.length (p_cur Q') = List.length (p_cur Q).
Proof.
  intros st st' [_ H] q Q' HQ'. destruct (Forall2_nth_r _ _ _ _ _ _ H HQ') as (Q & HQ & (_ & _ & _ & E & _)). eauto.
Qed.

Lemma parents_len_same : forall st st', parents st' = parents st ->
  forall q Q', nth_error (parents st') q = Some Q' ->
  exists Q, nth_error (parents st) q = Some Q /\ List.length (p_cur Q') = List.length (p_cur Q).
Proof. intros st st' E q Q' H. rewrite E in H. eauto. Qed.

Lemma streams_len_store_rel : forall st st', store_rel st st' -> List.length (streams st') = List.length (streams st).
Proof. intros st st' [H _]. symmetry. eapply Forall2_length'; eauto. Qed.

Lemma streams_len_cstore_rel : forall st st', cstore_rel st st' -> List.length (streams st') = List.length (streams st).
Proof. intros st st' [H _]. symmetry. eapply Forall2_length'; eauto. Qed.

(* ------------------------------------------------------------------ the constructors *)

Lemma perm_pipe : forall G cap,
  Permutation
    (all_refs (mkState (add_stream (st_store G) (new_stream cap true)) (st_fwds G)
                       (st_handles G ++ [mkH (RStr (List.length (streams (st_store G)))) true false [] false])))
    ([RS (List.length (streams (st_store G)))] ++ all_refs G).
Proof.
  intros G cap. unfold all_refs; simpl. rewrite flat_map_app. simpl. unfold hrefs at 2. simpl.
  rewrite <- app_assoc. simpl. symmetry. apply Permutation_middle.
Qed.

Lemma perm_conv : forall G h t f, live_rd G h = Some t ->
  Permutation
    (all_refs (mkState (st_store G) (st_fwds G)
                       (st_handles (consume G h) ++ [mkH (RConv f t [] []) true false [] false])))
    ([] ++ all_refs G).
Proof.
  intros G h t f Hl. unfold all_refs; simpl. rewrite flat_map_app. simpl. unfold hrefs at 2. simpl. rewrite app_nil_r.
  apply Permutation_app_tail. rewrite (consume_perm G h t Hl). apply Permutation_app_comm.
Qed.

Lemma perm_copy_arr : forall G h d rest n, live_rd G h = Some (RArr d rest) ->
  Permutation
    (all_refs (mkState (st_store G) (st_fwds G)
                       (st_handles (consume G h) ++ repeat (mkH (RArr [] rest) true false [] false) n)))
    ([] ++ all_refs G).
Proof.
  intros G h d rest n Hl. unfold all_refs; simpl. rewrite flat_map_app. rewrite hrefs_repeat_arr. rewrite app_nil_r.
  apply Permutation_app_tail. rewrite (consume_perm G h _ Hl). simpl. reflexivity.
Qed.

Lemma perm_copy : forall G h t n, live_rd G h = Some t ->
  Permutation
    (all_refs (mkState (add_parent (st_store G) (new_parent t n)) (st_fwds G)
                       (st_handles (consume G h) ++
                        map (fun i => mkH (RChild (List.length (parents (st_store G))) i) true false [] false) (seq 0 n))))
    (map (RC (List.length (parents (st_store G)))) (seq 0 n) ++ all_refs G).
Proof.
  intros G h t n Hl. unfold all_refs; simpl. rewrite flat_map_app. rewrite hrefs_children.
  unfold prefs at 1. simpl. rewrite flat_map_app. simpl. rewrite app_nil_r. fold (prefs (st_store G)).
  rewrite (consume_perm G h t Hl). rewrite <- !app_assoc.
  rewrite (Permutation_app_swap_app (flat_map hrefs (st_handles (consume G h)))).
  apply Permutation_app_head.
  rewrite (Permutation_app_swap_app (refs t) (flat_map hrefs (st_handles (consume G h)))).
  apply Permutation_app_head. apply Permutation_app_swap_app.
Qed.

Lemma perm_merge : forall G hs ts st1 fw1 ss arr st2 newrefs rdnew k,
  nodupb hs = true -> live_rds G hs = Some ts ->
  merge_collect (st_store G) (st_fwds G) ts [] [] = (st1, fw1, ss, arr) ->
  streams st1 = streams (st_store G) ++ repeat (new_stream 5 false) k ->
  Permutation (map RS ss ++ frefs fw1)
              (map RS [] ++ frefs (st_fwds G) ++ flat_map refs ts ++ map RS (seq (List.length (streams (st_store G))) k)) ->
  parents st1 = parents (st_store G) ->
  refs rdnew = map RS ss ++ newrefs -> parents st2 = parents st1 ->
  Permutation
    (all_refs (mkState st2 fw1 (st_handles (consume_all G hs) ++ [mkH rdnew true false [] false])))
    ((newrefs ++ map RS (seq (List.length (streams (st_store G))) k)) ++ all_refs G).
Proof.
  intros G hs ts st1 fw1 ss arr st2 newrefs rdnew k Hnd Hl Hm S1 Pm P1 Hrd Hpar.
  pose proof (consume_all_perm hs G ts Hnd Hl) as Pc.
  assert (Hpre : prefs st2 = prefs (st_store G)) by (unfold prefs; rewrite Hpar, P1; reflexivity).
  unfold all_refs; simpl. rewrite flat_map_app. simpl. unfold hrefs at 2. simpl. rewrite app_nil_r.
  rewrite Hrd. rewrite Hpre. simpl in Pm. perm_count.
Qed.

(* ------------------------------------------------------------------ every step *)

Lemma do_op_covers : forall fuel G o b G', do_op fuel G o = (b, G') -> wf G -> covers G -> covers G'.
Proof.
  intros fuel G o b G' H HW HC.
  destruct o as [cap | xs | h n | hs | h f | sid x | sid | h ch | h | k ch]; simpl in H.
  - inversion H; subst. eapply covers_perm; [exact HC | apply perm_pipe | |].
    + simpl. intros sid Hs. rewrite app_length in Hs. simpl in Hs.
      destruct (Nat.eq_dec sid (List.length (streams (st_store G)))) as [->|Hne]; [right; left; reflexivity | left; lia].
    + simpl. intros q Q' i Hq Hi. left. eauto.
  - inversion H; subst. apply (covers_same G); auto.
    + unfold all_refs; simpl. rewrite flat_map_app. simpl. rewrite app_nil_r. reflexivity.
    + intros q Q' Hq. eauto.
  - destruct (live_rd G h) as [t|] eqn:El; [|inversion H; subst; auto].
    destruct (Nat.ltb n 2); [inversion H; subst; auto|].
    destruct t as [d0 rest0 | s0 | sts0 chz0 | f0 src0 cin0 cout0 | p0 i0]; inversion H; subst; clear H; rewrite ?consume_store, ?consume_fwds.
    1: { eapply covers_perm; [exact HC | eapply perm_copy_arr; eauto | |]; simpl; eauto. }
    all: (eapply covers_perm; [exact HC | eapply perm_copy; eauto | |]; simpl;
          [ intros sid Hs; left; exact Hs
          | intros q Q' i Hq Hi;
            destruct (Nat.lt_ge_cases q (List.length (parents (st_store G)))) as [Hlt|Hge];
            [ rewrite nth_error_app1 in Hq by exact Hlt; left; eauto
            | rewrite nth_error_app2 in Hq by exact Hge;
              destruct (q - List.length (parents (st_store G))) as [|k0] eqn:Ek; simpl in Hq; [|destruct k0; discriminate];
              inversion Hq; subst Q'; rewrite new_parent_cur_len in Hi;
              right; assert (q = List.length (parents (st_store G))) by lia; subst q;
              apply in_map; apply in_seq; lia ] ]).
  - destruct hs as [|h0 [|h1 hs']]; [inversion H; subst; auto| |].
    { destruct (live_rd G h0); inversion H; subst; auto. }
    destruct (nodupb (h0 :: h1 :: hs')) eqn:End; cbn [negb] in H; [|inversion H; subst; auto].
    destruct (live_rds G (h0 :: h1 :: hs')) as [ts|] eqn:El; [|inversion H; subst; auto].
    rewrite consume_all_store, consume_all_fwds in H.
    destruct (merge_collect _ _ ts [] []) as [[[st1 fw1] ss] arr] eqn:Em.
    destruct (merge_collect_spec _ _ _ _ _ _ _ _ _ Em) as (P1 & k & S1 & D1 & Pm).
    assert (X : forall st2 newrefs rdnew, refs rdnew = map RS ss ++ newrefs -> parents st2 = parents st1 ->
              (forall sid, sid < List.length (streams st2) -> sid < List.length (streams st1) \/ In (RS sid) newrefs) ->
              covers (mkState st2 fw1 (st_handles (consume_all G (h0 :: h1 :: hs')) ++ [mkH rdnew true false [] false]))).
    { intros st2 newrefs rdnew Hrd Hpar Hst.
      eapply covers_perm; [exact HC | eapply (perm_merge G (h0 :: h1 :: hs') ts st1 fw1 ss arr st2 newrefs rdnew k); eauto | |]; simpl.
      - intros sid Hs. destruct (Hst sid Hs) as [Hlt|Hin].
        + rewrite S1, app_length, repeat_length in Hlt.
          destruct (Nat.lt_ge_cases sid (List.length (streams (st_store G)))) as [Ha|Hb]; [left; exact Ha|].
          right. apply in_or_app. right. apply in_map. apply in_seq. lia.
        + right. apply in_or_app. left. exact Hin.
      - intros q Q' i Hq Hi. rewrite Hpar, P1 in Hq. left. eauto. }
    destruct ss as [|s0 ss']; destruct arr as [|a0 arr']; inversion H; subst; clear H.
    + apply (X st1 [] (RMul [] (seq 0 0))); auto.
    + apply (X st1 [] (RArr [] (a0 :: arr'))); auto.
    + apply (X st1 [] (RMul (s0 :: ss') (seq 0 (List.length (s0 :: ss'))))); auto. cbn [refs]. rewrite app_nil_r. reflexivity.
    + apply (X (add_stream st1 (array_stream (a0 :: arr'))) [RS (List.length (streams st1))]
               (RMul ((s0 :: ss') ++ [List.length (streams st1)]) (seq 0 (List.length ((s0 :: ss') ++ [List.length (streams st1)]))))); auto.
      * cbn [refs]. rewrite map_app. reflexivity.
      * simpl. intros sid Hs. rewrite app_length in Hs. simpl in Hs.
        destruct (Nat.eq_dec sid (List.length (streams st1))) as [->|Hne]; [right; left; reflexivity | left; lia].
  - destruct (live_rd G h) as [t|] eqn:El; [|inversion H; subst; auto].
    inversion H; subst. rewrite consume_store, consume_fwds.
    eapply covers_perm; [exact HC | eapply perm_conv; eauto | |]; simpl; eauto.
  - destruct (nth_error (streams (st_store G)) sid) as [s|] eqn:Es; [|inversion H; subst; auto].
    destruct (negb (s_user s)); [inversion H; subst; auto|].
    destruct (stream_send s x) as [r s'] eqn:E. inversion H; subst. apply (covers_same G); auto.
    + simpl. apply upd_length.
    + simpl. eauto.
  - destruct (nth_error (streams (st_store G)) sid) as [s|] eqn:Es; [|inversion H; subst; auto].
    destruct (negb (s_user s)); [inversion H; subst; auto|].
    destruct (stream_close_send s) as [r s'] eqn:E. inversion H; subst. apply (covers_same G); auto.
    + simpl. apply upd_length.
    + simpl. eauto.
  - destruct (nth_error (st_handles G) h) as [Hh|] eqn:Eh; [|inversion H; subst; auto].
    destruct (h_live Hh) eqn:Elv; cbn [negb] in H; [|inversion H; subst; auto].
    destruct (recv fuel (st_store G) (h_rd Hh) ch) as [[[r st1] t1] ch1] eqn:Er.
    inversion H; subst. apply recv_Recv in Er. destruct (Recv_static _ _ _ _ _ Er) as [SR Ht].
    apply (covers_same G); auto; simpl.
    + unfold all_refs; simpl. rewrite (prefs_store_rel _ _ SR).
      rewrite (hrefs_flat_upd _ _ Hh); auto. unfold hrefs. simpl. rewrite Elv. exact Ht.
    + apply streams_len_store_rel; auto.
    + apply parents_len_store_rel; auto.
  - destruct (nth_error (st_handles G) h) as [Hh|] eqn:Eh; [|inversion H; subst; auto].
    destruct (h_live Hh) eqn:Elv; cbn [negb] in H; [|inversion H; subst; auto].
    destruct (close_rd fuel (st_store G) (h_rd Hh)) as [r st1] eqn:Er.
    inversion H; subst. apply close_Close in Er. pose proof (Close_static _ _ _ _ Er) as SR.
    apply (covers_same G); auto; simpl.
    + unfold all_refs; simpl. rewrite (prefs_cstore_rel _ _ SR).
      rewrite (hrefs_flat_upd _ _ Hh); auto. unfold hrefs. simpl. rewrite Elv. reflexivity.
    + apply streams_len_cstore_rel; auto.
    + apply parents_len_cstore_rel; auto.
  - destruct (nth_error (st_fwds G) k) as [F|] eqn:EF; [|inversion H; subst; auto].
    assert (X : forall st2 F', refs (f_src F') = refs (f_src F) -> prefs st2 = prefs (st_store G) ->
              List.length (streams st2) = List.length (streams (st_store G)) ->
              (forall q Q', nth_error (parents st2) q = Some Q' ->
                 exists Q, nth_error (parents (st_store G)) q = Some Q /\ List.length (p_cur Q') = List.length (p_cur Q)) ->
              covers (mkState st2 (upd (st_fwds G) k F') (st_handles G))).
    { intros st2 F' Hr Hp Hl Hq. apply (covers_same G); auto.
      unfold all_refs; simpl. rewrite Hp. rewrite (frefs_upd _ _ F); auto. }
    destruct (f_st F) as [|x| |].
    + destruct (recv fuel (st_store G) (f_src F) ch) as [[[r st1] src1] ch1] eqn:Er.
      apply recv_Recv in Er. destruct (Recv_static _ _ _ _ _ Er) as [SR Ht].
      pose proof (prefs_store_rel _ _ SR) as Hp1. pose proof (streams_len_store_rel _ _ SR) as Hl1.
      pose proof (parents_len_store_rel _ _ SR) as Hq1.
      destruct r; try (inversion H; subst; apply X; auto; fail).
      destruct (nth_error (streams st1) (f_dst F)) as [d|] eqn:Ed; [|inversion H; subst; auto].
      destruct (stream_close_send d) as [r0 d'] eqn:Ec. inversion H; subst. apply X; auto.
      simpl. rewrite upd_length. exact Hl1.
    + destruct (nth_error (streams (st_store G)) (f_dst F)) as [d|] eqn:Ed; [|inversion H; subst; auto].
      destruct (stream_send d x) as [r d'] eqn:Es.
      destruct r; try (inversion H; subst; exact HC).
      * inversion H; subst. apply X; auto; simpl; [apply upd_length | eauto].
      * destruct (stream_close_send d) as [r0 d''] eqn:Ec. inversion H; subst. apply X; auto; simpl; [apply upd_length | eauto].
    + destruct (close_rd fuel (st_store G) (f_src F)) as [r st1] eqn:Er.
      apply close_Close in Er. pose proof (Close_static _ _ _ _ Er) as SR.
      inversion H; subst. apply X; auto.
      * apply prefs_cstore_rel; auto.
      * apply streams_len_cstore_rel; auto.
      * apply parents_len_cstore_rel; auto.
    + inversion H; subst; auto.
Qed.

Lemma run_covers : forall fuel ops G bs G', run fuel G ops = (bs, G') -> wf G -> covers G -> covers G'.
Proof.
  intros fuel. induction ops as [|o r IH]; intros G bs G' H HW HC; simpl in H.
  - inversion H; subst; auto.
  - destruct (do_op fuel G o) as [b G1] eqn:E1. destruct (run fuel G1 r) as [bs2 G2] eqn:E2.
    inversion H; subst. eapply IH; eauto; [eapply do_op_wf; eauto | eapply do_op_covers; eauto].
Qed.

Lemma reachable_covers : forall fuel ops bs G, run fuel init_state ops = (bs, G) -> covers G.
Proof. intros. eapply run_covers; eauto; [apply init_wf | apply init_covers]. Qed.

(* ------------------------------------------------------------------ everything closed => every source closed once *)

Definition all_done (G : state) : Prop :=
  (forall h H, nth_error (st_handles G) h = Some H -> h_live H = true -> h_closed H = true)
  /\ (forall F, In F (st_fwds G) -> f_st F = FDone).

Lemma in_all_refs_owner : forall G r, In r (all_refs G) ->
  (exists h H, nth_error (st_handles G) h = Some H /\ h_live H = true /\ In r (refs (h_rd H)))
  \/ (exists q Q, nth_error (parents (st_store G)) q = Some Q /\ In r (refs (p_src Q)))
  \/ (exists k F, nth_error (st_fwds G) k = Some F /\ In r (refs (f_src F))).
Proof.
  intros G r Hin. unfold all_refs in Hin. apply in_app_or in Hin. destruct Hin as [Hin|Hin].
  - left. apply in_flat_map in Hin. destruct Hin as (H & HinH & Hr). apply In_nth_error in HinH. destruct HinH as (h & Hh).
    unfold hrefs in Hr. destruct (h_live H) eqn:E; [|inversion Hr]. eauto 6.
  - apply in_app_or in Hin. destruct Hin as [Hin|Hin].
    + right. left. unfold prefs in Hin. apply in_flat_map in Hin. destruct Hin as (Q & HinQ & Hr).
      apply In_nth_error in HinQ. destruct HinQ as (q & Hq). eauto.
    + right. right. unfold frefs in Hin. apply in_flat_map in Hin. destruct Hin as (F & HinF & Hr).
      apply In_nth_error in HinF. destruct HinF as (k & Hk). eauto.
Qed.

Lemma all_done_children : forall G, wf G -> covers G -> all_done G ->
  forall n q Q j, List.length (parents (st_store G)) - q <= n ->
    nth_error (parents (st_store G)) q = Some Q -> j < List.length (p_cur Q) -> AllClosed G (RC q j).
Proof.
  intros G HW [_ C2] [D1 D2]. induction n as [|n IH]; intros q Q j Hn HQ Hj.
  - assert (q < List.length (parents (st_store G))) by (apply nth_error_Some; congruence). lia.
  - destruct (in_all_refs_owner G _ (C2 _ _ _ HQ Hj)) as [(h & H & Hh & Hlv & Hr)|[(q' & Q' & HQ' & Hr)|(k & F & Hk & Hr)]].
    + eapply AC_h; eauto.
    + assert (Hlt : q < q').
      { destruct HW as (_ & _ & W3 & _). pose proof (W3 _ _ HQ') as Hb. rewrite Forall_forall in Hb. apply (Hb _ Hr). }
      assert (q' < List.length (parents (st_store G))) by (apply nth_error_Some; congruence).
      eapply AC_p; eauto. intros j' Hj'. eapply IH; eauto. lia.
    + eapply AC_f; eauto. apply D2. eapply nth_error_In; eauto.
Qed.

Lemma all_done_AllClosed : forall G, wf G -> covers G -> all_done G ->
  forall r, In r (all_refs G) -> AllClosed G r.
Proof.
  intros G HW HC HD r Hin. pose proof HD as [D1 D2].
  destruct (in_all_refs_owner G r Hin) as [(h & H & Hh & Hlv & Hr)|[(q' & Q' & HQ' & Hr)|(k & F & Hk & Hr)]].
  - eapply AC_h; eauto.
  - eapply AC_p; eauto. intros j Hj. eapply (all_done_children G HW HC HD (List.length (parents (st_store G)))); eauto. lia.
  - eapply AC_f; eauto. apply D2. eapply nth_error_In; eauto.
Qed.

(* when user code has closed every reader it holds and every forwarder goroutine has finished,
   every base stream has been receive-closed exactly once and every copy parent has closed its
   source exactly once *)
Lemma run_all_done_closed_once : forall fuel ops bs G,
  run fuel init_state ops = (bs, G) -> legal_run2 fuel ops -> all_done G ->
  (forall sid s, nth_error (streams (st_store G)) sid = Some s -> s_rclosed s = 1)
  /\ (forall q Q, nth_error (parents (st_store G)) q = Some Q ->
        p_closed Q = List.length (p_cur Q) /\ p_srcclosed Q = 1).
Proof.
  intros fuel ops bs G Hrun Hleg HD.
  pose proof (reachable_wf _ _ _ _ Hrun) as HW. pose proof (reachable_covers _ _ _ _ Hrun) as HC.
  destruct (run_close_propagates _ _ _ _ Hrun Hleg) as (R1 & _ & R3 & _ & _ & R6 & _).
  split.
  - intros sid s Hs. assert (Hlt : sid < List.length (streams (st_store G))) by (apply nth_error_Some; congruence).
    destruct HC as [C1 _]. pose proof (R6 _ (all_done_AllClosed G HW (conj C1 (proj2 (reachable_covers _ _ _ _ Hrun))) HD _ (C1 _ Hlt))) as (s0 & Hs0 & Hpos).
    rewrite Hs in Hs0. inversion Hs0; subst s0. pose proof (R1 _ _ Hs). lia.
  - intros q Q HQ. destruct (R3 _ _ HQ) as [Hcnt Hsrc].
    assert (Hall : p_closed Q = List.length (p_cur Q)).
    { rewrite Hcnt. apply count_none_full. intros j Hj.
      destruct HC as [_ C2]. pose proof (R6 _ (all_done_AllClosed G HW (reachable_covers _ _ _ _ Hrun) HD _ (C2 _ _ _ HQ Hj))) as (Q0 & HQ0 & Hn).
      rewrite HQ in HQ0. inversion HQ0; subst Q0. exact Hn. }
    split; auto. rewrite Hsrc, Hall, Nat.eqb_refl. reflexivity.
Qed.

Definition all_doneb (G : state) : bool :=
  forallb (fun H => negb (h_live H) || h_closed H) (st_handles G)
  && forallb (fun F => is_done (f_st F)) (st_fwds G).

Lemma all_doneb_sound : forall G, all_doneb G = true -> all_done G.
Proof.
  intros G H. unfold all_doneb in H. apply andb_prop in H. destruct H as [A B]. rewrite forallb_forall in A, B. split.
  - intros h H0 Hn Hlv. specialize (A H0 (nth_error_In _ _ Hn)). rewrite Hlv in A. simpl in A. exact A.
  - intros F HF. specialize (B F HF). destruct (f_st F); simpl in B; auto; discriminate.
Qed.
