(* Proofs/StateLockLTS.v — invariants of the transition system of Model/StateLockLTS.v,
   for every interleaving (induction over [preach]; [reach] is included in [preach]). *)
From Eino Require Import Base.Util Model.StateLock Model.StateLockLTS.
From Coq Require Import Lia Permutation.

(* ------------------------------------------------------------------ lists *)

Lemma upd_length : forall A (l : list A) i a, List.length (upd l i a) = List.length l.
Proof. induction l; destruct i; simpl; intros; auto. Qed.

Lemma nth_upd_eq : forall A (l : list A) i a, (i < List.length l)%nat -> nth_error (upd l i a) i = Some a.
Proof. induction l; destruct i; simpl; intros; try lia; auto. apply IHl; lia. Qed.

Lemma nth_upd_neq : forall A (l : list A) i j a, i <> j -> nth_error (upd l i a) j = nth_error l j.
Proof. induction l; destruct i, j; simpl; intros; auto; try congruence. Qed.

Lemma nth_upd : forall A (l : list A) i j a,
  nth_error (upd l i a) j = if Nat.eqb i j then (if Nat.ltb i (List.length l) then Some a else None) else nth_error l j.
Proof.
  intros. destruct (Nat.eqb_spec i j).
  - subst. destruct (Nat.ltb_spec j (List.length l)).
    + apply nth_upd_eq; auto.
    + apply nth_error_None. rewrite upd_length; auto.
  - apply nth_upd_neq; auto.
Qed.

Lemma nth_some_lt : forall A (l : list A) i a, nth_error l i = Some a -> (i < List.length l)%nat.
Proof. intros. apply nth_error_Some. congruence. Qed.

Lemma nth_app_new : forall A (l : list A) a, nth_error (l ++ [a]) (List.length l) = Some a.
Proof. intros. rewrite nth_error_app2 by lia. rewrite Nat.sub_diag. reflexivity. Qed.

Lemma nth_app_cases : forall A (l : list A) a j x,
  nth_error (l ++ [a]) j = Some x -> (nth_error l j = Some x /\ (j < List.length l)%nat) \/ (j = List.length l /\ x = a).
Proof.
  intros. destruct (Nat.ltb_spec j (List.length l)).
  - rewrite nth_error_app1 in H by auto. auto.
  - right. assert (j < List.length (l ++ [a]))%nat by (eapply nth_some_lt; eauto).
    rewrite app_length in H1; simpl in H1. assert (j = List.length l) by lia. subst.
    rewrite nth_app_new in H. split; congruence.
Qed.

Lemma nget_set : forall A (l : list (N * A)) k k' a,
  nlist_get k' (nlist_set k a l) = if N.eqb k' k then Some a else nlist_get k' l.
Proof.
  induction l as [|[k0 a0] l]; simpl; intros.
  - destruct (N.eqb k' k); auto.
  - destruct (N.eqb_spec k k0).
    + subst. simpl. destruct (N.eqb_spec k' k0); auto.
    + simpl. rewrite IHl. destruct (N.eqb_spec k' k0); auto.
      subst. destruct (N.eqb_spec k0 k); congruence.
Qed.

Section Inv.
  Variables (S X : Type).
  Variable gen : nat -> S.
  Variable hfun : kind -> N -> X -> S -> X * S.
  Variable lout : N -> X -> X.
  Variable mrg : list X -> X.
  Variable f : forest.
  Variable x0 : X.

  Notation config := (config S X).
  Notation inst := (inst S X).
  Notation pstep := (pstep S X gen hfun lout mrg f x0).
  Notation step := (step S X gen hfun lout mrg f x0).
  Notation preach := (preach S X gen hfun lout mrg f x0).
  Notation reach := (reach S X gen hfun lout mrg f x0).
  Notation lookup := (lookup S X f).
  Notation new_inst := (new_inst S X gen).

  Lemma reach_preach : forall c, reach c -> preach c.
  Proof.
    induction 1; [constructor|]. econstructor; eauto.
    unfold StateLockLTS.step in H0. destruct (guard S X f c ch); [exact H0|discriminate].
  Qed.

  (* which object node n of instance i is inside a critical section of *)
  Definition cs_of (c : config) (i : nat) (n : N) : option nat :=
    match nth_error (c_insts c) i with
    | Some J => match get_ns S X J n with
                | Some s => match ns_cs s with Some _ => i_obj J | None => None end
                | None => None
                end
    | None => None
    end.
  Definition holder (c : config) (o : nat) : option (nat * N) :=
    match nth_error (c_objs c) o with Some r => o_holder r | None => None end.

  Definition inv_lock (c : config) : Prop :=
    forall i n o, cs_of c i n = Some o <-> holder c o = Some (i, n).

  Lemma lookup_inv : forall c i n J a s,
    lookup c i n = Some (J, a, s) ->
    nth_error (c_insts c) i = Some J /\ get_ns S X J n = Some s /\
    exists G, nth_error f (i_graph J) = Some G /\ find_in_graph n (g_nodes G) = Some a.
  Proof.
    unfold StateLockLTS.lookup; intros.
    destruct (nth_error (c_insts c) i) as [J0|] eqn:Ei; [|discriminate].
    destruct (nth_error f (i_graph J0)) as [G|] eqn:EG; [|discriminate].
    destruct (find_in_graph n (g_nodes G)) as [a0|] eqn:Ef; [|discriminate].
    destruct (get_ns S X J0 n) as [s0|] eqn:Eg; [|discriminate].
    inversion H; subst. split; [auto|split; [auto|exists G; auto]].
  Qed.

  Lemma get_set_ns : forall (J : inst) n s n',
    get_ns S X (set_ns S X J n s) n' = if N.eqb n' n then Some s else get_ns S X J n'.
  Proof. intros. unfold get_ns, set_ns; simpl. apply nget_set. Qed.

  Lemma init_ns_cs : forall G n s, nlist_get n (init_ns S X G) = Some s -> s = mkNs PWait None.
  Proof.
    intros G. unfold init_ns. induction (g_nodes G); simpl; intros; [discriminate|].
    destruct (N.eqb n (n_id a)); [congruence|eauto].
  Qed.

  (* cs_of / holder after the primitive updates *)
  Lemma cs_of_set_inst : forall c i J' i' n',
    (i < List.length (c_insts c))%nat ->
    cs_of (set_inst S X c i J') i' n' =
    if Nat.eqb i i' then
      match get_ns S X J' n' with
      | Some s => match ns_cs s with Some _ => i_obj J' | None => None end
      | None => None end
    else cs_of c i' n'.
  Proof.
    intros. unfold cs_of, set_inst; simpl. rewrite nth_upd.
    destruct (Nat.eqb i i'); auto. apply Nat.ltb_lt in H. rewrite H. auto.
  Qed.

  Lemma holder_set_inst : forall c i J' o, holder (set_inst S X c i J') o = holder c o.
  Proof. reflexivity. Qed.

  Lemma cs_of_set_obj : forall c o r i n, cs_of (set_obj S X c o r) i n = cs_of c i n.
  Proof. reflexivity. Qed.

  Lemma holder_set_obj : forall c o r o',
    (o < List.length (c_objs c))%nat ->
    holder (set_obj S X c o r) o' = if Nat.eqb o o' then o_holder r else holder c o'.
  Proof.
    intros. unfold holder, set_obj; simpl. rewrite nth_upd.
    destruct (Nat.eqb o o'); auto. apply Nat.ltb_lt in H. rewrite H. auto.
  Qed.

  Lemma cs_of_new_inst : forall c r g G par inh x i n,
    cs_of (new_inst c r g G par inh x) i n = cs_of c i n.
  Proof.
    intros. unfold cs_of, StateLockLTS.new_inst.
    destruct (g_state G); simpl.
    - destruct (nth_error (c_insts c ++ _) i) eqn:E.
      + apply nth_app_cases in E. destruct E as [[E _]|[E1 E2]].
        * rewrite E. auto.
        * subst. rewrite (proj2 (nth_error_None _ _)) by lia.
          unfold get_ns; simpl. destruct (nlist_get n (init_ns S X G)) eqn:E; auto.
          apply init_ns_cs in E. subst. auto.
      + apply nth_error_None in E. rewrite app_length in E; simpl in E.
        rewrite (proj2 (nth_error_None _ _)) by lia. auto.
    - destruct (nth_error (c_insts c ++ _) i) eqn:E.
      + apply nth_app_cases in E. destruct E as [[E _]|[E1 E2]].
        * rewrite E. auto.
        * subst. rewrite (proj2 (nth_error_None _ _)) by lia.
          unfold get_ns; simpl. destruct (nlist_get n (init_ns S X G)) eqn:E; auto.
          apply init_ns_cs in E. subst. auto.
      + apply nth_error_None in E. rewrite app_length in E; simpl in E.
        rewrite (proj2 (nth_error_None _ _)) by lia. auto.
  Qed.

  Lemma holder_new_inst : forall c r g G par inh x o,
    holder (new_inst c r g G par inh x) o = holder c o.
  Proof.
    intros. unfold holder, StateLockLTS.new_inst. destruct (g_state G); simpl; auto.
    destruct (nth_error (c_objs c ++ _) o) eqn:E.
    - apply nth_app_cases in E. destruct E as [[E _]|[E1 E2]].
      + rewrite E; auto.
      + subst. rewrite (proj2 (nth_error_None _ _)) by lia. auto.
    - apply nth_error_None in E. rewrite app_length in E; simpl in E.
      rewrite (proj2 (nth_error_None _ _)) by lia. auto.
  Qed.

  Lemma new_inst_insts_len : forall c r g G par inh x,
    List.length (c_insts (new_inst c r g G par inh x)) = Datatypes.S (List.length (c_insts c)).
  Proof.
    intros. unfold StateLockLTS.new_inst. destruct (g_state G); simpl; rewrite app_length; simpl; lia.
  Qed.

  Ltac inv H := inversion H; subst; clear H.

  (* break a successful pstep into its defining equations *)
  Ltac unstep H :=
    repeat match type of H with
    | match ?e with _ => _ end = Some _ => let E := fresh "E" in destruct e eqn:E; try discriminate H
    | (let '(_, _) := ?e in _) = Some _ => let E := fresh "E" in destruct e eqn:E
    end.

  Lemma eqb_pair_cases : forall (i i' : nat) (n n' : N),
    {i = i' /\ n = n'} + {i <> i' \/ n <> n'}.
  Proof.
    intros. destruct (Nat.eq_dec i i'); destruct (N.eq_dec n n'); auto.
  Qed.

  (* status update of one node that keeps the instance's object *)
  Lemma cs_of_upd_node : forall c c0 i J n s i' n',
    c_insts c0 = c_insts c ->
    nth_error (c_insts c) i = Some J ->
    cs_of (set_inst S X c0 i (set_ns S X J n s)) i' n' =
    if Nat.eqb i i' && N.eqb n' n then (match ns_cs s with Some _ => i_obj J | None => None end)
    else cs_of c i' n'.
  Proof.
    intros. rewrite cs_of_set_inst by (rewrite H; eapply nth_some_lt; eauto).
    destruct (Nat.eqb_spec i i'); simpl.
    - subst. rewrite get_set_ns. destruct (N.eqb n' n); auto.
      unfold cs_of. rewrite H0. auto.
    - unfold cs_of. rewrite H. auto.
  Qed.

  Lemma cs_of_doneq : forall c c0 i J n s q i' n',
    c_insts c0 = c_insts c ->
    nth_error (c_insts c) i = Some J ->
    cs_of (set_inst S X c0 i (set_doneq S X (set_ns S X J n s) q)) i' n' =
    cs_of (set_inst S X c0 i (set_ns S X J n s)) i' n'.
  Proof.
    intros. rewrite !cs_of_set_inst by (rewrite H; eapply nth_some_lt; eauto). reflexivity.
  Qed.

  Lemma inv_lock_init : inv_lock (init_cfg S X).
  Proof.
    intros i n o. unfold cs_of, holder; simpl. destruct i, o; simpl; split; discriminate.
  Qed.

  Lemma cs_of_insts_eq : forall c1 c2 i n, c_insts c1 = c_insts c2 -> cs_of c1 i n = cs_of c2 i n.
  Proof. intros. unfold cs_of. rewrite H. reflexivity. Qed.
  Lemma holder_objs_eq : forall c1 c2 o, c_objs c1 = c_objs c2 -> holder c1 o = holder c2 o.
  Proof. intros. unfold holder. rewrite H. reflexivity. Qed.

  (* ---------------------------------------------------------------- inversion of pstep *)

  Lemma pstep_start_inv : forall c r c', pstep c (ChStart r) = Some c' ->
    exists G, nth_error f 0 = Some G /\ c' = new_inst c r 0 G None None x0.
  Proof. intros. simpl in H. unstep H. inv H. eauto. Qed.

  Lemma pstep_acq_inv : forall c i n c', pstep c (ChAcq i n) = Some c' ->
    exists J a p k x o r,
      lookup c i n = Some (J, a, mkNs p None) /\ next_cs X a p = Some k /\ pos_x X p = Some x /\
      i_obj J = Some o /\ nth_error (c_objs c) o = Some r /\ o_holder r = None /\
      c' = set_inst S X (add_acq S X (set_obj S X c o (with_holder S r (Some (i, n)))) (mkA o i n k)) i
                    (set_ns S X J n (mkNs p (Some CsAcq))).
  Proof.
    intros. simpl in H. unstep H. inv H. repeat eexists; eauto.
  Qed.

  Lemma pstep_load_inv : forall c i n c', pstep c (ChLoad i n) = Some c' ->
    exists J a p o r,
      lookup c i n = Some (J, a, mkNs p (Some CsAcq)) /\ i_obj J = Some o /\
      nth_error (c_objs c) o = Some r /\
      c' = set_inst S X c i (set_ns S X J n (mkNs p (Some (CsLoaded (o_val r))))).
  Proof.
    intros. simpl in H. unstep H. inv H. repeat eexists; eauto.
  Qed.

  Lemma pstep_store_inv : forall c i n c', pstep c (ChStore i n) = Some c' ->
    exists J a p l k x o r x' s',
      lookup c i n = Some (J, a, mkNs p (Some (CsLoaded l))) /\ next_cs X a p = Some k /\
      pos_x X p = Some x /\ i_obj J = Some o /\ nth_error (c_objs c) o = Some r /\
      hfun k (n_id a) x l = (x', s') /\
      c' = set_inst S X (add_trace S X (set_obj S X c o (with_val S r s')) (mkT o i a k x l x')) i
                    (set_ns S X J n (mkNs (set_x X p x') (Some CsStored))).
  Proof.
    intros. simpl in H. unstep H. inv H. repeat eexists; eauto.
  Qed.

  Lemma pstep_rel_inv : forall c i n c', pstep c (ChRel i n) = Some c' ->
    exists J a p o r q,
      lookup c i n = Some (J, a, mkNs p (Some CsStored)) /\ i_obj J = Some o /\
      nth_error (c_objs c) o = Some r /\
      c' = set_inst S X (set_obj S X c o (with_holder S r None)) i
                    (set_doneq S X (set_ns S X J n (mkNs (after_cs X p) None)) q).
  Proof.
    intros. simpl in H.
    destruct (lookup c i n) as [[[J a] [p cs]]|] eqn:El; [|discriminate].
    destruct cs as [[| |]|]; try discriminate.
    destruct (i_obj J) as [o|] eqn:Eo; [|discriminate].
    destruct (nth_error (c_objs c) o) as [r|] eqn:Er; [|discriminate].
    exists J, a, p, o, r.
    destruct p; inv H;
      try (exists (i_doneq J); repeat split; auto; reflexivity).
    eexists. repeat split; auto.
  Qed.

  Definition resumed (c : config) (o : nat) (m : S -> S) (r : objrec S) : config :=
    mkCfg (map (remap S X o (List.length (c_objs c))) (c_insts c))
          (c_objs c ++ [mkObj (m (o_val r)) None (m (o_val r)) (o_inst r) (OResumed o m)])
          (c_trace c) (c_acq c) (c_gens c).

  Lemma pstep_resume_inv : forall c o m c', pstep c (ChResume o m) = Some c' ->
    exists r, nth_error (c_objs c) o = Some r /\ o_holder r = None /\ c' = resumed c o m r.
  Proof.
    intros. simpl in H. unstep H. inv H. eexists; eauto.
  Qed.

  (* how a position changes in a ChAdv step that does not start a nested graph *)
  Inductive adv_pos (c : config) (J : inst) (a : node) : pos X -> pos X -> Prop :=
  | adv_start : n_preds a = [] -> adv_pos c J a PWait (PReady (i_in J))
  | adv_join : forall ys, n_preds a <> [] -> omapM (final_of S X J) (n_preds a) = Some ys ->
               adv_pos c J a PWait (PReady (join_val X mrg a ys))
  | adv_nopre : forall x, adv_pos c J a (PReady x) (PPred x)
  | adv_spawn : forall x, n_sub a = None -> adv_pos c J a (PPred x) (PRun x 0)
  | adv_finish : forall x j, n_sub a = None -> adv_pos c J a (PRun x j) (PDone (lout (n_id a) x))
  | adv_subdone : forall ci CI CG ys, nth_error (c_insts c) ci = Some CI ->
               nth_error f (i_graph CI) = Some CG ->
               omapM (fun s => final_of S X CI (n_id s)) (sinks CG) = Some ys ->
               adv_pos c J a (PSub ci) (PDone (mrg ys))
  | adv_collect : forall y, adv_pos c J a (PDone y) (PFin y).

  Lemma pstep_adv_inv : forall c i n c', pstep c (ChAdv i n) = Some c' ->
    exists J a p,
      lookup c i n = Some (J, a, mkNs p None) /\ next_cs X a p = None /\
      ((exists p' q, adv_pos c J a p p' /\
                     c' = set_inst S X c i (set_doneq S X (set_ns S X J n (mkNs p' None)) q))
       \/
       (exists x g G, p = PPred x /\ n_sub a = Some g /\ nth_error f g = Some G /\
                      c' = set_inst S X (new_inst c (i_run J) g G (Some i) (i_obj J) x) i
                                    (set_ns S X J n (mkNs (PSub (List.length (c_insts c))) None)))).
  Proof.
    intros. simpl in H.
    destruct (lookup c i n) as [[[J a] [p cs]]|] eqn:El; [|discriminate].
    destruct cs; [discriminate|].
    destruct (next_cs X a p) eqn:En; [discriminate|].
    exists J, a, p. split; [auto|split; [auto|]].
    destruct p.
    - destruct (n_preds a) eqn:Ep.
      + inv H. left. exists (PReady (i_in J)), (i_doneq J). split; [constructor; auto|reflexivity].
      + change (match final_of S X J n0 with
                | Some b => match omapM (final_of S X J) l with Some bs => Some (b :: bs) | None => None end
                | None => None end) with (omapM (final_of S X J) (n0 :: l)) in H.
        destruct (omapM (final_of S X J) (n0 :: l)) eqn:Eo; [|discriminate]. inv H.
        left. exists (PReady (join_val X mrg a l0)), (i_doneq J). split; [|reflexivity].
        apply adv_join; rewrite Ep; [discriminate|auto].
    - inv H. left. exists (PPred x), (i_doneq J). split; [constructor|reflexivity].
    - destruct (n_sub a) eqn:Es.
      + destruct (nth_error f n0) eqn:EG; [|discriminate]. inv H. right. eauto 10.
      + inv H. left. exists (PRun x 0), (i_doneq J). split; [constructor; auto|reflexivity].
    - destruct (n_sub a) eqn:Es; [discriminate|]. inv H. left.
      eexists _, _. split; [eapply adv_finish; auto|reflexivity].
    - destruct (nth_error (c_insts c) ci) eqn:Ec; [|discriminate].
      destruct (nth_error f (i_graph i0)) eqn:EG; [|discriminate].
      destruct (omapM (fun s : node => final_of S X i0 (n_id s)) (sinks g)) eqn:Eo; [|discriminate].
      inv H. left. eexists _, _. split; [eapply adv_subdone; eauto|reflexivity].
    - inv H. left. eexists _, _. split; [apply adv_collect|reflexivity].
    - discriminate.
  Qed.

  (* ---------------------------------------------------------------- frame lemmas *)

  Definition same_static (J1 J2 : inst) : Prop :=
    i_run J1 = i_run J2 /\ i_graph J1 = i_graph J2 /\ i_parent J1 = i_parent J2 /\
    i_obj J1 = i_obj J2 /\ i_in J1 = i_in J2.

  Lemma same_static_refl : forall J, same_static J J.
  Proof. intros; repeat split. Qed.

  Lemma upd_cases : forall A (l : list A) i a j b,
    nth_error (upd l i a) j = Some b ->
    (j = i /\ b = a /\ (i < List.length l)%nat) \/ (j <> i /\ nth_error l j = Some b).
  Proof.
    intros. rewrite nth_upd in H. destruct (Nat.eqb_spec i j).
    - subst. destruct (Nat.ltb_spec j (List.length l)); inv H. auto.
    - right. auto.
  Qed.

  (* after a move of node n of instance i: any node status found afterwards is either the
     moved one or was there before *)
  Lemma moved_cases : forall (insts : list inst) i J n s' q i0 J0 n0 s0,
    nth_error insts i = Some J ->
    nth_error (upd insts i (set_doneq S X (set_ns S X J n s') q)) i0 = Some J0 ->
    get_ns S X J0 n0 = Some s0 ->
    (i0 = i /\ n0 = n /\ s0 = s' /\ same_static J J0) \/
    (exists J1, nth_error insts i0 = Some J1 /\ get_ns S X J1 n0 = Some s0 /\ same_static J1 J0 /\
                (i0 <> i \/ n0 <> n)).
  Proof.
    intros insts i J n s' q i0 J0 n0 s0 Ei Hi Hg.
    apply upd_cases in Hi. destruct Hi as [(-> & -> & _)|(Hne & Hi)].
    - change (get_ns S X (set_ns S X J n s') n0 = Some s0) in Hg. rewrite get_set_ns in Hg.
      destruct (N.eqb_spec n0 n).
      + inv Hg. left. repeat split.
      + right. exists J. repeat split; auto.
    - right. exists J0. repeat split; auto.
  Qed.

  Lemma moved_cases' : forall (insts : list inst) i J n s' i0 J0 n0 s0,
    nth_error insts i = Some J ->
    nth_error (upd insts i (set_ns S X J n s')) i0 = Some J0 ->
    get_ns S X J0 n0 = Some s0 ->
    (i0 = i /\ n0 = n /\ s0 = s' /\ same_static J J0) \/
    (exists J1, nth_error insts i0 = Some J1 /\ get_ns S X J1 n0 = Some s0 /\ same_static J1 J0 /\
                (i0 <> i \/ n0 <> n)).
  Proof. intros. eapply (moved_cases insts i J n s' (i_doneq J)); eauto. Qed.

  Lemma find_in_graph_id : forall n ns a, find_in_graph n ns = Some a -> n_id a = n.
  Proof.
    induction ns; simpl; intros; [discriminate|].
    destruct (N.eqb_spec (n_id a) n); [congruence|auto].
  Qed.

  Lemma new_inst_insts : forall c r g G par inh x i J,
    nth_error (c_insts (new_inst c r g G par inh x)) i = Some J ->
    nth_error (c_insts c) i = Some J \/
    (i = List.length (c_insts c) /\
     J = mkInst r g par (if g_state G then Some (List.length (c_objs c)) else inh) x (init_ns S X G) []).
  Proof.
    intros. unfold StateLockLTS.new_inst in H. destruct (g_state G); simpl in H;
    apply nth_app_cases in H; destruct H as [[H _]|[H1 H2]]; auto.
  Qed.

  Lemma new_inst_trace : forall c r g G par inh x, c_trace (new_inst c r g G par inh x) = c_trace c.
  Proof. intros. unfold StateLockLTS.new_inst. destruct (g_state G); reflexivity. Qed.

  Lemma resumed_insts : forall c o m r i J,
    nth_error (c_insts (resumed c o m r)) i = Some J ->
    exists J1, nth_error (c_insts c) i = Some J1 /\ J = remap S X o (List.length (c_objs c)) J1.
  Proof.
    intros. unfold resumed in H; simpl in H. rewrite nth_error_map in H.
    destruct (nth_error (c_insts c) i) as [J1|]; [|discriminate]. inv H. eauto.
  Qed.

  Lemma remap_static : forall o o' (J : inst),
    i_run (remap S X o o' J) = i_run J /\ i_graph (remap S X o o' J) = i_graph J /\
    i_parent (remap S X o o' J) = i_parent J /\ i_in (remap S X o o' J) = i_in J /\
    i_ns (remap S X o o' J) = i_ns J /\ i_doneq (remap S X o o' J) = i_doneq J.
  Proof.
    intros. unfold remap. destruct (i_obj J); [destruct (Nat.eqb n o)|]; repeat split.
  Qed.

  Ltac split_eb Eb :=
    apply andb_true_iff in Eb; let E1 := fresh in let E2 := fresh in destruct Eb as [E1 E2];
    apply Nat.eqb_eq in E1; apply N.eqb_eq in E2; subst.

  Lemma cs_of_resume : forall c o m r i n,
    cs_of (resumed c o m r) i n
    = match cs_of c i n with
      | Some o1 => if Nat.eqb o1 o then Some (List.length (c_objs c)) else Some o1
      | None => None
      end.
  Proof.
    intros. unfold cs_of, resumed; simpl. rewrite nth_error_map.
    destruct (nth_error (c_insts c) i) as [J|]; simpl; auto.
    unfold remap. destruct (i_obj J) as [o1|] eqn:Eo.
    - destruct (Nat.eqb o1 o) eqn:E1.
      + unfold get_ns, set_iobj; simpl. destruct (nlist_get n (i_ns J)); auto.
        destruct (ns_cs n0); auto; try rewrite Eo; try rewrite E1; auto.
      + destruct (get_ns S X J n); auto. destruct (ns_cs n0); auto; try rewrite Eo; try rewrite E1; auto.
    - destruct (get_ns S X J n); auto. destruct (ns_cs n0); auto; try rewrite Eo; auto.
  Qed.

  Lemma cs_of_add_acq : forall c e i n, cs_of (add_acq S X c e) i n = cs_of c i n.
  Proof. reflexivity. Qed.
  Lemma cs_of_add_trace : forall c e i n, cs_of (add_trace S X c e) i n = cs_of c i n.
  Proof. reflexivity. Qed.
  Lemma holder_add_acq : forall c e o, holder (add_acq S X c e) o = holder c o.
  Proof. reflexivity. Qed.
  Lemma holder_add_trace : forall c e o, holder (add_trace S X c e) o = holder c o.
  Proof. reflexivity. Qed.

  Lemma inv_lock_step : forall c ch c', inv_lock c -> pstep c ch = Some c' -> inv_lock c'.
  Proof.
    intros c ch c' IH H. destruct ch as [r|i n|i n|i n|i n|i n|o m].
    - apply pstep_start_inv in H. destruct H as (G & _ & ->). intros i n o.
      rewrite cs_of_new_inst, holder_new_inst. apply IH.
    - (* acquire *)
      apply pstep_acq_inv in H.
      destruct H as (J & a & p & k & x & o & r & El & Ek & Ex & Eo & Er & Eh & ->).
      apply lookup_inv in El. destruct El as (Ei & Eg & _).
      assert (Hlt : (o < List.length (c_objs c))%nat) by (eapply nth_some_lt; eauto).
      assert (Hnone : holder c o = None) by (unfold holder; rewrite Er; auto).
      assert (Hme : cs_of c i n = None) by (unfold cs_of; rewrite Ei, Eg; auto).
      intros i' n' o'.
      rewrite (cs_of_upd_node c); [|reflexivity|exact Ei].
      rewrite holder_set_inst, holder_add_acq.
      rewrite holder_set_obj by auto. simpl.
      destruct (Nat.eqb_spec o o').
      + subst o'. destruct (Nat.eqb i i' && N.eqb n' n) eqn:Eb.
        * split_eb Eb. rewrite Eo. split; auto.
        * split; intro Hc.
          -- apply IH in Hc. congruence.
          -- inv Hc. rewrite Nat.eqb_refl, N.eqb_refl in Eb. discriminate.
      + destruct (Nat.eqb i i' && N.eqb n' n) eqn:Eb.
        * split_eb Eb. rewrite Eo. split; intro Hc.
          -- inv Hc. congruence.
          -- apply IH in Hc. congruence.
        * apply IH.
    - (* load *)
      apply pstep_load_inv in H. destruct H as (J & a & p & o & r & El & Eo & Er & ->).
      apply lookup_inv in El. destruct El as (Ei & Eg & _).
      intros i' n' o'. rewrite (cs_of_upd_node c); [|reflexivity|exact Ei].
      rewrite holder_set_inst. simpl.
      destruct (Nat.eqb i i' && N.eqb n' n) eqn:Eb; [|apply IH].
      split_eb Eb. rewrite <- (IH _ _ _). unfold cs_of. rewrite Ei, Eg. simpl. reflexivity.
    - (* store *)
      apply pstep_store_inv in H.
      destruct H as (J & a & p & l & k & x & o & r & x' & s' & El & Ek & Ex & Eo & Er & Eh & ->).
      apply lookup_inv in El. destruct El as (Ei & Eg & _).
      assert (Hlt : (o < List.length (c_objs c))%nat) by (eapply nth_some_lt; eauto).
      intros i' n' o'. rewrite (cs_of_upd_node c); [|reflexivity|exact Ei].
      rewrite holder_set_inst, holder_add_trace, holder_set_obj by auto. simpl.
      assert (Hh : (if Nat.eqb o o' then o_holder r else holder c o') = holder c o').
      { destruct (Nat.eqb_spec o o'); auto. subst. unfold holder. rewrite Er. auto. }
      rewrite Hh.
      destruct (Nat.eqb i i' && N.eqb n' n) eqn:Eb; [|apply IH].
      split_eb Eb. rewrite <- (IH _ _ _). unfold cs_of. rewrite Ei, Eg. simpl. reflexivity.
    - (* release *)
      apply pstep_rel_inv in H. destruct H as (J & a & p & o & r & q & El & Eo & Er & ->).
      apply lookup_inv in El. destruct El as (Ei & Eg & _).
      assert (Hlt : (o < List.length (c_objs c))%nat) by (eapply nth_some_lt; eauto).
      assert (Hme : cs_of c i n = Some o) by (unfold cs_of; rewrite Ei, Eg; auto).
      assert (Hho : holder c o = Some (i, n)) by (apply IH; auto).
      intros i' n' o'. rewrite (cs_of_doneq c); [|reflexivity|exact Ei].
      rewrite (cs_of_upd_node c); [|reflexivity|exact Ei].
      rewrite holder_set_inst, holder_set_obj by auto. simpl.
      destruct (Nat.eqb i i' && N.eqb n' n) eqn:Eb.
      + split_eb Eb. split; [discriminate|]. destruct (Nat.eqb_spec o o'); [discriminate|].
        intro Hc. apply IH in Hc. congruence.
      + destruct (Nat.eqb_spec o o').
        * subst o'. split; [|discriminate]. intro Hc. apply IH in Hc. rewrite Hho in Hc. inv Hc.
          rewrite Nat.eqb_refl, N.eqb_refl in Eb. discriminate.
        * apply IH.
    - (* other moves *)
      apply pstep_adv_inv in H. destruct H as (J & a & p & El & En & [(p' & q & _ & ->)|(x & g & G & -> & Es & EG & ->)]).
      + apply lookup_inv in El. destruct El as (Ei & Eg & _).
        assert (Hme : cs_of c i n = None) by (unfold cs_of; rewrite Ei, Eg; auto).
        intros i' n' o'. rewrite (cs_of_doneq c); [|reflexivity|exact Ei].
        rewrite (cs_of_upd_node c); [|reflexivity|exact Ei]. rewrite holder_set_inst. simpl.
        destruct (Nat.eqb i i' && N.eqb n' n) eqn:Eb; [|apply IH].
        split_eb Eb. rewrite <- (IH _ _ _). rewrite Hme. reflexivity.
      + apply lookup_inv in El. destruct El as (Ei & Eg & _).
        assert (Hme : cs_of c i n = None) by (unfold cs_of; rewrite Ei, Eg; auto).
        intros i' n' o'.
        rewrite cs_of_set_inst by (rewrite new_inst_insts_len; apply nth_some_lt in Ei; lia).
        rewrite holder_set_inst, holder_new_inst.
        destruct (Nat.eqb_spec i i').
        * subst i'. rewrite get_set_ns. destruct (N.eqb_spec n' n).
          -- subst. simpl. rewrite <- (IH _ _ _), Hme. reflexivity.
          -- rewrite <- (IH _ _ _). unfold cs_of. rewrite Ei. reflexivity.
        * rewrite cs_of_new_inst. apply IH.
    - (* resume *)
      apply pstep_resume_inv in H. destruct H as (r & Er & Eh & ->).
      assert (Hlt : (o < List.length (c_objs c))%nat) by (eapply nth_some_lt; eauto).
      assert (Hnone : holder c o = None) by (unfold holder; rewrite Er; auto).
      intros i n o'.
      rewrite cs_of_resume.
      unfold holder at 1, resumed; simpl.
      destruct (cs_of c i n) as [o1|] eqn:Ec.
      + assert (Ho1 : holder c o1 = Some (i, n)) by (apply IH; auto).
        destruct (Nat.eqb_spec o1 o); [subst; congruence|].
        assert (o1 < List.length (c_objs c))%nat.
        { unfold holder in Ho1. destruct (nth_error (c_objs c) o1) eqn:E; [|discriminate]. eapply nth_some_lt; eauto. }
        split; intro Hc.
        * inv Hc. rewrite nth_error_app1 by auto. exact Ho1.
        * destruct (nth_error (c_objs c ++ _) o') eqn:E; [|discriminate].
          apply nth_app_cases in E. destruct E as [[E _]|[E1 E2]].
          -- assert (holder c o' = Some (i, n)) by (unfold holder; rewrite E; auto).
             apply IH in H0. congruence.
          -- subst. simpl in Hc. discriminate.
      + split; [discriminate|]. intro Hc.
        destruct (nth_error (c_objs c ++ _) o') eqn:E; [|discriminate].
        apply nth_app_cases in E. destruct E as [[E _]|[E1 E2]].
        * assert (holder c o' = Some (i, n)) by (unfold holder; rewrite E; auto).
          apply IH in H. congruence.
        * subst. simpl in Hc. discriminate.
  Qed.

  Theorem inv_lock_reach : forall c, preach c -> inv_lock c.
  Proof. induction 1; [apply inv_lock_init|eapply inv_lock_step; eauto]. Qed.

  (* mutual exclusion: two critical sections in progress on the same object are the same one *)
  Theorem mutex_preach : forall c, preach c ->
    forall i n i' n' o, in_cs S X c i n o -> in_cs S X c i' n' o -> i = i' /\ n = n'.
  Proof.
    intros c Hr i n i' n' o (J & s & ph & Ei & Eg & Ec & Eo) (J' & s' & ph' & Ei' & Eg' & Ec' & Eo').
    assert (H1 : cs_of c i n = Some o) by (unfold cs_of; rewrite Ei, Eg, Ec; auto).
    assert (H2 : cs_of c i' n' = Some o) by (unfold cs_of; rewrite Ei', Eg', Ec'; auto).
    apply (inv_lock_reach c Hr) in H1. apply (inv_lock_reach c Hr) in H2.
    rewrite H1 in H2. inv H2. auto.
  Qed.

  (* ---------------------------------------------------------------- executions *)

  Lemma run_steps_preach : forall l c c', preach c -> run_steps S X pstep c l = Some c' -> preach c'.
  Proof.
    induction l; simpl; intros c c' Hc H.
    - inv H. auto.
    - destruct (pstep c a) eqn:E; [|discriminate]. eapply IHl; [|exact H]. econstructor; eauto.
  Qed.

  Lemma run_steps_reach : forall l c c', reach c -> run_steps S X step c l = Some c' -> reach c'.
  Proof.
    induction l; simpl; intros c c' Hc H.
    - inv H. auto.
    - destruct (step c a) eqn:E; [|discriminate]. eapply IHl; [|exact H]. econstructor; eauto.
  Qed.

  Lemma enabled_sound : forall c ch c', In (ch, c') (enabled S X gen hfun lout mrg f x0 c) -> step c ch = Some c'.
  Proof.
    intros c ch c' H. unfold enabled in H. apply in_flat_map in H. destruct H as (ch0 & _ & H).
    destruct (step c ch0) eqn:E; simpl in H; [|contradiction]. destruct H as [H|[]]. inv H. auto.
  Qed.

  Lemma run_sched_reach : forall picks c, reach c -> reach (run_sched S X gen hfun lout mrg f x0 c picks).
  Proof.
    induction picks as [|a picks IHpicks]; intros c Hc; [exact Hc|].
    cbn [run_sched].
    destruct (enabled S X gen hfun lout mrg f x0 c) as [|e es] eqn:E; auto.
    apply IHpicks.
    set (k := Nat.modulo a (Datatypes.S (List.length es))).
    assert (Hin : In (nth k (e :: es) e) (enabled S X gen hfun lout mrg f x0 c)).
    { rewrite E. apply nth_In. simpl. apply Nat.mod_upper_bound. discriminate. }
    destruct (nth k (e :: es) e) as [ch c']. cbn [snd].
    apply enabled_sound in Hin. econstructor; eauto.
  Qed.
End Inv.
