(* Proofs/StateLockLTS.v — invariants of the transition system of Model/StateLockLTS.v,
   for every interleaving (induction over [preach]; [reach] is included in [preach]). *)
From Eino Require Import Base.Util Model.StateLock Model.StateLockLTS.
From Coq Require Import Lia Permutation.

(* ------------------------------------------------------------------ lists *)

Lemma upd_length : forall A (l : list A) i a, List.length (upd l i a) = List.length l.
Proof. induction l; destruct i; simpl; intros; auto. Qed.

Lemma nth_upd_eq : forall A (l : list A) i a, (i < List.length l)%nat -> nth_error (upd l i a) i = Some a.
Proof. induction l; destruct i; simpl; intros; try lia; auto. apply IHl; lia. Qed.

Lemma nth_upd_neq : forall A (l : list A) i j a, i <> j -> nth_error (upd l i a) j = nth_error l j.
Proof. induction l; destruct i, j; simpl; intros; auto; try congruence. Qed.

Lemma nth_upd : forall A (l : list A) i j a,
  nth_error (upd l i a) j = if Nat.eqb i j then (if Nat.ltb i (List.length l) then Some a else None) else nth_error l j.
Proof.
  intros. destruct (Nat.eqb_spec i j).
  - subst. destruct (Nat.ltb_spec j (List.length l)).
    + apply nth_upd_eq; auto.
    + apply nth_error_None. rewrite upd_length; auto.
  - apply nth_upd_neq; auto.
Qed.

Lemma nth_some_lt : forall A (l : list A) i a, nth_error l i = Some a -> (i < List.length l)%nat.
Proof. intros. apply nth_error_Some. congruence. Qed.

Lemma nth_app_new : forall A (l : list A) a, nth_error (l ++ [a]) (List.length l) = Some a.
Proof. intros. rewrite nth_error_app2 by lia. rewrite Nat.sub_diag. reflexivity. Qed.

Lemma nth_app_cases : forall A (l : list A) a j x,
  nth_error (l ++ [a]) j = Some x -> (nth_error l j = Some x /\ (j < List.length l)%nat) \/ (j = List.length l /\ x = a).
Proof.
  intros. destruct (Nat.ltb_spec j (List.length l)).
  - rewrite nth_error_app1 in H by auto. auto.
  - right. assert (j < List.length (l ++ [a]))%nat by (eapply nth_some_lt; eauto).
    rewrite app_length in H1; simpl in H1. assert (j = List.length l) by lia. subst.
    rewrite nth_app_new in H. split; congruence.
Qed.

Lemma nget_set : forall A (l : list (N * A)) k k' a,
  nlist_get k' (nlist_set k a l) = if N.eqb k' k then Some a else nlist_get k' l.
Proof.
  induction l as [|[k0 a0] l]; simpl; intros.
  - destruct (N.eqb k' k); auto.
  - destruct (N.eqb_spec k k0).
    + subst. simpl. destruct (N.eqb_spec k' k0); auto.
    + simpl. rewrite IHl. destruct (N.eqb_spec k' k0); auto.
      subst. destruct (N.eqb_spec k0 k); congruence.
Qed.

Section Inv.
  Variables (S X : Type).
  Variable gen : nat -> S.
  Variable hfun : kind -> N -> X -> S -> X * S.
  Variable lout : N -> X -> X.
  Variable mrg : list X -> X.
  Variable f : forest.
  Variable x0 : X.

  Notation config := (config S X).
  Notation inst := (inst S X).
  Notation pstep := (pstep S X gen hfun lout mrg f x0).
  Notation step := (step S X gen hfun lout mrg f x0).
  Notation preach := (preach S X gen hfun lout mrg f x0).
  Notation reach := (reach S X gen hfun lout mrg f x0).
  Notation lookup := (lookup S X f).
  Notation new_inst := (new_inst S X gen).

  Lemma reach_preach : forall c, reach c -> preach c.
  Proof.
    induction 1; [constructor|]. econstructor; eauto.
    unfold StateLockLTS.step in H0. destruct (guard S X f c ch); [exact H0|discriminate].
  Qed.

  (* which object node n of instance i is inside a critical section of *)
  Definition cs_of (c : config) (i : nat) (n : N) : option nat :=
    match nth_error (c_insts c) i with
    | Some J => match get_ns S X J n with
                | Some s => match ns_cs s with Some _ => i_obj J | None => None end
                | None => None
                end
    | None => None
    end.
  Definition holder (c : config) (o : nat) : option (nat * N) :=
    match nth_error (c_objs c) o with Some r => o_holder r | None => None end.

  Definition inv_lock (c : config) : Prop :=
    forall i n o, cs_of c i n = Some o <-> holder c o = Some (i, n).

  Lemma lookup_inv : forall c i n J a s,
    lookup c i n = Some (J, a, s) ->
    nth_error (c_insts c) i = Some J /\ get_ns S X J n = Some s /\
    exists G, nth_error f (i_graph J) = Some G /\ find_in_graph n (g_nodes G) = Some a.
  Proof.
    unfold StateLockLTS.lookup; intros.
    destruct (nth_error (c_insts c) i) as [J0|] eqn:Ei; [|discriminate].
    destruct (nth_error f (i_graph J0)) as [G|] eqn:EG; [|discriminate].
    destruct (find_in_graph n (g_nodes G)) as [a0|] eqn:Ef; [|discriminate].
    destruct (get_ns S X J0 n) as [s0|] eqn:Eg; [|discriminate].
    inversion H; subst. split; [auto|split; [auto|exists G; auto]].
  Qed.

  Lemma get_set_ns : forall (J : inst) n s n',
    get_ns S X (set_ns S X J n s) n' = if N.eqb n' n then Some s else get_ns S X J n'.
  Proof. intros. unfold get_ns, set_ns; simpl. apply nget_set. Qed.

  Lemma init_ns_cs : forall G n s, nlist_get n (init_ns S X G) = Some s -> s = mkNs PWait None.
  Proof.
    intros G. unfold init_ns. induction (g_nodes G); simpl; intros; [discriminate|].
    destruct (N.eqb n (n_id a)); [congruence|eauto].
  Qed.

  (* cs_of / holder after the primitive updates *)
  Lemma cs_of_set_inst : forall c i J' i' n',
    (i < List.length (c_insts c))%nat ->
    cs_of (set_inst S X c i J') i' n' =
    if Nat.eqb i i' then
      match get_ns S X J' n' with
      | Some s => match ns_cs s with Some _ => i_obj J' | None => None end
      | None => None end
    else cs_of c i' n'.
  Proof.
    intros. unfold cs_of, set_inst; simpl. rewrite nth_upd.
    destruct (Nat.eqb i i'); auto. apply Nat.ltb_lt in H. rewrite H. auto.
  Qed.

  Lemma holder_set_inst : forall c i J' o, holder (set_inst S X c i J') o = holder c o.
  Proof. reflexivity. Qed.

  Lemma cs_of_set_obj : forall c o r i n, cs_of (set_obj S X c o r) i n = cs_of c i n.
  Proof. reflexivity. Qed.

  Lemma holder_set_obj : forall c o r o',
    (o < List.length (c_objs c))%nat ->
    holder (set_obj S X c o r) o' = if Nat.eqb o o' then o_holder r else holder c o'.
  Proof.
    intros. unfold holder, set_obj; simpl. rewrite nth_upd.
    destruct (Nat.eqb o o'); auto. apply Nat.ltb_lt in H. rewrite H. auto.
  Qed.

  Lemma cs_of_new_inst : forall c r g G par inh x i n,
    cs_of (new_inst c r g G par inh x) i n = cs_of c i n.
  Proof.
    intros. unfold cs_of, StateLockLTS.new_inst.
    destruct (g_state G); simpl.
    - destruct (nth_error (c_insts c ++ _) i) eqn:E.
      + apply nth_app_cases in E. destruct E as [[E _]|[E1 E2]].
        * rewrite E. auto.
        * subst. rewrite (proj2 (nth_error_None _ _)) by lia.
          unfold get_ns; simpl. destruct (nlist_get n (init_ns S X G)) eqn:E; auto.
          apply init_ns_cs in E. subst. auto.
      + apply nth_error_None in E. rewrite app_length in E; simpl in E.
        rewrite (proj2 (nth_error_None _ _)) by lia. auto.
    - destruct (nth_error (c_insts c ++ _) i) eqn:E.
      + apply nth_app_cases in E. destruct E as [[E _]|[E1 E2]].
        * rewrite E. auto.
        * subst. rewrite (proj2 (nth_error_None _ _)) by lia.
          unfold get_ns; simpl. destruct (nlist_get n (init_ns S X G)) eqn:E; auto.
          apply init_ns_cs in E. subst. auto.
      + apply nth_error_None in E. rewrite app_length in E; simpl in E.
        rewrite (proj2 (nth_error_None _ _)) by lia. auto.
  Qed.

  Lemma holder_new_inst : forall c r g G par inh x o,
    holder (new_inst c r g G par inh x) o = holder c o.
  Proof.
    intros. unfold holder, StateLockLTS.new_inst. destruct (g_state G); simpl; auto.
    destruct (nth_error (c_objs c ++ _) o) eqn:E.
    - apply nth_app_cases in E. destruct E as [[E _]|[E1 E2]].
      + rewrite E; auto.
      + subst. rewrite (proj2 (nth_error_None _ _)) by lia. auto.
    - apply nth_error_None in E. rewrite app_length in E; simpl in E.
      rewrite (proj2 (nth_error_None _ _)) by lia. auto.
  Qed.

  Lemma new_inst_insts_len : forall c r g G par inh x,
    List.length (c_insts (new_inst c r g G par inh x)) = Datatypes.S (List.length (c_insts c)).
  Proof.
    intros. unfold StateLockLTS.new_inst. destruct (g_state G); simpl; rewrite app_length; simpl; lia.
  Qed.
End Inv.
