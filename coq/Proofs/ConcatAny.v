(* Proofs/ConcatAny.v — streams of an interface type ([any]): concatStreamReader[any] /
   ConcatItems[any] (Model/Concat.v: concat_stream_any) is the per-key concatenation of map
   chunks applied to the chunk list itself; totality, prefix law, suffix law, independence
   of map iteration order follow from the lemmas about [concat_key]. *)
From Eino Require Import Base.Util Model.Concat Model.ConcatMsg Model.ConcatMsgMap Model.ConcatOrder.
From Eino Require Import Proofs.Concat Proofs.ConcatRechunk Proofs.ConcatMsg Proofs.ConcatKeyed Proofs.ConcatMsgMap.
From Eino Require Import Proofs.ConcatOrder Proofs.ConcatSuffix.

Section User.
Context {U : UserFn} {L : UserLaw}.

Lemma concat_stream_any_no_panic vs : concat_stream_any vs <> Panic.
Proof.
  destruct vs as [|v [|w l]]; cbn [concat_stream_any]; try discriminate.
  apply concat_key_no_panic. intros ms. apply concat_maps_no_panic.
Qed.

Theorem concat_stream_any_rechunk_weak xs ys : xs <> [] -> rechunk_ok concat_stream_any xs ys.
Proof.
  intros Hne. unfold rechunk_ok.
  destruct xs as [|x1 [|x2 l]]; [congruence| |].
  - cbn [concat_stream_any]. apply req_refl.
  - change (concat_stream_any (x1 :: x2 :: l)) with (concat_key concat_maps_top (x1 :: x2 :: l)).
    change (concat_stream_any ((x1 :: x2 :: l) ++ ys)) with (concat_key concat_maps_top ((x1 :: x2 :: l) ++ ys)).
    pose proof (concat_key_top_law (x1 :: x2 :: l) ys) as H.
    destruct (concat_key concat_maps_top (x1 :: x2 :: l)) as [c| |] eqn:E; [|exact H|exact H].
    destruct ys as [|y ys'].
    + rewrite app_nil_r. cbn [concat_stream_any]. rewrite E. reflexivity.
    + exact H.
Qed.

Theorem concat_stream_any_rechunk xs ys : xs <> [] -> rechunk_strict concat_stream_any xs ys.
Proof.
  intros Hne. apply rechunk_strict_of; auto using concat_stream_any_no_panic, concat_stream_any_rechunk_weak.
Qed.

(* independence of the map iteration order and of the rendering of the chunks *)
Definition concat_stream_any_o (s : sched) (vs : list cval) : res cval :=
  match vs with
  | [] => Err E_EMPTY
  | [v] => Ok v
  | _ => concat_key (concat_maps_top_o s) vs
  end.

Theorem concat_stream_any_order s vs vs' :
  sched_ok s -> Forall2 ceq vs vs' -> rrel ceq (concat_stream_any_o s vs) (concat_stream_any vs').
Proof.
  intros Hs H. unfold concat_stream_any_o, concat_stream_any.
  destruct H as [|v0 v0' l l' H0 H]; [exact I|].
  destruct H as [|v1 v1' l l' H1 H]; [exact H0|].
  apply (concat_key_cong (S (depth_list (v0 :: v1 :: l)))).
  - intros xs xs' _ _ Hx. apply concat_maps_order; assumption.
  - apply vbounded_top.
  - repeat constructor; assumption.
Qed.

Context {LS : UserLawS}.

Theorem concat_stream_any_suffix xs ys : ys <> [] -> suffix_ok concat_stream_any xs ys.
Proof.
  intros Hne. unfold suffix_ok.
  destruct ys as [|y1 [|y2 l]]; [congruence| |].
  - cbn [concat_stream_any]. apply req_refl.
  - change (concat_stream_any (y1 :: y2 :: l)) with (concat_key concat_maps_top (y1 :: y2 :: l)).
    pose proof (concat_key_top_suffix xs (y1 :: y2 :: l)) as H.
    destruct xs as [|x xs].
    + cbn [app] in *. change (concat_stream_any (y1 :: y2 :: l)) with (concat_key concat_maps_top (y1 :: y2 :: l)).
      destruct (concat_key concat_maps_top (y1 :: y2 :: l)); cbn [concat_stream_any]; reflexivity.
    + assert (W : forall zs, zs <> [] -> concat_stream_any ((x :: xs) ++ zs) = concat_key concat_maps_top ((x :: xs) ++ zs)).
      { intros zs Hz. destruct xs as [|x2 xs]; cbn [app]; [destruct zs; [congruence|reflexivity]|reflexivity]. }
      rewrite (W (y1 :: y2 :: l)) by discriminate.
      destruct (concat_key concat_maps_top (y1 :: y2 :: l)) as [c| |]; [|exact H|exact H].
      rewrite (W [c]) by discriminate. exact H.
Qed.

End User.
