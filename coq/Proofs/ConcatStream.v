(* Proofs/ConcatStream.v — the drain loop of the stream-level entry points
   (Model/ConcatStream.v): a read error anywhere makes the call fail, without it the entry
   point is the concatenation of the chunks; totality and the re-chunking laws (prefix,
   any segment) carry over from the concatenation [F] to [stream_entry F], read errors
   included ("fails in the same cases"). *)
From Eino Require Import Base.Util Model.Concat Model.ConcatStream.
From Eino Require Import Model.ConcatMsg Model.ConcatMsgMap.
From Eino Require Import Proofs.Concat Proofs.ConcatRechunk Proofs.ConcatSuffix Proofs.ConcatAny Proofs.ConcatSplit.

Section Drain.
Context {A : Type}.

Lemma drain_app (xs ys : list (sitem A)) :
  drain (xs ++ ys) = match drain xs, drain ys with Some a, Some b => Some (a ++ b) | _, _ => None end.
Proof.
  induction xs as [|[a|] xs IH]; cbn [app drain].
  - destruct (drain ys); reflexivity.
  - rewrite IH. destruct (drain xs), (drain ys); reflexivity.
  - reflexivity.
Qed.

Lemma drain_err (l : list (sitem A)) : In SErr l -> drain l = None.
Proof.
  induction l as [|[a|] l IH]; cbn; intros H; [contradiction| |reflexivity].
  destruct H as [H|H]; [discriminate|]. rewrite (IH H). reflexivity.
Qed.

Lemma drain_vals (vs : list A) : drain (map SVal vs) = Some vs.
Proof. induction vs as [|v vs IH]; cbn; [reflexivity|]. rewrite IH. reflexivity. Qed.

Lemma drain_some_inv (l : list (sitem A)) vs : drain l = Some vs -> l = map SVal vs.
Proof.
  revert vs. induction l as [|[a|] l IH]; cbn; intros vs H.
  - inversion H. reflexivity.
  - destruct (drain l) as [r|]; [|discriminate]. inversion H. cbn. rewrite (IH r eq_refl). reflexivity.
  - discriminate.
Qed.

Lemma drain_nonempty (l : list (sitem A)) vs : drain l = Some vs -> l <> [] -> vs <> [].
Proof. intros H Hne ->. apply drain_some_inv in H. cbn in H. congruence. Qed.

Lemma drain_svals (l : list (sitem A)) vs : drain l = Some vs -> svals l = vs.
Proof.
  intros H. apply drain_some_inv in H. subst l. unfold svals.
  induction vs as [|v vs IH]; cbn; [reflexivity|]. f_equal. exact IH.
Qed.

Lemma svals_app (xs ys : list (sitem A)) : svals (xs ++ ys) = svals xs ++ svals ys.
Proof. unfold svals. apply flat_map_app. Qed.

Variable F : list A -> res A.
Variable Good : A -> Prop.

(* a read error anywhere: the call fails with the read error, whatever the chunks are *)
Theorem stream_entry_error (l : list (sitem A)) : In SErr l -> stream_entry F l = Err E_READ.
Proof. intros H. unfold stream_entry. rewrite (drain_err l H). reflexivity. Qed.

(* no read error: the entry point is the concatenation of the chunks *)
Theorem stream_entry_vals (vs : list A) : stream_entry F (map SVal vs) = F vs.
Proof. unfold stream_entry. rewrite drain_vals. reflexivity. Qed.

Theorem stream_entry_no_panic (l : list (sitem A)) : (forall vs, F vs <> Panic) -> stream_entry F l <> Panic.
Proof. intros H. unfold stream_entry. destruct (drain l); [apply H|discriminate]. Qed.

(* prefix law *)
Theorem stream_entry_rechunk (xs ys : list (sitem A)) :
  (forall vs ws, vs <> [] -> Forall Good (vs ++ ws) -> rechunk_ok F vs ws) ->
  xs <> [] -> Forall Good (svals (xs ++ ys)) ->
  match stream_entry F xs with
  | Ok c => req (stream_entry F (SVal c :: ys)) (stream_entry F (xs ++ ys))
  | _ => fails (stream_entry F (xs ++ ys))
  end.
Proof.
  intros P Hne HG. unfold stream_entry. rewrite drain_app. cbn [drain].
  destruct (drain xs) as [vs|] eqn:Ex; [|reflexivity].
  pose proof (drain_nonempty xs vs Ex Hne) as Hv.
  destruct (drain ys) as [ws|] eqn:Ey.
  - rewrite svals_app, (drain_svals xs vs Ex), (drain_svals ys ws Ey) in HG. exact (P vs ws Hv HG).
  - destruct (F vs); reflexivity.
Qed.

(* any segment *)
Theorem stream_entry_segment (pre seg post : list (sitem A)) :
  (forall p s q, s <> [] -> Forall Good (p ++ s ++ q) -> segment_ok F p s q) ->
  seg <> [] -> Forall Good (svals (pre ++ seg ++ post)) ->
  match stream_entry F seg with
  | Ok c => req (stream_entry F (pre ++ SVal c :: post)) (stream_entry F (pre ++ seg ++ post))
  | _ => fails (stream_entry F (pre ++ seg ++ post))
  end.
Proof.
  intros Sg Hne HG. unfold stream_entry. rewrite !drain_app. cbn [drain].
  destruct (drain seg) as [vs|] eqn:Es.
  - pose proof (drain_nonempty seg vs Es Hne) as Hv.
    destruct (drain pre) as [ps|] eqn:Ep.
    + destruct (drain post) as [qs|] eqn:Eq.
      * rewrite !svals_app, (drain_svals pre ps Ep), (drain_svals seg vs Es), (drain_svals post qs Eq) in HG.
        pose proof (Sg ps vs qs Hv HG) as H. unfold segment_ok in H.
        destruct (F vs) as [c| |]; [|exact H|exact H].
        rewrite drain_app, Ep. cbn [drain]. rewrite Eq. exact H.
      * destruct (F vs) as [c| |]; [|reflexivity|reflexivity].
        rewrite drain_app, Ep. cbn [drain]. rewrite Eq. reflexivity.
    + destruct (F vs) as [c| |]; [|reflexivity|reflexivity].
      rewrite drain_app, Ep. reflexivity.
  - destruct (drain pre); reflexivity.
Qed.

End Drain.

(* ------------------------------------------------------------------ instances *)

Definition items_segment_ok {A} (F : list A -> res A) (pre seg post : list (sitem A)) : Prop :=
  match stream_entry F seg with
  | Ok c => req (stream_entry F (pre ++ SVal c :: post)) (stream_entry F (pre ++ seg ++ post))
  | _ => fails (stream_entry F (pre ++ seg ++ post))
  end.

Section User.
Context {U : UserFn} {L : UserLaw} {LS : UserLawS}.

Lemma any_stream_segment pre seg post : seg <> [] -> segment_ok concat_stream_any pre seg post.
Proof.
  intros Hne. apply (segment_law concat_stream_any anyx); try exact Hne.
  - intros xs ys Hx _. apply concat_stream_any_rechunk_weak, Hx.
  - intros xs ys Hy _. apply concat_stream_any_suffix, Hy.
  - intros; exact I.
  - apply Forall_forall. intros; exact I.
Qed.

Lemma all_anyx {X} (l : list X) : Forall anyx l.
Proof. apply Forall_forall. intros; exact I. Qed.

Theorem msg_items_segment pre seg post : seg <> [] -> items_segment_ok msg_stream pre seg post.
Proof.
  intros Hne. apply (stream_entry_segment msg_stream anyx); [|exact Hne|apply all_anyx].
  intros p s q Hs _. apply msg_stream_segment, Hs.
Qed.

Theorem msglist_items_segment pre seg post : seg <> [] -> items_segment_ok msglist_stream pre seg post.
Proof.
  intros Hne. apply (stream_entry_segment msglist_stream anyx); [|exact Hne|apply all_anyx].
  intros p s q Hs _. apply msglist_stream_segment, Hs.
Qed.

Theorem mmap_items_segment pre seg post : seg <> [] -> items_segment_ok mmap_stream pre seg post.
Proof.
  intros Hne. apply (stream_entry_segment mmap_stream anyx); [|exact Hne|apply all_anyx].
  intros p s q Hs _. apply mmap_stream_segment, Hs.
Qed.

Theorem any_items_segment pre seg post : seg <> [] -> items_segment_ok concat_stream_any pre seg post.
Proof.
  intros Hne. apply (stream_entry_segment concat_stream_any anyx); [|exact Hne|apply all_anyx].
  intros p s q Hs _. apply any_stream_segment, Hs.
Qed.

Theorem gen_items_segment t pre seg post :
  seg <> [] -> Forall (typed t) (svals (pre ++ seg ++ post)) -> items_segment_ok concat_stream pre seg post.
Proof.
  intros Hne HG. apply (stream_entry_segment concat_stream (typed t)); [|exact Hne|exact HG].
  intros p s q Hs Ht. apply (concat_stream_segment t), Ht. exact Hs.
Qed.

End User.
