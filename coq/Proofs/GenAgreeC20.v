(* Proofs/GenAgreeC20.v — property C20, translator tie: the Gallina functions tools/go2v (extractor "c20graph")
   translated statement by statement from compose/graph.go (Gen/C20Graph.v: addNode, addEdgeWithMappings,
   addBranch, compile of *graph) are the step functions of Model/Builder.v that the C20 theorems are about
   ([g_add_node], [g_add_edge], [g_add_branch], [g_compile fixed]) — for every builder state and every argument.

   So the sequence of tests of each method (which condition returns which error class, in which order, before or
   after the deferred hook that makes the error sticky, before or after which update of the builder), the updates
   themselves, the point where [g.compiled] is set, the rule for the step limit, and where the runner takes its
   handler tables from are re-read from the Go source on every run; an edit that changes their meaning makes a
   theorem here stop compiling even if no generated case reaches it.

   What is assumed about the parts that are not translated, each visible in the statements below:
     - [update_to_validate_map g = (update_pending g, None)]: g.updateToValidateMap() is the model's inference
       and reports no error (typing is abstracted to one type: assumption 1 of the property);
     - [result <> AMustNot]: checkAssignable(start node's output, condition's input) does not say "must not"
       (same abstraction);
     - addBranch is handed a fresh branch object ([noDataFlow = false]);
     - [getStateEnabled = false]: no public option sets it;
     - [sub_graph_error], [validate_dag_result]: an invalid sub graph fails with 'start node not set'
       (assumption 4); validateDAG is the model's counter algorithm;
     - [has_node g START = false] in addBranch: holds in every reachable state ([ginv_no_start], builder_invariant).
   addEdgeWithMappings and addBranch agree with the model up to [canon]: the model drops the partial effects of
   a call that ends in a sticky error, the code keeps them, and nothing can read them ([frozen_indistinguishable]).

   If the extractor does not recognise the shape of the source, Gen/C20Graph.v is the neutral file
   ([tie_available = false]) and the theorems hold vacuously: the hypothesis [G.tie_available = true] states that
   the file compared is the translation. *)
From Eino Require Import Base.Util Model.Builder Model.BuilderGenLib Proofs.Builder Proofs.BuilderReject Proofs.BuilderSound Proofs.BuilderReject2.
From Eino Require Gen.C20Graph.
Local Open Scope string_scope.
Local Open Scope list_scope.
Module G := Gen.C20Graph.

Lemma alist_set_absent : forall {A} k (a : A) l, alist_get k l = None -> alist_set k a l = l ++ [(k, a)].
Proof.
  intros A k a l; induction l as [|[k' a'] l IH]; simpl; [reflexivity|].
  destruct (String.eqb k k'); [discriminate|]. intros H. rewrite (IH H). reflexivity.
Qed.

Lemma has_node_false : forall g k, has_node g k = false -> alist_get k (g_nodes g) = None.
Proof. intros g k. unfold has_node, is_some. destruct (alist_get k (g_nodes g)); [discriminate|reflexivity]. Qed.

Ltac vacuous TA := unfold G.tie_available in TA; discriminate TA.

Theorem gen_graph_addNode_agrees : G.tie_available = true -> forall g k nk ns nko ok,
  G.addNode g k (init_node nk ok ns) ns nko = g_add_node g k nk ns nko ok.
Proof.
  intros TA; first [vacuous TA | clear TA;
  intros g k nk ns nko ok; unfold G.addNode, g_add_node, ret, fail, is_se, nodes_put, cmp_is_chain;
  destruct (g_err g) as [e|]; simpl; [reflexivity|];
  destruct (g_compiled g); [reflexivity|];
  destruct (String.eqb k START), (String.eqb k END_); simpl; try reflexivity;
  destruct (has_node g k) eqn:HN; [reflexivity|];
  rewrite (alist_set_absent _ _ _ (has_node_false _ _ HN));
  destruct ns, nko, (g_state g), (g_cmp g); reflexivity ].
Qed.

Lemma set_err_same : forall g x, g_err g = x -> set_err x g = g.
Proof. intros [] x H; simpl in *; subst; reflexivity. Qed.

Lemma canon_fail : forall g0 g' e, canon g0 (ret true g' (Some e)) = fail g0 e.
Proof. intros. unfold canon, ret, fail. simpl. reflexivity. Qed.

Lemma canon_ok : forall g0 r, g_err (fst r) = None -> canon g0 r = r.
Proof. intros g0 r H. unfold canon. rewrite H. reflexivity. Qed.

Lemma canon_frozen : forall g e, g_err g = Some e -> canon g (g, OErr e) = (g, OErr e).
Proof. intros g e H. unfold canon. simpl. rewrite H. rewrite (set_err_same _ _ H). reflexivity. Qed.

Lemma err_update_pending : forall g, g_err (update_pending g) = g_err g.
Proof. intros g. apply (proj1 (update_pending_flags' g)). Qed.

Theorem gen_graph_addEdge_agrees : G.tie_available = true -> forall g s e nc nd fs,
  canon g (G.addEdgeWithMappings g s e nc nd fs) = g_add_edge g s e nc nd fs.
Proof.
  intros TA; first [vacuous TA | clear TA;
  intros g s e nc nd fs; unfold G.addEdgeWithMappings, g_add_edge, update_to_validate_map;
  destruct (g_err g) as [er|] eqn:E; simpl; [apply canon_frozen; assumption|];
  destruct (g_compiled g); [apply canon_ok; assumption|];
  destruct nc, nd; cbn [andb negb]; cbv beta iota zeta; try (apply canon_ok; assumption);
  (destruct (String.eqb s END_); [apply canon_fail|]);
  (destruct (String.eqb e START); [apply canon_fail|]);
  destruct (has_node g s), (String.eqb s START), (has_node g e), (String.eqb e END_); cbn [andb negb]; try apply canon_fail;
  simpl;
  repeat match goal with |- context[pmem ?a ?b ?l] => destruct (pmem a b l) end; simpl;
  try apply canon_fail;
  try (rewrite canon_ok; [reflexivity | simpl; try rewrite err_update_pending; assumption]) ].
Qed.

(* ---------------------------------------------------------------- addBranch *)
Lemma for_each_ext : forall {A} (f f' : gstate -> A -> gstate * option ecls) l g,
  (forall g a, f g a = f' g a) -> for_each f l g = for_each f' l g.
Proof.
  intros A f f' l; induction l as [|a l IH]; intros g H; simpl; [reflexivity|].
  rewrite H. destruct (f' g a) as [g' [e|]]; [reflexivity|]. apply IH, H.
Qed.

(* one round of the loop over branch.endNodes, as the model states it (branch_ends) *)
Definition end_step (s : string) (g : gstate) (e : string) : gstate * option ecls :=
  if negb (has_node g e) && negb (String.eqb e END_) then (g, Some EBranchEndUnknown)
  else
    let g1 := update_pending (set_pending (g_pending g ++ [(s, e, [])]) g) in
    let g2 := if String.eqb s START then set_starts (g_starts g1 ++ [e]) g1 else g1 in
    let g3 := if String.eqb e END_ then set_ends (g_ends g2 ++ [s]) g2 else g2 in
    (g3, None).

Lemma for_each_end_step : forall s ends g, for_each (end_step s) ends g = branch_ends g s ends.
Proof.
  intros s ends; induction ends as [|e rest IH]; intros g; simpl; [reflexivity|].
  unfold end_step at 1. destruct (negb (has_node g e) && negb (String.eqb e END_)); [reflexivity|].
  cbv zeta. apply IH.
Qed.

Lemma set_in_out_typed : forall k g, set_out_typed k (set_in_typed k g) = set_typed k g.
Proof.
  intros k g. unfold set_out_typed, set_in_typed, set_typed, set_nodes. simpl. f_equal.
  rewrite map_map. apply map_ext. intros [k0 n0]; simpl. destruct (String.eqb k0 k) eqn:E; simpl; rewrite E; reflexivity.
Qed.

Lemma err_branch_ends : forall ends g s, g_err (fst (branch_ends g s ends)) = g_err g.
Proof.
  induction ends as [|e rest IH]; intros g s; simpl; [reflexivity|].
  destruct (negb (has_node g e) && negb (String.eqb e END_)); [reflexivity|]. rewrite IH.
  destruct (String.eqb e END_), (String.eqb s START); simpl; rewrite err_update_pending; reflexivity.
Qed.

(* the test under which a pass-through start node takes the condition's type, as the code states it
   and as the model states it *)
Lemma pass_block : forall g s, has_node g START = false -> String.eqb s END_ = false ->
  (if negb (String.eqb s START) && node_is_pass g s && negb (out_typed g s) then update_pending (set_typed s g) else g)
  = match alist_get s (g_nodes g) with
    | Some n => if nkind_eqb (n_kind n) NPass && negb (n_out n) then update_pending (set_typed s g) else g
    | None => g
    end.
Proof.
  intros g s HS SE. unfold node_is_pass, out_typed, is_se. rewrite SE.
  destruct (String.eqb s START) eqn:SS; simpl.
  - apply String.eqb_eq in SS. subst s. rewrite (has_node_false _ _ HS). reflexivity.
  - destruct (alist_get s (g_nodes g)); reflexivity.
Qed.

Theorem gen_graph_addBranch_agrees : G.tie_available = true -> forall result g s ends sk,
  has_node g START = false -> result <> AMustNot ->
  canon g (G.addBranch result false g s ends sk) = g_add_branch g s ends sk.
Proof.
  intros TA; first [vacuous TA | clear TA;
  intros result g s ends sk HS HR; unfold G.addBranch, g_add_branch;
  destruct (g_err g) as [er|] eqn:E; cbn [is_some]; [apply canon_frozen; assumption|];
  destruct (g_compiled g); [apply canon_ok; assumption|];
  destruct (String.eqb s END_) eqn:SE; [apply canon_fail|];
  rewrite <- (pass_block g s HS SE);
  assert (EP : g_err (update_pending (set_typed s g)) = None) by (rewrite err_update_pending; assumption);
  unfold prebranch_init, update_to_validate_map;
  replace (if negb (prebranch_has s g) then (g, false) else (g, false)) with (g, false)
    by (destruct (negb (prebranch_has s g)); reflexivity);
  cbv beta iota zeta;
  (* the test of the pass-through block as a whole (it occurs on both sides), then the atoms of the other tests *)
  destruct (negb (String.eqb s START) && node_is_pass g s && negb (out_typed g s));
    destruct (has_node g s), (String.eqb s START) eqn:SS; cbn [negb andb is_some]; cbv beta iota zeta; try apply canon_fail;
    (destruct (Nat.eqb (List.length ends) 1); [apply canon_fail|]);
    rewrite ?set_in_out_typed; generalize dependent (update_pending (set_typed s g)); intros gp EP;
    (destruct result; try (exfalso; apply HR; reflexivity)); cbn [asg_eqb]; cbv beta iota zeta;
    (destruct sk; cbn [negb]; [ rewrite canon_ok; [reflexivity | simpl; assumption] | ]);
    (rewrite (for_each_ext _ (end_step s));
     [ rewrite for_each_end_step; unfold prebranch_append;
       match goal with |- context[branch_ends ?G s ends] =>
         pose proof (err_branch_ends ends G s) as EB; destruct (branch_ends G s ends) as [g3 [er|]] end;
       [ apply canon_fail | rewrite canon_ok; [reflexivity | simpl in *; congruence] ]
     | intros g0 e0; unfold end_step, to_validate_add, starts_append, ends_append; rewrite ?SS;
       destruct (has_node g0 e0), (String.eqb e0 END_); reflexivity ]) ].
Qed.

(* ---------------------------------------------------------------- compile *)
Lemma length_zero_is_nil : forall {A} (l : list A), Nat.eqb (List.length l) 0 = is_nil l.
Proof. intros A [|a l]; reflexivity. Qed.

Theorem gen_graph_compile_agrees : G.tie_available = true -> forall g o,
  G.compile false g o = (let '(g', out) := g_compile fixed g o in (g', cresult_of out)).
Proof.
  intros TA; first [vacuous TA | clear TA;
  intros g o; unfold G.compile, g_compile;
  destruct (g_err g) as [er|] eqn:E; cbn [is_some]; [reflexivity|];
  unfold trigger_given, trigger_is_all, cmp_is_chain, cmp_is_workflow, sub_graph_error, validate_dag_result;
  cbn [fixed v_untyped_check v_prenode_copy negb andb];
  destruct (g_cmp g) eqn:EC; destruct (o_trigger o) as [[|]|] eqn:ET; cbn [is_some orb andb negb]; try reflexivity;
  cbv beta iota zeta; rewrite ?EC; cbn [negb andb orb]; rewrite !length_zero_is_nil;
  (destruct (is_nil (g_starts g)); [reflexivity|]);
  (destruct (is_nil (g_ends g)); [reflexivity|]);
  (destruct (is_nil (g_pending g)); cbn [negb]; [|reflexivity]);
  (destruct (has_untyped g); [reflexivity|]);
  (destruct (existsb (fun kf => has_dup (snd kf)) (g_fm g)); [reflexivity|]);
  (destruct (existsb (fun kn => nkind_eqb (n_kind (snd kn)) NSubBad) (g_nodes g)); cbn [is_some]; [reflexivity|]);
  destruct (negb (negb (g_state g))); cbv beta iota zeta;
  try (destruct (validate_dag g); cbn [is_some negb]; [|reflexivity]);
  cbn [andb negb];
  try (destruct (Z.ltb 0 (o_max_steps o)); [reflexivity|]);
  try (destruct (Z.eqb (o_max_steps o) 0); cbv beta iota zeta);
  reflexivity ].
Qed.

Theorem gen_graph_runner_sources_agree : G.tie_available = true ->
  G.runner_handler_sources = model_handler_sources /\ G.runner_node_edge_sources = model_node_edge_sources.
Proof. intros TA; first [vacuous TA | clear TA; split; reflexivity]. Qed.

(* the loop of compile that compiles the child graphs visits the nodes in the order of their keys — the order
   Model/BuilderNested.v ([nstep]: [sorted_keys]) gives the children; in Go's map order, which child a failing
   Compile has frozen differs from attempt to attempt (F-C20g, nested_compile_order_v0_refuted) *)
Theorem gen_graph_node_loop_sorted : G.tie_available = true -> G.node_loop_sorted = true.
Proof. intros TA; first [vacuous TA | clear TA; reflexivity]. Qed.

(* what the agreement with [canon] is worth: once the build error is set, no graph-level step looks at anything
   else, so two states with the same build error are indistinguishable for every later call *)
Lemma frozen_indistinguishable : forall v g g' e c,
  g_err g = Some e -> g_err g' = Some e -> snd (gstep v g c) = snd (gstep v g' c) /\ fst (gstep v g c) = g /\ fst (gstep v g' c) = g'.
Proof.
  intros v g g' e c H H'. destruct c; simpl; unfold g_add_node, g_add_edge, g_add_branch, g_compile; rewrite H, H'; auto.
Qed.

(* reachable states have no node called START (the hypothesis of gen_addBranch_agrees) *)
Lemma ginv_no_start : forall g, ginv g -> has_node g START = false.
Proof.
  intros g I. destruct (has_node g START) eqn:H; [|reflexivity].
  apply has_node_keys in H. apply (gi_unreserved g I) in H. discriminate H.
Qed.

(* the same for the states the theorems of Props/C20.v range over *)
Theorem gen_graph_addBranch_agrees_reachable : G.tie_available = true -> forall result g s ends sk,
  ginv g -> result <> AMustNot ->
  canon g (G.addBranch result false g s ends sk) = g_add_branch g s ends sk.
Proof. intros TA result g s ends sk I HR. apply gen_graph_addBranch_agrees; [assumption|apply ginv_no_start; assumption|assumption]. Qed.

Print Assumptions gen_graph_addNode_agrees.
Print Assumptions gen_graph_addEdge_agrees.
Print Assumptions gen_graph_addBranch_agrees.
Print Assumptions gen_graph_addBranch_agrees_reachable.
Print Assumptions gen_graph_compile_agrees.
Print Assumptions gen_graph_runner_sources_agree.
Print Assumptions gen_graph_node_loop_sorted.
