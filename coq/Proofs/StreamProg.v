(* Proofs/StreamProg.v — property C08, "none of these operations can deadlock": the goroutines
   the library starts never wait for each other.

   [Drained st t]: reader t has nothing to hand out and has not ended — exactly the situation
   in which Recv blocks ([recv_block_drained]).  [fwd_blocked]: a forwarder goroutine (toStream)
   is blocked in its own Recv or Send, or has finished.  Main result
   ([drained_waits_for_writer]): in a reachable state in which every forwarder goroutine is
   blocked or finished, a drained reader derives from a *user* pipe that is empty and whose
   writer has not closed — and a Send on that pipe cannot block.  So whenever a Recv blocks,
   either some forwarder goroutine can take a step, or the reader is waiting for a writer that
   is itself free to act: there is no cycle of waiting among the library's goroutines. *)
From Eino Require Import Base.Util Model.Stream Proofs.Stream Proofs.StreamRel Proofs.StreamWf Proofs.StreamClose Proofs.StreamRank.
From Coq Require Import Lia Permutation.

(* ------------------------------------------------------------------ chosen lists index the sources *)

Fixpoint midx (t : rd) : Prop :=
  match t with
  | RMul sts ch => Forall (fun i => i < List.length sts) ch
  | RConv _ src _ _ => midx src
  | _ => True
  end.

Definition pmidx (st : store) : Prop := Forall (fun Q => midx (p_src Q)) (parents st).

Definition midx_state (G : state) : Prop :=
  Forall (fun H => midx (h_rd H)) (st_handles G)
  /\ pmidx (st_store G)
  /\ Forall (fun F => midx (f_src F)) (st_fwds G).

Lemma In_remove_nat_sub : forall i l x, In x (remove_nat i l) -> In x l.
Proof.
  induction l as [|y l IH]; intros x H; simpl in *; auto.
  destruct (Nat.eqb i y); [right; exact H|]. destruct H as [H|H]; auto.
Qed.

Lemma Recv_midx : forall st t r st' t', Recv st t r st' t' -> midx t -> pmidx st -> midx t' /\ pmidx st'.
Proof.
  intros st t r st' t' H. unfold pmidx.
  induction H; intros Ht Hp; auto.
  - (* retire *) apply IHRecv; auto. simpl in *. rewrite Forall_forall in *. intros x Hx. apply Ht.
    eapply In_remove_nat_sub; eauto.
  - (* conv skip *) simpl in *. destruct (IHRecv1 Ht Hp) as [A B]. apply IHRecv2; auto.
  - (* child have *) split; auto. simpl. apply Forall_upd; auto. simpl. exact (Forall_nth_error _ _ _ _ _ Hp H).
  - (* child eof *) split; auto. simpl. apply Forall_upd; auto. simpl. exact (Forall_nth_error _ _ _ _ _ Hp H).
  - destruct (IHRecv (Forall_nth_error _ _ _ _ _ Hp H) Hp) as [A B]. split; auto. simpl. apply Forall_upd; auto.
  - destruct (IHRecv (Forall_nth_error _ _ _ _ _ Hp H) Hp) as [A B]. split; auto. simpl. apply Forall_upd; auto.
  - destruct (IHRecv (Forall_nth_error _ _ _ _ _ Hp H) Hp) as [A B]. split; auto. simpl. apply Forall_upd; auto.
Qed.

Lemma Forall_Forall2 : forall A (P : A -> Prop) (R : A -> A -> Prop) l l',
  (forall a b, R a b -> P a -> P b) -> Forall2 R l l' -> Forall P l -> Forall P l'.
Proof.
  intros A P R l l' HR H. induction H; intros HF; constructor; inversion HF; subst; eauto.
Qed.

Lemma Close_pmidx : forall st t c st', Close st t c st' -> pmidx st -> pmidx st'.
Proof.
  intros st t c st' H Hp. destruct (Close_static _ _ _ _ H) as [_ HF]. unfold pmidx in *.
  eapply Forall_Forall2; [|exact HF|exact Hp]. intros a b (E & _) Ha. simpl in *. rewrite E. exact Ha.
Qed.

Lemma midx_fresh_mul : forall ss, midx (RMul ss (seq 0 (List.length ss))).
Proof. intros ss. simpl. apply Forall_forall. intros i Hi. apply in_seq in Hi. lia. Qed.

Lemma consume_midx : forall G h,
  Forall (fun H => midx (h_rd H)) (st_handles G) -> Forall (fun H => midx (h_rd H)) (st_handles (consume G h)).
Proof.
  intros G h HF. unfold consume. destruct (nth_error (st_handles G) h) as [H|] eqn:E; auto.
  simpl. apply Forall_upd; auto. simpl. exact (Forall_nth_error _ _ _ _ _ HF E).
Qed.

Lemma consume_all_midx : forall hs G,
  Forall (fun H => midx (h_rd H)) (st_handles G) -> Forall (fun H => midx (h_rd H)) (st_handles (consume_all G hs)).
Proof. induction hs as [|h r IH]; intros G HG; simpl; auto. apply IH. apply consume_midx. exact HG. Qed.

Lemma live_rd_midx : forall G h t, Forall (fun H => midx (h_rd H)) (st_handles G) -> live_rd G h = Some t -> midx t.
Proof.
  intros G h t HF Hl. destruct (live_rd_nth _ _ _ Hl) as (H & Hn & _ & <-). exact (Forall_nth_error _ _ _ _ _ HF Hn).
Qed.

Lemma live_rds_midx : forall G hs ts, Forall (fun H => midx (h_rd H)) (st_handles G) ->
  live_rds G hs = Some ts -> Forall midx ts.
Proof.
  intros G. induction hs as [|h r IH]; intros ts HG H; simpl in H.
  - inversion H; subst. constructor.
  - destruct (live_rd G h) as [t|] eqn:E; [|discriminate].
    destruct (live_rds G r) as [ts'|] eqn:E'; [|discriminate].
    inversion H; subst. constructor; [eapply live_rd_midx; eauto | apply IH; auto].
Qed.

Lemma merge_collect_midx : forall ts st fw ss arr st' fw' ss' arr',
  merge_collect st fw ts ss arr = (st', fw', ss', arr') ->
  Forall (fun F => midx (f_src F)) fw -> Forall midx ts -> Forall (fun F => midx (f_src F)) fw'.
Proof.
  intros ts st fw ss arr st' fw' ss' arr' H Hfw Hts. apply Forall_forall. intros F Hin.
  destruct (merge_collect_fwds _ _ _ _ _ _ _ _ _ H F Hin) as [Ho|[Hs _]].
  - rewrite Forall_forall in Hfw. auto.
  - rewrite Forall_forall in Hts. auto.
Qed.

Lemma do_op_midx : forall fuel G o b G', do_op fuel G o = (b, G') -> midx_state G -> midx_state G'.
Proof.
  intros fuel G o b G' H HG. pose proof HG as (H1 & H2 & H3). unfold midx_state.
  destruct o as [cap | xs | h n | hs | h f | sid x | sid | h ch | h | k ch]; simpl in H.
  - inversion H; subst; clear H. simpl. repeat split; auto. apply Forall_app. split; auto. repeat constructor.
  - inversion H; subst; clear H. simpl. repeat split; auto. apply Forall_app. split; auto. repeat constructor.
  - destruct (live_rd G h) as [t|] eqn:El; [|inversion H; subst; auto].
    destruct (Nat.ltb n 2); [inversion H; subst; auto|].
    pose proof (live_rd_midx _ _ _ H1 El) as Ht. pose proof (consume_midx G h H1) as C2.
    destruct t; inversion H; subst; clear H; simpl; rewrite ?consume_store, ?consume_fwds; repeat split; auto;
      try (apply Forall_app; split; [exact C2|]);
      try (apply Forall_repeat; simpl; auto; fail);
      try (apply Forall_forall; intros Hh Hin; apply in_map_iff in Hin; destruct Hin as (ii & <- & _); simpl; auto; fail);
      try (unfold pmidx; simpl; apply Forall_app; split; [exact H2 | repeat constructor; exact Ht]).
  - destruct hs as [|h0 [|h1 hs']]; [inversion H; subst; auto| |].
    { destruct (live_rd G h0); inversion H; subst; auto. }
    destruct (negb (nodupb (h0 :: h1 :: hs'))); [inversion H; subst; auto|].
    destruct (live_rds G (h0 :: h1 :: hs')) as [ts|] eqn:El; [|inversion H; subst; auto].
    pose proof (live_rds_midx _ _ _ H1 El) as Hts.
    pose proof (consume_all_midx (h0 :: h1 :: hs') G H1) as C2.
    rewrite consume_all_store, consume_all_fwds in H.
    destruct (merge_collect _ _ ts [] []) as [[[st1 fw1] ss] arr] eqn:Em.
    pose proof (merge_collect_midx _ _ _ _ _ _ _ _ _ Em H3 Hts) as Hfw1.
    destruct (merge_collect_spec _ _ _ _ _ _ _ _ _ Em) as (Hp1 & _).
    assert (Hpm : pmidx st1) by (unfold pmidx; rewrite Hp1; exact H2).
    destruct ss as [|s0 ss']; destruct arr as [|a0 arr']; inversion H; subst; clear H;
      cbn [st_handles st_store st_fwds]; (split; [|split; auto]);
      (apply Forall_app; split; [exact C2|]); (apply Forall_cons; [|apply Forall_nil]); cbn [h_rd];
      first [exact I | apply midx_fresh_mul].
  - destruct (live_rd G h) as [t|] eqn:El; [|inversion H; subst; auto].
    pose proof (live_rd_midx _ _ _ H1 El) as Ht. pose proof (consume_midx G h H1) as C2.
    inversion H; subst. simpl. rewrite consume_store, consume_fwds. repeat split; auto.
    apply Forall_app. split; auto.
  - destruct (nth_error (streams (st_store G)) sid) as [s|] eqn:Es; [|inversion H; subst; auto].
    destruct (negb (s_user s)); [inversion H; subst; auto|].
    destruct (stream_send s x) as [r s'] eqn:E. inversion H; subst. simpl. repeat split; auto.
  - destruct (nth_error (streams (st_store G)) sid) as [s|] eqn:Es; [|inversion H; subst; auto].
    destruct (negb (s_user s)); [inversion H; subst; auto|].
    destruct (stream_close_send s) as [r s'] eqn:E. inversion H; subst. simpl. repeat split; auto.
  - destruct (nth_error (st_handles G) h) as [Hh|] eqn:Eh; [|inversion H; subst; auto].
    destruct (negb (h_live Hh)); [inversion H; subst; auto|].
    destruct (recv fuel (st_store G) (h_rd Hh) ch) as [[[r st1] t1] ch1] eqn:Er.
    inversion H; subst. apply recv_Recv in Er.
    destruct (Recv_midx _ _ _ _ _ Er (Forall_nth_error _ _ _ _ _ H1 Eh) H2) as [A B].
    simpl. repeat split; auto. apply Forall_upd; auto.
  - destruct (nth_error (st_handles G) h) as [Hh|] eqn:Eh; [|inversion H; subst; auto].
    destruct (negb (h_live Hh)); [inversion H; subst; auto|].
    destruct (close_rd fuel (st_store G) (h_rd Hh)) as [r st1] eqn:Er.
    inversion H; subst. apply close_Close in Er. simpl. repeat split; auto.
    + apply Forall_upd; auto. simpl. exact (Forall_nth_error _ _ _ _ _ H1 Eh).
    + eapply Close_pmidx; eauto.
  - destruct (nth_error (st_fwds G) k) as [F|] eqn:EF; [|inversion H; subst; auto].
    pose proof (Forall_nth_error _ _ _ _ _ H3 EF) as HmF.
    destruct (f_st F) as [|x| |].
    + destruct (recv fuel (st_store G) (f_src F) ch) as [[[r st1] src1] ch1] eqn:Er.
      apply recv_Recv in Er. destruct (Recv_midx _ _ _ _ _ Er HmF H2) as [A B].
      destruct r; try (inversion H; subst; simpl; repeat split; auto; apply Forall_upd; auto; fail).
      destruct (nth_error (streams st1) (f_dst F)) as [d|] eqn:Ed; [|inversion H; subst; auto].
      destruct (stream_close_send d) as [r0 d'] eqn:Ec. inversion H; subst. simpl. repeat split; auto. apply Forall_upd; auto.
    + destruct (nth_error (streams (st_store G)) (f_dst F)) as [d|] eqn:Ed; [|inversion H; subst; auto].
      destruct (stream_send d x) as [r d'] eqn:Es.
      destruct r; try (inversion H; subst; simpl; repeat split; auto; try (apply Forall_upd; auto); fail).
      destruct (stream_close_send d) as [r0 d''] eqn:Ec. inversion H; subst. simpl. repeat split; auto. apply Forall_upd; auto.
    + destruct (close_rd fuel (st_store G) (f_src F)) as [r st1] eqn:Er.
      inversion H; subst. apply close_Close in Er. simpl. repeat split; auto.
      * eapply Close_pmidx; eauto.
      * apply Forall_upd; auto.
    + inversion H; subst; auto.
Qed.

Lemma init_midx : midx_state init_state.
Proof. repeat split; simpl; constructor. Qed.

Lemma run_midx : forall fuel ops G bs G', run fuel G ops = (bs, G') -> midx_state G -> midx_state G'.
Proof.
  intros fuel. induction ops as [|o r IH]; intros G bs G' H HG; simpl in H.
  - inversion H; subst; auto.
  - destruct (do_op fuel G o) as [b G1] eqn:E1. destruct (run fuel G1 r) as [bs2 G2] eqn:E2.
    inversion H; subst. eapply IH; eauto. eapply do_op_midx; eauto.
Qed.

(* ------------------------------------------------------------------ every open internal stream has its forwarder *)

Definition active (F : fwd) : Prop := f_st F = FRecv \/ exists x, f_st F = FSend x.

(* an internal stream (made by toStream) whose send side is still open is the destination of
   a forwarder goroutine that is in its loop *)
Definition fwd_feeds (G : state) : Prop :=
  forall sid s, nth_error (streams (st_store G)) sid = Some s -> s_user s = false -> s_sclosed s = false ->
    exists k F, nth_error (st_fwds G) k = Some F /\ f_dst F = sid /\ active F.

Definition open_sub (ss ss' : list stream) : Prop :=
  forall sid s', nth_error ss' sid = Some s' -> s_user s' = false -> s_sclosed s' = false ->
    exists s, nth_error ss sid = Some s /\ s_user s = false /\ s_sclosed s = false.

Lemma open_sub_refl : forall ss, open_sub ss ss.
Proof. intros ss sid s H U C. eauto. Qed.

Lemma open_sub_trans : forall a b c, open_sub a b -> open_sub b c -> open_sub a c.
Proof.
  intros a b c A B sid s H U C. destruct (B _ _ H U C) as (s1 & H1 & U1 & C1). eapply A; eauto.
Qed.

Lemma open_sub_store_rel : forall st st', store_rel st st' -> open_sub (streams st) (streams st').
Proof.
  intros st st' [H _] sid s' Hn U C. destruct (Forall2_nth_r _ _ _ _ _ _ H Hn) as (s & Hs & (_ & E2 & _ & E4 & _)).
  exists s. split; auto. split; congruence.
Qed.

Lemma open_sub_cstore_rel : forall st st', cstore_rel st st' -> open_sub (streams st) (streams st').
Proof.
  intros st st' [H _] sid s' Hn U C. destruct (Forall2_nth_r _ _ _ _ _ _ H Hn) as (s & Hs & (_ & _ & E3 & E4 & _)).
  exists s. split; auto. split; congruence.
Qed.

Lemma open_sub_upd : forall ss sid s s', nth_error ss sid = Some s ->
  s_user s' = s_user s -> (s_sclosed s' = false -> s_sclosed s = false) -> open_sub ss (upd ss sid s').
Proof.
  intros ss sid s s' Hn U C sid0 s0 Hn0 U0 C0. destruct (Nat.eq_dec sid sid0) as [<-|Hne].
  - rewrite nth_error_upd_eq in Hn0 by (apply nth_error_Some; congruence). inversion Hn0; subst s0.
    exists s. split; auto. split; [congruence | auto].
  - rewrite nth_error_upd_neq in Hn0 by exact Hne. eauto.
Qed.

Lemma open_sub_app_closed : forall ss news, Forall (fun s => s_user s = true \/ s_sclosed s = true) news ->
  open_sub ss (ss ++ news).
Proof.
  intros ss news Hf sid s' Hn U C. destruct (Nat.lt_ge_cases sid (List.length ss)) as [Hlt|Hge].
  - rewrite nth_error_app1 in Hn by exact Hlt. eauto.
  - rewrite nth_error_app2 in Hn by exact Hge. apply nth_error_In in Hn. rewrite Forall_forall in Hf.
    destruct (Hf _ Hn); congruence.
Qed.

Lemma feeds_same_fwds : forall G G', fwd_feeds G -> st_fwds G' = st_fwds G ->
  open_sub (streams (st_store G)) (streams (st_store G')) -> fwd_feeds G'.
Proof.
  intros G G' HF Ef Ho sid s' Hn U C. destruct (Ho _ _ Hn U C) as (s & Hs & Us & Cs).
  rewrite Ef. eapply HF; eauto.
Qed.

Lemma feeds_fwd_step : forall G G' k F F', fwd_feeds G -> nth_error (st_fwds G) k = Some F ->
  st_fwds G' = upd (st_fwds G) k F' -> f_dst F' = f_dst F ->
  open_sub (streams (st_store G)) (streams (st_store G')) ->
  (active F' \/ ~ active F
   \/ (forall s', nth_error (streams (st_store G')) (f_dst F) = Some s' -> s_sclosed s' = true)) ->
  fwd_feeds G'.
Proof.
  intros G G' k F F' HF Hk Ef Ed Ho Hcase sid s' Hn U C. destruct (Ho _ _ Hn U C) as (s & Hs & Us & Cs).
  destruct (HF _ _ Hs Us Cs) as (j & F0 & Hj & Hd & Ha). rewrite Ef.
  destruct (Nat.eq_dec k j) as [<-|Hne].
  - rewrite Hk in Hj. inversion Hj; subst F0. destruct Hcase as [A|[A|A]].
    + exists k, F'. split; [apply nth_error_upd_eq; apply nth_error_Some; congruence|]. split; [congruence | exact A].
    + contradiction.
    + rewrite Hd in A. rewrite (A _ Hn) in C. discriminate.
  - exists j, F0. rewrite nth_error_upd_neq by exact Hne. auto.
Qed.

Lemma merge_collect_news : forall ts st fw ss arr st' fw' ss' arr',
  merge_collect st fw ts ss arr = (st', fw', ss', arr') ->
  exists news, fw' = fw ++ news /\ Forall (fun F => f_st F = FRecv) news
    /\ map f_dst news = seq (List.length (streams st)) (List.length news)
    /\ streams st' = streams st ++ repeat (new_stream 5 false) (List.length news).
Proof.
  induction ts as [|t r IH]; intros st fw ss arr st' fw' ss' arr' H; simpl in H.
  - inversion H; subst. exists []. simpl. rewrite !app_nil_r. auto.
  - assert (Hfwd : merge_collect (add_stream st (new_stream 5 false)) (fw ++ [mkF t (List.length (streams st)) FRecv false]) r
                            (ss ++ [List.length (streams st)]) arr = (st', fw', ss', arr') ->
       exists news, fw' = fw ++ news /\ Forall (fun F => f_st F = FRecv) news
         /\ map f_dst news = seq (List.length (streams st)) (List.length news)
         /\ streams st' = streams st ++ repeat (new_stream 5 false) (List.length news)).
    { intros H0. destruct (IH _ _ _ _ _ _ _ _ H0) as (news & E1 & E2 & E3 & E4).
      exists (mkF t (List.length (streams st)) FRecv false :: news). split; [rewrite E1, <- app_assoc; reflexivity|].
      split; [constructor; auto|]. simpl in E3, E4. rewrite app_length in E3. simpl in E3.
      replace (List.length (streams st) + 1) with (S (List.length (streams st))) in E3 by lia.
      split; [simpl; rewrite E3; reflexivity|]. rewrite E4, <- app_assoc. reflexivity. }
    destruct t as [d rest | s | sts ch | f src cin cout | p i]; eauto.
Qed.

Lemma feeds_merge : forall G ts st1 fw1 ss arr st2 hs2,
  fwd_feeds G -> merge_collect (st_store G) (st_fwds G) ts [] [] = (st1, fw1, ss, arr) ->
  (streams st2 = streams st1 \/ exists a, streams st2 = streams st1 ++ [array_stream a]) ->
  fwd_feeds (mkState st2 fw1 hs2).
Proof.
  intros G ts st1 fw1 ss arr st2 hs2 HF Em Hst2.
  destruct (merge_collect_news _ _ _ _ _ _ _ _ _ Em) as (news & E1 & E2 & E3 & E4).
  set (n0 := List.length (streams (st_store G))) in *.
  intros sid s' Hn U C. simpl in *.
  assert (Hn1 : nth_error (streams st1) sid = Some s').
  { destruct Hst2 as [E0|(a & Ea)]; [rewrite E0 in Hn; exact Hn|]. rewrite Ea in Hn.
    destruct (Nat.lt_ge_cases sid (List.length (streams st1))) as [Hlt|Hge].
    - rewrite nth_error_app1 in Hn by exact Hlt. exact Hn.
    - rewrite nth_error_app2 in Hn by exact Hge. apply nth_error_In in Hn. destruct Hn as [<-|[]]. discriminate. }
  rewrite E4 in Hn1. rewrite E1.
  destruct (Nat.lt_ge_cases sid n0) as [Hlt|Hge].
  - rewrite nth_error_app1 in Hn1 by exact Hlt. destruct (HF _ _ Hn1 U C) as (j & F0 & Hj & Hd & Ha).
    exists j, F0. rewrite nth_error_app1 by (apply nth_error_Some; congruence). auto.
  - rewrite nth_error_app2 in Hn1 by exact Hge. fold n0 in Hn1.
    assert (Hlen : sid - n0 < List.length news).
    { assert (Y : nth_error (repeat (new_stream 5 false) (List.length news)) (sid - n0) <> None) by congruence.
      apply nth_error_Some in Y. rewrite repeat_length in Y. exact Y. }
    destruct (nth_error news (sid - n0)) as [F0|] eqn:EF0; [|apply nth_error_None in EF0; lia].
    exists (List.length (st_fwds G) + (sid - n0)), F0.
    rewrite nth_error_app2 by lia.
    replace (List.length (st_fwds G) + (sid - n0) - List.length (st_fwds G)) with (sid - n0) by lia.
    split; auto. split.
    + pose proof (map_nth_error f_dst _ _ EF0) as Hm. rewrite E3 in Hm.
      apply nth_error_nth with (d := 0) in Hm. rewrite seq_nth in Hm by exact Hlen. lia.
    + left. rewrite Forall_forall in E2. apply E2. eapply nth_error_In; eauto.
Qed.

Lemma stream_close_send_closed : forall s r s', stream_close_send s = (r, s') -> s_sclosed s' = true /\ s_user s' = s_user s.
Proof.
  intros s r s'. unfold stream_close_send. destruct (s_sclosed s) eqn:E; intros H; inversion H; subst; simpl; auto.
Qed.

Lemma stream_send_flags : forall s x r s', stream_send s x = (r, s') -> s_sclosed s' = s_sclosed s /\ s_user s' = s_user s.
Proof.
  intros s x r s'. unfold stream_send.
  destruct (Nat.ltb 0 (s_rclosed s)); [intros H; inversion H; subst; auto|].
  destruct (s_sclosed s) eqn:E; [intros H; inversion H; subst; auto|].
  destruct (Nat.ltb _ _); intros H; inversion H; subst; simpl; auto.
Qed.

Lemma do_op_feeds : forall fuel G o b G', do_op fuel G o = (b, G') -> fwd_feeds G -> fwd_feeds G'.
Proof.
  intros fuel G o b G' H HF.
  destruct o as [cap | xs | h n | hs | h f | sid x | sid | h ch | h | k ch]; simpl in H.
  - inversion H; subst. eapply feeds_same_fwds; eauto. simpl. apply open_sub_app_closed. repeat constructor.
  - inversion H; subst. eapply feeds_same_fwds; eauto. apply open_sub_refl.
  - destruct (live_rd G h) as [t|] eqn:El; [|inversion H; subst; auto].
    destruct (Nat.ltb n 2); [inversion H; subst; auto|].
    destruct t; inversion H; subst; clear H;
      (eapply feeds_same_fwds; eauto; simpl; rewrite ?consume_fwds, ?consume_store; auto; apply open_sub_refl).
  - destruct hs as [|h0 [|h1 hs']]; [inversion H; subst; auto| |].
    { destruct (live_rd G h0); inversion H; subst; auto. }
    destruct (negb (nodupb (h0 :: h1 :: hs'))); [inversion H; subst; auto|].
    destruct (live_rds G (h0 :: h1 :: hs')) as [ts|] eqn:El; [|inversion H; subst; auto].
    rewrite consume_all_store, consume_all_fwds in H.
    destruct (merge_collect _ _ ts [] []) as [[[st1 fw1] ss] arr] eqn:Em.
    destruct ss as [|s0 ss']; destruct arr as [|a0 arr']; inversion H; subst; clear H;
      (eapply feeds_merge; eauto; simpl; eauto).
  - destruct (live_rd G h) as [t|] eqn:El; [|inversion H; subst; auto].
    inversion H; subst. eapply feeds_same_fwds; eauto; simpl; rewrite ?consume_fwds, ?consume_store; auto. apply open_sub_refl.
  - destruct (nth_error (streams (st_store G)) sid) as [s|] eqn:Es; [|inversion H; subst; auto].
    destruct (negb (s_user s)); [inversion H; subst; auto|].
    destruct (stream_send s x) as [r s'] eqn:E. inversion H; subst. eapply feeds_same_fwds; eauto. simpl.
    destruct (stream_send_flags _ _ _ _ E) as [A B]. eapply open_sub_upd; eauto; congruence.
  - destruct (nth_error (streams (st_store G)) sid) as [s|] eqn:Es; [|inversion H; subst; auto].
    destruct (negb (s_user s)); [inversion H; subst; auto|].
    destruct (stream_close_send s) as [r s'] eqn:E. inversion H; subst. eapply feeds_same_fwds; eauto. simpl.
    destruct (stream_close_send_closed _ _ _ E) as [A B]. eapply open_sub_upd; eauto; congruence.
  - destruct (nth_error (st_handles G) h) as [Hh|] eqn:Eh; [|inversion H; subst; auto].
    destruct (negb (h_live Hh)); [inversion H; subst; auto|].
    destruct (recv fuel (st_store G) (h_rd Hh) ch) as [[[r st1] t1] ch1] eqn:Er.
    inversion H; subst. apply recv_Recv in Er. eapply feeds_same_fwds; eauto. simpl.
    apply open_sub_store_rel. apply (Recv_static _ _ _ _ _ Er).
  - destruct (nth_error (st_handles G) h) as [Hh|] eqn:Eh; [|inversion H; subst; auto].
    destruct (negb (h_live Hh)); [inversion H; subst; auto|].
    destruct (close_rd fuel (st_store G) (h_rd Hh)) as [r st1] eqn:Er.
    inversion H; subst. apply close_Close in Er. eapply feeds_same_fwds; eauto. simpl.
    apply open_sub_cstore_rel. eapply Close_static; eauto.
  - destruct (nth_error (st_fwds G) k) as [F|] eqn:EF; [|inversion H; subst; auto].
    destruct (f_st F) as [|x| |] eqn:Est.
    + destruct (recv fuel (st_store G) (f_src F) ch) as [[[r st1] src1] ch1] eqn:Er.
      apply recv_Recv in Er. pose proof (open_sub_store_rel _ _ (proj1 (Recv_static _ _ _ _ _ Er))) as Ho.
      destruct r.
      * inversion H; subst.
        eapply (feeds_fwd_step G _ k F (mkF src1 (f_dst F) (FSend x) (f_eof F))); [exact HF | exact EF | reflexivity | reflexivity | exact Ho |].
        left. right. eexists. reflexivity.
      * destruct (nth_error (streams st1) (f_dst F)) as [d|] eqn:Ed; [|inversion H; subst; auto].
        destruct (stream_close_send d) as [r0 d'] eqn:Ec. inversion H; subst.
        destruct (stream_close_send_closed _ _ _ Ec) as [A B].
        eapply (feeds_fwd_step G _ k F (mkF src1 (f_dst F) FClosing true)); [exact HF | exact EF | reflexivity | reflexivity | |].
        -- simpl. eapply open_sub_trans; [exact Ho|]. eapply open_sub_upd; eauto; congruence.
        -- right. right. simpl. intros s' Hs'. rewrite nth_error_upd_eq in Hs' by (apply nth_error_Some; congruence).
           inversion Hs'; subst. exact A.
      * inversion H; subst.
        eapply (feeds_fwd_step G _ k F (mkF src1 (f_dst F) FRecv (f_eof F))); [exact HF | exact EF | reflexivity | reflexivity | exact Ho |].
        left. left. reflexivity.
      * inversion H; subst.
        eapply (feeds_fwd_step G _ k F (mkF src1 (f_dst F) FRecv (f_eof F))); [exact HF | exact EF | reflexivity | reflexivity | exact Ho |].
        left. left. reflexivity.
      * inversion H; subst.
        eapply (feeds_fwd_step G _ k F (mkF src1 (f_dst F) FRecv (f_eof F))); [exact HF | exact EF | reflexivity | reflexivity | exact Ho |].
        left. left. reflexivity.
    + destruct (nth_error (streams (st_store G)) (f_dst F)) as [d|] eqn:Ed; [|inversion H; subst; auto].
      destruct (stream_send d x) as [r d'] eqn:Es.
      destruct r; try (inversion H; subst; exact HF).
      * inversion H; subst. destruct (stream_send_flags _ _ _ _ Es) as [A B].
        eapply (feeds_fwd_step G _ k F (mkF (f_src F) (f_dst F) FRecv (f_eof F))); [exact HF | exact EF | reflexivity | reflexivity | |].
        -- simpl. eapply open_sub_upd; eauto; congruence.
        -- left. left. reflexivity.
      * destruct (stream_close_send d) as [r0 d''] eqn:Ec. inversion H; subst.
        destruct (stream_close_send_closed _ _ _ Ec) as [A B].
        eapply (feeds_fwd_step G _ k F (mkF (f_src F) (f_dst F) FClosing (f_eof F))); [exact HF | exact EF | reflexivity | reflexivity | |].
        -- simpl. eapply open_sub_upd; eauto; congruence.
        -- right. right. simpl. intros s' Hs'. rewrite nth_error_upd_eq in Hs' by (apply nth_error_Some; congruence).
           inversion Hs'; subst. exact A.
    + destruct (close_rd fuel (st_store G) (f_src F)) as [r st1] eqn:Er.
      inversion H; subst. apply close_Close in Er.
      eapply (feeds_fwd_step G _ k F (mkF (f_src F) (f_dst F) FDone (f_eof F))); [exact HF | exact EF | reflexivity | reflexivity | |].
      * simpl. apply open_sub_cstore_rel. eapply Close_static; eauto.
      * right. left. intros [A|[x A]]; congruence.
    + inversion H; subst; auto.
Qed.

Lemma init_feeds : fwd_feeds init_state.
Proof. intros sid s H. destruct sid; discriminate. Qed.

Lemma run_feeds : forall fuel ops G bs G', run fuel G ops = (bs, G') -> fwd_feeds G -> fwd_feeds G'.
Proof.
  intros fuel. induction ops as [|o r IH]; intros G bs G' H HG; simpl in H.
  - inversion H; subst; auto.
  - destruct (do_op fuel G o) as [b G1] eqn:E1. destruct (run fuel G1 r) as [bs2 G2] eqn:E2.
    inversion H; subst. eapply IH; eauto. eapply do_op_feeds; eauto.
Qed.

(* ------------------------------------------------------------------ drained readers *)

Definition sempty (st : store) (sid : nat) : Prop :=
  exists s, nth_error (streams st) sid = Some s /\ s_buf s = [] /\ s_sclosed s = false.

(* reader t has nothing to hand out now and has not ended *)
Inductive Drained (st : store) : rd -> Prop :=
| D_str : forall sid, sempty st sid -> Drained st (RStr sid)
| D_mul : forall sts ch, ch <> [] ->
    (forall i sid, In i ch -> nth_error sts i = Some sid -> stream_ready st sid = false) ->
    Drained st (RMul sts ch)
| D_conv : forall f src cin cout, Drained st src -> Drained st (RConv f src cin cout)
| D_child : forall p i P c,
    nth_error (parents st) p = Some P -> nth_error (p_cur P) i = Some (Some c) ->
    nth_error (p_items P) c = None -> p_eof P = false ->
    Drained st (p_src P) -> Drained st (RChild p i).

Lemma ref_below_mono : forall p pb r, p <= pb -> ref_below p r -> ref_below pb r.
Proof. intros p pb [s|q j]; simpl; auto. lia. Qed.

Lemma Drained_frame : forall st t, Drained st t -> forall pb st', acyclic st ->
  Forall (ref_below pb) (refs t) -> streams st' = streams st ->
  (forall q, q < pb -> nth_error (parents st') q = nth_error (parents st) q) -> Drained st' t.
Proof.
  intros st t H. induction H; intros pb st' Ha Hb Es Ep.
  - constructor. unfold sempty in *. rewrite Es. exact H.
  - constructor; auto. intros i sid Hi Hs. unfold stream_ready. rewrite Es. apply (H0 i sid Hi Hs).
  - constructor. eapply IHDrained; eauto.
  - simpl in Hb. inversion Hb; subst. simpl in H6.
    econstructor; eauto; [rewrite Ep by exact H6; exact H|].
    eapply (IHDrained pb); eauto.
    eapply Forall_impl; [|apply (Ha _ _ H)]. intros r. apply ref_below_mono. lia.
Qed.

Lemma stream_recv_block : forall s r s', stream_recv s = (r, s') -> r = PBlock ->
  s' = s /\ s_buf s = [] /\ s_sclosed s = false.
Proof.
  intros s r s'. unfold stream_recv. destruct (s_buf s) as [|x b]; [|intros H E; inversion H; subst; discriminate].
  destruct (s_sclosed s); intros H E; inversion H; subst; [discriminate | auto].
Qed.

(* a Recv that blocks leaves its reader drained *)
Lemma Recv_block_drained : forall st t r st' t', Recv st t r st' t' -> r = PBlock -> acyclic st -> Drained st' t'.
Proof.
  intros st t r st' t' H. induction H; intros Er Ha; try discriminate.
  - (* stream *)
    destruct (stream_recv_block _ _ _ H0 Er) as (-> & Hb & Hc). constructor. exists s. split; auto.
    simpl. apply nth_error_upd_eq. apply nth_error_Some. congruence.
  - (* multi: no source ready *) constructor; auto.
  - (* multi: after retiring a finished source *) auto.
  - (* convert: after skipping an item *)
    apply IHRecv2; auto. eapply acyclic_store_rel; [apply (Recv_static _ _ _ _ _ H)|exact Ha].
  - (* convert *) constructor. auto.
  - (* copy: the pull from the source blocked *)
    destruct (Recv_static _ _ _ _ _ H3) as [SR Hrf].
    pose proof (acyclic_store_rel _ _ SR Ha) as Ha1.
    assert (Hlen : p < List.length (parents st1)).
    { destruct SR as [_ SP]. rewrite <- (Forall2_length' _ _ _ _ SP). apply nth_error_Some. congruence. }
    apply (D_child _ p i (with_src P src1) c); simpl; auto.
    + apply nth_error_upd_eq. exact Hlen.
    + eapply (Drained_frame st1 src1 (IHRecv Er Ha) p); eauto.
      * rewrite Hrf. apply (Ha _ _ H).
      * intros q Hq. simpl. apply nth_error_upd_neq. lia.
  - destruct H as [->| ->]; discriminate.
Qed.

(* ------------------------------------------------------------------ blocked forwarders, derivation *)

(* the forwarder goroutine is blocked in its Recv (without having made progress) or in its
   Send, or it has finished *)
Definition fwd_blocked (fuel : nat) (G : state) (F : fwd) : Prop :=
  match f_st F with
  | FDone => True
  | FClosing => False
  | FSend x => exists d, nth_error (streams (st_store G)) (f_dst F) = Some d /\ fst (stream_send d x) = SBlock
  | FRecv => exists ch ch1, recv fuel (st_store G) (f_src F) ch = (PBlock, st_store G, f_src F, ch1)
  end.

(* reader t derives (through forwarders and copy parents) from user pipe u *)
Inductive Derives (G : state) : rd -> nat -> Prop :=
| DV_user : forall sid s, nth_error (streams (st_store G)) sid = Some s -> s_user s = true -> Derives G (RStr sid) sid
| DV_fwd : forall sid F u, In F (st_fwds G) -> f_dst F = sid -> Derives G (f_src F) u -> Derives G (RStr sid) u
| DV_mul : forall sts ch sid u, In sid sts -> Derives G (RStr sid) u -> Derives G (RMul sts ch) u
| DV_conv : forall f src cin cout u, Derives G src u -> Derives G (RConv f src cin cout) u
| DV_child : forall p i P u, nth_error (parents (st_store G)) p = Some P -> Derives G (p_src P) u -> Derives G (RChild p i) u.

Lemma send_empty_no_block : forall s x, s_buf s = [] -> fst (stream_send s x) <> SBlock.
Proof.
  intros s x Hb. unfold stream_send. destruct (Nat.ltb 0 (s_rclosed s)); [simpl; discriminate|].
  destruct (s_sclosed s); [simpl; discriminate|]. rewrite Hb. simpl.
  assert (Nat.ltb 0 (eff_cap (s_cap s)) = true) as -> by (apply Nat.ltb_lt; unfold eff_cap; lia).
  simpl. discriminate.
Qed.

(* a blocked Send is released by the next receive from that stream *)
Lemma send_block_reader_ready : forall s x, List.length (s_buf s) <= eff_cap (s_cap s) ->
  fst (stream_send s x) = SBlock ->
  exists y s1, stream_recv s = (PItem y, s1) /\ fst (stream_send s1 x) = SOk.
Proof.
  intros s x Hcap. unfold stream_send, stream_recv.
  destruct (Nat.ltb 0 (s_rclosed s)) eqn:Er; [simpl; discriminate|].
  destruct (s_sclosed s) eqn:Ec; [simpl; discriminate|].
  destruct (Nat.ltb (List.length (s_buf s)) (eff_cap (s_cap s))) eqn:El; [simpl; discriminate|]. intros _.
  apply Nat.ltb_ge in El. destruct (s_buf s) as [|y b] eqn:Eb.
  - simpl in El. unfold eff_cap in El. lia.
  - exists y. eexists. split; [reflexivity|]. simpl. rewrite ?Er, ?Ec.
    assert (Nat.ltb (List.length b) (eff_cap (s_cap s)) = true) as ->; [|reflexivity].
    apply Nat.ltb_lt. simpl in Hcap. lia.
Qed.

(* ------------------------------------------------------------------ the main lemma *)

Definition waits_for_writer (G : state) (t : rd) : Prop :=
  exists u s, Derives G t u /\ nth_error (streams (st_store G)) u = Some s /\ s_user s = true
              /\ s_buf s = [] /\ s_sclosed s = false /\ forall x, fst (stream_send s x) <> SBlock.

Lemma stream_ready_false : forall st sid s, nth_error (streams st) sid = Some s -> stream_ready st sid = false ->
  s_buf s = [] /\ s_sclosed s = false.
Proof.
  intros st sid s Hn H. unfold stream_ready in H. rewrite Hn in H. destruct (s_buf s); [auto | discriminate].
Qed.

Lemma drained_cause : forall fuel G rs rp, wf G -> RK rs rp G -> midx_state G -> fwd_feeds G ->
  (forall F, In F (st_fwds G) -> fwd_blocked fuel G F) ->
  forall n t, Forall (fun r => rkr rs rp r < n) (refs t) -> Forall (ref_ok (st_store G)) (refs t) -> midx t ->
    Drained (st_store G) t -> waits_for_writer G t.
Proof.
  intros fuel G rs rp HW [K1 K2] (M1 & M2 & M3) HF HB.
  assert (Hacy : acyclic (st_store G)) by apply HW.
  assert (Hfok : forall F, In F (st_fwds G) -> Forall (ref_ok (st_store G)) (refs (f_src F))).
  { intros F Hin. destruct HW as (_ & W2 & _). rewrite Forall_forall in *. intros r Hr. apply W2.
    unfold all_refs. apply in_or_app. right. apply in_or_app. right. unfold frefs. apply in_flat_map. eauto. }
  assert (Hpok : forall q Q, nth_error (parents (st_store G)) q = Some Q -> Forall (ref_ok (st_store G)) (refs (p_src Q))).
  { intros q Q HQ. destruct HW as (_ & W2 & _). rewrite Forall_forall in *. intros r Hr. apply W2.
    unfold all_refs. apply in_or_app. right. apply in_or_app. left. unfold prefs. apply in_flat_map.
    exists Q. split; auto. eapply nth_error_In; eauto. }
  induction n as [|n IHn]; intros t.
  - induction t as [d rest | sid | sts ch | f src IHs cin cout | p i]; intros Hr Hok Hm Hd.
    + inversion Hd.
    + inversion Hr; subst. simpl in *. lia.
    + inversion Hd as [ | sts0 ch0 Hne Hall | | ]; subst. destruct ch as [|i0 ch']; [congruence|]. simpl in Hm. inversion Hm; subst.
      destruct (nth_error sts i0) as [sid|] eqn:Es; [|apply nth_error_None in Es; lia].
      simpl in Hr. rewrite Forall_forall in Hr. specialize (Hr (RS sid) (in_map RS _ _ (nth_error_In _ _ Es))). simpl in Hr. lia.
    + inversion Hd as [ | | f0 src0 cin0 cout0 Hd0 | ]; subst. simpl in *. destruct (IHs Hr Hok Hm Hd0) as (u & s & D & R). exists u, s. split; [constructor; exact D | exact R].
    + inversion Hr; subst. simpl in *. lia.
  - assert (Hstream : forall sid, rs sid < S n -> sid < List.length (streams (st_store G)) ->
                        sempty (st_store G) sid -> waits_for_writer G (RStr sid)).
    { intros sid Hlt Hin (s & Hs & Hb & Hc).
      destruct (s_user s) eqn:Eu.
      - exists sid, s. split; [eapply DV_user; eauto|]. repeat split; auto. intros x. apply send_empty_no_block. exact Hb.
      - destruct (HF _ _ Hs Eu Hc) as (k & F & Hk & Hd & Ha). pose proof (nth_error_In _ _ Hk) as HinF.
        pose proof (HB F HinF) as Hbl. unfold fwd_blocked in Hbl.
        destruct Ha as [Ha|[x Ha]]; rewrite Ha in Hbl.
        + destruct Hbl as (ch & ch1 & Er). apply recv_Recv in Er.
          pose proof (Recv_block_drained _ _ _ _ _ Er eq_refl Hacy) as Hdr.
          destruct (IHn (f_src F)) as (u & s0 & D & R); auto.
          * specialize (K1 F HinF). rewrite Hd in K1. eapply Forall_impl; [|exact K1]. simpl. intros r Hr. lia.
          * rewrite Forall_forall in M3. apply M3. exact HinF.
          * exists u, s0. split; [eapply DV_fwd; eauto | exact R].
        + exfalso. destruct Hbl as (d & Hdn & Hsb). rewrite Hd, Hs in Hdn. inversion Hdn; subst d.
          apply (send_empty_no_block s x Hb). exact Hsb. }
    induction t as [d rest | sid | sts ch | f src IHs cin cout | p i]; intros Hr Hok Hm Hd.
    + inversion Hd.
    + inversion Hd as [sid0 Hse | | | ]; subst. inversion Hr; subst. inversion Hok; subst. simpl in *. apply Hstream; auto.
    + inversion Hd as [ | sts0 ch0 Hne Hall | | ]; subst. destruct ch as [|i0 ch']; [congruence|]. simpl in Hm. inversion Hm; subst.
      destruct (nth_error sts i0) as [sid|] eqn:Es; [|apply nth_error_None in Es; lia].
      pose proof (nth_error_In _ _ Es) as Hin.
      simpl in Hr, Hok. rewrite Forall_forall in Hr, Hok.
      pose proof (Hr (RS sid) (in_map RS _ _ Hin)) as Hr1. pose proof (Hok (RS sid) (in_map RS _ _ Hin)) as Hok1. simpl in Hr1, Hok1.
      destruct (nth_error (streams (st_store G)) sid) as [s|] eqn:Ess; [|apply nth_error_None in Ess; lia].
      destruct (stream_ready_false _ _ _ Ess (Hall i0 sid (or_introl eq_refl) Es)) as [Hb Hc].
      destruct (Hstream sid Hr1 Hok1) as (u & s0 & D & R); [exists s; auto|].
      exists u, s0. split; [eapply DV_mul; eauto | exact R].
    + inversion Hd as [ | | f0 src0 cin0 cout0 Hd0 | ]; subst. simpl in *. destruct (IHs Hr Hok Hm Hd0) as (u & s & D & R). exists u, s. split; [constructor; exact D | exact R].
    + inversion Hd as [ | | | p0 i0 P c HP Hc Hi He Hd0]; subst. inversion Hr; subst. simpl in *.
      destruct (IHn (p_src P)) as (u & s & D & R); auto.
      * specialize (K2 _ _ HP). eapply Forall_impl; [|exact K2]. simpl. intros r Hr0. lia.
      * eapply Hpok; eauto.
      * unfold pmidx in M2. exact (Forall_nth_error _ _ _ _ _ M2 HP).
      * exists u, s. split; [eapply DV_child; eauto | exact R].
Qed.

(* ------------------------------------------------------------------ statements over runs *)

(* a Recv that returns "would block" leaves the reader of that handle drained *)
Lemma run_recv_block_drained : forall fuel ops bs G, run fuel init_state ops = (bs, G) ->
  forall h ch G', do_op fuel G (ORecv h ch) = (BRecv PBlock, G') ->
  exists H', nth_error (st_handles G') h = Some H' /\ h_live H' = true /\ Drained (st_store G') (h_rd H').
Proof.
  intros fuel ops bs G Hrun h ch G' H. pose proof (reachable_wf _ _ _ _ Hrun) as HW. simpl in H.
  destruct (nth_error (st_handles G) h) as [Hh|] eqn:Eh; [|discriminate].
  destruct (negb (h_live Hh)); [discriminate|].
  destruct (recv fuel (st_store G) (h_rd Hh) ch) as [[[r st1] t1] ch1] eqn:Er.
  inversion H; subst; clear H. apply recv_Recv in Er. eexists. simpl.
  split; [apply nth_error_upd_eq; apply nth_error_Some; congruence|]. simpl. split; auto.
  eapply Recv_block_drained; eauto. apply HW.
Qed.

(* no_internal_deadlock: in a reachable state in which every forwarder goroutine is blocked
   (or has finished), a live reader that is drained — on which Recv blocks — derives from a
   user pipe that is empty and not yet closed by its writer, and a Send on that pipe cannot
   block.  Equivalently: whenever a Recv blocks, a forwarder goroutine can take a step or the
   reader waits for a writer that is free to act. *)
Lemma run_drained_waits : forall fuel ops bs G, run fuel init_state ops = (bs, G) ->
  (forall F, In F (st_fwds G) -> fwd_blocked fuel G F) ->
  forall h H, nth_error (st_handles G) h = Some H -> h_live H = true ->
    Drained (st_store G) (h_rd H) -> waits_for_writer G (h_rd H).
Proof.
  intros fuel ops bs G Hrun HB h H Hn Hlv Hd.
  pose proof (reachable_wf _ _ _ _ Hrun) as HW. destruct (reachable_ranked _ _ _ _ Hrun) as (rs & rp & HK).
  pose proof (run_midx _ _ _ _ _ Hrun init_midx) as HM. pose proof (run_feeds _ _ _ _ _ Hrun init_feeds) as HF.
  assert (Hok : Forall (ref_ok (st_store G)) (refs (h_rd H))).
  { destruct HW as (_ & W2 & _). rewrite Forall_forall in *. intros r Hr. apply W2.
    unfold all_refs. apply in_or_app. left. apply in_flat_map. exists H. split; [eapply nth_error_In; eauto|].
    unfold hrefs. rewrite Hlv. exact Hr. }
  eapply (drained_cause fuel G rs rp HW HK HM HF HB (S (list_max (map (rkr rs rp) (refs (h_rd H)))))); auto.
  - rewrite Forall_forall. intros r Hr. apply Nat.lt_succ_r. apply list_max_ge. apply in_map. exact Hr.
  - destruct HM as (M1 & _). exact (Forall_nth_error _ _ _ _ _ M1 Hn).
Qed.
