(* Proofs/StreamProg.v — property C08, "none of these operations can deadlock": the goroutines
   the library starts never wait for each other.

   [Drained st t]: reader t has nothing to hand out and has not ended — exactly the situation
   in which Recv blocks ([recv_block_drained]).  [fwd_blocked]: a forwarder goroutine (toStream)
   is blocked in its own Recv or Send, or has finished.  Main result
   ([drained_waits_for_writer]): in a reachable state in which every forwarder goroutine is
   blocked or finished, a drained reader derives from a *user* pipe that is empty and whose
   writer has not closed — and a Send on that pipe cannot block.  So whenever a Recv blocks,
   either some forwarder goroutine can take a step, or the reader is waiting for a writer that
   is itself free to act: there is no cycle of waiting among the library's goroutines. *)
From Eino Require Import Base.Util Model.Stream Proofs.Stream Proofs.StreamRel Proofs.StreamWf Proofs.StreamClose Proofs.StreamRank.
From Coq Require Import Lia Permutation.

(* ------------------------------------------------------------------ chosen lists index the sources *)

Fixpoint midx (t : rd) : Prop :=
  match t with
  | RMul sts ch => Forall (fun i => i < List.length sts) ch
  | RConv _ src _ _ => midx src
  | _ => True
  end.

Definition pmidx (st : store) : Prop := Forall (fun Q => midx (p_src Q)) (parents st).

Definition midx_state (G : state) : Prop :=
  Forall (fun H => midx (h_rd H)) (st_handles G)
  /\ pmidx (st_store G)
  /\ Forall (fun F => midx (f_src F)) (st_fwds G).

Lemma In_remove_nat_sub : forall i l x, In x (remove_nat i l) -> In x l.
Proof.
  induction l as [|y l IH]; intros x H; simpl in *; auto.
  destruct (Nat.eqb i y); [right; exact H|]. destruct H as [H|H]; auto.
Qed.

Lemma Recv_midx : forall st t r st' t', Recv st t r st' t' -> midx t -> pmidx st -> midx t' /\ pmidx st'.
Proof.
  intros st t r st' t' H. unfold pmidx.
  induction H; intros Ht Hp; auto.
  - (* retire *) apply IHRecv; auto. simpl in *. rewrite Forall_forall in *. intros x Hx. apply Ht.
    eapply In_remove_nat_sub; eauto.
  - (* conv item *) simpl in *. apply IHRecv; auto.
  - (* conv skip *) simpl in *. destruct (IHRecv1 Ht Hp) as [A B]. apply IHRecv2; auto.
  - (* conv other *) simpl in *. apply IHRecv; auto.
  - (* child have *) split; auto. simpl. apply Forall_upd; auto. simpl. exact (Forall_nth_error _ _ _ _ _ Hp H).
  - (* child eof *) split; auto. simpl. apply Forall_upd; auto. simpl. exact (Forall_nth_error _ _ _ _ _ Hp H).
  - destruct (IHRecv (Forall_nth_error _ _ _ _ _ Hp H) Hp) as [A B]. split; auto. simpl. apply Forall_upd; auto.
  - destruct (IHRecv (Forall_nth_error _ _ _ _ _ Hp H) Hp) as [A B]. split; auto. simpl. apply Forall_upd; auto.
  - destruct (IHRecv (Forall_nth_error _ _ _ _ _ Hp H) Hp) as [A B]. split; auto. simpl. apply Forall_upd; auto.
Qed.

Lemma Forall_Forall2 : forall A (P : A -> Prop) (R : A -> A -> Prop) l l',
  (forall a b, R a b -> P a -> P b) -> Forall2 R l l' -> Forall P l -> Forall P l'.
Proof.
  intros A P R l l' HR H. induction H; intros HF; constructor; inversion HF; subst; eauto.
Qed.

Lemma Close_pmidx : forall st t c st', Close st t c st' -> pmidx st -> pmidx st'.
Proof.
  intros st t c st' H Hp. destruct (Close_static _ _ _ _ H) as [_ HF]. unfold pmidx in *.
  eapply Forall_Forall2; [|exact HF|exact Hp]. intros a b (E & _) Ha. simpl in *. rewrite E. exact Ha.
Qed.

Lemma midx_fresh_mul : forall ss, midx (RMul ss (seq 0 (List.length ss))).
Proof. intros ss. simpl. apply Forall_forall. intros i Hi. apply in_seq in Hi. lia. Qed.

Lemma consume_midx : forall G h,
  Forall (fun H => midx (h_rd H)) (st_handles G) -> Forall (fun H => midx (h_rd H)) (st_handles (consume G h)).
Proof.
  intros G h HF. unfold consume. destruct (nth_error (st_handles G) h) as [H|] eqn:E; auto.
  simpl. apply Forall_upd; auto. simpl. exact (Forall_nth_error _ _ _ _ _ HF E).
Qed.

Lemma consume_all_midx : forall hs G,
  Forall (fun H => midx (h_rd H)) (st_handles G) -> Forall (fun H => midx (h_rd H)) (st_handles (consume_all G hs)).
Proof. induction hs as [|h r IH]; intros G HG; simpl; auto. apply IH. apply consume_midx. exact HG. Qed.

Lemma live_rd_midx : forall G h t, Forall (fun H => midx (h_rd H)) (st_handles G) -> live_rd G h = Some t -> midx t.
Proof.
  intros G h t HF Hl. destruct (live_rd_nth _ _ _ Hl) as (H & Hn & _ & <-). exact (Forall_nth_error _ _ _ _ _ HF Hn).
Qed.

Lemma live_rds_midx : forall G hs ts, Forall (fun H => midx (h_rd H)) (st_handles G) ->
  live_rds G hs = Some ts -> Forall midx ts.
Proof.
  intros G. induction hs as [|h r IH]; intros ts HG H; simpl in H.
  - inversion H; subst. constructor.
  - destruct (live_rd G h) as [t|] eqn:E; [|discriminate].
    destruct (live_rds G r) as [ts'|] eqn:E'; [|discriminate].
    inversion H; subst. constructor; [eapply live_rd_midx; eauto | apply IH; auto].
Qed.

Lemma merge_collect_midx : forall ts st fw ss arr st' fw' ss' arr',
  merge_collect st fw ts ss arr = (st', fw', ss', arr') ->
  Forall (fun F => midx (f_src F)) fw -> Forall midx ts -> Forall (fun F => midx (f_src F)) fw'.
Proof.
  intros ts st fw ss arr st' fw' ss' arr' H Hfw Hts. apply Forall_forall. intros F Hin.
  destruct (merge_collect_fwds _ _ _ _ _ _ _ _ _ H F Hin) as [Ho|[Hs _]].
  - rewrite Forall_forall in Hfw. auto.
  - rewrite Forall_forall in Hts. auto.
Qed.

Lemma do_op_midx : forall fuel G o b G', do_op fuel G o = (b, G') -> midx_state G -> midx_state G'.
Proof.
  intros fuel G o b G' H HG. pose proof HG as (H1 & H2 & H3). unfold midx_state.
  destruct o as [cap | xs | h n | hs | h f | sid x | sid | h ch | h | k ch]; simpl in H.
  - inversion H; subst; clear H. simpl. repeat split; auto. apply Forall_app. split; auto. repeat constructor.
  - inversion H; subst; clear H. simpl. repeat split; auto. apply Forall_app. split; auto. repeat constructor.
  - destruct (live_rd G h) as [t|] eqn:El; [|inversion H; subst; auto].
    destruct (Nat.ltb n 2); [inversion H; subst; auto|].
    pose proof (live_rd_midx _ _ _ H1 El) as Ht. pose proof (consume_midx G h H1) as C2.
    destruct t; inversion H; subst; clear H; simpl; rewrite ?consume_store, ?consume_fwds; repeat split; auto;
      try (apply Forall_app; split; [exact C2|]);
      try (apply Forall_repeat; simpl; auto; fail);
      try (apply Forall_forall; intros Hh Hin; apply in_map_iff in Hin; destruct Hin as (i & <- & _); simpl; auto; fail);
      try (unfold pmidx; simpl; apply Forall_app; split; [exact H2 | repeat constructor; exact Ht]).
  - destruct hs as [|h0 [|h1 hs']]; [inversion H; subst; auto| |].
    { destruct (live_rd G h0); inversion H; subst; auto. }
    destruct (negb (nodupb (h0 :: h1 :: hs'))); [inversion H; subst; auto|].
    destruct (live_rds G (h0 :: h1 :: hs')) as [ts|] eqn:El; [|inversion H; subst; auto].
    pose proof (live_rds_midx _ _ _ H1 El) as Hts.
    pose proof (consume_all_midx (h0 :: h1 :: hs') G H1) as C2.
    rewrite consume_all_store, consume_all_fwds in H.
    destruct (merge_collect _ _ ts [] []) as [[[st1 fw1] ss] arr] eqn:Em.
    pose proof (merge_collect_midx _ _ _ _ _ _ _ _ _ Em H3 Hts) as Hfw1.
    destruct (merge_collect_spec _ _ _ _ _ _ _ _ _ Em) as (Hp1 & _).
    assert (Hpm : pmidx st1) by (unfold pmidx; rewrite Hp1; exact H2).
    destruct ss as [|s0 ss']; destruct arr as [|a0 arr']; inversion H; subst; clear H; simpl; repeat split; auto;
      try (apply Forall_app; split; [exact C2 | repeat constructor]);
      try (apply Forall_forall; intros i Hi; apply in_seq in Hi; simpl in *; lia).
    + simpl. rewrite app_length. simpl. constructor; [lia|].
      apply Forall_forall. intros i Hi. apply in_seq in Hi. lia.
  - destruct (live_rd G h) as [t|] eqn:El; [|inversion H; subst; auto].
    pose proof (live_rd_midx _ _ _ H1 El) as Ht. pose proof (consume_midx G h H1) as C2.
    inversion H; subst. simpl. rewrite consume_store, consume_fwds. repeat split; auto.
    apply Forall_app. split; auto. repeat constructor. exact Ht.
  - destruct (nth_error (streams (st_store G)) sid) as [s|] eqn:Es; [|inversion H; subst; auto].
    destruct (negb (s_user s)); [inversion H; subst; auto|].
    destruct (stream_send s x) as [r s'] eqn:E. inversion H; subst. simpl. repeat split; auto.
  - destruct (nth_error (streams (st_store G)) sid) as [s|] eqn:Es; [|inversion H; subst; auto].
    destruct (negb (s_user s)); [inversion H; subst; auto|].
    destruct (stream_close_send s) as [r s'] eqn:E. inversion H; subst. simpl. repeat split; auto.
  - destruct (nth_error (st_handles G) h) as [Hh|] eqn:Eh; [|inversion H; subst; auto].
    destruct (negb (h_live Hh)); [inversion H; subst; auto|].
    destruct (recv fuel (st_store G) (h_rd Hh) ch) as [[[r st1] t1] ch1] eqn:Er.
    inversion H; subst. apply recv_Recv in Er.
    destruct (Recv_midx _ _ _ _ _ Er (Forall_nth_error _ _ _ _ _ H1 Eh) H2) as [A B].
    simpl. repeat split; auto. apply Forall_upd; auto.
  - destruct (nth_error (st_handles G) h) as [Hh|] eqn:Eh; [|inversion H; subst; auto].
    destruct (negb (h_live Hh)); [inversion H; subst; auto|].
    destruct (close_rd fuel (st_store G) (h_rd Hh)) as [r st1] eqn:Er.
    inversion H; subst. apply close_Close in Er. simpl. repeat split; auto.
    + apply Forall_upd; auto. simpl. exact (Forall_nth_error _ _ _ _ _ H1 Eh).
    + eapply Close_pmidx; eauto.
  - destruct (nth_error (st_fwds G) k) as [F|] eqn:EF; [|inversion H; subst; auto].
    pose proof (Forall_nth_error _ _ _ _ _ H3 EF) as HmF.
    destruct (f_st F) as [|x| |].
    + destruct (recv fuel (st_store G) (f_src F) ch) as [[[r st1] src1] ch1] eqn:Er.
      apply recv_Recv in Er. destruct (Recv_midx _ _ _ _ _ Er HmF H2) as [A B].
      destruct r; try (inversion H; subst; simpl; repeat split; auto; apply Forall_upd; auto; fail).
      destruct (nth_error (streams st1) (f_dst F)) as [d|] eqn:Ed; [|inversion H; subst; auto].
      destruct (stream_close_send d) as [r0 d'] eqn:Ec. inversion H; subst. simpl. repeat split; auto. apply Forall_upd; auto.
    + destruct (nth_error (streams (st_store G)) (f_dst F)) as [d|] eqn:Ed; [|inversion H; subst; auto].
      destruct (stream_send d x) as [r d'] eqn:Es.
      destruct r; try (inversion H; subst; simpl; repeat split; auto; try (apply Forall_upd; auto); fail).
      destruct (stream_close_send d) as [r0 d''] eqn:Ec. inversion H; subst. simpl. repeat split; auto. apply Forall_upd; auto.
    + destruct (close_rd fuel (st_store G) (f_src F)) as [r st1] eqn:Er.
      inversion H; subst. apply close_Close in Er. simpl. repeat split; auto.
      * eapply Close_pmidx; eauto.
      * apply Forall_upd; auto.
    + inversion H; subst; auto.
Qed.

Lemma init_midx : midx_state init_state.
Proof. repeat split; simpl; constructor. Qed.

Lemma run_midx : forall fuel ops G bs G', run fuel G ops = (bs, G') -> midx_state G -> midx_state G'.
Proof.
  intros fuel. induction ops as [|o r IH]; intros G bs G' H HG; simpl in H.
  - inversion H; subst; auto.
  - destruct (do_op fuel G o) as [b G1] eqn:E1. destruct (run fuel G1 r) as [bs2 G2] eqn:E2.
    inversion H; subst. eapply IH; eauto. eapply do_op_midx; eauto.
Qed.
