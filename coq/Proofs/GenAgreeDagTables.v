(* Proofs/GenAgreeDagTables.v — property C02, translator tie for the predecessor tables of graph.compile.

   Gen/DagTablesCode.v is regenerated on every run by tools/go2v (extractor "dagtables") from compose/graph.go:
   [predecessorTables] is the translation of the statements of graph.compile that fill controlPredecessors and
   dataPredecessors (one loop over g.controlEdges, one over g.dataEdges, one over g.branches).  This file proves,
   for every graph of Model/Graph.v (the tables handed to the Go code being the successor lists and branches of
   its nodes, in the order of g_nodes — Go ranges over maps, the model fixes the order):

     gen_control_table / gen_data_table   the list the Go code stores for a target t is, node by node, one entry
                                          per control (data) edge to t followed by one entry per branch (per
                                          branch with data flow) that has t among its end nodes;
     gen_cpreds_agrees / gen_dpreds_agrees  hence its ELEMENTS are exactly [cpreds g t] / [dpreds g t] of
                                          Model/Graph.v — the sets the channels of the run are built from
                                          (dagChannelBuilder turns the list into the keys of a map) and by which
                                          updateValues / updateDependencies filter;
     gen_control_table_length             and its LENGTH is [indeg (g_nodes g) t] of Model/DagValidate.v: the
                                          in-degree validateDAG starts from counts one per edge and one per branch
                                          (a branch lists an end node once: its endNodes is a Go map).          *)
From Eino Require Import Base.Util Model.Graph Model.DagValidate Model.DagGenLib Proofs.DagChan.
From Eino Require Gen.DagTablesCode.
From Coq Require Import Lia.
Open Scope N_scope.

Module GT := Gen.DagTablesCode.

(* ---------------------------------------------------------------- one entry appended to a table *)

Definition add_pred (t p : key) (m : list (key * list key)) : list (key * list key) :=
  let ok := km_has t m in
  if negb ok then km_set t [p] m else km_set t (km_at t m ++ [p]) m.

Lemma add_pred_at : forall t p m t',
  km_at t' (add_pred t p m) = if N.eqb t' t then km_at t m ++ [p] else km_at t' m.
Proof.
  intros t p m t'. unfold add_pred, km_has, km_at, km_set.
  destruct (N.eqb_spec t' t) as [->|Hne].
  - destruct (alookup t m); simpl; rewrite alookup_ainsert_eq; reflexivity.
  - destruct (alookup t m); simpl; rewrite alookup_ainsert_neq by exact Hne; reflexivity.
Qed.

Lemma add_preds_at : forall p ts m t',
  km_at t' (fold_left (fun m e => add_pred e p m) ts m) = km_at t' m ++ repeat p (count_occ N.eq_dec ts t').
Proof.
  intros p ts. induction ts as [|e ts IH]; intros m t'; simpl; [rewrite app_nil_r; reflexivity|].
  rewrite IH, add_pred_at. destruct (N.eq_dec e t') as [->|Hne].
  - rewrite N.eqb_refl. simpl. rewrite <- app_assoc. reflexivity.
  - destruct (N.eqb_spec t' e) as [->|_]; [congruence|reflexivity].
Qed.

(* a loop over (source, targets) entries *)
Lemma edges_loop_at : forall (es : list (key * list key)) m t',
  km_at t' (fold_left (fun m (x : key * list key) => fold_left (fun m e => add_pred e (fst x) m) (snd x) m) es m)
  = km_at t' m ++ flat_map (fun x => repeat (fst x) (count_occ N.eq_dec (snd x) t')) es.
Proof.
  intros es. induction es as [|x es IH]; intros m t'; simpl; [rewrite app_nil_r; reflexivity|].
  rewrite IH, add_preds_at, <- app_assoc. reflexivity.
Qed.

(* the loop over (source, branches) entries, on the pair of tables *)
Definition br_inner (start : key) (b : branch) :=
  fun (st_ : list (key * list key) * list (key * list key)) (e : key) =>
    let '(dp, cp) := st_ in
    (if negb (b_nodata b) then add_pred e start dp else dp, add_pred e start cp).

Lemma br_inner_loop : forall start b ends dp cp,
  fold_left (br_inner start b) ends (dp, cp)
  = (if negb (b_nodata b) then fold_left (fun m e => add_pred e start m) ends dp else dp,
     fold_left (fun m e => add_pred e start m) ends cp).
Proof.
  intros start b ends. induction ends as [|e ends IH]; intros dp cp; simpl; [destruct (negb (b_nodata b)); reflexivity|].
  rewrite IH. destruct (negb (b_nodata b)); reflexivity.
Qed.

Definition data_ends (b : branch) : list key := if b_nodata b then [] else b_ends b.

Definition br_step := fun (st_ : list (key * list key) * list (key * list key)) (x : key * list branch) =>
  fold_left (fun st_ b => fold_left (br_inner (fst x) b) (b_ends b) st_) (snd x) st_.

Lemma br_mid_at : forall start bs dp cp dp' cp' t',
  fold_left (fun st_ b => fold_left (br_inner start b) (b_ends b) st_) bs (dp, cp) = (dp', cp') ->
  km_at t' cp' = km_at t' cp ++ flat_map (fun b => repeat start (count_occ N.eq_dec (b_ends b) t')) bs
  /\ km_at t' dp' = km_at t' dp ++ flat_map (fun b => repeat start (count_occ N.eq_dec (data_ends b) t')) bs.
Proof.
  intros start bs. induction bs as [|b bs IH]; intros dp cp dp' cp' t' E; simpl in *.
  - inversion E; subst. rewrite !app_nil_r. split; reflexivity.
  - rewrite br_inner_loop in E. apply IH with (t' := t') in E. destruct E as [H1 H2]. rewrite H1, H2. split.
    + rewrite add_preds_at, <- app_assoc. reflexivity.
    + unfold data_ends. destruct (b_nodata b); simpl; [reflexivity|]. rewrite add_preds_at, <- app_assoc. reflexivity.
Qed.

Lemma br_loop_at : forall (es : list (key * list branch)) dp cp dp' cp' t',
  fold_left br_step es (dp, cp) = (dp', cp') ->
  km_at t' cp' = km_at t' cp ++ flat_map (fun x => flat_map (fun b => repeat (fst x) (count_occ N.eq_dec (b_ends b) t')) (snd x)) es
  /\ km_at t' dp' = km_at t' dp ++ flat_map (fun x => flat_map (fun b => repeat (fst x) (count_occ N.eq_dec (data_ends b) t')) (snd x)) es.
Proof.
  intros es. induction es as [|x es IH]; intros dp cp dp' cp' t' E; simpl in *.
  - inversion E; subst. rewrite !app_nil_r. split; reflexivity.
  - destruct (br_step (dp, cp) x) as [dp1 cp1] eqn:E1. unfold br_step in E1.
    apply br_mid_at with (t' := t') in E1. destruct E1 as [Hc Hd].
    apply IH with (t' := t') in E. destruct E as [H1 H2]. rewrite H1, H2, Hc, Hd, <- !app_assoc. split; reflexivity.
Qed.

(* the step functions in the shape the translator emits them (tuples are taken apart by a match) *)
Lemma fold_left_ext_eq : forall {A B} (f g : A -> B -> A) l a,
  (forall a b, f a b = g a b) -> fold_left f l a = fold_left g l a.
Proof. intros A B f g l; induction l as [|b l IH]; intros a H; simpl; [reflexivity|]. rewrite H. apply IH, H. Qed.

Definition T2 := (list (key * list key) * list (key * list key))%type.

Lemma let_pair_eta : forall {A B} (p : A * B), (let '(a, b) := p in (a, b)) = p.
Proof. intros A B [a b]. reflexivity. Qed.

Definition g_inner (start : key) (branch : branch) := fun (st_ : T2) (x_ : key) =>
  let '(dataPredecessors, controlPredecessors) := st_ in let end_ := x_ in
  let ok := km_has end_ controlPredecessors in
  let controlPredecessors := (if (negb ok) then (let controlPredecessors := km_set end_ [start] controlPredecessors in controlPredecessors)
                              else (let controlPredecessors := km_set end_ ((km_at end_ controlPredecessors) ++ [start]) controlPredecessors in controlPredecessors)) in
  let dataPredecessors := (if (negb (b_nodata branch)) then (let ok := km_has end_ dataPredecessors in
      let dataPredecessors := (if (negb ok) then (let dataPredecessors := km_set end_ [start] dataPredecessors in dataPredecessors)
                               else (let dataPredecessors := km_set end_ ((km_at end_ dataPredecessors) ++ [start]) dataPredecessors in dataPredecessors)) in
      dataPredecessors) else dataPredecessors) in
  (dataPredecessors, controlPredecessors).

Definition g_mid (start : key) := fun (st_ : T2) (x_ : branch) =>
  let '(dataPredecessors, controlPredecessors) := st_ in let branch := x_ in
  let '(dataPredecessors, controlPredecessors) :=
    fold_left (g_inner start branch) (b_ends branch) (dataPredecessors, controlPredecessors) in
  (dataPredecessors, controlPredecessors).

Definition g_outer := fun (st_ : T2) (x_ : key * list branch) =>
  let '(dataPredecessors, controlPredecessors) := st_ in let start := fst x_ in let branches := snd x_ in
  let '(dataPredecessors, controlPredecessors) := fold_left (g_mid start) branches (dataPredecessors, controlPredecessors) in
  (dataPredecessors, controlPredecessors).

Lemma g_inner_eq : forall start b st e, g_inner start b st e = br_inner start b st e.
Proof. intros start b [dp cp] e. reflexivity. Qed.

Lemma g_mid_eq : forall start st b, g_mid start st b = fold_left (br_inner start b) (b_ends b) st.
Proof.
  intros start [dp cp] b. unfold g_mid. rewrite (fold_left_ext_eq _ _ _ _ (g_inner_eq start b)).
  apply let_pair_eta.
Qed.

Lemma g_outer_eq : forall st x, g_outer st x = br_step st x.
Proof.
  intros [dp cp] x. unfold g_outer, br_step. rewrite (fold_left_ext_eq _ _ _ _ (g_mid_eq (fst x))).
  apply let_pair_eta.
Qed.

(* ---------------------------------------------------------------- the tables of a graph of the model *)

Definition control_edges (g : graph) : list (key * list key) := map (fun n => (n_key n, n_csucc n)) (g_nodes g).
Definition data_edges (g : graph) : list (key * list key) := map (fun n => (n_key n, n_dsucc n)) (g_nodes g).
Definition branch_table (g : graph) : list (key * list branch) := map (fun n => (n_key n, n_branches n)) (g_nodes g).

Definition gen_tables (g : graph) : list (key * list key) * list (key * list key) :=
  GT.predecessorTables branch b_ends b_nodata (control_edges g) (data_edges g) (branch_table g).

Definition control_spec (g : graph) (t : key) : list key :=
  flat_map (fun n => repeat (n_key n) (count_occ N.eq_dec (n_csucc n) t)) (g_nodes g)
  ++ flat_map (fun n => flat_map (fun b => repeat (n_key n) (count_occ N.eq_dec (b_ends b) t)) (n_branches n)) (g_nodes g).
Definition data_spec (g : graph) (t : key) : list key :=
  flat_map (fun n => repeat (n_key n) (count_occ N.eq_dec (n_dsucc n) t)) (g_nodes g)
  ++ flat_map (fun n => flat_map (fun b => repeat (n_key n) (count_occ N.eq_dec (data_ends b) t)) (n_branches n)) (g_nodes g).

Lemma flat_map_map : forall {A B C} (f : A -> B) (h : B -> list C) l, flat_map h (map f l) = flat_map (fun a => h (f a)) l.
Proof. intros A B C f h l. induction l as [|a l IH]; simpl; [reflexivity|]. rewrite IH. reflexivity. Qed.

Theorem gen_control_table : forall g t, km_at t (fst (gen_tables g)) = control_spec g t.
Proof.
  intros g t. unfold gen_tables, GT.predecessorTables.
  match goal with |- km_at t (fst (let '(a, b) := ?X in _)) = _ => destruct X as [dp cp] eqn:E end.
  change (fun (st_ : list (key * list key) * list (key * list key)) (x_ : key * list branch) => _) with g_outer in E.
  rewrite (fold_left_ext_eq _ _ _ _ g_outer_eq) in E.
  apply br_loop_at with (t' := t) in E. destruct E as [H _]. cbn [fst snd]. rewrite H.
  change (fun (st_ : list (key * list key)) (x_ : key * list key) => _)
    with (fun m (x : key * list key) => fold_left (fun m e => add_pred e (fst x) m) (snd x) m).
  rewrite edges_loop_at. unfold control_spec, control_edges, branch_table. rewrite !flat_map_map. reflexivity.
Qed.

Theorem gen_data_table : forall g t, km_at t (snd (gen_tables g)) = data_spec g t.
Proof.
  intros g t. unfold gen_tables, GT.predecessorTables.
  match goal with |- km_at t (snd (let '(a, b) := ?X in _)) = _ => destruct X as [dp cp] eqn:E end.
  change (fun (st_ : list (key * list key) * list (key * list key)) (x_ : key * list branch) => _) with g_outer in E.
  rewrite (fold_left_ext_eq _ _ _ _ g_outer_eq) in E.
  apply br_loop_at with (t' := t) in E. destruct E as [_ H]. cbn [fst snd]. rewrite H.
  change (fun (st_ : list (key * list key)) (x_ : key * list key) => _)
    with (fun m (x : key * list key) => fold_left (fun m e => add_pred e (fst x) m) (snd x) m).
  rewrite edges_loop_at. unfold data_spec, data_edges, branch_table. rewrite !flat_map_map. reflexivity.
Qed.

(* ---------------------------------------------------------------- elements = cpreds / dpreds *)

Lemma in_repeat_count : forall (p q : key) l t, In q (repeat p (count_occ N.eq_dec l t)) <-> q = p /\ In t l.
Proof.
  intros p q l t. split.
  - intros H. pose proof (repeat_spec _ _ _ H) as ->. split; [reflexivity|].
    apply (count_occ_In N.eq_dec). destruct (count_occ N.eq_dec l t); [destruct H|lia].
  - intros [-> H]. apply (count_occ_In N.eq_dec) in H. destruct (count_occ N.eq_dec l t); [lia|left; reflexivity].
Qed.

Lemma memb_iff_In : forall k l, memb k l = true <-> In k l.
Proof. intros k l. apply memb_in. Qed.

Theorem gen_cpreds_agrees : forall g t p, In p (km_at t (fst (gen_tables g))) <-> In p (cpreds g t).
Proof.
  intros g t p. rewrite gen_control_table. unfold control_spec, cpreds. rewrite in_app_iff, in_map_iff, !in_flat_map.
  split.
  - intros [[n [Hn H]]|[n [Hn H]]].
    + apply in_repeat_count in H. destruct H as [-> H]. exists n. split; [reflexivity|]. apply filter_In. split; [exact Hn|].
      unfold is_cpred. apply orb_true_iff. left. apply memb_iff_In. exact H.
    + apply in_flat_map in H. destruct H as [b [Hb H]]. apply in_repeat_count in H. destruct H as [-> H].
      exists n. split; [reflexivity|]. apply filter_In. split; [exact Hn|]. unfold is_cpred. apply orb_true_iff. right.
      apply memb_iff_In. unfold branch_ends_of. apply in_flat_map. exists b. split; [exact Hb|exact H].
  - intros [n [<- Hn]]. apply filter_In in Hn. destruct Hn as [Hn Hc]. unfold is_cpred in Hc. apply orb_true_iff in Hc.
    destruct Hc as [Hc|Hc]; apply memb_iff_In in Hc.
    + left. exists n. split; [exact Hn|]. apply in_repeat_count. split; [reflexivity|exact Hc].
    + right. exists n. split; [exact Hn|]. unfold branch_ends_of in Hc. apply in_flat_map in Hc. destruct Hc as [b [Hb Hc]].
      apply in_flat_map. exists b. split; [exact Hb|]. apply in_repeat_count. split; [reflexivity|exact Hc].
Qed.

Theorem gen_dpreds_agrees : forall g t p, In p (km_at t (snd (gen_tables g))) <-> In p (dpreds g t).
Proof.
  intros g t p. rewrite gen_data_table. unfold data_spec, dpreds. rewrite in_app_iff, in_map_iff, !in_flat_map.
  split.
  - intros [[n [Hn H]]|[n [Hn H]]].
    + apply in_repeat_count in H. destruct H as [-> H]. exists n. split; [reflexivity|]. apply filter_In. split; [exact Hn|].
      unfold is_dpred. apply orb_true_iff. left. apply memb_iff_In. exact H.
    + apply in_flat_map in H. destruct H as [b [Hb H]]. apply in_repeat_count in H. destruct H as [-> H].
      exists n. split; [reflexivity|]. apply filter_In. split; [exact Hn|]. unfold is_dpred. apply orb_true_iff. right.
      apply memb_iff_In. unfold branch_ends_of. apply in_flat_map. exists b. split; [exact Hb|].
      unfold data_ends in H. simpl. destruct (b_nodata b); [destruct H|exact H].
  - intros [n [<- Hn]]. apply filter_In in Hn. destruct Hn as [Hn Hc]. unfold is_dpred in Hc. apply orb_true_iff in Hc.
    destruct Hc as [Hc|Hc]; apply memb_iff_In in Hc.
    + left. exists n. split; [exact Hn|]. apply in_repeat_count. split; [reflexivity|exact Hc].
    + right. exists n. split; [exact Hn|]. unfold branch_ends_of in Hc. apply in_flat_map in Hc. destruct Hc as [b [Hb Hc]].
      apply in_flat_map. exists b. split; [exact Hb|]. apply in_repeat_count. split; [reflexivity|].
      unfold data_ends. simpl in Hc. destruct (b_nodata b); [destruct Hc|exact Hc].
Qed.

(* ---------------------------------------------------------------- length = in-degree of validateDAG *)

Lemma count_occ_NoDup_memb : forall l t, NoDup l -> count_occ N.eq_dec l t = if memb t l then 1%nat else 0%nat.
Proof.
  intros l t H. destruct (memb t l) eqn:E.
  - apply memb_iff_In in E. apply (NoDup_count_occ' N.eq_dec) in E; assumption.
  - apply (count_occ_not_In N.eq_dec). intros Hin. apply memb_iff_In in Hin. congruence.
Qed.

Lemma length_flat_repeat_branches : forall (p : key) t (bs : list branch),
  (forall b, In b bs -> NoDup (b_ends b)) ->
  List.length (flat_map (fun b => repeat p (count_occ N.eq_dec (b_ends b) t)) bs)
  = List.length (filter (fun b => memb t (b_ends b)) bs).
Proof.
  intros p t bs. induction bs as [|b bs IH]; intros H; simpl; [reflexivity|].
  rewrite app_length, repeat_length, IH by (intros b' Hb'; apply H; right; exact Hb').
  rewrite count_occ_NoDup_memb by (apply H; left; reflexivity).
  destruct (memb t (b_ends b)); simpl; reflexivity.
Qed.

Theorem gen_control_table_length : forall g t,
  (forall n b, In n (g_nodes g) -> In b (n_branches n) -> NoDup (b_ends b)) ->
  List.length (km_at t (fst (gen_tables g))) = indeg (g_nodes g) t.
Proof.
  intros g t H. rewrite gen_control_table. unfold control_spec, indeg. rewrite app_length.
  induction (g_nodes g) as [|n ns IH]; simpl; [reflexivity|].
  rewrite !app_length, repeat_length, length_flat_repeat_branches by (intros b Hb; apply (H n b); [left; reflexivity|exact Hb]).
  unfold cmult in *. rewrite <- IH by (intros n' b Hn' Hb; apply (H n' b); [right; exact Hn'|exact Hb]). lia.
Qed.

Print Assumptions gen_control_table.
Print Assumptions gen_data_table.
Print Assumptions gen_cpreds_agrees.
Print Assumptions gen_dpreds_agrees.
Print Assumptions gen_control_table_length.
