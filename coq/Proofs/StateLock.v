(* Proofs/StateLock.v — lemmas about the concrete critical-section function and the
   specification replay of Model/StateLock.v. *)
From Eino Require Import Base.Util Model.StateLock.
Open Scope N_scope.

Lemma cs_fun_counts_once : forall k n x s,
  s_total (snd (cs_fun k n x s)) = (s_total s + 1)%Z /\
  s_log (snd (cs_fun k n x s)) = s_log s ++ [code n k].
Proof. intros; unfold cs_fun; simpl; split; reflexivity. Qed.

(* ------------------------------------------------------------------ sanity: the LTS runs *)
From Eino Require Import Model.StateLockLTS.

Definition ex_forest : forest :=
  [ mkGraph MEager true
      [ mkNode 1 true true None 2%nat []; mkNode 2 false true None 1%nat []; mkNode 3 true false (Some 1%nat) 0%nat [];
        mkNode 4 true true None 1%nat [1; 2; 3] ];
    mkGraph MPregel false [ mkNode 5 false false None 2%nat []; mkNode 6 false false None 1%nat [5] ] ].

Definition ex_start : config sstate X :=
  match pstep sstate X gen_state cs_fun leaf_out merge ex_forest [(0, 5%Z)] (init_cfg sstate X) (ChStart 0) with
  | Some c => c | None => init_cfg sstate X end.
Definition ex_run (picks : list nat) : config sstate X :=
  run_sched sstate X gen_state cs_fun leaf_out merge ex_forest [(0, 5%Z)] ex_start picks.

Definition ex_picks1 := repeat 0%nat 200.
Definition ex_picks2 := map (fun k => (k * 7 + 3) mod 5)%nat (seq 0 200).
Definition ex_view (c : config sstate X) :=
  (all_final sstate X c, map (fun e => (t_inst e, n_id (t_node e), kcode (t_kind e))) (c_trace c),
   map (fun o => s_total (o_val o)) (c_objs c)).
Eval vm_compute in ex_view (ex_run ex_picks1).
Eval vm_compute in ex_view (ex_run ex_picks2).
