(* Proofs/StateLock.v — C11: lemmas about the concrete critical-section function of the
   harness (Model/StateLock.v part 1) on top of the generic theorems, and the concrete
   configurations used as non-vacuity examples in Props/C11.v. *)
From Eino Require Import Base.Util Model.StateLock Model.StateLockLTS Model.StateLockDrive Proofs.StateLockLTS Proofs.StateLockVal.
From Coq Require Import Lia.
Open Scope N_scope.

Lemma cs_fun_counts_once : forall k n x s,
  s_total (snd (cs_fun k n x s)) = (s_total s + 1)%Z /\
  s_log (snd (cs_fun k n x s)) = s_log s ++ [code n k].
Proof. intros; unfold cs_fun; simpl; split; reflexivity. Qed.

Definition code_of (e : tentry sstate X) : N := code (n_id (t_node e)) (t_kind e).

Lemma cs_apply_total : forall l s,
  s_total (apply_all sstate X cs_fun l s) = (s_total s + Z.of_nat (List.length l))%Z.
Proof.
  unfold apply_all. induction l as [|e l IH]; intros s.
  - simpl. lia.
  - cbn [fold_left List.length]. rewrite IH. unfold eff, cs_fun. cbn [snd s_total]. lia.
Qed.

Lemma cs_apply_log : forall l s,
  s_log (apply_all sstate X cs_fun l s) = s_log s ++ map code_of l.
Proof.
  unfold apply_all. induction l as [|e l IH]; intros s.
  - simpl. rewrite app_nil_r. reflexivity.
  - cbn [fold_left map]. rewrite IH. unfold eff, cs_fun. cbn [snd s_log]. rewrite <- app_assoc. reflexivity.
Qed.

(* the counters kept in the state count exactly the critical sections performed on it, and
   its log lists them in the order they were performed *)
Theorem final_counters_preach : forall f x0 c,
  preach sstate X gen_state cs_fun leaf_out merge f x0 c ->
  forall o r, nth_error (c_objs c) o = Some r ->
    s_total (o_val r) = (s_total (o_init r) + Z.of_nat (List.length (hist sstate X c o)))%Z /\
    s_log (o_val r) = s_log (o_init r) ++ map code_of (hist sstate X c o).
Proof.
  intros f x0 c Hr o r Ho.
  rewrite (no_lost_update_preach sstate X gen_state cs_fun leaf_out merge f x0 c Hr o r Ho).
  split; [apply cs_apply_total|apply cs_apply_log].
Qed.

(* ------------------------------------------------------------------ example configurations *)

(* eager top-level graph with state: three parallel nodes (1: pre, 2 ProcessState calls,
   post; 2: one call, post; 3: nested graph without state whose lambdas call ProcessState,
   with a pre-handler) and a join node 4 *)
Definition ex_forest : forest :=
  [ mkGraph MEager true
      [ mkNode 1 true true None 2%nat []; mkNode 2 false true None 1%nat []; mkNode 3 true false (Some 1%nat) 0%nat [];
        mkNode 4 true true None 1%nat [1; 2; 3] ];
    mkGraph MPregel false [ mkNode 5 false false None 2%nat []; mkNode 6 false false None 1%nat [5] ] ].
Definition ex_x0 : X := [(0, 5%Z)].

Notation ex_pstep := (pstep sstate X gen_state cs_fun leaf_out merge ex_forest ex_x0).
Notation ex_step := (step sstate X gen_state cs_fun leaf_out merge ex_forest ex_x0).

Definition ex_start : config sstate X :=
  match ex_step (init_cfg sstate X) (ChStart 0) with
  | Some c => c | None => init_cfg sstate X end.
Definition ex_run (picks : list nat) : config sstate X :=
  run_sched sstate X gen_state cs_fun leaf_out merge ex_forest ex_x0 ex_start picks.

Definition ex_picks1 := repeat 0%nat 200.
Definition ex_picks2 := map (fun k => (k * 7 + 3) mod 5)%nat (seq 0 200).

Lemma ex_start_reach : reach sstate X gen_state cs_fun leaf_out merge ex_forest ex_x0 ex_start.
Proof. apply reach_step with (c := init_cfg sstate X) (ch := ChStart 0); [constructor|]. vm_compute. reflexivity. Qed.

Lemma ex_run_reach : forall picks, reach sstate X gen_state cs_fun leaf_out merge ex_forest ex_x0 (ex_run picks).
Proof. intros. apply run_sched_reach. apply ex_start_reach. Qed.

(* a complete run under the run loop's scheduling constraints *)
Definition ex_final : config sstate X := ex_run ex_picks2.
(* the same run stopped while node 1 is inside its pre-handler *)
Definition ex_mid : config sstate X := ex_run (firstn 10 ex_picks2).

(* an execution of [pstep]: node 1 is inside its first ProcessState callback while node 2,
   running in parallel, is about to call ProcessState *)
Definition ex_contend_sched : list (choice sstate) :=
  [ChStart 0; ChAdv 0%nat 1; ChAdv 0%nat 2; ChAcq 0%nat 1; ChLoad 0%nat 1; ChStore 0%nat 1; ChRel 0%nat 1;
   ChAdv 0%nat 1; ChAdv 0%nat 2; ChAdv 0%nat 2; ChAcq 0%nat 1; ChLoad 0%nat 1].
Definition ex_contend : config sstate X :=
  match run_steps sstate X ex_pstep (init_cfg sstate X) ex_contend_sched with
  | Some c => c | None => init_cfg sstate X end.

Lemma ex_contend_preach : preach sstate X gen_state cs_fun leaf_out merge ex_forest ex_x0 ex_contend.
Proof.
  apply run_steps_preach with (l := ex_contend_sched) (c := init_cfg sstate X); [constructor|]. vm_compute. reflexivity.
Qed.

(* a run interrupted after the first layer and resumed with the state modifier *)
Definition ex_resume_sched : list (choice sstate) :=
  [ChStart 0; ChAdv 0%nat 2; ChAdv 0%nat 2; ChAdv 0%nat 2; ChAcq 0%nat 2; ChLoad 0%nat 2; ChStore 0%nat 2; ChRel 0%nat 2;
   ChResume 0%nat modifier;
   ChAdv 0%nat 2; ChAcq 0%nat 2; ChLoad 0%nat 2; ChStore 0%nat 2; ChRel 0%nat 2].
Definition ex_resumed : config sstate X :=
  match run_steps sstate X ex_pstep (init_cfg sstate X) ex_resume_sched with
  | Some c => c | None => init_cfg sstate X end.
Lemma ex_resumed_preach : preach sstate X gen_state cs_fun leaf_out merge ex_forest ex_x0 ex_resumed.
Proof.
  apply run_steps_preach with (l := ex_resume_sched) (c := init_cfg sstate X); [constructor|]. vm_compute. reflexivity.
Qed.

(* the system whose lock does not block: nodes 1 and 2 are inside their ProcessState
   callbacks at the same time, both work on the same copy, one update is lost *)
Definition ex_nolock_sched : list (choice sstate) :=
  [ChStart 0; ChAdv 0%nat 1; ChAdv 0%nat 2; ChAcq 0%nat 1; ChLoad 0%nat 1; ChStore 0%nat 1; ChRel 0%nat 1;
   ChAdv 0%nat 1; ChAdv 0%nat 2; ChAdv 0%nat 2;
   ChAcq 0%nat 1; ChLoad 0%nat 1; ChAcq 0%nat 2; ChLoad 0%nat 2].
Definition ex_nolock_sched2 : list (choice sstate) :=
  [ChStore 0%nat 1; ChStore 0%nat 2; ChRel 0%nat 1; ChRel 0%nat 2].
Definition ex_nolock_mid : config sstate X :=
  match run_steps sstate X (pstep_nolock sstate X gen_state cs_fun leaf_out merge ex_forest ex_x0)
                  (init_cfg sstate X) ex_nolock_sched with
  | Some c => c | None => init_cfg sstate X end.
Definition ex_nolock_end : config sstate X :=
  match run_steps sstate X (pstep_nolock sstate X gen_state cs_fun leaf_out merge ex_forest ex_x0)
                  ex_nolock_mid ex_nolock_sched2 with
  | Some c => c | None => init_cfg sstate X end.

Notation ex_nolock := (pstep_nolock sstate X gen_state cs_fun leaf_out merge ex_forest ex_x0).

Lemma ex_nolock_end_run :
  run_steps sstate X ex_nolock (init_cfg sstate X) (ex_nolock_sched ++ ex_nolock_sched2) = Some ex_nolock_end.
Proof. vm_compute. reflexivity. Qed.
Lemma ex_nolock_mid_run :
  run_steps sstate X ex_nolock (init_cfg sstate X) ex_nolock_sched = Some ex_nolock_mid.
Proof. vm_compute. reflexivity. Qed.

(* without a blocking lock both conclusions fail *)
Lemma no_lost_update_nolock_refuted :
  ~ (forall l c, run_steps sstate X ex_nolock (init_cfg sstate X) l = Some c ->
       forall o r, nth_error (c_objs c) o = Some r ->
         o_val r = apply_all sstate X cs_fun (hist sstate X c o) (o_init r)).
Proof.
  intro H.
  assert (Hr : exists r, nth_error (c_objs ex_nolock_end) 0%nat = Some r /\ s_total (o_val r) = 2%Z /\
                         s_total (apply_all sstate X cs_fun (hist sstate X ex_nolock_end 0%nat) (o_init r)) = 3%Z).
  { eexists. vm_compute. repeat split; reflexivity. }
  destruct Hr as (r & Hn & H2 & H3).
  specialize (H _ _ ex_nolock_end_run _ _ Hn). rewrite <- H in H3. rewrite H2 in H3. discriminate.
Qed.

Lemma mutex_nolock_refuted :
  ~ (forall l c, run_steps sstate X ex_nolock (init_cfg sstate X) l = Some c ->
       forall i n i' n' o, in_cs sstate X c i n o -> in_cs sstate X c i' n' o -> i = i' /\ n = n').
Proof.
  intro H.
  assert (H1 : in_cs sstate X ex_nolock_mid 0%nat 1 0%nat) by (eexists _, _, _; vm_compute; repeat split; reflexivity).
  assert (H2 : in_cs sstate X ex_nolock_mid 0%nat 2 0%nat) by (eexists _, _, _; vm_compute; repeat split; reflexivity).
  destruct (H _ _ ex_nolock_mid_run _ _ _ _ _ H1 H2) as (_ & Hn). discriminate.
Qed.

(* the log an observer of configuration c would have recorded *)
Definition items_of_trace (c : config sstate X) : list item :=
  map (fun e => IEv (mkEv (run_of c (t_inst e)) (n_id (t_node e)) (t_kind e) (N.of_nat (t_obj e))
                          (t_x e) (t_out e) (s_total (t_seen e)))) (c_trace c).

Definition ex_view (c : config sstate X) :=
  (all_final sstate X c, map (fun e => (t_inst e, n_id (t_node e), kcode (t_kind e))) (c_trace c),
   map (fun o => s_total (o_val o)) (c_objs c)).
