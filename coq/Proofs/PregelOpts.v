(* Proofs/PregelOpts.v — WithRuntimeMaxSteps: the option bounds the run of the graph it is given to, whatever
   limit that graph was compiled with, and leaves every nested graph as it was compiled. *)
From Eino Require Import Base.Util Model.Graph Model.Chain Model.ChainSpec Model.PregelOpts
  Proofs.PregelBase Proofs.Pregel Proofs.PregelRun Proofs.PregelNest Proofs.PregelTop.
From Coq Require Import Lia.

Lemma rt_graph_pregel : forall n g, pregel_graph g -> pregel_graph (rt_graph n g).
Proof.
  intros n g [Hm He]. unfold rt_graph. destruct n; [split; assumption|]. rewrite Hm. split; [exact Hm|exact He].
Qed.

Lemma rt_graph_max : forall n g, g_mode g = Pregel -> (0 < n)%nat -> max_steps (rt_graph n g) = n.
Proof.
  intros n g Hm Hn. unfold rt_graph. destruct n; [lia|]. rewrite Hm. reflexivity.
Qed.

Lemma rt_graph_zero : forall g, rt_graph 0 g = g.
Proof. reflexivity. Qed.

(* the run of the called graph shows at most n supersteps, whatever its compile-time limit *)
Lemma runtime_limit_bounds_lemma :
  forall V St (ops : vops V) exec sched f F p g x s n,
    pregel_graph g -> (0 < n)%nat ->
    (own_entries V p (outcome_log V (fst (run_nest V St ops exec sched (S f) F p (rt_graph n g) x s))) <= S n)%nat.
Proof.
  intros V St ops exec sched f F p g x s n Hg Hn.
  rewrite <- (rt_graph_max n g (proj1 Hg) Hn) at 2.
  apply pregel_nest_log_bounded. apply rt_graph_pregel. exact Hg.
Qed.

(* nested graphs are not touched: every forest entry but the root is what it was *)
Lemma with_rtmax_tail : forall n ds i, nth_error (with_rtmax n ds) (S i) = nth_error ds (S i).
Proof. intros n [|d rest] i; reflexivity. Qed.

Lemma with_rtmax_zero : forall ds, with_rtmax 0 ds = ds.
Proof. intros [|[g|sts max] rest]; reflexivity. Qed.

Lemma lower_with_rtmax_tail : forall n ds i,
  nth_error (lower_forest (with_rtmax n ds)) (S i) = nth_error (lower_forest ds) (S i).
Proof. intros n [|d rest] i; reflexivity. Qed.

(* for a chain root the option is the chain's step limit: its meaning is eval_chain with that limit *)
Lemma with_rtmax_chain : forall n sts max rest, (0 < n)%nat ->
  with_rtmax n (GChain sts max :: rest) = GChain sts n :: rest.
Proof. intros [|n] sts max rest H; [lia|reflexivity]. Qed.
