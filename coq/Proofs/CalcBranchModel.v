(* Proofs/CalcBranchModel.v — properties C01 / C02: the hand-written specification of runner.calculateBranch
   (Model/CalcBranchSpec.v, which Proofs/GenAgreeCalcBranch.v proves equal to the function tools/go2v regenerates
   from compose/graph_run.go) is what the engine model does for a completed task: [eval_branches] followed by
   [report_branch] (Model/Graph.v).
     spec_calculate_branch_model    on a node of the model, every branch reading the node's output: the selected
                                    nodes are those of eval_branches, the run fails with the branch error exactly when
                                    eval_branches does, and reportBranch is handed [spec_skipped];
     spec_skipped_is_model          [spec_skipped] is duplicate-free and has exactly the elements of eval_branches'
                                    skipped list (Go collects it by ranging over a map: the order is arbitrary);
     spec_calculate_branch_pregel   in any-predecessor mode (reportBranch is a no-op) the two are equal outright.
   Not translated, hence hypotheses in the form of definitions: [model_invoke] (GraphBranch.invoke / collect,
   compose/branch.go: the chosen end nodes, an error when one is not an end node of the branch), [no_pre_handler]
   (the branch pre-handler is a type check, property C07), every branch reads a copy of the node's output. *)
From Eino Require Import Base.Util Model.Graph Model.ImpGenLib Model.CalcBranchSpec Proofs.PregelBase.
From Coq Require Import Lia Permutation.

Lemma in_s_add : forall k x s, In k (s_add x s) <-> k = x \/ In k s.
Proof.
  intros k x s. unfold s_add. destruct (memb x s) eqn:E.
  - apply memb_in in E. split; [auto|]. intros [->|H]; assumption.
  - rewrite in_app_iff. simpl. split; [intros [H|[H|[]]]; auto|intros [H|H]; auto].
Qed.

Lemma in_s_del : forall k x s, In k (s_del x s) <-> In k s /\ k <> x.
Proof.
  intros k x s. unfold s_del. rewrite filter_In. rewrite negb_true_iff, N.eqb_neq. reflexivity.
Qed.

Lemma nodup_snoc : forall (x : key) s, NoDup s -> ~ In x s -> NoDup (s ++ [x]).
Proof.
  intros x s H Hn. induction H as [|y s Hy H IH]; simpl.
  - constructor; [intros []|constructor].
  - constructor.
    + rewrite in_app_iff. simpl. intros [H1|[H1|[]]]; [exact (Hy H1)|]. subst. apply Hn. left. reflexivity.
    + apply IH. intros H1. apply Hn. right. exact H1.
Qed.

Lemma nodup_s_add : forall x s, NoDup s -> NoDup (s_add x s).
Proof.
  intros x s H. unfold s_add. destruct (memb x s) eqn:E; [exact H|].
  apply memb_false in E. apply nodup_snoc; assumption.
Qed.

Lemma nodup_s_del : forall x s, NoDup s -> NoDup (s_del x s).
Proof. intros x s H. apply NoDup_filter. exact H. Qed.

Lemma in_add_unselected : forall k ends ws sk,
  In k (add_unselected ends ws sk) <-> In k sk \/ (In k ends /\ ~ In k ws).
Proof.
  intros k ends ws. unfold add_unselected. induction ends as [|e ends IH]; intros sk; simpl.
  - intuition.
  - rewrite IH. destruct (memb e ws) eqn:E.
    + apply memb_in in E. intuition (subst; auto; contradiction).
    + apply memb_false in E. rewrite in_s_add. intuition (subst; auto).
Qed.

Lemma nodup_add_unselected : forall ends ws sk, NoDup sk -> NoDup (add_unselected ends ws sk).
Proof.
  intros ends ws. unfold add_unselected. induction ends as [|e ends IH]; intros sk H; simpl; [exact H|].
  apply IH. destruct (memb e ws); [exact H|apply nodup_s_add, H].
Qed.

Lemma in_del_all : forall k ks sk, In k (del_all ks sk) <-> In k sk /\ ~ In k ks.
Proof.
  intros k ks. unfold del_all. induction ks as [|x ks IH]; intros sk; simpl.
  - intuition.
  - rewrite IH, in_s_del. intuition (subst; auto).
Qed.

Lemma nodup_del_all : forall ks sk, NoDup sk -> NoDup (del_all ks sk).
Proof.
  intros ks. unfold del_all. induction ks as [|x ks IH]; intros sk H; simpl; [exact H|]. apply IH, nodup_s_del, H.
Qed.

Lemma fold_res_err : forall {S A} (f : S -> A -> res S) l e,
  fold_left (fun r a => do s <- r; f s a) l (Err e) = Err e.
Proof. intros S A f l e; induction l as [|a l IH]; simpl; [reflexivity|exact IH]. Qed.

Lemma fold_res_cons : forall {S A} (f : S -> A -> res S) a l s,
  fold_res f (a :: l) s = match f s a with Ok s' => fold_res f l s' | Err e => Err e | Panic => Panic end.
Proof.
  intros S A f a l s. unfold fold_res. simpl. destruct (f s a) as [s'|e|]; [reflexivity|apply fold_res_err|].
  induction l as [|b l IH]; simpl; [reflexivity|exact IH].
Qed.

Lemma l_get_repeat : forall {A} (d x : A) i n, (i < n)%nat -> l_get d i (repeat x n) = x.
Proof.
  intros A d x i n. revert i. unfold l_get. induction n as [|n IH]; intros i H; [lia|].
  destruct i as [|i]; simpl; [reflexivity|apply IH; lia].
Qed.

Lemma l_set_repeat : forall {A} (x : A) i n, l_set i x (repeat x n) = repeat x n.
Proof.
  intros A x i n. revert i. induction n as [|n IH]; intros i; simpl; [destruct i; reflexivity|].
  destruct i as [|i]; simpl; [reflexivity|f_equal; apply IH].
Qed.

Lemma forallb_map : forall {A B} (g : A -> B) (p : B -> bool) l, forallb p (map g l) = forallb (fun a => p (g a)) l.
Proof. intros A B g p l; induction l as [|a l IH]; simpl; [reflexivity|]. rewrite IH. reflexivity. Qed.

Lemma flat_map_map : forall {A B C} (g : A -> B) (h : B -> list C) l, flat_map h (map g l) = flat_map (fun a => h (g a)) l.
Proof. intros A B C g h l; induction l as [|a l IH]; simpl; [reflexivity|]. rewrite IH. reflexivity. Qed.

Section Model.
  Variable V : Type.
  Variable ops : vops V.

  (* GraphBranch.invoke (compose/branch.go): the chosen end nodes, or an error when one of them is not an end node
     of the branch; collect is its stream form. The branch pre-handler (a type check, property C07) hands the
     value on. Not translated: hypotheses of the tie, in the form of these definitions. *)
  Definition model_invoke (b : branch) (v : V) : res (list key) :=
    if subset (choose V ops b v) (b_ends b) then Ok (choose V ops b v) else Err eBranch.
  Definition no_pre_handler (_ : key) (_ : nat) (v : V) (_ : bool) : res V := Ok v.

  Definition all_legal (bs : list branch) (out : V) : bool :=
    forallb (fun b => subset (choose V ops b out) (b_ends b)) bs.
  Definition all_selected (bs : list branch) (out : V) : list key := flat_map (fun b => choose V ops b out) bs.
  Definition all_unselected (bs : list branch) (out : V) (sk : list key) : list key :=
    fold_left (fun sk b => add_unselected (b_ends b) (choose V ops b out) sk) bs sk.

  Lemma branch_loop : forall isStream cur out N bs k ret sk,
    (k + List.length bs <= N)%nat ->
    fold_res (branch_step V branch (v_zero ops) b_ends no_pre_handler model_invoke model_invoke cur isStream)
             (combine (seq k (List.length bs)) bs) (repeat out N, ret, sk)
    = if all_legal bs out then Ok (repeat out N, ret ++ all_selected bs out, all_unselected bs out sk)
      else Err eBranch.
  Proof.
    intros isStream cur out N bs. induction bs as [|b bs IH]; intros k ret sk H; simpl.
    - rewrite app_nil_r. reflexivity.
    - rewrite fold_res_cons. unfold branch_step at 1. unfold no_pre_handler at 1. simpl res_bind.
      simpl in H. rewrite l_get_repeat by lia. rewrite l_set_repeat. rewrite l_get_repeat by lia.
      assert (E : (if isStream then model_invoke b out else model_invoke b out) = model_invoke b out) by (destruct isStream; reflexivity).
      rewrite E. unfold model_invoke. destruct (subset (choose V ops b out) (b_ends b)); simpl.
      + rewrite IH by lia. destruct (all_legal bs out); [|reflexivity]. rewrite <- app_assoc. reflexivity.
      + reflexivity.
  Qed.

  Lemma in_all_unselected : forall k bs out sk,
    In k (all_unselected bs out sk) <-> In k sk \/ exists b, In b bs /\ In k (b_ends b) /\ ~ In k (choose V ops b out).
  Proof.
    intros k bs out. unfold all_unselected. induction bs as [|b bs IH]; intros sk; simpl.
    - split; [auto|intros [H|[b [[] _]]]; exact H].
    - rewrite IH, in_add_unselected. split.
      + intros [[H|H]|[b' [H1 H2]]]; [auto|right; exists b; tauto|right; exists b'; tauto].
      + intros [H|[b' [[H1|H1] H2]]]; [auto|subst; left; right; exact H2|right; exists b'; tauto].
  Qed.

  Lemma nodup_all_unselected : forall bs out sk, NoDup sk -> NoDup (all_unselected bs out sk).
  Proof.
    intros bs out. unfold all_unselected. induction bs as [|b bs IH]; intros sk H; simpl; [exact H|].
    apply IH, nodup_add_unselected, H.
  Qed.

  (* what the specification hands to reportBranch *)
  Definition spec_skipped (n : node) (out : V) : list key :=
    del_all (n_csucc n) (del_all (all_selected (n_branches n) out) (all_unselected (n_branches n) out [])).

  Lemma eval_branches_unfold : forall n out,
    eval_branches V ops n out =
    if all_legal (n_branches n) out then
      Ok (all_selected (n_branches n) out,
          nodup N.eq_dec (filter (fun e => negb (memb e (all_selected (n_branches n) out)) && negb (memb e (n_csucc n)))
                                 (flat_map (fun b => filter (fun e => negb (memb e (choose V ops b out))) (b_ends b)) (n_branches n))))
    else Err eBranch.
  Proof.
    intros n out. unfold eval_branches, all_legal, all_selected.
    rewrite forallb_map. rewrite !flat_map_map. reflexivity.
  Qed.

  Lemma in_model_unselected : forall k bs out,
    In k (flat_map (fun b => filter (fun e => negb (memb e (choose V ops b out))) (b_ends b)) bs)
    <-> exists b, In b bs /\ In k (b_ends b) /\ ~ In k (choose V ops b out).
  Proof.
    intros k bs out. rewrite in_flat_map. split; intros [b [H1 H2]]; exists b; split; try exact H1.
    - apply filter_In in H2. destruct H2 as [H2 H3]. apply negb_true_iff, memb_false in H3. tauto.
    - apply filter_In. split; [tauto|]. apply negb_true_iff, memb_false. tauto.
  Qed.

  (* the list handed to reportBranch has exactly the elements of the model's skipped list, each once *)
  Theorem spec_skipped_is_model : forall n out sel sk,
    eval_branches V ops n out = Ok (sel, sk) ->
    sel = all_selected (n_branches n) out
    /\ NoDup (spec_skipped n out) /\ NoDup sk
    /\ (forall k, In k (spec_skipped n out) <-> In k sk).
  Proof.
    intros n out sel sk H. rewrite eval_branches_unfold in H.
    destruct (all_legal (n_branches n) out); [|discriminate]. inversion H; subst; clear H.
    split; [reflexivity|]. split; [|split].
    - unfold spec_skipped. apply nodup_del_all, nodup_del_all, nodup_all_unselected. constructor.
    - apply NoDup_nodup.
    - intros k. unfold spec_skipped. rewrite !in_del_all, in_all_unselected, nodup_In, filter_In, in_model_unselected.
      rewrite andb_true_iff, !negb_true_iff, !memb_false. simpl. tauto.
  Qed.

  (* the specification of calculateBranch, run on a node of the model with every branch reading the node's output *)
  Theorem spec_calculate_branch_model : forall (CM : Type) (rb : CM -> key -> list key -> res CM) ec n out isStream cm,
    calculate_branch V branch CM (v_zero ops) ec b_ends no_pre_handler model_invoke model_invoke rb
      (n_key n) (n_branches n) (n_csucc n) (repeat out (List.length (n_branches n))) isStream cm
    = if all_legal (n_branches n) out
      then do cm' <- rb cm (n_key n) (spec_skipped n out); Ok (all_selected (n_branches n) out, cm')
      else Err eBranch.
  Proof.
    intros CM rb ec n out isStream cm. unfold calculate_branch. rewrite repeat_length, Nat.ltb_irrefl.
    unfold indexed. rewrite (branch_loop isStream (n_key n) out (List.length (n_branches n)) (n_branches n) 0 [] []) by lia.
    destruct (all_legal (n_branches n) out); simpl; reflexivity.
  Qed.

  (* any-predecessor mode: reportBranch does nothing (pregelChannel.reportSkip), so the whole of calculateBranch
     is [eval_branches] followed by [report_branch], exactly *)
  Theorem spec_calculate_branch_pregel : forall ec g n out isStream cs,
    g_mode g = Pregel ->
    calculate_branch V branch (chans V) (v_zero ops) ec b_ends no_pre_handler model_invoke model_invoke
      (fun cs k sk => report_branch V g k sk cs)
      (n_key n) (n_branches n) (n_csucc n) (repeat out (List.length (n_branches n))) isStream cs
    = do ss <- eval_branches V ops n out;
      do cs' <- report_branch V g (n_key n) (snd ss) cs;
      Ok (fst ss, cs').
  Proof.
    intros ec g n out isStream cs Hm. rewrite spec_calculate_branch_model, eval_branches_unfold.
    unfold report_branch. rewrite Hm. destruct (all_legal (n_branches n) out); reflexivity.
  Qed.
End Model.
