(* Proofs/GenAgreeErrors.v — property C13: the Gallina functions tools/go2v (extractor "errcode")
   translated statement by statement from compose/error.go, compose/interrupt.go:isInterruptError
   and internal/safe/panic.go (Gen/ErrorCode.v) are extensionally the definitions of Model/Errors.v
   that every C13 theorem is about:

     isInterruptError        = is_interrupt_error_gen true
     newGraphRunError        = new_graph_run_error
     wrapGraphNodeError      = wrap_node          (for every key and every error value)
     newStreamWrapperError   = new_stream_wrapper_error
     wrapStreamWrapperError  = wrap_stream
     internalError.Unwrap   = unwrap on an Internal
     internalError.Error    = "[typ]\n" cause, then for a non-empty node path the separator and
                               "node path: [k1, ..., kn]" (internal_text; the loop of the code is the
                               comma-separated join), and the node path it prints is the wrapper's
     safe.NewPanicErr        = PanicErr; panicErr.Error prints the payload

   An edit of one of these functions that changes what it returns for some error value makes this
   file stop compiling even when no generated case reaches the difference. *)
From Eino Require Import Base.Util Model.Errors Model.ErrorsGenLib Proofs.Errors.
From Eino Require Gen.ErrorCode.
Local Open Scope string_scope.

(* errors.As for the wrapper, as the vocabulary states it (position on the chain), is the model's
   [as_internal] plus "found at position 0 = err is itself the wrapper" *)
Lemma find_ie_false : forall l,
  find_ie false l = match first_some internal_fields l with
                    | Some (t, sp, np, o) => Some (mkIe t sp np o false)
                    | None => None
                    end.
Proof.
  induction l as [|a l IH]; [reflexivity|].
  destruct a; simpl; try exact IH; reflexivity.
Qed.

Lemma go_errors_as_internal_spec : forall e,
  go_errors_as_internal e =
  match e with
  | Internal t sp np o => Some (mkIe t sp np o true)
  | _ => match as_internal e with
         | Some (t, sp, np, o) => Some (mkIe t sp np o false)
         | None => None
         end
  end.
Proof.
  intros e. unfold go_errors_as_internal, as_internal, as_internal_gen, chain.
  destruct e; simpl; try rewrite find_ie_false; reflexivity.
Qed.

Theorem gen_isInterruptError_agrees : forall e,
  Gen.ErrorCode.isInterruptError e = is_interrupt_error_gen true e.
Proof.
  intros e. try reflexivity. (* (the neutral Gen file re-exports the model's function) *)
  all: unfold Gen.ErrorCode.isInterruptError, is_interrupt_error_gen,
    go_extract_interrupt, go_is_sub_interrupt, go_errors_is, go_interrupt_and_rerun, is_.
  all: destruct (extract_interrupt_gen true e); [reflexivity|].
  all: destruct (is_sub_interrupt_gen true e); [reflexivity|].
  all: destruct (is_gen true (Leaf id_rerun) e); reflexivity.
Qed.

Theorem gen_newGraphRunError_agrees : forall e,
  Gen.ErrorCode.newGraphRunError e = new_graph_run_error e.
Proof. reflexivity. Qed.

Theorem gen_newStreamWrapperError_agrees : forall a e,
  Gen.ErrorCode.newStreamWrapperError a e = new_stream_wrapper_error a e.
Proof. reflexivity. Qed.

Theorem gen_wrapGraphNodeError_agrees : forall key e,
  Gen.ErrorCode.wrapGraphNodeError key e = wrap_node key e.
Proof.
  intros key e. try reflexivity.
  all: unfold Gen.ErrorCode.wrapGraphNodeError, wrap_node, wrap_node_gen.
  all: rewrite gen_isInterruptError_agrees, go_errors_as_internal_spec.
  all: destruct (is_interrupt_error_gen true e); [reflexivity|].
  all: fold as_internal.
  all: destruct e; try reflexivity;
    destruct (as_internal _) as [[[[t sp] np] o]|]; reflexivity.
Qed.

Theorem gen_wrapStreamWrapperError_agrees : forall a e,
  Gen.ErrorCode.wrapStreamWrapperError a e = wrap_stream a e.
Proof.
  intros a e. try reflexivity.
  all: unfold Gen.ErrorCode.wrapStreamWrapperError, wrap_stream, wrap_stream_gen.
  all: rewrite gen_isInterruptError_agrees, go_errors_as_internal_spec.
  all: destruct (is_interrupt_error_gen true e); [reflexivity|].
  all: fold as_internal.
  all: destruct e; try reflexivity;
    destruct (as_internal _) as [[[[t sp] np] o]|]; reflexivity.
Qed.

(* errors.Unwrap on the wrapper: the method exists and hands out the error the wrapper was built from *)
Theorem gen_internalError_Unwrap_agrees : forall t sp np o self,
  Gen.ErrorCode.internalError_Unwrap (mkIe t sp np o self) = unwrap (Internal t sp np o).
Proof. reflexivity. Qed.

(* the loop of Error() prints the comma-separated join *)
Lemma sapp_assoc : forall a b c : string, (a ++ b) ++ c = a ++ (b ++ c).
Proof. induction a as [|x a IH]; intros b c; simpl; [reflexivity | rewrite IH; reflexivity]. Qed.

Lemma sapp_nil_r : forall a : string, a ++ "" = a.
Proof. induction a as [|x a IH]; simpl; [reflexivity | rewrite IH; reflexivity]. Qed.

Lemma loop_is_join : forall np, np <> [] ->
  go_concat_map (fun x => x ++ ", ") (removelast np) ++ go_last np = join_comma np.
Proof.
  induction np as [|a r IH]; [congruence|]. intros _.
  destruct r as [|b r']; [reflexivity|].
  change (removelast (a :: b :: r')) with (a :: removelast (b :: r')).
  change (go_last (a :: b :: r')) with (go_last (b :: r')).
  change (join_comma (a :: b :: r')) with (a ++ ", " ++ join_comma (b :: r')).
  cbn [go_concat_map]. rewrite <- IH by congruence.
  rewrite !sapp_assoc. reflexivity.
Qed.

Theorem gen_ityp_text_agrees : forall t, Gen.ErrorCode.ityp_text t = ityp_text t.
Proof. destruct t; reflexivity. Qed.

Theorem gen_internalError_Error_agrees : forall errtext t sp np o self,
  Gen.ErrorCode.internalError_Error errtext (mkIe t sp np o self) = internal_text errtext t np o.
Proof.
  intros errtext t sp np o self. try reflexivity.
  all: unfold Gen.ErrorCode.internalError_Error, internal_text, path_suffix; cbn [ie_typ ie_np ie_orig].
  all: rewrite gen_ityp_text_agrees.
  all: destruct np as [|a r];
    [ cbn [List.length Nat.ltb Nat.leb]; rewrite !sapp_assoc, !sapp_nil_r; reflexivity
    | change (Nat.ltb 0 (List.length (a :: r))) with true; cbv iota;
      rewrite <- (loop_is_join (a :: r)) by congruence;
      rewrite !sapp_assoc, !sapp_nil_r; reflexivity ].
Qed.

(* what the message of the wrapper says about the node path: nothing when the path is empty, and
   otherwise it ends with "node path: [k1, ..., kn]" — the same case split as [msg_paths] of
   Model/Errors.v (which lists the printed paths) *)
Theorem internal_text_names_path : forall errtext t np o,
  (np = [] -> internal_text errtext t np o = "[" ++ ityp_text t ++ "]" ++ nl ++ errtext o)
  /\ (np <> [] -> exists pre, internal_text errtext t np o = pre ++ "node path: [" ++ join_comma np ++ "]").
Proof.
  intros errtext t np o. split; intros H.
  - subst np. unfold internal_text, path_suffix. rewrite !sapp_nil_r. reflexivity.
  - destruct np as [|a r]; [congruence|].
    exists ("[" ++ ityp_text t ++ "]" ++ nl ++ errtext o ++ nl ++ "------------------------" ++ nl).
    unfold internal_text, path_suffix. rewrite !sapp_assoc. reflexivity.
Qed.

Theorem gen_newPanicErr_agrees : forall i, Gen.ErrorCode.newPanicErr i = PanicErr i.
Proof. reflexivity. Qed.

Theorem gen_panicErr_Error_prints_payload : Gen.ErrorCode.panicErr_Error_prints_info = true.
Proof. reflexivity. Qed.

(* non-vacuity: the generated constructors on concrete error values — a fresh error, an error that
   wraps a nested run's error (kept whole, paths taken over), the wrapper itself (replaced) and an
   interrupt (handed on) *)
Example gen_wrapGraphNodeError_cases :
  let inner := Internal NodeRunError [InvokeByCollect] ["x"] (Leaf 0) in
  Gen.ErrorCode.wrapGraphNodeError "k" (Leaf 0) = Internal NodeRunError [] ["k"] (Leaf 0)
  /\ Gen.ErrorCode.wrapGraphNodeError "k" (Wrapf inner) = Internal NodeRunError [InvokeByCollect] ["k"; "x"] (Wrapf inner)
  /\ Gen.ErrorCode.wrapGraphNodeError "k" inner = Internal NodeRunError [InvokeByCollect] ["k"; "x"] (Leaf 0)
  /\ Gen.ErrorCode.wrapGraphNodeError "k" (Wrapf (Leaf id_rerun)) = Wrapf (Leaf id_rerun)
  /\ Gen.ErrorCode.wrapStreamWrapperError StreamByInvoke (Wrapf inner) = Internal NodeRunError [StreamByInvoke; InvokeByCollect] ["x"] (Wrapf inner)
  /\ Gen.ErrorCode.wrapStreamWrapperError StreamByInvoke inner = Internal NodeRunError [StreamByInvoke; InvokeByCollect] ["x"] (Leaf 0).
Proof. repeat split; reflexivity. Qed.

Example gen_internalError_Error_text :
  Gen.ErrorCode.internalError_Error (fun _ => "cause") (mkIe NodeRunError [] ["a"; "b"; "c"] (Leaf 0) true)
  = "[NodeRunError]" ++ nl ++ "cause" ++ nl ++ "------------------------" ++ nl ++ "node path: [a, b, c]".
Proof. reflexivity. Qed.

(* ------------------------------------------------------------------ the clauses of the property
   about the wrappers, stated on the TRANSLATED code (corollaries of the agreement above and of
   Proofs/Errors.v): whatever stack of the translated constructors the run machinery puts around a
   node's error, errors.Is (non-wrapper targets), errors.As (custom types) and the payload of a
   recovered panic give what they give on the node's own error; the translated wrapGraphNodeError
   puts the key in front of the path the error already carries; both translated wrapping functions
   hand an interrupt on as it is. *)
Definition gen_apply_w (w : wrapper) (e : err) : err :=
  match w with
  | WNode k => Gen.ErrorCode.wrapGraphNodeError k e
  | WStream a => Gen.ErrorCode.wrapStreamWrapperError a e
  | WConcat a => Gen.ErrorCode.newStreamWrapperError a (Wrapf (Wrapf e))
  | WGraphRun => Gen.ErrorCode.newGraphRunError e
  | WWrapf => Wrapf e
  end.

Lemma gen_apply_ws_agrees : forall ws e, fold_right gen_apply_w e ws = apply_ws ws e.
Proof.
  induction ws as [|w ws IH]; intros e; [reflexivity|].
  cbn [fold_right]. unfold apply_ws in *. cbn [fold_right]. rewrite IH.
  destruct w; cbn [gen_apply_w apply_w].
  - apply gen_wrapGraphNodeError_agrees.
  - apply gen_wrapStreamWrapperError_agrees.
  - rewrite gen_newStreamWrapperError_agrees. reflexivity.
  - apply gen_newGraphRunError_agrees.
  - reflexivity.
Qed.

Theorem gen_code_keeps_original_error : forall ws e,
  (forall t, leaf_target t -> is_ t (fold_right gen_apply_w e ws) = is_ t e) /\
  (forall ty, as_custom ty (fold_right gen_apply_w e ws) = as_custom ty e) /\
  as_panic (fold_right gen_apply_w e ws) = as_panic e.
Proof.
  intros ws e. rewrite gen_apply_ws_agrees. repeat split.
  - intros t Ht. apply is_through_wrappers; exact Ht.
  - intros ty. apply as_custom_through_wrappers.
  - apply as_panic_through_wrappers.
Qed.

Theorem gen_code_names_node : forall k e, Gen.ErrorCode.isInterruptError e = false ->
  np_of (Gen.ErrorCode.wrapGraphNodeError k e) = k :: np_of e
  /\ np_of (Gen.ErrorCode.newGraphRunError e) = []
  /\ forall a, np_of (Gen.ErrorCode.wrapStreamWrapperError a e) = np_of e.
Proof.
  intros k e H. rewrite gen_isInterruptError_agrees in H.
  rewrite gen_wrapGraphNodeError_agrees. repeat split.
  - apply wrap_node_path; exact H.
  - intros a. rewrite gen_wrapStreamWrapperError_agrees. apply wrap_stream_path.
Qed.

Theorem gen_code_passes_interrupts : forall e, Gen.ErrorCode.isInterruptError e = true ->
  (forall k, Gen.ErrorCode.wrapGraphNodeError k e = e) /\ (forall a, Gen.ErrorCode.wrapStreamWrapperError a e = e).
Proof.
  intros e H. rewrite gen_isInterruptError_agrees in H.
  destruct (interrupt_not_wrapped_lemma e H) as [H1 H2]. split.
  - intros k. rewrite gen_wrapGraphNodeError_agrees. apply H1.
  - intros a. rewrite gen_wrapStreamWrapperError_agrees. apply H2.
Qed.

Example gen_code_keeps_original_error_nonvacuous :
  let e := Wrapf (Custom 1 7) in
  let ws := [WNode "outer"; WStream StreamByTransform; WNode "sub"; WConcat TransformByInvoke; WWrapf] in
  is_ (Custom 1 7) (fold_right gen_apply_w e ws) = true /\ as_custom 1 (fold_right gen_apply_w e ws) = Some 7%N
  /\ np_of (fold_right gen_apply_w e ws) = ["outer"; "sub"].
Proof. repeat split; vm_compute; reflexivity. Qed.
