(* Proofs/BuilderSticky.v — property C20, "the first error sticks" for the errors a Workflow only
   meets while Compile makes its deferred calls.

   A Workflow's Add* calls return no error: AddInput / AddDependency / AddBranch / SetStaticValue
   are only recorded, and Compile applies them.  A failing deferred addEdge / addBranch is recorded
   in the graph's buildError (sticky, [workflow_first_error_sticks]); a conflict of mapping targets
   (checkAndAddMappedPath) is NOT recorded anywhere.  Still it sticks: once a Compile of a Workflow
   that has not been compiled yet fails while it makes the deferred calls — with any error that is
   not one of graph.compile's own, recoverable, compile-time rejections — every Compile of every
   later call sequence fails, whatever the visiting orders ([deferred_error_sticks]).

   Method: [doomed w] — the build error is set, or some node's deferred inputs fail on every
   graph that extends the current one ([node_stuck]), or some node's static values are excluded
   by its mapped paths ([static_stuck]) — is created by every failing deferred phase, kept by
   every call, and makes every Compile fail before it reaches graph.compile. *)
From Eino Require Import Base.Util Model.Builder Proofs.Builder Proofs.BuilderReject Proofs.BuilderDag
  Proofs.BuilderSound Proofs.BuilderReject2 Proofs.BuilderInfer Proofs.BuilderWfOrder Proofs.BuilderReject3.
Local Open Scope string_scope.
Local Open Scope list_scope.

(* ------------------------------------------------------------------ graphs that only gained edges *)
Definition gext (g g' : gstate) : Prop := incl (g_ctrl g) (g_ctrl g') /\ incl (g_data g) (g_data g').

Lemma gext_refl : forall g, gext g g.
Proof. intros g; split; apply incl_refl. Qed.
Lemma gext_trans : forall a b c, gext a b -> gext b c -> gext a c.
Proof. intros a b c [A B] [C D]. split; eapply incl_tran; eassumption. Qed.
Ltac gx := first [apply gext_refl | split; simpl; apply incl_refl].

(* any addEdge, failed or not, only appends *)
Lemma add_edge_gext : forall g s e nc nd fs, gext g (fst (g_add_edge g s e nc nd fs)).
Proof.
  intros g s e nc nd fs. unfold g_add_edge, fail.
  destruct (g_err g); [gx|]. destruct (g_compiled g); [gx|].
  destruct (nc && nd); [gx|].
  destruct (String.eqb s END_); [gx|]. destruct (String.eqb e START); [gx|].
  destruct (negb (has_node g s) && negb (String.eqb s START)); [gx|].
  destruct (negb (has_node g e) && negb (String.eqb e END_)); [gx|].
  destruct (negb nc && pmem s e (g_ctrl g)); [gx|].
  fold (add_ctrl g s e). set (g1 := if nc then g else add_ctrl g s e).
  assert (E1 : gext g g1).
  { unfold g1. destruct nc; [apply gext_refl|]. destruct (add_ctrl_fields g s e) as [_ [_ [C [D _]]]].
    split; [rewrite C; apply incl_appl, incl_refl|rewrite D; apply incl_refl]. }
  destruct nd; [exact E1|]. destruct (pmem s e (g_data g1)); [gx|]. simpl.
  pose proof (ss_update_pending (set_pending (g_pending g1 ++ [(s, e, fs)]) g1)) as SS.
  eapply gext_trans; [exact E1|]. split; simpl.
  - rewrite (ss_ctrl _ _ SS). apply incl_refl.
  - rewrite (ss_data _ _ SS). simpl. apply incl_appl, incl_refl.
Qed.

Lemma run_input_gext : forall g k m i, gext g (fst (fst (run_input g k m i))).
Proof.
  intros g k m i. unfold run_input. destruct (wi_kind i).
  - destruct (check_mapped m (wi_fields i)) as [m' [e|]]; [apply gext_refl|].
    pose proof (add_edge_gext g (wi_from i) k false false (wi_fields i)) as X.
    destruct (g_add_edge g (wi_from i) k false false (wi_fields i)); exact X.
  - destruct (check_mapped m (wi_fields i)) as [m' [e|]]; [apply gext_refl|].
    pose proof (add_edge_gext g (wi_from i) k true false (wi_fields i)) as X.
    destruct (g_add_edge g (wi_from i) k true false (wi_fields i)); exact X.
  - pose proof (add_edge_gext g (wi_from i) k false true []) as X.
    destruct (g_add_edge g (wi_from i) k false true []); exact X.
Qed.

Lemma run_inputs_gext : forall is g k m, gext g (fst (fst (run_inputs g k m is))).
Proof.
  induction is as [|i rest IH]; intros g k m; simpl; [apply gext_refl|].
  pose proof (run_input_gext g k m i) as X.
  destruct (run_input g k m i) as [[g' m'] [e|]]; simpl in *; [exact X|].
  eapply gext_trans; [exact X|apply IH].
Qed.

(* the compiled flag is only ever set by graph.compile *)
Lemma add_edge_compiled : forall g s e nc nd fs, g_compiled (fst (g_add_edge g s e nc nd fs)) = g_compiled g.
Proof.
  intros g s e nc nd fs. unfold g_add_edge, fail.
  destruct (g_err g); [reflexivity|]. destruct (g_compiled g) eqn:C; [exact C|].
  destruct (nc && nd); [exact C|]. repeat (dif; [exact C|]).
  fold (add_ctrl g s e). set (g1 := if nc then g else add_ctrl g s e).
  assert (C1 : g_compiled g1 = false).
  { unfold g1, add_ctrl. destruct nc; [exact C|]. destruct (String.eqb s START), (String.eqb e END_); exact C. }
  destruct nd; [exact C1|]. dif; [exact C|]. simpl.
  rewrite (proj2 (update_pending_flags _)). exact C1.
Qed.

Lemma run_inputs_compiled : forall is g k m, g_compiled (fst (fst (run_inputs g k m is))) = g_compiled g.
Proof.
  induction is as [|i rest IH]; intros g k m; simpl; [reflexivity|].
  assert (X : g_compiled (fst (fst (run_input g k m i))) = g_compiled g).
  { unfold run_input. destruct (wi_kind i).
    - destruct (check_mapped m (wi_fields i)) as [m' [e|]]; [reflexivity|].
      pose proof (add_edge_compiled g (wi_from i) k false false (wi_fields i)) as X.
      destruct (g_add_edge g (wi_from i) k false false (wi_fields i)); exact X.
    - destruct (check_mapped m (wi_fields i)) as [m' [e|]]; [reflexivity|].
      pose proof (add_edge_compiled g (wi_from i) k true false (wi_fields i)) as X.
      destruct (g_add_edge g (wi_from i) k true false (wi_fields i)); exact X.
    - pose proof (add_edge_compiled g (wi_from i) k false true []) as X.
      destruct (g_add_edge g (wi_from i) k false true []); exact X. }
  destruct (run_input g k m i) as [[g' m'] [e|]]; simpl in *; [exact X|]. rewrite IH. exact X.
Qed.

(* a failing addEdge records its error (the graph has not been compiled; the edge is not "neither") *)
Lemma add_edge_err_recorded : forall g s e nc nd fs,
  g_compiled g = false -> (nc && nd) = false ->
  err_of (snd (g_add_edge g s e nc nd fs)) <> None -> g_err (fst (g_add_edge g s e nc nd fs)) <> None.
Proof.
  intros g s e nc nd fs C ND. unfold g_add_edge, fail.
  destruct (g_err g) eqn:E; [simpl; congruence|]. rewrite C, ND.
  repeat (dif; [simpl; discriminate|]).
  destruct nd; [simpl; congruence|]. dif; [simpl; discriminate|]. simpl. congruence.
Qed.

(* ------------------------------------------------------------------ mapped paths after a refusal *)
Lemma add_fields_fail_in : forall fs have have' e,
  add_fields have fs = (have', Some e) -> exists f, In f fs /\ In f have'.
Proof.
  induction fs as [|f rest IH]; intros have have' e H; simpl in H; [discriminate|].
  destruct (smem f have) eqn:S.
  - inversion H; subst. exists f. split; [left; reflexivity|apply smem_In; exact S].
  - destruct (IH _ _ _ H) as [x [X1 X2]]. exists x. split; [right; exact X1|exact X2].
Qed.

(* a refused mapping leaves paths that exclude the same targets *)
Lemma check_mapped_fail_blocks : forall m fs m' e,
  check_mapped m fs = (m', Some e) -> fs <> [] -> blocks m' fs.
Proof.
  intros m fs m' e H NE. destruct m as [| |have]; simpl in H.
  - destruct fs as [|f r]; [congruence|].
    destruct (add_fields [] (f :: r)) as [have' r'] eqn:A. inversion H; subst. right.
    exact (add_fields_fail_in _ _ _ _ A).
  - inversion H; subst. exact I.
  - destruct fs as [|f r]; [congruence|].
    destruct (add_fields have (f :: r)) as [have' r'] eqn:A. inversion H; subst. right.
    exact (add_fields_fail_in _ _ _ _ A).
Qed.

Lemma check_mapped_fail_again : forall m fs m' e,
  check_mapped m fs = (m', Some e) -> snd (check_mapped m' fs) <> None.
Proof.
  intros m fs m' e H. destruct fs as [|f r].
  - destruct m as [| |have]; simpl in H; inversion H; subst; simpl; discriminate.
  - apply blocks_fail. eapply check_mapped_fail_blocks; [eassumption|discriminate].
Qed.

Lemma check_mapped_blocks_any : forall m fs m' r F, check_mapped m fs = (m', r) -> blocks m F -> blocks m' F.
Proof.
  intros m fs m' r F H B. destruct m as [| |have]; simpl in *; [contradiction|inversion H; subst; exact I|].
  destruct fs as [|f2 r2]; [inversion H; subst; exact B|].
  destruct (add_fields have (f2 :: r2)) as [have' r'] eqn:A. inversion H; subst. simpl.
  destruct (add_fields_spec _ _ _ _ A) as [INC _].
  destruct B as [B|[f [B1 B2]]]; [left; exact B|]. right. exists f. split; [exact B1|apply INC; exact B2].
Qed.

Lemma run_input_blocks_any : forall g k m i F, blocks m F -> blocks (snd (fst (run_input g k m i))) F.
Proof.
  intros g k m i F B. unfold run_input. destruct (wi_kind i).
  - destruct (check_mapped m (wi_fields i)) as [m1 [e|]] eqn:C; simpl.
    + eapply check_mapped_blocks_any; eassumption.
    + destruct (g_add_edge g (wi_from i) k false false (wi_fields i)). simpl. eapply check_mapped_blocks_any; eassumption.
  - destruct (check_mapped m (wi_fields i)) as [m1 [e|]] eqn:C; simpl.
    + eapply check_mapped_blocks_any; eassumption.
    + destruct (g_add_edge g (wi_from i) k true false (wi_fields i)). simpl. eapply check_mapped_blocks_any; eassumption.
  - destruct (g_add_edge g (wi_from i) k false true []). exact B.
Qed.

Lemma run_inputs_blocks_any : forall is g k m F, blocks m F -> blocks (snd (fst (run_inputs g k m is))) F.
Proof.
  induction is as [|i rest IH]; intros g k m F B; simpl; [exact B|].
  pose proof (run_input_blocks_any g k m i F B) as X.
  destruct (run_input g k m i) as [[g' m'] [e|]]; simpl in *; [exact X|]. apply IH. exact X.
Qed.

Lemma blocks_app : forall m fs l, blocks m fs -> fs <> [] -> blocks m (fs ++ l).
Proof.
  intros [| |have] fs l B NE; simpl in *; [contradiction|exact I|].
  destruct B as [B|[f [B1 B2]]]; [contradiction|]. right. exists f. split; [apply in_or_app; left; exact B1|exact B2].
Qed.

(* ------------------------------------------------------------------ stuck nodes, doomed workflows *)
Definition node_stuck (g : gstate) (k : string) (n : wnode) : Prop :=
  forall g', gext g g' -> snd (run_inputs g' k (wn_mapped n) (wn_pending n)) <> None.

Definition static_stuck (n : wnode) : Prop := wn_static n <> [] /\ blocks (wn_mapped n) (wn_static n).

Definition doomed (w : wstate) : Prop :=
  g_err (w_g w) <> None \/
  (g_compiled (w_g w) = false /\
   exists k n, alist_get k (w_nodes w) = Some n /\ (node_stuck (w_g w) k n \/ static_stuck n)).

Lemma node_stuck_ext : forall g g' k n, gext g g' -> node_stuck g k n -> node_stuck g' k n.
Proof. intros g g' k n E S g'' E'. apply S. eapply gext_trans; eassumption. Qed.

Lemma run_inputs_app_fail : forall l g k m l2,
  snd (run_inputs g k m l) <> None -> snd (run_inputs g k m (l ++ l2)) <> None.
Proof.
  induction l as [|i rest IH]; intros g k m l2 H; simpl in *; [congruence|].
  destruct (run_input g k m i) as [[g' m'] [e|]]; simpl in *; [congruence|]. apply IH. exact H.
Qed.

(* what a failing run of a node's inputs leaves behind: the build error, or a stuck node *)
Lemma run_inputs_fail_stuck : forall l g k m g' m' e,
  g_compiled g = false -> run_inputs g k m l = (g', m', Some e) ->
  g_err g' <> None \/ (forall g'', gext g' g'' -> snd (run_inputs g'' k m' l) <> None).
Proof.
  intros l g k m g' m' e C H. destruct l as [|i rest]; simpl in H; [discriminate|].
  destruct (run_input g k m i) as [[g1 m1] [e1|]] eqn:R.
  - (* the first declaration is refused *)
    inversion H; subst. unfold run_input in R.
    assert (CM : forall nc, (nc && false) = false) by (intros []; reflexivity).
    destruct (wi_kind i) eqn:K.
    + destruct (check_mapped m (wi_fields i)) as [mm [ec|]] eqn:CK.
      * inversion R; subst. right. intros g'' _. simpl. unfold run_input. rewrite K.
        pose proof (check_mapped_fail_again _ _ _ _ CK) as X.
        destruct (check_mapped m' (wi_fields i)) as [m2 [e2|]]; simpl in *; congruence.
      * left. pose proof (add_edge_err_recorded g (wi_from i) k false false (wi_fields i) C eq_refl) as X.
        destruct (g_add_edge g (wi_from i) k false false (wi_fields i)) as [ga oa]. inversion R; subst. simpl in X.
        apply X. congruence.
    + destruct (check_mapped m (wi_fields i)) as [mm [ec|]] eqn:CK.
      * inversion R; subst. right. intros g'' _. simpl. unfold run_input. rewrite K.
        pose proof (check_mapped_fail_again _ _ _ _ CK) as X.
        destruct (check_mapped m' (wi_fields i)) as [m2 [e2|]]; simpl in *; congruence.
      * left. pose proof (add_edge_err_recorded g (wi_from i) k true false (wi_fields i) C eq_refl) as X.
        destruct (g_add_edge g (wi_from i) k true false (wi_fields i)) as [ga oa]. inversion R; subst. simpl in X.
        apply X. congruence.
    + left. pose proof (add_edge_err_recorded g (wi_from i) k false true [] C eq_refl) as X.
      destruct (g_add_edge g (wi_from i) k false true []) as [ga oa]. inversion R; subst. simpl in X.
      apply X. congruence.
  - (* the first declaration went through: its edge is in the graph, a second attempt is a duplicate *)
    right. intros g'' E.
    destruct (run_input_ok_lists _ _ _ _ _ _ R) as [[HC HD] _].
    pose proof (run_inputs_gext rest g1 k m1) as E1. rewrite H in E1. simpl in E1.
    assert (E2 : gext g1 g'') by (eapply gext_trans; eassumption).
    apply (run_inputs_dup (i :: rest) g'' k m' i (or_introl eq_refl)).
    unfold edge_there. destruct E2 as [EC ED].
    destruct (adds_ctrl i) eqn:AC.
    + left. split; [reflexivity|]. apply EC. apply HC. reflexivity.
    + right. assert (AD : adds_data i = true).
      { unfold adds_ctrl, adds_data in *. destruct (wi_kind i); congruence. }
      split; [exact AD|]. apply ED. apply HD. exact AD.
Qed.

(* ------------------------------------------------------------------ the deferred phases of Workflow.compile *)
Definition deferred (w : wstate) (ord sord : list string) : wstate * option outcome :=
  match g_err (w_g w) with
  | Some e => (w, Some (OErr e))
  | None =>
    match run_branches fixed w (w_branches w) with
    | (w1, Some out) => (w1, Some out)
    | (w1, None) =>
      match run_nodes w1 (ord ++ map fst (w_nodes w1)) with
      | (w2, Some e) => (w2, Some (OErr e))
      | (w2, None) =>
        match run_statics fixed w2 (sord ++ map fst (w_nodes w2)) with
        | (w3, Some e) => (w3, Some (OErr e))
        | (w3, None) => (w3, None)
        end
      end
    end
  end.

Lemma w_compile_deferred : forall w o ord sord,
  w_compile fixed w o ord sord =
  match deferred w ord sord with
  | (w', Some out) => (w', out)
  | (w3, None) => let '(g', out) := g_compile fixed (w_g w3) o in (w_set_g g' w3, out)
  end.
Proof.
  intros w o ord sord. unfold w_compile, deferred. destruct (g_err (w_g w)); [reflexivity|].
  destruct (run_branches fixed w (w_branches w)) as [w1 [out|]]; [reflexivity|].
  destruct (run_nodes w1 (ord ++ map fst (w_nodes w1))) as [w2 [e|]]; [reflexivity|].
  destruct (run_statics fixed w2 (sord ++ map fst (w_nodes w2))) as [w3 [e|]]; reflexivity.
Qed.

(* ---- the branch phase *)
Lemma add_branch_skip_gext : forall g s ends, gext g (fst (g_add_branch g s ends true)).
Proof.
  intros g s ends. unfold g_add_branch, fail. destruct (g_err g); [apply gext_refl|].
  repeat (dif; [gx|]).
  set (g1 := match alist_get s (g_nodes g) with
             | Some n => if nkind_eqb (n_kind n) NPass && negb (n_out n) then update_pending (set_typed s g) else g
             | None => g end).
  assert (S1 : same_skel g g1).
  { unfold g1. destruct (alist_get s (g_nodes g)); [dif; [eapply ss_trans; [apply ss_set_typed|apply ss_update_pending]|apply ss_refl]|apply ss_refl]. }
  simpl. split; simpl; [rewrite (ss_ctrl _ _ S1)|rewrite (ss_data _ _ S1)]; apply incl_refl.
Qed.

Lemma run_branches_gext : forall bs w, gext (w_g w) (w_g (fst (run_branches fixed w bs))).
Proof.
  induction bs as [|[from ends] rest IH]; intros w; simpl; [apply gext_refl|].
  dif; [simpl; gx|].
  pose proof (add_branch_skip_gext (w_g w) from ends) as X.
  destruct (g_add_branch (w_g w) from ends true) as [g' o]. simpl in X.
  eapply gext_trans; [exact X|]. apply (IH (w_set_g g' w)).
Qed.

Lemma run_branches_compiled : forall bs w, g_compiled (w_g (fst (run_branches fixed w bs))) = g_compiled (w_g w).
Proof.
  induction bs as [|[from ends] rest IH]; intros w; simpl; [reflexivity|].
  dif; [reflexivity|].
  pose proof (add_branch_skip_compiled (w_g w) from ends) as X.
  destruct (g_add_branch (w_g w) from ends true) as [g' o]. simpl in X.
  rewrite (IH (w_set_g g' w)). exact X.
Qed.

Lemma run_branches_stop_dead : forall bs w w' out,
  run_branches fixed w bs = (w', Some out) -> g_err (w_g w') <> None.
Proof.
  induction bs as [|[from ends] rest IH]; intros w w' out; simpl; [discriminate|].
  dif; [intros H; inversion H; subst; simpl; discriminate|].
  destruct (g_add_branch (w_g w) from ends true). apply IH.
Qed.

(* ---- the node phase *)
Lemma run_nodes_compiled : forall L w, g_compiled (w_g (fst (run_nodes w L))) = g_compiled (w_g w).
Proof.
  induction L as [|x rest IH]; intros w; simpl; [reflexivity|].
  destruct (alist_get x (w_nodes w)) as [n|]; [|apply IH].
  pose proof (run_inputs_compiled (wn_pending n) (w_g w) x (wn_mapped n)) as X.
  destruct (run_inputs (w_g w) x (wn_mapped n) (wn_pending n)) as [[g' m'] [e|]]; simpl in *; [exact X|].
  rewrite IH. exact X.
Qed.

Lemma run_nodes_stuck : forall L w k n,
  alist_get k (w_nodes w) = Some n -> node_stuck (w_g w) k n -> In k L -> snd (run_nodes w L) <> None.
Proof.
  induction L as [|x rest IH]; intros w k n G S O; [contradiction|]. simpl.
  destruct (String.eqb x k) eqn:X.
  - apply String.eqb_eq in X; subst x. rewrite G.
    pose proof (S (w_g w) (gext_refl _)) as H.
    destruct (run_inputs (w_g w) k (wn_mapped n) (wn_pending n)) as [[g' m'] [e|]]; simpl in *; congruence.
  - apply String.eqb_neq in X. destruct O as [O|O]; [congruence|].
    destruct (alist_get x (w_nodes w)) as [nx|] eqn:GX; [|eapply IH; eassumption].
    pose proof (run_inputs_gext (wn_pending nx) (w_g w) x (wn_mapped nx)) as E.
    destruct (run_inputs (w_g w) x (wn_mapped nx) (wn_pending nx)) as [[g' m'] [e|]]; simpl in *; [congruence|].
    apply (IH _ k n); simpl; try assumption.
    + rewrite alist_get_set_other by congruence. assumption.
    + eapply node_stuck_ext; eassumption.
Qed.

(* a node whose static values are excluded stays so through the node phase, however it ends *)
Lemma run_nodes_static_stuck : forall L w k n,
  alist_get k (w_nodes w) = Some n -> static_stuck n ->
  exists n', alist_get k (w_nodes (fst (run_nodes w L))) = Some n' /\ static_stuck n'.
Proof.
  induction L as [|x rest IH]; intros w k n G S; simpl; [eauto|].
  destruct (alist_get x (w_nodes w)) as [nx|] eqn:GX; [|eapply IH; eassumption].
  destruct (String.eqb x k) eqn:X.
  - apply String.eqb_eq in X; subst x. rewrite G in GX. inversion GX; subst nx.
    destruct S as [S1 S2].
    pose proof (run_inputs_blocks_any (wn_pending n) (w_g w) k (wn_mapped n) (wn_static n) S2) as B.
    destruct (run_inputs (w_g w) k (wn_mapped n) (wn_pending n)) as [[g' m'] [e|]]; simpl in *.
    + rewrite alist_get_set_same. eexists. split; [reflexivity|]. split; assumption.
    + eapply IH; [simpl; apply alist_get_set_same|]. split; assumption.
  - apply String.eqb_neq in X.
    destruct (run_inputs (w_g w) x (wn_mapped nx) (wn_pending nx)) as [[g' m'] [e|]]; simpl.
    + rewrite alist_get_set_other by congruence. eauto.
    + eapply IH; [simpl; rewrite alist_get_set_other by congruence; eassumption|assumption].
Qed.

Lemma run_nodes_fail_doomed : forall L w w2 e,
  g_compiled (w_g w) = false -> run_nodes w L = (w2, Some e) ->
  g_err (w_g w2) <> None \/
  (g_compiled (w_g w2) = false /\ exists k n, alist_get k (w_nodes w2) = Some n /\ node_stuck (w_g w2) k n).
Proof.
  induction L as [|x rest IH]; intros w w2 e C H; simpl in H; [discriminate|].
  destruct (alist_get x (w_nodes w)) as [nx|] eqn:GX; [|eapply IH; eassumption].
  pose proof (run_inputs_compiled (wn_pending nx) (w_g w) x (wn_mapped nx)) as CC.
  destruct (run_inputs (w_g w) x (wn_mapped nx) (wn_pending nx)) as [[g' m'] [e'|]] eqn:R; simpl in CC.
  - inversion H; subst. simpl.
    destruct (run_inputs_fail_stuck _ _ _ _ _ _ _ C R) as [D|D]; [left; exact D|]. right.
    split; [congruence|]. exists x. eexists. split; [apply alist_get_set_same|]. exact D.
  - eapply IH; [|exact H]. simpl. congruence.
Qed.

(* ---- the static values phase *)
Lemma run_statics_compiled : forall L w, g_compiled (w_g (fst (run_statics fixed w L))) = g_compiled (w_g w).
Proof.
  induction L as [|x rest IH]; intros w; simpl; [reflexivity|].
  destruct (alist_get x (w_nodes w)) as [n|]; [|apply IH].
  destruct (wn_static n) as [|f fs]; [apply IH|].
  destruct (g_compiled (w_g w)) eqn:C; simpl; [exact C|].
  destruct (check_mapped (wn_mapped n) (f :: fs)) as [m' [e|]]; simpl; [exact C|]. rewrite IH. simpl. exact C.
Qed.

Lemma run_statics_stuck : forall L w k n,
  g_compiled (w_g w) = false -> alist_get k (w_nodes w) = Some n -> static_stuck n -> In k L ->
  snd (run_statics fixed w L) <> None.
Proof.
  induction L as [|x rest IH]; intros w k n C G S O; [contradiction|]. simpl.
  destruct (String.eqb x k) eqn:X.
  - apply String.eqb_eq in X; subst x. rewrite G. destruct S as [S1 S2].
    destruct (wn_static n) as [|f fs] eqn:ST; [congruence|]. rewrite C. simpl.
    pose proof (blocks_fail _ _ S2) as F.
    destruct (check_mapped (wn_mapped n) (f :: fs)) as [m' [e|]]; simpl in *; congruence.
  - apply String.eqb_neq in X. destruct O as [O|O]; [congruence|].
    destruct (alist_get x (w_nodes w)) as [nx|] eqn:GX; [|exact (IH w k n C G S O)].
    destruct (wn_static nx) as [|f fs]; [exact (IH w k n C G S O)|]. rewrite C. simpl.
    destruct (check_mapped (wn_mapped nx) (f :: fs)) as [m' [e|]]; simpl; [congruence|].
    apply (IH _ k n); simpl; try assumption.
    rewrite alist_get_set_other by congruence. assumption.
Qed.

Lemma run_statics_fail_doomed : forall L w w3 e,
  g_compiled (w_g w) = false -> run_statics fixed w L = (w3, Some e) ->
  g_compiled (w_g w3) = false /\ exists k n, alist_get k (w_nodes w3) = Some n /\ static_stuck n.
Proof.
  induction L as [|x rest IH]; intros w w3 e C H; simpl in H; [discriminate|].
  destruct (alist_get x (w_nodes w)) as [nx|] eqn:GX; [|eapply IH; eassumption].
  destruct (wn_static nx) as [|f fs] eqn:ST; [eapply IH; eassumption|].
  rewrite C in H. simpl in H.
  destruct (check_mapped (wn_mapped nx) (f :: fs)) as [m' [e'|]] eqn:CM.
  - inversion H; subst. simpl. split; [exact C|]. exists x. eexists. split; [apply alist_get_set_same|].
    split; simpl; [discriminate|]. eapply check_mapped_fail_blocks; [eassumption|discriminate].
  - eapply IH; [|exact H]. simpl. exact C.
Qed.

(* ------------------------------------------------------------------ A. a failing deferred phase dooms the workflow *)
Lemma deferred_fail_doomed : forall w ord sord w' out,
  g_compiled (w_g w) = false -> deferred w ord sord = (w', Some out) -> doomed w'.
Proof.
  intros w ord sord w' out C H. unfold deferred in H.
  destruct (g_err (w_g w)) eqn:E; [inversion H; subst; left; congruence|].
  pose proof (run_branches_compiled (w_branches w) w) as C1.
  destruct (run_branches fixed w (w_branches w)) as [w1 [o1|]] eqn:B; simpl in C1.
  - inversion H; subst. left. eapply run_branches_stop_dead; eassumption.
  - assert (C1' : g_compiled (w_g w1) = false) by congruence.
    pose proof (run_nodes_compiled (ord ++ map fst (w_nodes w1)) w1) as C2.
    destruct (run_nodes w1 (ord ++ map fst (w_nodes w1))) as [w2 [e2|]] eqn:N; simpl in C2.
    + inversion H; subst. destruct (run_nodes_fail_doomed _ _ _ _ C1' N) as [D|[D1 [k [n [D2 D3]]]]]; [left; exact D|].
      right. split; [exact D1|]. exists k, n. auto.
    + assert (C2' : g_compiled (w_g w2) = false) by congruence.
      destruct (run_statics fixed w2 (sord ++ map fst (w_nodes w2))) as [w3 [e3|]] eqn:S; [|discriminate].
      inversion H; subst. destruct (run_statics_fail_doomed _ _ _ _ C2' S) as [D1 [k [n [D2 D3]]]].
      right. split; [exact D1|]. exists k, n. auto.
Qed.

(* ------------------------------------------------------------------ C. a doomed workflow fails in a deferred phase *)
Lemma doomed_deferred_fails : forall w ord sord,
  doomed w -> exists out, snd (deferred w ord sord) = Some out /\ is_err out.
Proof.
  intros w ord sord D. unfold deferred.
  destruct (g_err (w_g w)) eqn:E; [eexists; split; [reflexivity|eexists; reflexivity]|].
  destruct D as [D|[C [k [n [G S]]]]]; [congruence|].
  pose proof (run_branches_compiled (w_branches w) w) as C1.
  pose proof (run_branches_gext (w_branches w) w) as E1.
  pose proof (run_branches_nodes fixed (w_branches w) w) as N1.
  destruct (run_branches fixed w (w_branches w)) as [w1 [o1|]] eqn:B; simpl in C1, E1, N1.
  - exists o1. split; [reflexivity|]. eapply run_branches_stop_is_err; eassumption.
  - assert (G1 : alist_get k (w_nodes w1) = Some n) by (rewrite N1; exact G).
    assert (K1 : In k (map fst (w_nodes w1))) by (eapply alist_get_in_keys; eassumption).
    pose proof (run_nodes_compiled (ord ++ map fst (w_nodes w1)) w1) as C2.
    destruct (run_nodes w1 (ord ++ map fst (w_nodes w1))) as [w2 [e2|]] eqn:N; simpl in C2;
      [eexists; split; [reflexivity|eexists; reflexivity]|].
    destruct S as [S|S].
    + exfalso. apply (run_nodes_stuck (ord ++ map fst (w_nodes w1)) w1 k n G1).
      * eapply node_stuck_ext; eassumption.
      * apply in_or_app. right. exact K1.
      * rewrite N. reflexivity.
    + destruct (run_nodes_static_stuck (ord ++ map fst (w_nodes w1)) w1 k n G1 S) as [n' [G2 S2]].
      rewrite N in G2. simpl in G2.
      assert (K2 : In k (map fst (w_nodes w2))) by (eapply alist_get_in_keys; eassumption).
      pose proof (run_statics_stuck (sord ++ map fst (w_nodes w2)) w2 k n') as X.
      destruct (run_statics fixed w2 (sord ++ map fst (w_nodes w2))) as [w3 [e3|]];
        [eexists; split; [reflexivity|eexists; reflexivity]|].
      exfalso. apply X; try assumption; [congruence|apply in_or_app; right; exact K2|reflexivity].
Qed.

(* ------------------------------------------------------------------ the handles of a workflow that can still be built *)
(* while the workflow is neither compiled nor in error, every WorkflowNode stands for a node of
   the graph (or for END): adding a node under that key again is refused, and recorded *)
Definition known_keys (K : list string) (g : gstate) : Prop :=
  forall k, In k K -> is_se k = true \/ has_node g k = true.

Definition handles_ok (w : wstate) : Prop :=
  g_compiled (w_g w) = false -> g_err (w_g w) = None -> known_keys (map fst (w_nodes w)) (w_g w).

Lemma known_keys_of_keys : forall K g g', keys g' = keys g -> known_keys K g -> known_keys K g'.
Proof. intros K g g' E H k I. destruct (H k I) as [A|A]; [left; exact A|right]. rewrite (has_node_of_keys g g' k E). exact A. Qed.

Lemma keys_add_branch : forall g s ends sk, keys (fst (g_add_branch g s ends sk)) = keys g.
Proof.
  intros g s ends [|]; [apply add_branch_skip_keys|].
  unfold g_add_branch, fail. destruct (g_err g); [reflexivity|].
  repeat (dif; [reflexivity|]).
  set (g1 := match alist_get s (g_nodes g) with
             | Some n => if nkind_eqb (n_kind n) NPass && negb (n_out n) then update_pending (set_typed s g) else g
             | None => g end).
  assert (S1 : same_skel g g1).
  { unfold g1. destruct (alist_get s (g_nodes g)); [dif; [eapply ss_trans; [apply ss_set_typed|apply ss_update_pending]|apply ss_refl]|apply ss_refl]. }
  set (g2 := set_h_prebranch (g_h_prebranch g1 ++ [s]) g1).
  destruct (branch_ends g2 s ends) as [g3 [er|]] eqn:BE; [reflexivity|]. simpl.
  destruct (branch_ends_spec _ _ _ _ BE) as [A1 _].
  change (keys g3 = keys g). rewrite A1. unfold g2. change (keys g1 = keys g). apply (ss_keys _ _ S1).
Qed.

Section Known.
  Variable K : list string.
  Lemma kk_add_node : forall g k nk ns nko ok, known_keys K g -> known_keys K (fst (g_add_node g k nk ns nko ok)).
  Proof.
    intros g k nk ns nko ok H. unfold g_add_node, fail. destruct (g_err g); [exact H|].
    repeat (dif; [exact H|]). simpl. intros x I. destruct (H x I) as [A|A]; [left; exact A|right].
    apply has_node_keys. apply has_node_keys in A. unfold keys in *. simpl. rewrite map_app. apply in_or_app. left. exact A.
  Qed.
  Lemma kk_add_edge : forall g s e nc nd fs, known_keys K g -> known_keys K (fst (g_add_edge g s e nc nd fs)).
  Proof. intros. eapply known_keys_of_keys; [apply keys_add_edge|assumption]. Qed.
  Lemma kk_add_branch : forall g s ends sk, known_keys K g -> known_keys K (fst (g_add_branch g s ends sk)).
  Proof. intros. eapply known_keys_of_keys; [apply keys_add_branch|assumption]. Qed.
  Lemma kk_compile : forall v g o, known_keys K g -> known_keys K (fst (g_compile v g o)).
  Proof. intros. eapply known_keys_of_keys; [apply (ss_keys _ _ (g_compile_skel v g o))|assumption]. Qed.
  Lemma kk_set_err : forall g e, known_keys K g -> known_keys K (set_err e g).
  Proof. intros g e H. exact H. Qed.
  Lemma kk_set_prenode : forall g x, known_keys K g -> known_keys K (set_h_prenode x g).
  Proof. intros g x H. exact H. Qed.
End Known.

Lemma run_nodes_node_keys : forall L w, map fst (w_nodes (fst (run_nodes w L))) = map fst (w_nodes w).
Proof.
  induction L as [|h rest IH]; intros w; simpl; [reflexivity|].
  destruct (alist_get h (w_nodes w)) as [nh|] eqn:GH; [|apply IH].
  destruct (run_inputs (w_g w) h (wn_mapped nh) (wn_pending nh)) as [[g' m'] [e|]]; simpl.
  - apply (set_keys h _ nh _ GH).
  - rewrite IH. simpl. apply (set_keys h _ nh _ GH).
Qed.

Lemma run_statics_node_keys : forall L w, map fst (w_nodes (fst (run_statics fixed w L))) = map fst (w_nodes w).
Proof.
  induction L as [|h rest IH]; intros w; simpl; [reflexivity|].
  destruct (alist_get h (w_nodes w)) as [nh|] eqn:GH; [|apply IH].
  destruct (wn_static nh) as [|f fs]; [apply IH|]. dif; [reflexivity|].
  destruct (check_mapped (wn_mapped nh) (f :: fs)) as [m' [e|]]; simpl.
  - apply (set_keys h _ nh _ GH).
  - rewrite IH. simpl. apply (set_keys h _ nh _ GH).
Qed.

Lemma w_compile_node_keys : forall w o ord sord,
  map fst (w_nodes (fst (w_compile fixed w o ord sord))) = map fst (w_nodes w).
Proof.
  intros w o ord sord. unfold w_compile. destruct (g_err (w_g w)); [reflexivity|].
  pose proof (run_branches_nodes fixed (w_branches w) w) as B.
  destruct (run_branches fixed w (w_branches w)) as [w1 [out|]]; simpl in B; [simpl; rewrite B; reflexivity|].
  pose proof (run_nodes_node_keys (ord ++ map fst (w_nodes w1)) w1) as N.
  destruct (run_nodes w1 (ord ++ map fst (w_nodes w1))) as [w2 [e|]]; simpl in N; [simpl; rewrite N, B; reflexivity|].
  pose proof (run_statics_node_keys (sord ++ map fst (w_nodes w2)) w2) as S.
  destruct (run_statics fixed w2 (sord ++ map fst (w_nodes w2))) as [w3 [e|]]; simpl in S; [simpl; rewrite S, N, B; reflexivity|].
  destruct (g_compile fixed (w_g w3) o) as [g' out]. simpl. rewrite S, N, B. reflexivity.
Qed.

Lemma known_keys_incl : forall K K' g, incl K' K -> known_keys K g -> known_keys K' g.
Proof. intros K K' g I H k X. apply H. apply I. exact X. Qed.

Lemma alist_set_keys_incl : forall {A} k (a : A) l, incl (map fst (alist_set k a l)) (k :: map fst l).
Proof.
  intros A k a l. induction l as [|[x y] l IH]; simpl.
  - intros z [Z|[]]; left; exact Z.
  - destruct (String.eqb k x) eqn:E; simpl.
    + apply String.eqb_eq in E; subst x. intros z [Z|Z]; [left; exact Z|right; right; exact Z].
    + intros z [Z|Z]; [right; left; exact Z|]. destruct (IH z Z) as [Q|Q]; [left; exact Q|right; right; exact Q].
Qed.

(* an AddNode that leaves the workflow buildable has added the node to the graph *)
Lemma add_node_live : forall g k nk ns nko ok,
  g_err (fst (g_add_node g k nk ns nko ok)) = None -> g_compiled (fst (g_add_node g k nk ns nko ok)) = false ->
  g_err g = None /\ g_compiled g = false /\ has_node g k = false /\ is_se k = false /\
  has_node (fst (g_add_node g k nk ns nko ok)) k = true /\
  g_ctrl (fst (g_add_node g k nk ns nko ok)) = g_ctrl g /\ g_data (fst (g_add_node g k nk ns nko ok)) = g_data g.
Proof.
  intros g k nk ns nko ok. unfold g_add_node, fail. destruct (g_err g) eqn:E; [simpl; congruence|].
  destruct (g_compiled g) eqn:C; [simpl; congruence|].
  destruct (is_se k) eqn:R; [simpl; discriminate|]. destruct (has_node g k) eqn:D; [simpl; discriminate|].
  repeat (dif; [simpl; discriminate|]). simpl. intros _ _. repeat split; try reflexivity.
  apply has_node_keys. unfold keys. simpl. rewrite map_app. apply in_or_app. right. left. reflexivity.
Qed.

Lemma handles_ok_add_input : forall w to from kind fs, handles_ok w -> handles_ok (fst (w_add_input w to from kind fs)).
Proof.
  intros w to from kind fs H. unfold w_add_input.
  set (nodes := if String.eqb to END_ && negb (is_some (alist_get to (w_nodes w)))
                then alist_set to (mkWN [] MNone []) (w_nodes w) else w_nodes w).
  assert (NI : forall g, known_keys (map fst (w_nodes w)) g -> known_keys (map fst nodes) g).
  { intros g X. unfold nodes. destruct (String.eqb to END_ && negb (is_some (alist_get to (w_nodes w)))) eqn:Q; [|exact X].
    apply andb_true_iff in Q. destruct Q as [Q _]. apply String.eqb_eq in Q. subst to.
    intros k I. apply alist_set_keys_incl in I. destruct I as [I|I]; [subst; left; reflexivity|apply X; exact I]. }
  destruct (alist_get to nodes) as [n|] eqn:G; [|exact H]. simpl. intros C E. simpl in *.
  intros k I. apply alist_set_keys_incl in I. destruct I as [I|I].
  - subst k. apply (NI _ (H C E)). eapply alist_get_in_keys; eassumption.
  - apply (NI _ (H C E)). exact I.
Qed.

Lemma handles_ok_wstep : forall w c, handles_ok w -> handles_ok (fst (wstep fixed w c)).
Proof.
  intros w [] H; simpl.
  - (* AddNode *)
    destruct (g_add_node (w_g w) k nk need_state false false) as [g' o] eqn:A. simpl. intros C E. simpl in *.
    pose proof (add_node_live (w_g w) k nk need_state false false) as L. rewrite A in L. simpl in L.
    destruct (L E C) as [E0 [C0 [_ [_ [HK _]]]]].
    pose proof (kk_add_node (map fst (w_nodes w)) (w_g w) k nk need_state false false (H C0 E0)) as KK.
    rewrite A in KK. simpl in KK.
    intros x I. apply alist_set_keys_incl in I. destruct I as [I|I]; [subst; right; exact HK|apply KK; exact I].
  - apply handles_ok_add_input. exact H.
  - exact H.
  - apply handles_ok_add_input. exact H.
  - (* SetStaticValue *)
    set (nodes := if String.eqb k END_ && negb (is_some (alist_get k (w_nodes w)))
                  then alist_set k (mkWN [] MNone []) (w_nodes w) else w_nodes w).
    assert (NI : forall g, known_keys (map fst (w_nodes w)) g -> known_keys (map fst nodes) g).
    { intros g X. unfold nodes. destruct (String.eqb k END_ && negb (is_some (alist_get k (w_nodes w)))) eqn:Q; [|exact X].
      apply andb_true_iff in Q. destruct Q as [Q _]. apply String.eqb_eq in Q. subst k.
      intros x I. apply alist_set_keys_incl in I. destruct I as [I|I]; [subst; left; reflexivity|apply X; exact I]. }
    destruct (alist_get k nodes) as [n|] eqn:G; [|exact H]. simpl. intros C E. simpl in *.
    intros x I. apply alist_set_keys_incl in I. destruct I as [I|I].
    + subst x. apply (NI _ (H C E)). eapply alist_get_in_keys; eassumption.
    + apply (NI _ (H C E)). exact I.
  - (* Compile *)
    intros C E. rewrite w_compile_node_keys.
    destruct (g_err (w_g w)) eqn:E0.
    { unfold w_compile in *. rewrite E0 in *. simpl in *. congruence. }
    destruct (g_compiled (w_g w)) eqn:C0.
    { exfalso. destruct (compiled_wstep w (WCompile o ord sord) C0) as [_ X]. simpl in X. congruence. }
    apply (lwinv_compile (known_keys (map fst (w_nodes w))) (kk_add_edge _) (kk_add_branch _) (kk_compile _)
             (kk_set_err _) (kk_set_prenode _) fixed w o ord sord).
    exact (H C0 E0).
Qed.

Theorem reachable_handles_ok : forall st cs, handles_ok (final (wstep fixed) (w_init st) cs).
Proof.
  intros st cs. apply (run_keeps (wstep fixed) handles_ok handles_ok_wstep).
  intros _ _ k [].
Qed.

(* ------------------------------------------------------------------ B. the calls that are not Compile keep a workflow doomed *)
Lemma stuck_add_input : forall w to from kind fs,
  doomed w -> doomed (fst (w_add_input w to from kind fs)).
Proof.
  intros w to from kind fs D. unfold w_add_input.
  set (nodes := if String.eqb to END_ && negb (is_some (alist_get to (w_nodes w)))
                then alist_set to (mkWN [] MNone []) (w_nodes w) else w_nodes w).
  destruct (alist_get to nodes) as [nt|] eqn:GT; [|exact D]. simpl.
  destruct D as [D|[C [k [n [G S]]]]]; [left; exact D|]. right. simpl. split; [exact C|].
  assert (GN : alist_get k nodes = Some n).
  { unfold nodes. destruct (String.eqb to END_ && negb (is_some (alist_get to (w_nodes w)))) eqn:Q; [|exact G].
    apply andb_true_iff in Q. destruct Q as [_ Q]. rewrite alist_get_set_other; [exact G|].
    intros X; subst to. rewrite G in Q. discriminate. }
  destruct (String.eqb k to) eqn:X.
  - apply String.eqb_eq in X; subst to. rewrite GN in GT. inversion GT; subst nt.
    exists k. eexists. split; [apply alist_get_set_same|]. destruct S as [S|S].
    + left. intros g' E. simpl. apply run_inputs_app_fail. apply S. exact E.
    + right. exact S.
  - apply String.eqb_neq in X. exists k, n. split; [rewrite alist_get_set_other by exact X; exact GN|exact S].
Qed.

Lemma doomed_other_step : forall w c,
  handles_ok w -> doomed w -> w_is_compile c = false -> doomed (fst (wstep fixed w c)).
Proof.
  intros w c H D NC.
  destruct (g_err (w_g w)) as [e|] eqn:E.
  { left. rewrite (proj1 (wstep_err w c e E)). congruence. }
  destruct D as [D|[C [k [n [G S]]]]]; [congruence|].
  destruct c; simpl in NC; try discriminate; simpl.
  - (* AddNode *)
    destruct (g_add_node (w_g w) k0 nk need_state false false) as [g' o] eqn:A. simpl.
    destruct (g_err g') eqn:E'; [left; simpl; congruence|]. right. simpl.
    pose proof (add_node_live (w_g w) k0 nk need_state false false) as L. rewrite A in L. simpl in L.
    assert (C' : g_compiled g' = false).
    { pose proof (frozen_add_node (w_g w) k0 nk need_state false false) as F.
      unfold g_add_node, fail in A. rewrite E, C in A. repeat (dih A; [inversion A; subst; exact C|]). inversion A; subst. exact C. }
    destruct (L E' C') as [_ [_ [HN [HS [_ [LC LD]]]]]].
    split; [exact C'|].
    assert (NK : k <> k0).
    { intros X; subst k0. destruct (H C E k (alist_get_in_keys _ _ _ G)) as [Q|Q]; congruence. }
    exists k, n. split; [rewrite alist_get_set_other by exact NK; exact G|].
    destruct S as [S|S]; [left|right; exact S].
    eapply node_stuck_ext; [|exact S]. split; [rewrite LC|rewrite LD]; apply incl_refl.
  - apply stuck_add_input. right. split; [exact C|]. exists k, n. auto.
  - right. simpl. split; [exact C|]. exists k, n. auto.
  - apply stuck_add_input. right. split; [exact C|]. exists k, n. auto.
  - (* SetStaticValue *)
    set (nodes := if String.eqb k0 END_ && negb (is_some (alist_get k0 (w_nodes w)))
                  then alist_set k0 (mkWN [] MNone []) (w_nodes w) else w_nodes w).
    destruct (alist_get k0 nodes) as [nt|] eqn:GT; [|right; split; [exact C|]; exists k, n; auto]. simpl.
    right. simpl. split; [exact C|].
    assert (GN : alist_get k nodes = Some n).
    { unfold nodes. destruct (String.eqb k0 END_ && negb (is_some (alist_get k0 (w_nodes w)))) eqn:Q; [|exact G].
      apply andb_true_iff in Q. destruct Q as [_ Q]. rewrite alist_get_set_other; [exact G|].
      intros X; subst k0. rewrite G in Q. discriminate. }
    destruct (String.eqb k k0) eqn:X.
    + apply String.eqb_eq in X; subst k0. rewrite GN in GT. inversion GT; subst nt.
      exists k. eexists. split; [apply alist_get_set_same|]. destruct S as [S|[S1 S2]].
      * left. exact S.
      * right. split; simpl.
        -- destruct (smem field (wn_static n)); [exact S1|]. destruct (wn_static n); [congruence|discriminate].
        -- destruct (smem field (wn_static n)); [exact S2|]. apply blocks_app; assumption.
    + apply String.eqb_neq in X. exists k, n. split; [rewrite alist_get_set_other by exact X; exact GN|exact S].
Qed.

(* ------------------------------------------------------------------ the theorem *)
Lemma doomed_compile : forall w o ord sord,
  doomed w -> is_err (snd (w_compile fixed w o ord sord)) /\ doomed (fst (w_compile fixed w o ord sord)).
Proof.
  intros w o ord sord D. rewrite w_compile_deferred.
  destruct (doomed_deferred_fails w ord sord D) as [out [X1 X2]].
  destruct (deferred w ord sord) as [w' [out'|]] eqn:DF; simpl in X1; [|discriminate].
  inversion X1; subst out'. simpl. split; [exact X2|].
  destruct D as [D|[C _]].
  - unfold deferred in DF. destruct (g_err (w_g w)) eqn:E; [|congruence]. inversion DF; subst. left. congruence.
  - eapply deferred_fail_doomed; eassumption.
Qed.

Lemma doomed_run : forall cs w, handles_ok w -> doomed w ->
  Forall2 (fun call out => w_is_compile call = true -> is_err out) cs (snd (run_calls (wstep fixed) w cs)).
Proof.
  induction cs as [|c cs IH]; intros w H D; simpl; [constructor|].
  pose proof (handles_ok_wstep w c H) as H1.
  assert (X : (w_is_compile c = true -> is_err (snd (wstep fixed w c))) /\ doomed (fst (wstep fixed w c))).
  { destruct (w_is_compile c) eqn:IC.
    - destruct c; try discriminate. simpl. destruct (doomed_compile w o ord sord D) as [A B]. split; [intros _; exact A|exact B].
    - split; [discriminate|]. apply doomed_other_step; assumption. }
  destruct X as [X1 X2].
  destruct (wstep fixed w c) as [w1 o1]. simpl in *.
  specialize (IH w1 H1 X2). destruct (run_calls (wstep fixed) w1 cs) as [w2 os]. simpl in *.
  constructor; assumption.
Qed.

(* graph.compile's own rejections: the ones a later call can still repair *)
Definition compile_time (e : ecls) : Prop :=
  In e [ETriggerUnsupported; ENoStart; ENoEnd; EUninferred; EDupMapTarget; EDagLoop; EMaxStepsDag].

Lemma g_compile_error_class : forall g o g' e,
  g_compile fixed g o = (g', OErr e) -> (g_err g = Some e /\ g' = g) \/ compile_time e.
Proof.
  intros g o g' e. unfold g_compile. destruct (g_err g) eqn:E.
  - intros H. inversion H; subst. left. auto.
  - unfold compile_time. repeat (dif; [intros H; inversion H; subst; right; simpl; tauto|]).
    simpl. repeat (dif; [intros H; inversion H; subst; right; simpl; tauto|]). intros H; discriminate.
Qed.

Theorem deferred_error_sticks : forall st cs0 o ord sord w' e,
  let w := final (wstep fixed) (w_init st) cs0 in
  g_compiled (w_g w) = false ->
  wstep fixed w (WCompile o ord sord) = (w', OErr e) -> ~ compile_time e ->
  forall cs, Forall2 (fun call out => w_is_compile call = true -> is_err out) cs (snd (run_calls (wstep fixed) w' cs)).
Proof.
  intros st cs0 o ord sord w' e w C S NT cs.
  assert (H : handles_ok w) by apply reachable_handles_ok.
  assert (H' : handles_ok w').
  { pose proof (handles_ok_wstep w (WCompile o ord sord) H) as X. rewrite S in X. exact X. }
  apply doomed_run; [exact H'|].
  simpl in S. rewrite w_compile_deferred in S.
  destruct (deferred w ord sord) as [w1 [out|]] eqn:DF.
  - inversion S; subst. eapply deferred_fail_doomed; eassumption.
  - destruct (g_compile fixed (w_g w1) o) as [g' out] eqn:GC. inversion S; subst.
    destruct (g_compile_error_class _ _ _ _ GC) as [[A B]|A]; [|contradiction].
    left. simpl. subst g'. congruence.
Qed.

(* non-vacuity: a conflict of mapping targets is not recorded in the build error, and sticks *)
Definition wf_unrecorded : list wcall :=
  [ WAddNode "a" NLambda false; WAddInput "a" START WNormal [];
    WAddNode "b" NLambda false; WAddInput "b" "a" WNormal ["A"]; WAddInput "b" START WNormal ["A"];
    WAddInput END_ "b" WNormal [] ].

Lemma wf_unrecorded_run :
  let w := final (wstep fixed) (w_init false) wf_unrecorded in
  g_compiled (w_g w) = false /\
  snd (wstep fixed w (WCompile opt_default [] [])) = OErr EMapConflict /\
  g_err (w_g (fst (wstep fixed w (WCompile opt_default [] [])))) = None /\
  ~ compile_time EMapConflict.
Proof.
  vm_compute. repeat split; try reflexivity. intros H. repeat (destruct H as [H|H]; [discriminate|]). exact H.
Qed.
