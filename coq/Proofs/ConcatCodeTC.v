(* Proofs/ConcatCodeTC.v — the reference statement-by-statement translation of schema.concatToolCalls
   (Model/ConcatCodeRef.v gen_concatToolCalls) computes [concat_toolcalls_o] (Model/ConcatOrder.v): the
   calls without index in arrival order, one merged call per index in the order Go visits its index
   map, stably sorted — and hence, by toolcalls_order, [concat_toolcalls] whatever that order is. *)
From Eino Require Import Base.Util Model.ConcatTable Model.Concat Model.ConcatMsg Model.ConcatOrder
  Model.ConcatGenLib Model.ConcatCodeRef Proofs.ConcatRechunk Proofs.ConcatMsg Proofs.ConcatOrderMsg Proofs.ConcatCodeRef.
From Coq Require Import Sorting.Permutation.

(* ---------------------------------------------------------------- the index map *)

Lemma zm_get_put_same k v m : zm_get k (zm_put k v m) = v.
Proof.
  induction m as [|[k' v'] m IH]; cbn; [now rewrite Z.eqb_refl|].
  destruct (Z.eqb k k') eqn:E; cbn; [now rewrite Z.eqb_refl|]. now rewrite E.
Qed.

Lemma zm_get_put_other k k' v m : k <> k' -> zm_get k (zm_put k' v m) = zm_get k m.
Proof.
  intros Hne. induction m as [|[k2 v2] m IH]; cbn.
  - destruct (Z.eqb k k') eqn:E; [apply Z.eqb_eq in E; contradiction|reflexivity].
  - destruct (Z.eqb k' k2) eqn:E2; cbn.
    + apply Z.eqb_eq in E2. subst k2. destruct (Z.eqb k k') eqn:E; [apply Z.eqb_eq in E; contradiction|reflexivity].
    + destruct (Z.eqb k k2); [reflexivity|exact IH].
Qed.

Lemma zm_keys_put k v m : forall z, In z (map fst (zm_put k v m)) <-> z = k \/ In z (map fst m).
Proof.
  induction m as [|[k' v'] m IH]; intros z; cbn; [intuition|].
  destruct (Z.eqb k k') eqn:E; cbn.
  - apply Z.eqb_eq in E. subst. intuition.
  - rewrite IH. intuition.
Qed.

Lemma zm_put_NoDup k v m : NoDup (map fst m) -> NoDup (map fst (zm_put k v m)).
Proof.
  induction m as [|[k' v'] m IH]; cbn; intros H.
  - constructor; [intros []|constructor].
  - inversion H as [|? ? Hn Hd]; subst. destruct (Z.eqb k k') eqn:E; cbn.
    + apply Z.eqb_eq in E. subst. now constructor.
    + constructor; [|auto]. rewrite zm_keys_put. intros [->|Hin]; [rewrite Z.eqb_refl in E; discriminate|contradiction].
Qed.

Lemma zm_get_In k v m : NoDup (map fst m) -> In (k, v) m -> zm_get k m = v.
Proof.
  induction m as [|[k' v'] m IH]; cbn; intros Hnd Hin; [destruct Hin|].
  inversion Hnd as [|? ? Hn Hd]; subst. destruct Hin as [E|Hin].
  - inversion E; subst. now rewrite Z.eqb_refl.
  - destruct (Z.eqb k k') eqn:E; [|auto]. apply Z.eqb_eq in E. subst. exfalso. apply Hn.
    change k' with (fst (k', v)). now apply in_map.
Qed.

(* ---------------------------------------------------------------- the grouping loop *)

Definition group_step (st : list toolcall * list (Z * list nat)) (ic : nat * toolcall) :=
  match tc_idx (snd ic) with
  | None => (fst st ++ [snd ic], snd st)
  | Some z => (fst st, zm_put z (zm_get z (snd st) ++ [fst ic]) (snd st))
  end.

Lemma group_loop : forall (l : list (nat * toolcall)) merged m,
  cfold (R := list toolcall) (fun '(merged, m) '(i, chunks_i) =>
        let index := (tc_idx chunks_i) in
        cbind (if (negb (is_some index)) then (let merged := (merged ++ [chunks_i]) in
          Next (merged, m))
          else (cdo (r_deref index) (fun d_1 =>
cdo (r_deref index) (fun d_2 =>
let m := (zm_put d_1 ((zm_get d_2 m) ++ [i]) m) in
          Next (merged, m))))) (fun '(merged, m) =>
        Next (merged, m)))
      l (merged, m)
  = Next (fold_left group_step l (merged, m)).
Proof.
  induction l as [|[i c] l IH]; intros merged m; cbn [cfold fold_left]; [reflexivity|].
  cbv zeta. unfold group_step at 2. cbn [fst snd]. destruct (tc_idx c) as [z|]; cbn [is_some negb r_deref cdo cbind]; apply IH.
Qed.

(* what the loop has collected after the chunks [pre] of [pre ++ rest] *)
Definition grp_inv (cs pre : list toolcall) (st : list toolcall * list (Z * list nat)) : Prop :=
  fst st = filter is_nil_idx pre /\
  NoDup (map fst (snd st)) /\
  (forall z, In z (map fst (snd st)) <-> filter (has_idx z) pre <> []) /\
  (forall z, map (nth_error cs) (zm_get z (snd st)) = map Some (filter (has_idx z) pre)).

Lemma has_idx_eq z c : has_idx z c = true <-> tc_idx c = Some z.
Proof.
  unfold has_idx. destruct (tc_idx c) as [j|]; [|split; discriminate].
  rewrite Z.eqb_eq. split; [intros ->; reflexivity|intros E; now inversion E].
Qed.

Lemma group_fold cs : forall rest pre st,
  cs = pre ++ rest -> grp_inv cs pre st ->
  grp_inv cs cs (fold_left group_step (combine (seq (List.length pre) (List.length rest)) rest) st).
Proof.
  induction rest as [|c rest IH]; intros pre st Hcs Hinv; cbn [List.length seq combine fold_left].
  - rewrite app_nil_r in Hcs. now subst.
  - assert (Hcs' : cs = (pre ++ [c]) ++ rest) by (rewrite <- app_assoc; exact Hcs).
    assert (Hnth : nth_error cs (List.length pre) = Some c).
    { rewrite Hcs, nth_error_app2 by lia. now rewrite Nat.sub_diag. }
    specialize (IH (pre ++ [c]) (group_step st (List.length pre, c)) Hcs').
    rewrite app_length in IH. cbn [List.length] in IH. rewrite Nat.add_1_r in IH. apply IH. clear IH.
    destruct Hinv as (H1 & H2 & H3 & H4). destruct st as [mg m]. cbn [fst snd] in *.
    unfold group_step. cbn [fst snd]. unfold grp_inv. cbn [fst snd].
    destruct (tc_idx c) as [z|] eqn:Ec.
    + (* an indexed fragment *)
      assert (Hnil : is_nil_idx c = false) by (unfold is_nil_idx; now rewrite Ec).
      cbn [fst snd]. repeat split.
      * rewrite filter_app. cbn [filter]. rewrite Hnil, app_nil_r. exact H1.
      * apply zm_put_NoDup, H2.
      * rewrite zm_keys_put, filter_app. cbn [filter]. intros [->|Hin].
        -- assert (E : has_idx z c = true) by (apply has_idx_eq, Ec). rewrite E.
           intros Hn. apply app_eq_nil in Hn. destruct Hn as [_ Hn]. discriminate.
        -- apply H3 in Hin. intros Hn. apply app_eq_nil in Hn. destruct Hn as [Hn _]. contradiction.
      * rewrite zm_keys_put, filter_app. cbn [filter]. intros Hne.
        destruct (Z.eq_dec z0 z) as [->|Hd]; [now left|right]. apply H3.
        assert (E : has_idx z0 c = false).
        { destruct (has_idx z0 c) eqn:E; [|reflexivity]. apply has_idx_eq in E. rewrite Ec in E. inversion E. congruence. }
        rewrite E, app_nil_r in Hne. exact Hne.
      * intros z0. rewrite filter_app. cbn [filter]. destruct (Z.eq_dec z0 z) as [->|Hd].
        -- rewrite zm_get_put_same. assert (E : has_idx z c = true) by (apply has_idx_eq, Ec). rewrite E.
           rewrite !map_app, H4. cbn [map]. now rewrite Hnth.
        -- rewrite zm_get_put_other by exact Hd.
           assert (E : has_idx z0 c = false).
           { destruct (has_idx z0 c) eqn:E; [|reflexivity]. apply has_idx_eq in E. rewrite Ec in E. inversion E. congruence. }
           rewrite E, app_nil_r. apply H4.
    + (* a call without index *)
      assert (Hnil : is_nil_idx c = true) by (unfold is_nil_idx; now rewrite Ec).
      assert (E : forall z, has_idx z c = false) by (intros z; unfold has_idx; now rewrite Ec).
      cbn [fst snd]. repeat split.
      * rewrite filter_app. cbn [filter]. rewrite Hnil, H1. reflexivity.
      * exact H2.
      * intros Hin. rewrite filter_app. cbn [filter]. rewrite E, app_nil_r. now apply H3.
      * intros Hne. rewrite filter_app in Hne. cbn [filter] in Hne. rewrite E, app_nil_r in Hne. now apply H3.
      * intros z. rewrite filter_app. cbn [filter]. rewrite E, app_nil_r. apply H4.
Qed.

Definition groups (cs : list toolcall) : list toolcall * list (Z * list nat) :=
  fold_left group_step (enumerate cs) ([], []).

Lemma groups_inv cs : grp_inv cs cs (groups cs).
Proof.
  unfold groups, enumerate. apply (group_fold cs cs [] ([], [])); [reflexivity|].
  repeat split; cbn; try constructor; try contradiction; try reflexivity.
Qed.

(* ---------------------------------------------------------------- one group: the three picks and the arguments *)

Definition pick_step (cur s : string) : option string :=
  if str_empty s then Some cur else if str_empty cur then Some s else if String.eqb cur s then Some cur else None.

Lemma pick_from_cons cur s l :
  pick_from cur (s :: l) = match pick_step cur s with Some c => pick_from c l | None => Err E_CONFLICT end.
Proof. unfold pick_step. cbn [pick_from]. destruct (str_empty s), (str_empty cur), (String.eqb cur s); reflexivity. Qed.

Lemma pick_block {T R} (cur s : string) (k : string -> ctl T R) :
  cbind (if (negb (String.eqb s EmptyString)) then (cbind (if (String.eqb cur EmptyString) then (let cur := s in
                Next cur)
                else (if (negb (String.eqb cur s)) then (Return (Err E_CONFLICT))
                else Next cur)) (fun cur =>
              Next cur))
              else (Next cur)) k
  = match pick_step cur s with Some c => k c | None => Return (Err E_CONFLICT) end.
Proof.
  unfold pick_step, str_empty. cbv zeta.
  destruct (String.eqb s EmptyString); cbn [negb cbind]; [reflexivity|].
  destruct (String.eqb cur EmptyString); cbn [cbind]; [reflexivity|].
  destruct (String.eqb cur s); reflexivity.
Qed.

Definition picks3 (i t n : string) (g : list toolcall) : option (string * string * string) :=
  match pick_from i (map tc_id g) with
  | Ok i' => match pick_from t (map tc_type g) with
             | Ok t' => match pick_from n (map tc_name g) with
                        | Ok n' => Some (i', t', n')
                        | _ => None
                        end
             | _ => None
             end
  | _ => None
  end.

Definition tc_inner (chunks : list toolcall) :=
  (fun '(args, toolID, toolType, toolName) n =>
            cdo (R := list toolcall) (g_nth chunks n) (fun chunk =>
            cbind (if (negb (String.eqb (tc_id chunk) EmptyString)) then (cbind (if (String.eqb toolID EmptyString) then (let toolID := (tc_id chunk) in
                Next toolID)
                else (if (negb (String.eqb toolID (tc_id chunk))) then (Return (Err E_CONFLICT))
                else Next toolID)) (fun toolID =>
              Next toolID))
              else (Next toolID)) (fun toolID =>
            cbind (if (negb (String.eqb (tc_type chunk) EmptyString)) then (cbind (if (String.eqb toolType EmptyString) then (let toolType := (tc_type chunk) in
                Next toolType)
                else (if (negb (String.eqb toolType (tc_type chunk))) then (Return (Err E_CONFLICT))
                else Next toolType)) (fun toolType =>
              Next toolType))
              else (Next toolType)) (fun toolType =>
            cbind (if (negb (String.eqb (tc_name chunk) EmptyString)) then (cbind (if (String.eqb toolName EmptyString) then (let toolName := (tc_name chunk) in
                Next toolName)
                else (if (negb (String.eqb toolName (tc_name chunk))) then (Return (Err E_CONFLICT))
                else Next toolName)) (fun toolName =>
              Next toolName))
              else (Next toolName)) (fun toolName =>
            cbind (if (negb (String.eqb (tc_args chunk) EmptyString)) then (let args := (args ++ (tc_args chunk))%string in
              Next args)
              else (Next args)) (fun args =>
            Next (args, toolID, toolType, toolName))))))).

Lemma pick_from_no_panic cur l : pick_from cur l <> Panic.
Proof.
  revert cur. induction l as [|s l IH]; intros cur; cbn; [discriminate|].
  destruct (str_empty s); [apply IH|]. destruct (str_empty cur); [apply IH|]. destruct (String.eqb cur s); [apply IH|discriminate].
Qed.

Lemma frag_loop cs : forall v g a i t n, map (nth_error cs) v = map Some g ->
  cfold (tc_inner cs) v (a, i, t, n)
  = match picks3 i t n g with
    | Some (i', t', n') => Next ((a ++ concat_strings (map tc_args g))%string, i', t', n')
    | None => Return (Err E_CONFLICT)
    end.
Proof.
  induction v as [|x v IH]; intros g a i t n Hm.
  - destruct g; [|discriminate]. cbn. now rewrite append_nil_r.
  - destruct g as [|c g]; [discriminate|]. cbn [map] in Hm. inversion Hm as [[Hx Hm']].
    cbn [cfold]. unfold tc_inner at 1. unfold g_nth. rewrite Hx. cbn [cdo].
    unfold picks3. cbn [map]. rewrite !pick_from_cons.
    rewrite pick_block. destruct (pick_step i (tc_id c)) as [i'|]; [|reflexivity].
    rewrite pick_block. destruct (pick_step t (tc_type c)) as [t'|].
    2:{ destruct (pick_from i' (map tc_id g)); reflexivity. }
    rewrite pick_block. destruct (pick_step n (tc_name c)) as [n'|].
    2:{ destruct (pick_from i' (map tc_id g)); [|reflexivity|reflexivity]. destruct (pick_from t' (map tc_type g)); reflexivity. }
    cbv zeta. destruct (String.eqb (tc_args c) EmptyString) eqn:E; cbn [negb cbind];
      rewrite (IH g _ _ _ _ Hm'); fold (picks3 i' t' n' g);
      (destruct (picks3 i' t' n' g) as [[[i2 t2] n2]|]; [|reflexivity]); cbn [concat_strings fold_right].
    + apply String.eqb_eq in E. rewrite E. reflexivity.
    + now rewrite append_assoc.
Qed.

(* ---------------------------------------------------------------- the loop over the index map *)

Definition tc_body (chunks : list toolcall)
  : list toolcall * string -> Z * list nat -> ctl (list toolcall * string) (list toolcall) :=
  (fun '(merged, args) '(k, v) =>
        let index := k in
        let toolCall := (tc_new (Some index)) in
        cbind (R := list toolcall) (if (Nat.ltb 0 (List.length v)) then (cdo (g_nth v 0) (fun x_3 =>
cdo (g_nth chunks x_3) (fun toolCall =>
          Next toolCall)))
          else (Next toolCall)) (fun toolCall =>
        let args := EmptyString in
        let toolID := EmptyString in
        let toolType := EmptyString in
        let toolName := EmptyString in
        cbind (cfold (tc_inner chunks)
          v (args, toolID, toolType, toolName)) (fun '(args, toolID, toolType, toolName) =>
        let toolCall := (tc_set_id toolCall toolID) in
        let toolCall := (tc_set_type toolCall toolType) in
        let toolCall := (tc_set_name toolCall toolName) in
        let toolCall := (tc_set_args toolCall args) in
        let merged := (merged ++ [toolCall]) in
        Next (merged, args)))).

Lemma group_body cs k v mg (a : string) :
  map (nth_error cs) v = map Some (filter (has_idx k) cs) -> filter (has_idx k) cs <> [] ->
  tc_body cs (mg, a) (k, v)
  = match merge_group k (filter (has_idx k) cs) with
    | Ok tcm => Next (mg ++ [tcm], concat_strings (map tc_args (filter (has_idx k) cs)))
    | Err e => Return (Err e)
    | Panic => Return Panic
    end.
Proof.
  intros Hm Hne. unfold tc_body. cbv zeta.
  destruct (filter (has_idx k) cs) as [|c0 g] eqn:Eg; [contradiction|].
  destruct v as [|x0 v]; [discriminate|]. cbn [map] in Hm. inversion Hm as [[Hx Hm']].
  cbn [List.length Nat.ltb Nat.leb g_nth nth_error cdo]. unfold g_nth at 1. rewrite Hx. cbn [cdo cbind].
  rewrite (frag_loop cs (x0 :: v) (c0 :: g)) by (cbn [map]; now rewrite Hx, Hm').
  unfold merge_group, pick, picks3.
  destruct (pick_from EmptyString (map tc_id (c0 :: g))) as [i'|e|] eqn:E1; cbn [res_bind].
  - destruct (pick_from EmptyString (map tc_type (c0 :: g))) as [t'|e|] eqn:E2; cbn [res_bind].
    + destruct (pick_from EmptyString (map tc_name (c0 :: g))) as [n'|e|] eqn:E3; cbn [res_bind cbind].
      * reflexivity.
      * clear - E3. revert E3. generalize (map tc_name (c0 :: g)) as l. generalize EmptyString as cur.
        intros cur l; revert cur; induction l as [|s l IH]; intros cur; cbn; [discriminate|].
        destruct (str_empty s); [apply IH|]. destruct (str_empty cur); [apply IH|]. destruct (String.eqb cur s); [apply IH|].
        intros H; now inversion H.
      * exfalso. exact (pick_from_no_panic _ _ E3).
    + clear - E2. revert E2. generalize (map tc_type (c0 :: g)) as l. generalize EmptyString as cur.
      intros cur l; revert cur; induction l as [|s l IH]; intros cur; cbn; [discriminate|].
      destruct (str_empty s); [apply IH|]. destruct (str_empty cur); [apply IH|]. destruct (String.eqb cur s); [apply IH|].
      intros H; now inversion H.
    + exfalso. exact (pick_from_no_panic _ _ E2).
  - clear - E1. revert E1. generalize (map tc_id (c0 :: g)) as l. generalize EmptyString as cur.
    intros cur l; revert cur; induction l as [|s l IH]; intros cur; cbn; [discriminate|].
    destruct (str_empty s); [apply IH|]. destruct (str_empty cur); [apply IH|]. destruct (String.eqb cur s); [apply IH|].
    intros H; now inversion H.
  - exfalso. exact (pick_from_no_panic _ _ E1).
Qed.

Lemma outer_tc_loop cs : forall (L : list (Z * list nat)) mg (a : string),
  (forall k v, In (k, v) L ->
     map (nth_error cs) v = map Some (filter (has_idx k) cs) /\ filter (has_idx k) cs <> []) ->
  exists a',
    cfold (tc_body cs) L (mg, a)
    = match res_mapM (fun kv => merge_group (fst kv) (filter (has_idx (fst kv)) cs)) L with
      | Ok r => Next (mg ++ r, a')
      | Err e => Return (Err e)
      | Panic => Return Panic
      end.
Proof.
  induction L as [|[k v] L IH]; intros mg a HL; cbn [cfold res_mapM].
  - exists a. now rewrite app_nil_r.
  - destruct (HL k v (or_introl eq_refl)) as [Hm Hne]. rewrite (group_body cs k v mg a Hm Hne). cbn [fst].
    destruct (merge_group k (filter (has_idx k) cs)) as [tcm|e|]; cbn [cbind res_bind]; [|exists a; reflexivity|exists a; reflexivity].
    destruct (IH (mg ++ [tcm]) (concat_strings (map tc_args (filter (has_idx k) cs)))) as [a' Ha'].
    { intros k' v' Hin. apply HL. now right. }
    exists a'. rewrite Ha'.
    destruct (res_mapM _ L); cbn [res_bind]; try reflexivity. now rewrite <- app_assoc.
Qed.

(* ---------------------------------------------------------------- the sort *)

Lemma sinsert_o_ok x : forall l,
  sinsert_o (fun a b => gen_tc_less (tc_idx a) (tc_idx b)) x l = Ok (sinsert x l).
Proof.
  induction l as [|y l IH]; cbn [sinsert_o sinsert]; [reflexivity|].
  rewrite ref_tc_less. destruct (tc_less y x); [|reflexivity]. now rewrite IH.
Qed.

Lemma ssort_o_ok : forall l,
  ssort_o (fun a b => gen_tc_less (tc_idx a) (tc_idx b)) l = Ok (ssort l).
Proof.
  induction l as [|x l IH]; cbn [ssort_o]; [reflexivity|].
  rewrite IH. cbn [res_bind]. rewrite sinsert_o_ok. reflexivity.
Qed.

Lemma final_sort (merged : list toolcall) :
  cbind (T := unit) (if (Nat.ltb 1 (List.length merged)) then (cdo (r_sort_stable (fun a b => gen_tc_less (tc_idx a) (tc_idx b)) merged) (fun merged =>
      Next merged))
      else (Next merged)) (fun merged =>
    Return (Ok merged))
  = Return (Ok (ssort merged)).
Proof.
  destruct merged as [|x [|y l]]; [reflexivity|reflexivity|].
  cbn [List.length Nat.ltb Nat.leb]. unfold r_sort_stable. rewrite ssort_o_ok. reflexivity.
Qed.

(* ---------------------------------------------------------------- the function *)

Lemma res_mapM_map {A B C} (f : B -> res C) (g : A -> B) l : res_mapM f (map g l) = res_mapM (fun a => f (g a)) l.
Proof. induction l as [|a l IH]; cbn; [reflexivity|]. now rewrite IH. Qed.

Theorem ref_concatToolCalls (ord : list (Z * list nat) -> list (Z * list nat)) (cs : list toolcall) :
  (forall m, Permutation (ord m) m) ->
  gen_concatToolCalls ord cs = concat_toolcalls_o (map fst (ord (snd (groups cs)))) cs.
Proof.
  intros Hord. unfold gen_concatToolCalls. cbv zeta.
  pose proof (group_loop (enumerate cs) [] []) as Hg. cbv zeta in Hg. rewrite Hg. clear Hg.
  fold (groups cs). destruct (groups_inv cs) as (H1 & H2 & H3 & H4).
  destruct (groups cs) as [mg m]. cbn [fst snd cbind] in *.
  change (cfold _ (ord m) (mg, EmptyString)) with (cfold (tc_body cs) (ord m) (mg, EmptyString)).
  destruct (outer_tc_loop cs (ord m) mg EmptyString) as [a' Ha'].
  { intros k v Hin. assert (Hin' : In (k, v) m) by (eapply Permutation_in; [apply Hord|exact Hin]).
    pose proof (zm_get_In k v m H2 Hin') as Hget. split.
    - rewrite <- Hget. apply H4.
    - apply H3. change k with (fst (k, v)). now apply in_map. }
  rewrite Ha'. clear Ha'. unfold concat_toolcalls_o. rewrite res_mapM_map.
  destruct (res_mapM _ (ord m)) as [r|e|]; cbn [cbind res_bind crun]; try reflexivity.
  rewrite final_sort. cbn [crun]. now rewrite H1.
Qed.

(* the keys of the index map are the distinct indexes: any order Go visits them in is a
   permutation of idxs_of, the premise of toolcalls_deterministic *)
Lemma groups_keys_perm (ord : list (Z * list nat) -> list (Z * list nat)) cs :
  (forall m, Permutation (ord m) m) ->
  Permutation (map fst (ord (snd (groups cs)))) (idxs_of cs).
Proof.
  intros Hord. destruct (groups_inv cs) as (_ & H2 & H3 & _).
  apply Permutation_trans with (map fst (snd (groups cs))); [apply Permutation_map, Hord|].
  apply NoDup_Permutation; [exact H2|apply sorted_NoDup, idxs_of_sorted|].
  intros z. rewrite H3, idxs_of_In. split.
  - intros Hne. destruct (filter (has_idx z) cs) as [|c g] eqn:E; [contradiction|].
    assert (Hin : In c (filter (has_idx z) cs)) by (rewrite E; now left).
    apply filter_In in Hin. destruct Hin as [Hc Hz]. exists c. split; [exact Hc|now apply has_idx_eq].
  - intros [c [Hc Hz]] Hnil. assert (Hin : In c (filter (has_idx z) cs)) by (apply filter_In; split; [exact Hc|now apply has_idx_eq]).
    rewrite Hnil in Hin. destruct Hin.
Qed.

Theorem ref_concatToolCalls_model ord cs :
  (forall m, Permutation (ord m) m) ->
  match gen_concatToolCalls ord cs, concat_toolcalls cs with
  | Ok a, Ok b => a = b
  | Err _, Err _ => True
  | _, _ => False
  end.
Proof.
  intros Hord. rewrite (ref_concatToolCalls ord cs Hord).
  pose proof (toolcalls_order _ cs (groups_keys_perm ord cs Hord)) as R.
  pose proof (concat_toolcalls_no_panic cs) as P.
  destruct (concat_toolcalls_o _ cs), (concat_toolcalls cs); cbn in R; try contradiction; auto.
Qed.
