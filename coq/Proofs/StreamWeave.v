(* Proofs/StreamWeave.v — property C19: callback copies woven into the history of a run.

   The run model (Model/StreamRun.v, Model/StreamResume.v) hands a node its input when its task is created
   ([HConsume i]) and takes the node's output as a fresh handle ([HFresh o]).  With callback handlers the
   framework does more at these two places (compose/utils.go onStartWithStreamInput / onEndWithStreamOutput
   -> internal/callbacks.OnWithStreamHandle, the function of Gen/AcctCode.v on_with_stream_handle):
     input side   the stream i is copied n+1 times, n handlers get one copy each, the last copy goes to the node;
     output side  the stream the node returned is copied n+1 times, n handlers get one copy each, the last
                  copy is the task's output (the handle the run model calls o; the node's own stream is new).
   [weave] inserts exactly these events into a history, for ANY assignment of handler counts to the handles
   consumed ([isites]) and to the fresh handles ([osites]) — node executions, the graph's own start / end
   sites, nested graphs: whichever sites carry handlers — under the hypothesis of the property that a
   handler closes (or reads to its end) the copy it is given.  Theorems: every stream released in the
   history of the run model is still released in the woven history, and so is every stream the weaving adds
   (the callback copies, the nodes' own output streams).  Histories only: no run loop here. *)
From Eino Require Import Base.Util Model.StreamAcct Proofs.StreamAcct.
From Coq Require Import Lia.
Open Scope N_scope.

Local Arguments fresh_handles : simpl never.
Local Arguments N.of_nat : simpl never.
Local Arguments N.add : simpl never.
Local Arguments Nat.add : simpl never.

Section Weave.
Variable isites : handle -> nat.   (* handlers at the site where this handle is consumed; 0 = no callback site *)
Variable osites : handle -> nat.   (* handlers at the site that produces this fresh handle *)

(* [nxt]: names not used by the history *)
Fixpoint weave (nxt : N) (l : list hev) : list hev :=
  match l with
  | [] => []
  | HConsume h :: l' =>
      match isites h with
      | O => HConsume h :: weave nxt l'
      | S n =>
          let cs := fresh_handles nxt (S n + 1) in
          HCopy h cs :: map HConsume cs ++ weave (nxt + N.of_nat (S n + 1)) l'
      end
  | HFresh o :: l' =>
      match osites o with
      | O => HFresh o :: weave nxt l'
      | S n =>
          let cs := fresh_handles (nxt + 1) (S n) in
          HFresh nxt :: HCopy nxt (cs ++ [o]) :: map HConsume cs ++ weave (nxt + 1 + N.of_nat (S n)) l'
      end
  | e :: l' => e :: weave nxt l'
  end.

Definition is_structural (e : hev) : bool :=
  match e with HCopy _ _ | HMerge _ _ => true | _ => false end.

Lemma weave_keeps : forall l nxt e, is_structural e = true -> In e l -> In e (weave nxt l).
Proof.
  induction l as [|a l IH]; intros nxt e He Hin; [destruct Hin|].
  destruct Hin as [<-|Hin].
  - destruct a; try discriminate; cbn [weave In]; now left.
  - destruct a as [o|p cs|hs h|h]; cbn [weave In].
    + destruct (osites o); cbn [weave In]; [right; now apply IH|].
      right. right. apply in_or_app. right. now apply IH.
    + right. now apply IH.
    + right. now apply IH.
    + destruct (isites h); cbn [weave In]; [right; now apply IH|].
      right. apply in_or_app. right. now apply IH.
Qed.

(* a consumed handle is consumed in the woven history too, or copied with every copy consumed *)
Lemma weave_consume : forall l nxt h, In (HConsume h) l ->
  In (HConsume h) (weave nxt l)
  \/ exists cs, In (HCopy h cs) (weave nxt l) /\ forall c, In c cs -> In (HConsume c) (weave nxt l).
Proof.
  induction l as [|a l IH]; intros nxt h Hin; [destruct Hin|].
  assert (Hlift : forall nxt' pre,
            weave nxt l = weave nxt' l \/ True ->
            (In (HConsume h) (weave nxt' l)
             \/ exists cs, In (HCopy h cs) (weave nxt' l) /\ forall c, In c cs -> In (HConsume c) (weave nxt' l)) ->
            In (HConsume h) (pre ++ weave nxt' l)
            \/ exists cs, In (HCopy h cs) (pre ++ weave nxt' l) /\ forall c, In c cs -> In (HConsume c) (pre ++ weave nxt' l)).
  { intros nxt' pre _ [H|(cs & H1 & H2)].
    - left. apply in_or_app. now right.
    - right. exists cs. split; [apply in_or_app; now right|]. intros c Hc. apply in_or_app. right. now apply H2. }
  destruct Hin as [->|Hin].
  - cbn [weave]. destruct (isites h) as [|n] eqn:E.
    + left. now left.
    + right. exists (fresh_handles nxt (S n + 1)). split; [now left|].
      intros c Hc. right. apply in_or_app. left. apply in_map_iff. now exists c.
  - destruct a as [o|p cs|hs h0|h0]; cbn [weave In].
    + destruct (osites o) as [|n].
      * apply (Hlift nxt [HFresh o]); [now right|]. now apply IH.
      * apply (Hlift _ (HFresh nxt :: HCopy nxt (fresh_handles (nxt + 1) (S n) ++ [o]) :: map HConsume (fresh_handles (nxt + 1) (S n)))); [now right|].
        now apply IH.
    + apply (Hlift nxt [HCopy p cs]); [now right|]. now apply IH.
    + apply (Hlift nxt [HMerge hs h0]); [now right|]. now apply IH.
    + destruct (isites h0) as [|n].
      * apply (Hlift nxt [HConsume h0]); [now right|]. now apply IH.
      * apply (Hlift _ (HCopy h0 (fresh_handles nxt (S n + 1)) :: map HConsume (fresh_handles nxt (S n + 1)))); [now right|].
        now apply IH.
Qed.

(* every stream released in the run model's history is released in the woven history *)
Theorem weave_released : forall l nxt h, released l h -> released (weave nxt l) h.
Proof.
  intros l nxt h H. induction H as [h Hc|h cs Hcp _ IH|hs h h' Hm Hin _ IH].
  - destruct (weave_consume l nxt h Hc) as [H|(cs & H1 & H2)].
    + now apply rel_consume.
    + apply (rel_copy _ h cs H1). intros c Hc'. apply rel_consume. now apply H2.
  - apply (rel_copy _ h cs); [now apply weave_keeps|exact IH].
  - apply (rel_merge _ hs h h'); [now apply weave_keeps|exact Hin|exact IH].
Qed.

(* what the weaving creates: callback copies are consumed by their handlers (released); the stream a
   node returned, renamed [nxt], is released once its copies are: the handlers' copies are consumed and
   the continuing copy is the handle [o] of the run model *)
Lemma weave_created : forall l nxt h,
  created (weave nxt l) h ->
  created l h
  \/ In (HConsume h) (weave nxt l)
  \/ exists o cs, In (HFresh o) l /\ In (HCopy h (cs ++ [o])) (weave nxt l) /\ forall c, In c cs -> In (HConsume c) (weave nxt l).
Proof.
  induction l as [|a l IH]; intros nxt h Hcr.
  - destruct Hcr as [[]|[(p & cs & [] & _)|(hs & [])]].
  - (* lift a conclusion about the tail *)
    assert (Hlift : forall nxt' pre,
              created (weave nxt' l) h ->
              created (a :: l) h
              \/ In (HConsume h) (pre ++ weave nxt' l)
              \/ exists o cs, In (HFresh o) (a :: l) /\ In (HCopy h (cs ++ [o])) (pre ++ weave nxt' l)
                              /\ forall c, In c cs -> In (HConsume c) (pre ++ weave nxt' l)).
    { intros nxt' pre H. destruct (IH nxt' h H) as [Hc|[Hc|(o & cs & H1 & H2 & H3)]].
      - left. destruct Hc as [Hc|[(p & cs & Hc & Hin)|(hs & Hc)]].
        + left. now right.
        + right. left. exists p, cs. split; [now right|exact Hin].
        + right. right. exists hs. now right.
      - right. left. apply in_or_app. now right.
      - right. right. exists o, cs. split; [now right|]. split; [apply in_or_app; now right|].
        intros c Hc. apply in_or_app. right. now apply H3. }
    (* an event of the head *)
    assert (Hsplit : forall pre nxt',
              created (pre ++ weave nxt' l) h -> created pre h \/ created (weave nxt' l) h).
    { intros pre nxt' [H|[(p & cs & H & Hin)|(hs & H)]].
      - apply in_app_or in H. destruct H; [left; now left|right; now left].
      - apply in_app_or in H. destruct H; [left|right]; right; left; exists p, cs; auto.
      - apply in_app_or in H. destruct H; [left|right]; right; right; exists hs; auto. }
    destruct a as [o|p cs|hs h0|h0]; cbn [weave] in Hcr |- *.
    + destruct (osites o) as [|n] eqn:E.
      * change (HFresh o :: weave nxt l) with ([HFresh o] ++ weave nxt l) in Hcr |- *.
        destruct (Hsplit _ _ Hcr) as [Hh|Ht]; [|now apply Hlift].
        left. destruct Hh as [[Hh|[]]|[(p & cs & [Hh|[]] & _)|(hs & [Hh|[]])]]; try discriminate.
        inversion Hh; subst. left. now left.
      * remember (fresh_handles (nxt + 1) (S n)) as cs eqn:Hcs.
        change (HFresh nxt :: HCopy nxt (cs ++ [o]) :: map HConsume cs ++ weave (nxt + 1 + N.of_nat (S n)) l)
          with ((HFresh nxt :: HCopy nxt (cs ++ [o]) :: map HConsume cs) ++ weave (nxt + 1 + N.of_nat (S n)) l) in Hcr |- *.
        destruct (Hsplit _ _ Hcr) as [Hh|Ht]; [|now apply Hlift].
        destruct Hh as [Hh|[(p & cs' & Hh & Hin)|(hs & Hh)]].
        -- (* HFresh nxt: the node's own stream *)
           destruct Hh as [Hh|[Hh|Hh]]; try discriminate.
           ++ inversion Hh; subst h. right. right. exists o, cs. split; [now left|]. split.
              ** apply in_or_app. left. right. now left.
              ** intros c Hc. apply in_or_app. left. right. right. apply in_map_iff. now exists c.
           ++ apply in_map_iff in Hh. destruct Hh as (x & Hx & _). discriminate.
        -- (* a copy *)
           destruct Hh as [Hh|[Hh|Hh]]; try discriminate.
           ++ inversion Hh; subst p cs'. apply in_app_or in Hin. destruct Hin as [Hin|[<-|[]]].
              ** right. left. apply in_or_app. left. right. right. apply in_map_iff. now exists h.
              ** left. left. now left.
           ++ apply in_map_iff in Hh. destruct Hh as (x & Hx & _). discriminate.
        -- destruct Hh as [Hh|[Hh|Hh]]; try discriminate.
           apply in_map_iff in Hh. destruct Hh as (x & Hx & _). discriminate.
    + change (HCopy p cs :: weave nxt l) with ([HCopy p cs] ++ weave nxt l) in Hcr |- *.
      destruct (Hsplit _ _ Hcr) as [Hh|Ht]; [|now apply Hlift].
      left. destruct Hh as [[Hh|[]]|[(p' & cs' & [Hh|[]] & Hin)|(hs & [Hh|[]])]]; try discriminate.
      injection Hh as <- <-. right. left. exists p, cs. split; [now left|exact Hin].
    + change (HMerge hs h0 :: weave nxt l) with ([HMerge hs h0] ++ weave nxt l) in Hcr |- *.
      destruct (Hsplit _ _ Hcr) as [Hh|Ht]; [|now apply Hlift].
      left. destruct Hh as [[Hh|[]]|[(p' & cs' & [Hh|[]] & Hin)|(hs' & [Hh|[]])]]; try discriminate.
      injection Hh as <- <-. right. right. exists hs. now left.
    + destruct (isites h0) as [|n] eqn:E.
      * change (HConsume h0 :: weave nxt l) with ([HConsume h0] ++ weave nxt l) in Hcr |- *.
        destruct (Hsplit _ _ Hcr) as [Hh|Ht]; [|now apply Hlift].
        destruct Hh as [[Hh|[]]|[(p' & cs' & [Hh|[]] & Hin)|(hs' & [Hh|[]])]]; discriminate.
      * remember (fresh_handles nxt (S n + 1)) as cs eqn:Hcs.
        change (HCopy h0 cs :: map HConsume cs ++ weave (nxt + N.of_nat (S n + 1)) l)
          with ((HCopy h0 cs :: map HConsume cs) ++ weave (nxt + N.of_nat (S n + 1)) l) in Hcr |- *.
        destruct (Hsplit _ _ Hcr) as [Hh|Ht]; [|now apply Hlift].
        destruct Hh as [Hh|[(p & cs' & Hh & Hin)|(hs & Hh)]].
        -- destruct Hh as [Hh|Hh]; try discriminate.
           apply in_map_iff in Hh. destruct Hh as (x & Hx & _). discriminate.
        -- destruct Hh as [Hh|Hh].
           ++ inversion Hh; subst p cs'. right. left. apply in_or_app. left. right. apply in_map_iff. now exists h.
           ++ apply in_map_iff in Hh. destruct Hh as (x & Hx & _). discriminate.
        -- destruct Hh as [Hh|Hh]; try discriminate.
           apply in_map_iff in Hh. destruct Hh as (x & Hx & _). discriminate.
Qed.

(* every stream of the woven history — those of the run model, the callback copies, the nodes' own
   output streams — is released, if every stream of the run model's history is *)
Theorem weave_all_released : forall l nxt,
  (forall h, created l h -> released l h) ->
  forall h, created (weave nxt l) h -> released (weave nxt l) h.
Proof.
  intros l nxt Hall h Hcr.
  destruct (weave_created l nxt h Hcr) as [Hc|[Hc|(o & cs & Ho & Hcp & Hcs)]].
  - apply weave_released. now apply Hall.
  - now apply rel_consume.
  - apply (rel_copy _ h (cs ++ [o]) Hcp). intros c Hc. apply in_app_or in Hc. destruct Hc as [Hc|[<-|[]]].
    + apply rel_consume. now apply Hcs.
    + apply weave_released. apply Hall. now left.
Qed.

End Weave.

(* the names the weaving introduces are the unused ones it was given *)
Lemma weave_names_ge : forall isites osites l nxt h,
  created (weave isites osites nxt l) h -> created l h \/ nxt <= h.
Proof.
  intros isites osites. induction l as [|a l IH]; intros nxt h Hcr.
  - left. exact Hcr.
  - assert (Hsplit : forall pre nxt',
              created (pre ++ weave isites osites nxt' l) h -> created pre h \/ created (weave isites osites nxt' l) h).
    { intros pre nxt' [H|[(p & cs & H & Hin)|(hs & H)]].
      - apply in_app_or in H. destruct H; [left; now left|right; now left].
      - apply in_app_or in H. destruct H; [left|right]; right; left; exists p, cs; auto.
      - apply in_app_or in H. destruct H; [left|right]; right; right; exists hs; auto. }
    assert (Htail : forall nxt', nxt <= nxt' -> created (weave isites osites nxt' l) h -> created (a :: l) h \/ nxt <= h).
    { intros nxt' Hle H. destruct (IH nxt' h H) as [Hc|Hc]; [left|right; lia].
      destruct Hc as [Hc|[(p & cs & Hc & Hin)|(hs & Hc)]].
      - left. now right.
      - right. left. exists p, cs. split; [now right|exact Hin].
      - right. right. exists hs. now right. }
    assert (Hfresh : forall from n c, In c (fresh_handles from n) -> from <= c).
    { intros from n c Hc. unfold fresh_handles in Hc. apply in_map_iff in Hc. destruct Hc as (i & <- & _). lia. }
    destruct a as [o|p cs|hs h0|h0]; cbn [weave] in Hcr.
    + destruct (osites o) as [|n].
      * change (HFresh o :: weave isites osites nxt l) with ([HFresh o] ++ weave isites osites nxt l) in Hcr.
        destruct (Hsplit _ _ Hcr) as [Hh|Ht]; [|apply (Htail nxt); [lia|exact Ht]].
        left. destruct Hh as [[Hh|[]]|[(p & cs & [Hh|[]] & _)|(hs & [Hh|[]])]]; try discriminate.
        injection Hh as <-. left. now left.
      * remember (fresh_handles (nxt + 1) (S n)) as cs eqn:Hcs.
        change (HFresh nxt :: HCopy nxt (cs ++ [o]) :: map HConsume cs ++ weave isites osites (nxt + 1 + N.of_nat (S n)) l)
          with ((HFresh nxt :: HCopy nxt (cs ++ [o]) :: map HConsume cs) ++ weave isites osites (nxt + 1 + N.of_nat (S n)) l) in Hcr.
        destruct (Hsplit _ _ Hcr) as [Hh|Ht]; [|apply (Htail (nxt + 1 + N.of_nat (S n))); [lia|exact Ht]].
        destruct Hh as [Hh|[(p & cs' & Hh & Hin)|(hs & Hh)]].
        -- destruct Hh as [Hh|[Hh|Hh]]; try discriminate.
           ++ injection Hh as <-. right. lia.
           ++ apply in_map_iff in Hh. destruct Hh as (x & Hx & _). discriminate.
        -- destruct Hh as [Hh|[Hh|Hh]]; try discriminate.
           ++ injection Hh as <- <-. apply in_app_or in Hin. destruct Hin as [Hin|[<-|[]]].
              ** right. subst cs. apply Hfresh in Hin. lia.
              ** left. left. now left.
           ++ apply in_map_iff in Hh. destruct Hh as (x & Hx & _). discriminate.
        -- destruct Hh as [Hh|[Hh|Hh]]; try discriminate.
           apply in_map_iff in Hh. destruct Hh as (x & Hx & _). discriminate.
    + change (HCopy p cs :: weave isites osites nxt l) with ([HCopy p cs] ++ weave isites osites nxt l) in Hcr.
      destruct (Hsplit _ _ Hcr) as [Hh|Ht]; [|apply (Htail nxt); [lia|exact Ht]].
      left. destruct Hh as [[Hh|[]]|[(p' & cs' & [Hh|[]] & Hin)|(hs & [Hh|[]])]]; try discriminate.
      injection Hh as <- <-. right. left. exists p, cs. split; [now left|exact Hin].
    + change (HMerge hs h0 :: weave isites osites nxt l) with ([HMerge hs h0] ++ weave isites osites nxt l) in Hcr.
      destruct (Hsplit _ _ Hcr) as [Hh|Ht]; [|apply (Htail nxt); [lia|exact Ht]].
      left. destruct Hh as [[Hh|[]]|[(p' & cs' & [Hh|[]] & Hin)|(hs' & [Hh|[]])]]; try discriminate.
      injection Hh as <- <-. right. right. exists hs. now left.
    + destruct (isites h0) as [|n].
      * change (HConsume h0 :: weave isites osites nxt l) with ([HConsume h0] ++ weave isites osites nxt l) in Hcr.
        destruct (Hsplit _ _ Hcr) as [Hh|Ht]; [|apply (Htail nxt); [lia|exact Ht]].
        destruct Hh as [[Hh|[]]|[(p' & cs' & [Hh|[]] & Hin)|(hs' & [Hh|[]])]]; discriminate.
      * remember (fresh_handles nxt (S n + 1)) as cs eqn:Hcs.
        change (HCopy h0 cs :: map HConsume cs ++ weave isites osites (nxt + N.of_nat (S n + 1)) l)
          with ((HCopy h0 cs :: map HConsume cs) ++ weave isites osites (nxt + N.of_nat (S n + 1)) l) in Hcr.
        destruct (Hsplit _ _ Hcr) as [Hh|Ht]; [|apply (Htail (nxt + N.of_nat (S n + 1))); [lia|exact Ht]].
        destruct Hh as [Hh|[(p & cs' & Hh & Hin)|(hs & Hh)]].
        -- destruct Hh as [Hh|Hh]; try discriminate.
           apply in_map_iff in Hh. destruct Hh as (x & Hx & _). discriminate.
        -- destruct Hh as [Hh|Hh].
           ++ injection Hh as <- <-. right. subst cs. now apply Hfresh in Hin.
           ++ apply in_map_iff in Hh. destruct Hh as (x & Hx & _). discriminate.
        -- destruct Hh as [Hh|Hh]; try discriminate.
           apply in_map_iff in Hh. destruct Hh as (x & Hx & _). discriminate.
Qed.

(* the copy event of a site is the one OnWithStreamHandle makes: n handlers, n + 1 copies, the handlers get
   all but the last, the last continues *)
Lemma site_is_on_with_stream_handle : forall n h s,
  let cs := fresh_handles (s_next s) (S n + 1) in
  on_with_stream_handle (S n) h s
  = (List.last cs h, List.removelast cs,
     {| s_next := s_next s + N.of_nat (S n + 1); s_open := remove_one h (s_open s) ++ cs;
        s_log := s_log s ++ [Z.of_nat (S n + 1)]; s_hist := HCopy h cs :: s_hist s |}).
Proof.
  intros n h s cs. unfold on_with_stream_handle, copy_item.
  destruct (Z.ltb_spec (Z.of_nat (S n + 1)) 2); [lia|].
  rewrite Nat2Z.id. subst cs.
  replace (Z.to_N (Z.of_nat (S n + 1))) with (N.of_nat (S n + 1)) by lia. reflexivity.
Qed.

Example weave_example :
  weave (fun h => if N.eqb h 0 then 1%nat else 0%nat) (fun _ => 1%nat) 100 [HFresh 0; HConsume 0]
  = [HFresh 100; HCopy 100 [101; 0]; HConsume 101; HCopy 0 [102; 103]; HConsume 102; HConsume 103].
Proof. reflexivity. Qed.
