(* Proofs/TypesMay.v — the run-time check on may-assignable connections fires exactly when
   the dynamic value is not assignable (Model/TypeBuilder.v, Section Run). *)
From Eino Require Import Base.Util Model.Types Model.TypeBuilder.
From Eino Require Import Proofs.TypesLattice Proofs.TypesBuilder Proofs.TypesRun Proofs.TypesInv2.
From Coq Require Import Lia.
Arguments check_assignable : simpl never.

Section May.
  Variable u : univ.
  Variable emit : list (key * dyn).
  Notation asrt := (assert_type u).

  Definition not_asg (d : dyn) (t : ty) : bool := negb (dyn_assignable u d t).

  (* specification of "a value is handed to something it is not assignable to":
     the value [d] node [s] completed with, against the condition type of every branch of
     [s], and against the input type of every node it is then written to (the successors
     on data edges and whatever the branch conditions select) *)
  Definition bad_branch (st : gstate) (s : key) (d : dyn) : bool :=
    existsb (fun b => not_asg d (b_ty b)) (branches_of st s).
  Definition handed (st : gstate) (s : key) : list key :=
    flat_map b_choice (branches_of st s) ++ succ_of st s.
  Definition bad_target (st : gstate) (s : key) (d : dyn) : bool :=
    existsb (fun t => match in_ty st t with Some b => not_asg d b | None => false end) (handed st s).
  Definition step_mismatch (st : gstate) (done : list (key * dyn)) : bool :=
    existsb (fun x => bad_branch st (fst x) (snd x) || bad_target st (fst x) (snd x)) done.

  (* every branch condition returns end nodes of its branch *)
  Definition choices_valid (st : gstate) : Prop :=
    forall s b, In (s, b) (g_branches st) -> subsetN (b_choice b) (b_ends b) = true.

  Lemma choices_valid_b : forall st,
    forallb (fun p => subsetN (b_choice (snd p)) (b_ends (snd p))) (g_branches st) = true -> choices_valid st.
  Proof. intros st H s b Hb. rewrite forallb_forall in H. apply (H (s, b) Hb). Qed.

  Lemma asrt_not_asg : forall d t, asrt d t = false <-> not_asg d t = true.
  Proof.
    intros d t. unfold not_asg. rewrite assert_type_assignable. destruct (dyn_assignable u d t); simpl; split; auto; discriminate.
  Qed.

  Lemma conv_all_false : forall d cs, conv_all asrt d cs = false -> exists c, In c cs /\ asrt d c = false.
  Proof.
    intros d cs; unfold conv_all; induction cs as [|c r IH]; simpl; [discriminate|].
    destruct (asrt d c) eqn:A; simpl.
    - intro H. destruct (IH H) as [c' [I' A']]. exists c'; auto.
    - intros _. exists c; auto.
  Qed.

  (* ---- eval_branches *)

  Lemma eval_branches_typeerr : forall d bs,
    eval_branches asrt d bs = inl RTypeErr -> exists b, In b bs /\ conv_all asrt d (b_conv b) = false.
  Proof.
    intros d bs; induction bs as [|b r IH]; simpl; [discriminate|].
    destruct (conv_all asrt d (b_conv b)) eqn:CV; simpl.
    - destruct (asrt d (b_ty b)); simpl; [|discriminate].
      destruct (subsetN (b_choice b) (b_ends b)); simpl; [|discriminate].
      destruct (eval_branches asrt d r) as [o|ts]; [|discriminate].
      intro H. inversion H; subst o. destruct (IH eq_refl) as [b' [I' C']]. exists b'; auto.
    - intros _. exists b; auto.
  Qed.

  Lemma eval_branches_inr : forall d bs ts,
    eval_branches asrt d bs = inr ts ->
    ts = flat_map b_choice bs /\
    forall b, In b bs -> conv_all asrt d (b_conv b) = true /\ asrt d (b_ty b) = true.
  Proof.
    intros d bs; induction bs as [|b r IH]; simpl; intros ts H.
    - inversion H; subst. split; [reflexivity | intros b []].
    - destruct (conv_all asrt d (b_conv b)) eqn:CV; simpl in H; [|discriminate].
      destruct (asrt d (b_ty b)) eqn:A; simpl in H; [|discriminate].
      destruct (subsetN (b_choice b) (b_ends b)); simpl in H; [|discriminate].
      destruct (eval_branches asrt d r) as [o|ts']; [discriminate|].
      inversion H; subst ts. destruct (IH ts' eq_refl) as [E F]. subst ts'.
      split; [reflexivity|]. intros b0 [Hb|Hb]; [subst; auto | apply F; exact Hb].
  Qed.

  Lemma eval_branches_valid : forall d bs,
    (forall b, In b bs -> subsetN (b_choice b) (b_ends b) = true) ->
    eval_branches asrt d bs <> inl ROther.
  Proof.
    intros d bs; induction bs as [|b r IH]; simpl; intros V; [discriminate|].
    destruct (conv_all asrt d (b_conv b)); simpl; [|discriminate].
    destruct (asrt d (b_ty b)); simpl; [|discriminate].
    rewrite (V b (or_introl eq_refl)); simpl.
    specialize (IH (fun b0 Hb0 => V b0 (or_intror Hb0))).
    destruct (eval_branches asrt d r) as [o|ts]; [|discriminate].
    intro H; inversion H; subst; apply IH; reflexivity.
  Qed.

  (* ---- resolve *)

  Lemma resolve_typeerr : forall st done,
    resolve asrt st done = inl RTypeErr ->
    exists s d b, In (s, d) done /\ In b (branches_of st s) /\ conv_all asrt d (b_conv b) = false.
  Proof.
    intros st done; induction done as [|[s d] rest IH]; simpl; [discriminate|].
    destruct (eval_branches asrt d (branches_of st s)) as [o|ts] eqn:EB.
    - intro H; inversion H; subst o. destruct (eval_branches_typeerr _ _ EB) as [b [Hb C]].
      exists s, d, b; auto.
    - destruct (resolve asrt st rest) as [o|ws]; [|discriminate].
      intro H; inversion H; subst o. destruct (IH eq_refl) as [s' [d' [b' [A [B C]]]]].
      exists s', d', b'; auto.
  Qed.

  Lemma resolve_inr : forall st done ws,
    resolve asrt st done = inr ws ->
    (forall s d, In (s, d) done ->
       (forall b, In b (branches_of st s) -> conv_all asrt d (b_conv b) = true /\ asrt d (b_ty b) = true) /\
       (forall t, In t (handed st s) -> In (t, s, d) ws)) /\
    (forall t s d, In (t, s, d) ws -> In (s, d) done /\ In t (handed st s)).
  Proof.
    intros st done; induction done as [|[s d] rest IH]; simpl; intros ws H.
    - inversion H; subst. split; [intros s d [] | intros t s d []].
    - destruct (eval_branches asrt d (branches_of st s)) as [o|ts] eqn:EB; [discriminate|].
      destruct (resolve asrt st rest) as [o|ws'] eqn:R; [discriminate|].
      inversion H; subst ws; clear H.
      destruct (eval_branches_inr _ _ _ EB) as [E F]. subst ts.
      destruct (IH ws' eq_refl) as [A B]. split.
      + intros s0 d0 [Hx|Hx].
        * inversion Hx; subst s0 d0. split; [exact F|].
          intros t Ht. apply in_or_app. left. apply in_map_iff. exists t. split; [reflexivity | exact Ht].
        * destruct (A s0 d0 Hx) as [A1 A2]. split; [exact A1|].
          intros t Ht. apply in_or_app. right. apply A2; exact Ht.
      + intros t s0 d0 Hw. apply in_app_or in Hw. destruct Hw as [Hw|Hw].
        * apply in_map_iff in Hw. destruct Hw as [t0 [E Ht]]. inversion E; subst t0 s0 d0.
          split; [left; reflexivity | exact Ht].
        * destruct (B t s0 d0 Hw) as [B1 B2]. split; [right; exact B1 | exact B2].
  Qed.

  Lemma resolve_valid : forall st done,
    choices_valid st -> resolve asrt st done <> inl ROther.
  Proof.
    intros st done V; induction done as [|[s d] rest IH]; simpl; [discriminate|].
    assert (VB : forall b, In b (branches_of st s) -> subsetN (b_choice b) (b_ends b) = true).
    { intros b Hb. apply (V s b). apply branches_of_In; exact Hb. }
    pose proof (eval_branches_valid d _ VB) as EV.
    destruct (eval_branches asrt d (branches_of st s)) as [o|ts].
    - intro H; inversion H; subst; apply EV; reflexivity.
    - destruct (resolve asrt st rest) as [o|ws]; [|discriminate].
      intro H; inversion H; subst; apply IH; reflexivity.
  Qed.

  (* ---- one step *)

  Lemma next_typeerr_cases : forall st done,
    next u asrt st done = inl RTypeErr ->
    resolve asrt st done = inl RTypeErr \/
    exists ws, resolve asrt st done = inr ws /\ edges_ok asrt st ws = false.
  Proof.
    intros st done H. unfold next in H.
    destruct (resolve asrt st done) as [o|ws]; [left; inversion H; reflexivity|].
    right. exists ws. split; [reflexivity|].
    destruct (edges_ok asrt st ws); [|reflexivity]. simpl in H.
    destruct (fan_in ws); [discriminate|].
    destruct (memN kEND (targets ws)); [|discriminate].
    cbv zeta in H.
    match type of H with (if ?x then _ else _) = _ => destruct x end; discriminate.
  Qed.

  Lemma hedge_of_In : forall st s t c, In c (hedge_of st s t) <-> In (s, t, c) (g_hedge st).
  Proof.
    intros st s t c. unfold hedge_of. rewrite in_map_iff. split.
    - intros [[[s0 t0] c0] [E H]]. simpl in E; subst c0. apply filter_In in H. destruct H as [H Q].
      unfold pair_eqb in Q; simpl in Q. apply andb_true_iff in Q. destruct Q as [Q1 Q2].
      apply N.eqb_eq in Q1. apply N.eqb_eq in Q2. subst. exact H.
    - intro H. exists (s, t, c). split; [reflexivity|]. apply filter_In. split; [exact H|].
      unfold pair_eqb; simpl. rewrite !N.eqb_refl. reflexivity.
  Qed.

  (* (A) a run-time type error is always justified by a non-assignable value *)
  Lemma next_typeerr_mismatch : forall st done,
    inv2 st -> next u asrt st done = inl RTypeErr -> step_mismatch st done = true.
  Proof.
    intros st done [HO CO] H. unfold step_mismatch. apply existsb_exists.
    destruct (next_typeerr_cases _ _ H) as [R|[ws [R EO]]].
    - destruct (resolve_typeerr _ _ R) as [s [d [b [Hx [Hb CV]]]]].
      exists (s, d). split; [exact Hx|]. simpl. apply orb_true_iff. left.
      unfold bad_branch. apply existsb_exists. exists b. split; [exact Hb|].
      destruct (conv_all_false _ _ CV) as [c [Hc A]].
      rewrite (CO s b (branches_of_In _ _ _ Hb) c Hc) in A. apply asrt_not_asg; exact A.
    - destruct (resolve_inr _ _ _ R) as [_ B].
      unfold edges_ok in EO.
      assert (EX : exists w, In w ws /\ (match w with (t, s, d) => conv_all asrt d (hedge_of st s t) end) = false).
      { clear -EO. induction ws as [|w r IH]; simpl in EO; [discriminate|].
        destruct (match w with (t, s, d) => conv_all asrt d (hedge_of st s t) end) eqn:E.
        - simpl in EO. destruct (IH EO) as [w' [I' E']]. exists w'; split; [right; exact I' | exact E'].
        - exists w; split; [left; reflexivity | exact E]. }
      destruct EX as [[[t s] d] [Hw CV]].
      destruct (B t s d Hw) as [Hx Ht].
      exists (s, d). split; [exact Hx|]. simpl. apply orb_true_iff. right.
      unfold bad_target. apply existsb_exists. exists t. split; [exact Ht|].
      destruct (conv_all_false _ _ CV) as [c [Hc A]]. apply hedge_of_In in Hc.
      rewrite (HO s t c Hc). apply asrt_not_asg; exact A.
  Qed.

  (* (B) a non-assignable value always ends the run with an ordinary error in that step *)
  Lemma next_mismatch_error : forall st done,
    compiled_ok u st -> (forall x, In x done -> done_ok u st x) ->
    step_mismatch st done = true ->
    next u asrt st done = inl RTypeErr \/ next u asrt st done = inl ROther.
  Proof.
    intros st done [I C] HD M. unfold next.
    pose proof (resolve_safe u st done I HD) as RS.
    destruct (resolve asrt st done) as [o|ws] eqn:R.
    - destruct RS; subst; auto.
    - left. assert (EO : edges_ok asrt st ws = false); [|rewrite EO; reflexivity].
      destruct (resolve_inr _ _ _ R) as [A _].
      unfold step_mismatch in M. apply existsb_exists in M. destruct M as [[s d] [Hx M]]. simpl in M.
      destruct (A s d Hx) as [A1 A2].
      apply orb_true_iff in M. destruct M as [M|M].
      + exfalso. unfold bad_branch in M. apply existsb_exists in M. destruct M as [b [Hb N]].
        destruct (A1 b Hb) as [_ As]. apply asrt_not_asg in N. congruence.
      + unfold bad_target in M. apply existsb_exists in M. destruct M as [t [Ht N]].
        destruct (in_ty st t) as [b|] eqn:Ib; [|discriminate].
        pose proof (A2 t Ht) as Hw.
        destruct (RS t s d Hw) as [Hc [a [Ha Hd]]]. simpl in Ha, Hd.
        destruct (compiled_all_validated u st I C _ Hc) as [[a' [b' [Ha' [Hb' [Hck Hm]]]]] _].
        simpl in *. rewrite Ha in Ha'. inversion Ha'; subst a'. rewrite Ib in Hb'. inversion Hb'; subst b'.
        apply asrt_not_asg in N.
        destruct (check_assignable u (Some a) (Some b)) eqn:CK.
        * exfalso; apply Hck; reflexivity.
        * exfalso. rewrite (must_sound u a b d CK Hd) in N. discriminate.
        * specialize (Hm eq_refl).
          unfold edges_ok. apply not_true_is_false. intro F. rewrite forallb_forall in F.
          specialize (F _ Hw). simpl in F. unfold conv_all in F. rewrite forallb_forall in F.
          rewrite (F b) in N; [discriminate|]. apply hedge_of_In. exact Hm.
  Qed.

  Lemma next_not_other_on_mismatch : forall st done,
    compiled_ok u st -> (forall x, In x done -> done_ok u st x) -> choices_valid st ->
    step_mismatch st done = true -> next u asrt st done = inl RTypeErr.
  Proof.
    intros st done CO HD V M.
    destruct (next_mismatch_error st done CO HD M) as [H|H]; [exact H|]. exfalso.
    unfold next in H. pose proof (resolve_valid st done V) as RV.
    destruct (resolve asrt st done) as [o|ws] eqn:R.
    - inversion H; subst. apply RV; reflexivity.
    - (* past resolve the mismatch makes edges_ok fail: the outcome is RTypeErr *)
      destruct CO as [I C].
      pose proof (resolve_safe u st done I HD) as RS. rewrite R in RS.
      destruct (resolve_inr _ _ _ R) as [A _].
      unfold step_mismatch in M. apply existsb_exists in M. destruct M as [[s d] [Hx M]]. simpl in M.
      destruct (A s d Hx) as [A1 A2].
      apply orb_true_iff in M. destruct M as [M|M].
      + unfold bad_branch in M. apply existsb_exists in M. destruct M as [b [Hb N]].
        destruct (A1 b Hb) as [_ As]. apply asrt_not_asg in N. congruence.
      + assert (NX : next u asrt st done = inl RTypeErr \/ next u asrt st done = inl ROther).
        { apply next_mismatch_error; [split; assumption | exact HD |].
          unfold step_mismatch. apply existsb_exists. exists (s, d). split; [exact Hx|]. simpl. rewrite M. apply orb_true_r. }
        unfold next in NX. rewrite R in NX.
        destruct (edges_ok asrt st ws) eqn:EO.
        * (* impossible: shown by the argument of next_mismatch_error *)
          unfold bad_target in M. apply existsb_exists in M. destruct M as [t [Ht N]].
          destruct (in_ty st t) as [b|] eqn:Ib; [|discriminate].
          pose proof (A2 t Ht) as Hw.
          destruct (RS t s d Hw) as [Hc [a [Ha Hd]]]. simpl in Ha, Hd.
          destruct (compiled_all_validated u st I C _ Hc) as [[a' [b' [Ha' [Hb' [Hck Hm]]]]] _].
          simpl in *. rewrite Ha in Ha'. inversion Ha'; subst a'. rewrite Ib in Hb'. inversion Hb'; subst b'.
          apply asrt_not_asg in N.
          destruct (check_assignable u (Some a) (Some b)) eqn:CK.
          -- apply Hck; reflexivity.
          -- rewrite (must_sound u a b d CK Hd) in N. discriminate.
          -- specialize (Hm eq_refl). unfold edges_ok in EO. rewrite forallb_forall in EO.
             specialize (EO _ Hw). simpl in EO. unfold conv_all in EO. rewrite forallb_forall in EO.
             rewrite (EO b) in N; [discriminate|]. apply hedge_of_In. exact Hm.
        * simpl in H. discriminate.
  Qed.

  (* the step-level statement *)
  Theorem next_type_error_iff : forall st done,
    compiled_ok u st -> inv2 st -> (forall x, In x done -> done_ok u st x) ->
    (next u asrt st done = inl RTypeErr -> step_mismatch st done = true) /\
    (step_mismatch st done = true ->
       next u asrt st done = inl RTypeErr \/ next u asrt st done = inl ROther) /\
    (choices_valid st -> (next u asrt st done = inl RTypeErr <-> step_mismatch st done = true)).
  Proof.
    intros st done CO I2 HD. split; [apply next_typeerr_mismatch; exact I2|].
    split; [apply next_mismatch_error; assumption|].
    intro V. split; [apply next_typeerr_mismatch; exact I2 | apply next_not_other_on_mismatch; assumption].
  Qed.

  (* only interface-typed upstreams can mismatch *)
  Lemma concrete_upstream_no_mismatch : forall st s d c,
    compiled_ok u st -> choices_valid st -> done_ok u st (s, d) -> out_ty st s = Some (TConc c) ->
    bad_branch st s d = false /\ bad_target st s d = false.
  Proof.
    intros st s d c [I C] V [a [Ha Hd]] Oc. simpl in Ha, Hd. rewrite Oc in Ha. inversion Ha; subst a. split.
    - apply not_true_is_false. intro M. unfold bad_branch in M. apply existsb_exists in M.
      destruct M as [b [Hb N]]. apply asrt_not_asg in N.
      destruct (inv_branches _ _ I s b (branches_of_In _ _ _ Hb)) as [_ [a' [Ha' [Hc _]]]].
      rewrite Oc in Ha'. inversion Ha'; subst a'.
      rewrite (must_sound u _ _ d (concrete_upstream_static u c _ Hc) Hd) in N. discriminate.
    - apply not_true_is_false. intro M. unfold bad_target in M. apply existsb_exists in M.
      destruct M as [t [Ht N]]. destruct (in_ty st t) as [b|] eqn:Ib; [|discriminate].
      apply asrt_not_asg in N.
      assert (Hc : In (s, t) (conns st)).
      { unfold handed in Ht. unfold conns. apply in_or_app. apply in_app_or in Ht. destruct Ht as [Ht|Ht].
        - right. apply in_flat_map in Ht. destruct Ht as [b0 [Hb0 Ht]].
          apply branches_of_In in Hb0. eapply branch_pair_In; [exact Hb0|].
          pose proof (V s b0 Hb0) as SB. rewrite subsetN_spec in SB. apply SB; exact Ht.
        - left. apply succ_of_In; exact Ht. }
      destruct (compiled_all_validated u st I C _ Hc) as [[a' [b' [Ha' [Hb' [Hck _]]]]] _].
      simpl in *. rewrite Oc in Ha'. inversion Ha'; subst a'. rewrite Ib in Hb'. inversion Hb'; subst b'.
      rewrite (must_sound u _ _ d (concrete_upstream_static u c _ Hck) Hd) in N. discriminate.
  Qed.

  (* ---- the state handlers of passthrough nodes (declared for any): the value they hand on
     is checked against the node's inferred type (repair F-C07f) *)

  Definition hmis (ret : option dyn) (d : dyn) (t : option ty) : bool :=
    match t with
    | Some tc => not_asg (match ret with Some r => r | None => d end) tc
    | None => false
    end.
  Definition pre_mismatch (st : gstate) (x : key * dyn) : bool :=
    match get_node st (fst x) with
    | Some n => n_pass n && match n_pre n with Some _ => hmis (n_pre_ret n) (snd x) (n_in n) | None => false end
    | None => false
    end.
  (* the value after the pre handler *)
  Definition after_pre (st : gstate) (x : key * dyn) : dyn :=
    match get_node st (fst x) with
    | Some n => match n_pre n, n_pre_ret n with Some _, Some r => r | _, _ => snd x end
    | None => snd x
    end.
  Definition post_mismatch (st : gstate) (x : key * dyn) : bool :=
    match get_node st (fst x) with
    | Some n => n_pass n && match n_post n with Some _ => hmis (n_post_ret n) (snd x) (n_out n) | None => false end
    | None => false
    end.
  Definition exec_mismatch (st : gstate) (tasks : list (key * dyn)) : bool :=
    existsb (pre_mismatch st) tasks ||
    existsb (fun x => post_mismatch st (fst x, after_pre st x)) tasks.

  Lemma not_asg_asrt : forall d t, not_asg d t = negb (asrt d t).
  Proof. intros d t. unfold not_asg. rewrite assert_type_assignable. reflexivity. Qed.

  (* the pre phase, exactly *)
  Lemma pre_all_exact : forall st tasks,
    compiled_ok u st -> tasks_ok u st tasks ->
    pre_all asrt st tasks =
    if existsb (pre_mismatch st) tasks then inl RTypeErr
    else inr (map (fun x => (fst x, after_pre st x)) tasks).
  Proof.
    intros st tasks [I C]. pose proof (inv_nodes _ _ I) as NO.
    induction tasks as [|[k d] rest IH]; intros HT; [reflexivity|].
    destruct (HT (k, d) (or_introl eq_refl)) as [[t [It At]] Hn]. simpl in It, At, Hn.
    cbn [pre_all existsb map]. rewrite (IH (fun x Hx => HT x (or_intror Hx))).
    set (ex := existsb (pre_mismatch st) rest). set (mp := map (fun x => (fst x, after_pre st x)) rest).
    clearbody ex mp.
    unfold pre_res, pre_mismatch, after_pre. cbn [fst snd].
    unfold has_node in Hn. destruct (get_node st k) as [n|] eqn:G; [|discriminate].
    destruct (NO k n G) as [[Pp [Pl [Pr _]]] _].
    destruct (types_of_node st k n NO G) as [Ti _].
    unfold run_handler. destruct (n_pre n) as [t0|] eqn:Pn.
    - specialize (Pr t0 eq_refl). destruct (n_pass n) eqn:Ps; cbn [andb orb negb].
      + subst t0. rewrite assert_any. cbn [negb]. rewrite <- Ti, It. unfold hmis. rewrite not_asg_asrt.
        destruct (n_pre_ret n) as [r|].
        * destruct (asrt r t) eqn:A; cbn [negb orb]; [destruct ex; reflexivity | reflexivity].
        * rewrite At. cbn [negb orb]. destruct ex; reflexivity.
      + rewrite Ti, Pr in It. inversion It; subst t0. rewrite At. cbn [negb].
        destruct (n_pre_ret n) as [r|]; destruct ex; reflexivity.
    - rewrite andb_false_r. cbn [orb]. destruct ex; reflexivity.
  Qed.

  (* the post phase, exactly *)
  Lemma collect_exact : forall st t1,
    compiled_ok u st -> emit_ok u emit st -> hret_ok u st -> tasks_ok u st t1 ->
    match collect_outs t1 (map (fun t => post_res asrt st (fst t) (node_out asrt emit st t)) t1) with
    | inl o => o = RTypeErr /\ existsb (post_mismatch st) t1 = true
    | inr l => existsb (post_mismatch st) t1 = false
    end.
  Proof.
    intros st t1 [I C] EM HR. pose proof (inv_nodes _ _ I) as NO.
    induction t1 as [|[k d] rest IH]; intros HT; simpl; [reflexivity|].
    destruct (HT (k, d) (or_introl eq_refl)) as [[t [It At]] Hn]. simpl in It, At, Hn.
    specialize (IH (fun x Hx => HT x (or_intror Hx))).
    unfold post_res, node_out, post_mismatch. simpl.
    unfold has_node in Hn. destruct (get_node st k) as [n|] eqn:G; [|discriminate].
    destruct (NO k n G) as [[Pp [Pl [_ Po]]] _].
    destruct (types_of_node st k n NO G) as [Ti To].
    destruct (n_pass n) eqn:Ps; simpl.
    - (* passthrough: the value goes through *)
      assert (On : n_out n = Some t) by (rewrite <- (Pp eq_refl), <- Ti; exact It).
      unfold run_handler. destruct (n_post n) as [t0|] eqn:Pn.
      + specialize (Po t0 eq_refl). simpl in Po. subst t0. rewrite assert_any. simpl. rewrite On. unfold hmis. rewrite not_asg_asrt.
        destruct (asrt (match n_post_ret n with Some r => r | None => d end) t); simpl.
        * destruct (collect_outs rest _) as [o|l]; exact IH.
        * split; reflexivity.
      + destruct (collect_outs rest _) as [o|l]; exact IH.
    - destruct (Pl eq_refl) as [ti [to [Hi Ho]]]. rewrite Hi. rewrite Ti, Hi in It. inversion It; subst t. rewrite At.
      unfold run_handler. destruct (n_post n) as [t0|] eqn:Pn.
      + specialize (Po t0 eq_refl). simpl in Po. rewrite Po in Ho. inversion Ho; subst t0.
        assert (A : asrt (emit_of emit st k) to = true).
        { rewrite assert_type_assignable. apply (EM k n to G Ps). rewrite Po. reflexivity. }
        rewrite A. simpl. destruct (collect_outs rest _) as [o|l]; exact IH.
      + destruct (collect_outs rest _) as [o|l]; exact IH.
  Qed.

  Theorem exec_type_error_iff : forall st tasks,
    compiled_ok u st -> emit_ok u emit st -> hret_ok u st -> tasks_ok u st tasks ->
    (exec_all asrt emit st tasks = inl RTypeErr <-> exec_mismatch st tasks = true).
  Proof.
    intros st tasks CO EM HR HT. unfold exec_all, exec_mismatch.
    assert (F1 : forallb (fun t => has_node st (fst t)) tasks = true).
    { apply forallb_forall. intros x Hx. apply (HT x Hx). }
    rewrite F1; simpl. rewrite (pre_all_exact st tasks CO HT).
    pose proof (pre_all_safe u st tasks CO HR HT) as PS. rewrite (pre_all_exact st tasks CO HT) in PS.
    destruct (existsb (pre_mismatch st) tasks); simpl; [split; reflexivity|].
    set (t1 := map (fun x => (fst x, after_pre st x)) tasks) in *.
    destruct (collect_safe u emit st t1 CO EM HR PS) as [F _]. rewrite F. simpl.
    pose proof (collect_exact st t1 CO EM HR PS) as CE.
    assert (E : existsb (post_mismatch st) t1 = existsb (fun x => post_mismatch st (fst x, after_pre st x)) tasks).
    { unfold t1. clear. induction tasks as [|x r IH]; simpl; [reflexivity | rewrite IH; reflexivity]. }
    rewrite <- E. destruct (collect_outs t1 _) as [o|l].
    - destruct CE as [Eo M]. subst o. rewrite M. split; reflexivity.
    - rewrite CE. split; discriminate.
  Qed.

  (* ---- the whole run *)

  (* the completed-task lists [next] is applied to during a run, and the task lists of its supersteps *)
  Fixpoint loop_dones (st : gstate) (steps : nat) (tasks : list (key * dyn)) : list (list (key * dyn)) :=
    match steps with
    | O => []
    | S n =>
        match tasks with
        | [] => []
        | _ =>
            match exec_all asrt emit st tasks with
            | inl _ => []
            | inr done =>
                done :: match next u asrt st done with
                        | inl _ => []
                        | inr tasks' => loop_dones st n tasks'
                        end
            end
        end
    end.
  Fixpoint loop_tasks (st : gstate) (steps : nat) (tasks : list (key * dyn)) : list (list (key * dyn)) :=
    match steps with
    | O => []
    | S n =>
        match tasks with
        | [] => []
        | _ =>
            tasks :: match exec_all asrt emit st tasks with
                     | inl _ => []
                     | inr done =>
                         match next u asrt st done with
                         | inl _ => []
                         | inr tasks' => loop_tasks st n tasks'
                         end
                     end
        end
    end.
  Definition run_dones (st : gstate) (input : dyn) : list (list (key * dyn)) :=
    [(kSTART, input)] :: match next u asrt st [(kSTART, input)] with
                         | inl _ => []
                         | inr tasks => loop_dones st (max_steps st) tasks
                         end.
  Definition run_tasks (st : gstate) (input : dyn) : list (list (key * dyn)) :=
    match next u asrt st [(kSTART, input)] with
    | inl _ => []
    | inr tasks => loop_tasks st (max_steps st) tasks
    end.

  Definition mism (st : gstate) (ds ts : list (list (key * dyn))) : Prop :=
    (exists done, In done ds /\ step_mismatch st done = true) \/
    (exists tasks, In tasks ts /\ exec_mismatch st tasks = true).

  Lemma loop_type_error_iff : forall st steps tasks,
    compiled_ok u st -> inv2 st -> emit_ok u emit st -> hret_ok u st -> choices_valid st ->
    tasks_ok u st tasks ->
    (loop u asrt emit st steps tasks = RTypeErr <-> mism st (loop_dones st steps tasks) (loop_tasks st steps tasks)).
  Proof.
    intros st steps. induction steps as [|n IH]; intros tasks CO I2 EM HR V HT; simpl.
    - split; [discriminate | intros [[d [[] _]]|[d [[] _]]]].
    - destruct tasks as [|x rest] eqn:T.
      + split; [discriminate | intros [[d [[] _]]|[d [[] _]]]].
      + rewrite <- T in *.
        pose proof (exec_all_safe u emit st tasks CO EM HR HT) as ES.
        pose proof (exec_type_error_iff st tasks CO EM HR HT) as EI.
        destruct (exec_all asrt emit st tasks) as [o|done] eqn:EX.
        * subst o. split; [intros _; right; exists tasks; split; [left; reflexivity | apply EI; reflexivity] | reflexivity].
        * assert (NE : exec_mismatch st tasks = false).
          { destruct (exec_mismatch st tasks) eqn:Q; [|reflexivity]. destruct EI as [_ EI]. specialize (EI eq_refl). discriminate. }
          destruct (next_type_error_iff st done CO I2 ES) as [_ [_ N3]]. specialize (N3 V).
          pose proof (next_safe u st done CO ES) as NS.
          destruct (next u asrt st done) as [o|tasks'] eqn:NX.
          -- split.
             ++ intro L. subst o. left. exists done. split; [left; reflexivity | apply N3; reflexivity].
             ++ intros [[d0 [[Hd|[]] M]]|[t0 [[Ht|[]] M]]].
                ** subst d0. apply N3 in M. inversion M; reflexivity.
                ** subst t0. congruence.
          -- specialize (IH tasks' CO I2 EM HR V NS). split.
             ++ intro L. apply IH in L. destruct L as [[d0 [Hd M]]|[t0 [Ht M]]].
                ** left. exists d0. split; [right; exact Hd | exact M].
                ** right. exists t0. split; [right; exact Ht | exact M].
             ++ intros [[d0 [[Hd|Hd] M]]|[t0 [[Ht|Ht] M]]].
                ** subst d0. apply N3 in M. discriminate.
                ** apply IH. left. exists d0; auto.
                ** subst t0. congruence.
                ** apply IH. right. exists t0; auto.
  Qed.

  Theorem run_type_error_iff : forall st input,
    compiled_ok u st -> inv2 st -> emit_ok u emit st -> hret_ok u st -> choices_valid st ->
    has_type u input (g_in st) = true ->
    (run u asrt emit st input = RTypeErr <-> mism st (run_dones st input) (run_tasks st input)).
  Proof.
    intros st input CO I2 EM HR V HI. unfold run, run_dones, run_tasks.
    assert (D : forall x, In x [(kSTART, input)] -> done_ok u st x).
    { intros x [Hx|[]]. subst x. exists (g_in st). split; [reflexivity | exact HI]. }
    destruct (next_type_error_iff st _ CO I2 D) as [_ [_ N3]]. specialize (N3 V).
    pose proof (next_safe u st _ CO D) as NS.
    destruct (next u asrt st [(kSTART, input)]) as [o|tasks] eqn:NX.
    - split.
      + intro L. subst o. left. exists [(kSTART, input)]. split; [left; reflexivity | apply N3; reflexivity].
      + intros [[d0 [[Hd|[]] M]]|[t0 [[] _]]]. subst d0. apply N3 in M. inversion M; reflexivity.
    - pose proof (loop_type_error_iff st (max_steps st) tasks CO I2 EM HR V NS) as L1. split.
      + intro L. apply L1 in L. destruct L as [[d0 [Hd M]]|[t0 [Ht M]]].
        * left. exists d0. split; [right; exact Hd | exact M].
        * right. exists t0. split; [exact Ht | exact M].
      + intros [[d0 [[Hd|Hd] M]]|[t0 [Ht M]]].
        * subst d0. apply N3 in M. discriminate.
        * apply L1. left. exists d0; auto.
        * apply L1. right. exists t0; auto.
  Qed.
End May.
