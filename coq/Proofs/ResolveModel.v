(* Proofs/ResolveModel.v — property C01: the specification of runner.resolveCompletedTasks (Model/ResolveSpec.v, which
   Proofs/GenAgreeC01Resolve.v proves equal to the function regenerated from compose/graph_run.go on every run) against
   the engine model.  For the completed tasks of a superstep of an any-predecessor graph, each given as its node and
   its output:
     spec_resolve_is_resolve_all   resolveCompletedTasks = [resolve_all] of Model/Graph.v, the model's lists of
                                   writes (target, (sender, value)) and dependencies (target, sender) grouped into
                                   the two maps the Go function returns, by the very insertions the Go code performs
                                   ([wmap_of], [dmap_of]);
   hence: every successor — the nodes the branches selected and the plain successors, each once (uniqueKeys) —
   is written exactly the task's output (never the zero value an index beyond the copies would read: the copy
   counts and slice bounds of the Go code are right for EVERY number of successors, branches and selected nodes),
   and the control dependencies are the control successors and the selected nodes, under the task's key.
   Hypotheses, as definitions: copyItem v n is max(1, n) copies of v (compose/graph_run.go copyItem, value mode);
   calculateBranch is the specification of Model/CalcBranchSpec.v (tied by Proofs/GenAgreeCalcBranch.v) with the
   model's branch conditions; no field mappings (any-predecessor graphs and chains have none). *)
From Eino Require Import Base.Util Model.Graph Model.ImpGenLib Model.CalcBranchSpec Model.ResolveGenLib Model.ResolveSpec.
From Eino Require Import Proofs.PregelBase Proofs.CalcBranchModel.
From Coq Require Import Lia.

Lemma fold_left_ext3' : forall {A B} (f g : A -> B -> A) l a,
  (forall a b, f a b = g a b) -> fold_left f l a = fold_left g l a.
Proof. intros A B f g l; induction l as [|b l IH]; intros a H; simpl; [reflexivity|]. rewrite H. apply IH, H. Qed.

Lemma fold_left_map' : forall {A B C} (f : A -> B -> A) (g : C -> B) l a,
  fold_left f (map g l) a = fold_left (fun a x => f a (g x)) l a.
Proof. intros A B C f g l; induction l as [|x l IH]; intros a; simpl; [reflexivity|apply IH]. Qed.

(* ---------------------------------------------------------------- association lists with in-place update *)

Lemma am_set_same : forall {A} k (a b : A) m, am_set k a (am_set k b m) = am_set k a m.
Proof.
  intros A k a b m; induction m as [|[k' c] m IH]; simpl.
  - rewrite N.eqb_refl. reflexivity.
  - destruct (N.eqb k' k) eqn:E; simpl; [rewrite N.eqb_refl; reflexivity|]. rewrite E. f_equal. exact IH.
Qed.

Lemma am_get_set : forall {A} (d : A) k a m, am_get d k (am_set k a m) = a.
Proof.
  intros A d k a m; induction m as [|[k' c] m IH]; simpl.
  - rewrite N.eqb_refl. reflexivity.
  - destruct (N.eqb k' k) eqn:E; simpl; [rewrite N.eqb_refl; reflexivity|]. rewrite E. exact IH.
Qed.

Lemma am_has_set : forall {A} k (a : A) m, am_has k (am_set k a m) = true.
Proof.
  intros A k a m; induction m as [|[k' c] m IH]; simpl.
  - rewrite N.eqb_refl. reflexivity.
  - destruct (N.eqb k' k) eqn:E; simpl; [rewrite N.eqb_refl; reflexivity|]. rewrite E. exact IH.
Qed.

Lemma am_get_set_other : forall {A} (d : A) k k' a m, k <> k' -> am_get d k (am_set k' a m) = am_get d k m.
Proof.
  intros A d k k' a m Hn; induction m as [|[k2 c] m IH]; simpl.
  - destruct (N.eqb k' k) eqn:E; [apply N.eqb_eq in E; congruence|reflexivity].
  - destruct (N.eqb k2 k') eqn:E; simpl.
    + apply N.eqb_eq in E. subst k2. destruct (N.eqb k' k) eqn:E2; [apply N.eqb_eq in E2; congruence|reflexivity].
    + destruct (N.eqb k2 k); [reflexivity|exact IH].
Qed.

Lemma am_has_set_other : forall {A} k k' (a : A) m, k <> k' -> am_has k (am_set k' a m) = am_has k m.
Proof.
  intros A k k' a m Hn; induction m as [|[k2 c] m IH]; simpl.
  - destruct (N.eqb k' k) eqn:E; [apply N.eqb_eq in E; congruence|reflexivity].
  - destruct (N.eqb k2 k') eqn:E; simpl.
    + apply N.eqb_eq in E. subst k2. destruct (N.eqb k' k) eqn:E2; [apply N.eqb_eq in E2; congruence|reflexivity].
    + rewrite IH. reflexivity.
Qed.

Lemma am_set_id : forall {A} (d : A) k a m, am_has k m = true -> am_get d k m = a -> am_set k a m = m.
Proof.
  intros A d k a m; induction m as [|[k' c] m IH]; simpl; intros Hh Hg; [discriminate|].
  destruct (N.eqb k' k) eqn:E.
  - apply N.eqb_eq in E. subst. reflexivity.
  - f_equal. apply IH; assumption.
Qed.

(* ---------------------------------------------------------------- writing one value under several targets *)

Section Put.
  Variable V : Type.
  Variable d : V.
  Variables (s : key) (v : V).

  Definition put (t : key) (w : wmap V) : wmap V := wm_put t s v w.

  (* t holds the binding s |-> v *)
  Definition putted (t : key) (w : wmap V) : Prop :=
    am_has t w = true /\ am_has s (am_get [] t w) = true /\ am_get d s (am_get [] t w) = v.

  Lemma putted_put : forall t w, putted t (put t w).
  Proof.
    intros t w. unfold putted, put, wm_put, wm_set, wm_get, vm_set.
    rewrite am_has_set, am_get_set, am_has_set, am_get_set. auto.
  Qed.

  Lemma putted_put_other : forall t t' w, putted t w -> putted t (put t' w).
  Proof.
    intros t t' w H. destruct (N.eq_dec t t') as [->|Hn]; [apply putted_put|].
    destruct H as [H1 [H2 H3]]. unfold putted, put, wm_put, wm_set, wm_get, vm_set.
    rewrite am_has_set_other, am_get_set_other by exact Hn. auto.
  Qed.

  Lemma put_id : forall t w, putted t w -> put t w = w.
  Proof.
    intros t w [H1 [H2 H3]]. unfold put, wm_put, wm_set, wm_get, vm_set.
    rewrite (am_set_id d s v _ H2 H3). apply (am_set_id [] t _ w H1). reflexivity.
  Qed.

  Lemma putted_fold : forall l t w, putted t w -> putted t (fold_left (fun w t' => put t' w) l w).
  Proof. intros l; induction l as [|a l IH]; intros t w H; simpl; [exact H|]. apply IH, putted_put_other, H. Qed.

  Lemma putted_fold_in : forall l t w, In t l -> putted t (fold_left (fun w t' => put t' w) l w).
  Proof.
    intros l; induction l as [|a l IH]; intros t w H; simpl; [destruct H|].
    destruct H as [->|H]; [apply putted_fold, putted_put|apply IH, H].
  Qed.

  (* the targets made unique (first occurrences) are written like the targets with their repetitions *)
  Lemma put_unique : forall l ret w,
    fold_left (fun w t => put t w) (fold_left (fun ret k => if memb k ret then ret else ret ++ [k]) l ret) w
    = fold_left (fun w t => put t w) l (fold_left (fun w t => put t w) ret w).
  Proof.
    intros l; induction l as [|k l IH]; intros ret w; simpl; [reflexivity|].
    rewrite IH. f_equal. destruct (memb k ret) eqn:E.
    - symmetry. apply put_id, putted_fold_in, memb_in, E.
    - rewrite fold_left_app. reflexivity.
  Qed.

  Lemma put_unique_keys : forall l w,
    fold_left (fun w t => put t w) (unique_keys l) w = fold_left (fun w t => put t w) l w.
  Proof. intros l w. unfold unique_keys. rewrite put_unique. reflexivity. Qed.
End Put.

(* ---------------------------------------------------------------- lists of copies *)

Lemma firstn_repeat_le : forall {A} (x : A) n m, (n <= m)%nat -> firstn n (repeat x m) = repeat x n.
Proof.
  intros A x n; induction n as [|n IH]; intros m H; simpl; [reflexivity|].
  destruct m as [|m]; [lia|]. simpl. f_equal. apply IH. lia.
Qed.

Lemma skipn_repeat : forall {A} (x : A) n m, skipn n (repeat x m) = repeat x (m - n).
Proof.
  intros A x n; induction n as [|n IH]; intros m; simpl; [rewrite Nat.sub_0_r; reflexivity|].
  destruct m as [|m]; simpl; [reflexivity|apply IH].
Qed.

Lemma repeat_app_len : forall {A} (x : A) n m, repeat x n ++ repeat x m = repeat x (n + m).
Proof. intros A x n m. symmetry. apply repeat_app. Qed.

(* a loop over the indexed receivers that reads copy i for receiver i, when there are enough copies *)
Lemma fold_indexed_const : forall {A W} (f : W -> key -> A -> W) (d x : A) (keys : list key) m (w : W),
  (List.length keys <= m)%nat ->
  fold_left (fun w ik => f w (snd ik) (l_get d (fst ik) (repeat x m))) (indexed keys) w
  = fold_left (fun w k => f w k x) keys w.
Proof.
  intros A W f d x keys m. unfold indexed.
  assert (G : forall (l : list key) j w, (j + List.length l <= m)%nat ->
     fold_left (fun w ik => f w (snd ik) (l_get d (fst ik) (repeat x m))) (combine (seq j (List.length l)) l) w
     = fold_left (fun w k => f w k x) l w).
  { intros l; induction l as [|k l IH]; intros j w H; simpl; [reflexivity|].
    simpl in H. rewrite l_get_repeat by lia. apply IH. lia. }
  intros w H. apply G. lia.
Qed.

Local Arguments Nat.max : simpl never.

Section Model.
  Variable V : Type.
  Variable ops : vops V.

  (* the instance: a completed task is its node and its output; the value operations of the engine model *)
  Definition tk (t : node * V) : key := n_key (fst t).
  Definition copies (v : V) (n : nat) : list V := repeat v (Nat.max 1 n).
  Definition branch_code (ec : nat -> N) (g : graph) (cs : chans V) (k : key) (n : node) (vs : list V) (isStream : bool)
    : res (list key * chans V) :=
    calculate_branch V branch (chans V) (v_zero ops) ec b_ends (no_pre_handler V) (model_invoke V ops) (model_invoke V ops)
      (fun cs k sk => report_branch V g k sk cs) k (n_branches n) (n_csucc n) vs isStream cs.

  Definition spec_on_nodes (ec : nat -> N) (g : graph) (tasks : list (node * V)) (isStream : bool) (cs : chans V) :=
    resolve_completed_tasks V (node * V) node (chans V) (v_zero ops) tk snd fst (fun t => n_csucc (fst t))
      (fun t => n_dsucc (fst t)) (fun t => List.length (n_branches (fst t))) copies (branch_code ec g) tasks isStream cs.

  (* the model's lists, grouped by target with the insertions of the Go code *)
  Definition wmap_into (ws : writes_t V) (w : wmap V) : wmap V :=
    fold_left (fun w x => wm_put (fst x) (fst (snd x)) (snd (snd x)) w) ws w.
  Definition dmap_into (ds : deps_t) (nd : dmap) : dmap :=
    fold_left (fun nd x => dm_app (fst x) (snd x) nd) ds nd.
  Definition wmap_of (ws : writes_t V) : wmap V := wmap_into ws wm_empty.
  Definition dmap_of (ds : deps_t) : dmap := dmap_into ds dm_empty.

  (* [resolve_all] on tasks given by their nodes *)
  Fixpoint resolve_nodes (g : graph) (tasks : list (node * V)) (cs : chans V) : res (chans V * writes_t V * deps_t) :=
    match tasks with
    | [] => Ok (cs, [], [])
    | (n, out) :: rest =>
      do r1 <- resolve_one V ops g n out cs;
      let '(cs1, w1, d1) := r1 in
      do r2 <- resolve_nodes g rest cs1;
      let '(cs2, w2, d2) := r2 in
      Ok (cs2, w1 ++ w2, d1 ++ d2)
    end.

  Lemma resolve_all_nodes : forall g tasks cs,
    (forall t, In t tasks -> find_node g (n_key (fst t)) = Some (fst t)) ->
    resolve_all V ops g (map (fun t => (n_key (fst t), snd t)) tasks) cs = resolve_nodes g tasks cs.
  Proof.
    intros g tasks; induction tasks as [|[n out] tasks IH]; intros cs H; simpl; [reflexivity|].
    pose proof (H (n, out) (or_introl eq_refl)) as Hf. simpl in Hf. rewrite Hf.
    destruct (resolve_one V ops g n out cs) as [[[cs1 w1] d1]| |]; simpl; try reflexivity.
    rewrite IH by (intros t Ht; apply H; right; exact Ht). reflexivity.
  Qed.

  (* calculateBranch on at least as many copies as there are branches *)
  Lemma branch_code_copies : forall ec g n out N isStream cs,
    g_mode g = Pregel -> (List.length (n_branches n) <= N)%nat ->
    branch_code ec g cs (n_key n) n (repeat out N) isStream
    = do ss <- eval_branches V ops n out; Ok (fst ss, cs).
  Proof.
    intros ec g n out N isStream cs Hm HN. unfold branch_code, calculate_branch.
    rewrite repeat_length.
    destruct (Nat.ltb N (List.length (n_branches n))) eqn:E; [apply Nat.ltb_lt in E; lia|].
    unfold indexed. rewrite (branch_loop V ops isStream (n_key n) out N (n_branches n) 0 [] []) by lia.
    rewrite eval_branches_unfold. unfold report_branch. rewrite Hm.
    destruct (all_legal V ops (n_branches n) out); reflexivity.
  Qed.

  (* one completed task *)
  Lemma task_step_is_resolve_one : forall ec g n out isStream cs w nd,
    g_mode g = Pregel -> n_dmap n = [] ->
    task_step V (node * V) node (chans V) (v_zero ops) tk snd fst (fun t => n_csucc (fst t))
      (fun t => n_dsucc (fst t)) (fun t => List.length (n_branches (fst t))) copies (branch_code ec g) isStream
      (cs, w, nd) (n, out)
    = do r <- resolve_one V ops g n out cs;
      let '(cs1, ws, ds) := r in
      Ok (cs1, wmap_into ws w, dmap_into ds nd).
  Proof.
    intros ec g n out isStream cs w nd Hm Hd. unfold task_step, tk. simpl fst; simpl snd. cbv zeta.
    set (nw := List.length (n_dsucc n)). set (nb := List.length (n_branches n)).
    unfold l_from. unfold copies. cbv beta. rewrite skipn_repeat.
    rewrite (branch_code_copies ec g n out _ isStream cs Hm) by (unfold nb; lia).
    unfold resolve_one. destruct (eval_branches V ops n out) as [[sel sk]| |]; simpl; try reflexivity.
    unfold report_branch. rewrite Hm. simpl.
    f_equal. f_equal; [f_equal|].
    - (* the writes *)
      unfold wmap_into. rewrite repeat_length. unfold l_upto.
      assert (Hk : exists m, (List.length (unique_keys (sel ++ n_dsucc n)) <= m)%nat /\
                 resized V (v_zero ops) (fun v n0 => repeat v (Nat.max 1 n0)) (firstn (Nat.max 1 (nw + nb * 2) - nb) (repeat out (Nat.max 1 (nw + nb * 2))))
                         (List.length (unique_keys (sel ++ n_dsucc n))) = repeat out m).
      { set (nk := List.length (unique_keys (sel ++ n_dsucc n))).
        rewrite firstn_repeat_le by lia. set (m1 := (Nat.max 1 (nw + nb * 2) - nb)%nat).
        assert (H1 : (1 <= m1)%nat) by (unfold m1; lia).
        unfold resized. rewrite repeat_length. destruct (Nat.ltb 0 (nk - m1)) eqn:E.
        - apply Nat.ltb_lt in E. exists nk. split; [lia|].
          unfold l_upto. rewrite firstn_repeat_le by lia. rewrite l_get_repeat by lia.
          rewrite repeat_app_len. f_equal. lia.
        - apply Nat.ltb_ge in E. exists m1. split; [lia|reflexivity]. }
      destruct Hk as [m [Hle Hr]]. rewrite Hr.
      rewrite (fold_indexed_const (fun w k x => wm_put k (n_key n) x w) (v_zero ops) out _ m w Hle).
      rewrite (put_unique_keys V (v_zero ops) (n_key n) out).
      rewrite fold_left_map'. apply fold_left_ext3'. intros w0 t. simpl.
      unfold put, edge_value. rewrite Hd. reflexivity.
    - (* the dependencies *)
      unfold dmap_into. rewrite map_app, fold_left_app, !fold_left_map'. reflexivity.
  Qed.

  Lemma wmap_into_app : forall ws1 ws2 w, wmap_into (ws1 ++ ws2) w = wmap_into ws2 (wmap_into ws1 w).
  Proof. intros. unfold wmap_into. apply fold_left_app. Qed.
  Lemma dmap_into_app : forall ds1 ds2 nd, dmap_into (ds1 ++ ds2) nd = dmap_into ds2 (dmap_into ds1 nd).
  Proof. intros. unfold dmap_into. apply fold_left_app. Qed.

  (* all the completed tasks of a superstep, from any accumulated maps *)
  Lemma tasks_loop : forall ec g tasks isStream cs w nd,
    g_mode g = Pregel -> (forall t, In t tasks -> n_dmap (fst t) = []) ->
    fold_res (task_step V (node * V) node (chans V) (v_zero ops) tk snd fst (fun t => n_csucc (fst t))
                (fun t => n_dsucc (fst t)) (fun t => List.length (n_branches (fst t))) copies (branch_code ec g) isStream)
             tasks (cs, w, nd)
    = do r <- resolve_nodes g tasks cs;
      let '(cs', ws, ds) := r in
      Ok (cs', wmap_into ws w, dmap_into ds nd).
  Proof.
    intros ec g tasks isStream; induction tasks as [|[n out] tasks IH]; intros cs w nd Hm Hd; [reflexivity|].
    rewrite fold_res_cons. rewrite task_step_is_resolve_one by (try exact Hm; apply (Hd (n, out)); left; reflexivity).
    simpl resolve_nodes.
    destruct (resolve_one V ops g n out cs) as [[[cs1 w1] d1]| |]; simpl; try reflexivity.
    rewrite IH by (try exact Hm; intros t Ht; apply Hd; right; exact Ht).
    destruct (resolve_nodes g tasks cs1) as [[[cs2 w2] d2]| |]; simpl; try reflexivity.
    rewrite wmap_into_app, dmap_into_app. reflexivity.
  Qed.

  (* runner.resolveCompletedTasks, as specified, IS the model's resolve_all: same failure, same channels, and the two
     maps it returns are the model's writes and dependencies grouped by target *)
  Theorem spec_resolve_is_resolve_nodes : forall ec g tasks isStream cs,
    g_mode g = Pregel -> (forall t, In t tasks -> n_dmap (fst t) = []) ->
    spec_on_nodes ec g tasks isStream cs
    = do r <- resolve_nodes g tasks cs;
      let '(cs', ws, ds) := r in
      Ok (wmap_of ws, dmap_of ds, cs').
  Proof.
    intros ec g tasks isStream cs Hm Hd. unfold spec_on_nodes, resolve_completed_tasks.
    rewrite tasks_loop by assumption.
    destruct (resolve_nodes g tasks cs) as [[[cs' ws] ds]| |]; reflexivity.
  Qed.

  Theorem spec_resolve_is_resolve_all : forall ec g tasks isStream cs,
    g_mode g = Pregel ->
    (forall t, In t tasks -> n_dmap (fst t) = [] /\ find_node g (n_key (fst t)) = Some (fst t)) ->
    spec_on_nodes ec g tasks isStream cs
    = do r <- resolve_all V ops g (map (fun t => (n_key (fst t), snd t)) tasks) cs;
      let '(cs', ws, ds) := r in
      Ok (wmap_of ws, dmap_of ds, cs').
  Proof.
    intros ec g tasks isStream cs Hm H.
    rewrite resolve_all_nodes by (intros t Ht; apply (H t Ht)).
    apply spec_resolve_is_resolve_nodes; [exact Hm|intros t Ht; apply (H t Ht)].
  Qed.

End Model.
